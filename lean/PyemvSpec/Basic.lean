import PyemvModel
/-!
# Spec layer: the properties' own words

Single DES and two-key Triple DES on 8-byte blocks, ISO 9797-1 padding and MAC Algorithm 3.
Small definitions, never run against the code; they are only the right-hand sides of theorems.
-/
namespace Pyemv.Spec
open Pyemv

/-- single-DES encryption of one block under an 8-byte key -/
def desE (k b : Bytes) : Bytes := toBE 8 (Des.enc (fromBE k) (fromBE b))
/-- single-DES decryption -/
def desD (k b : Bytes) : Bytes := toBE 8 (Des.dec (fromBE k) (fromBE b))

/-- two-key Triple DES (EDE) of one block under `K = K_L ‖ K_R` -/
def tdesE (K b : Bytes) : Bytes := desE (K.take 8) (desD (K.drop 8) (desE (K.take 8) b))
def tdesD (K b : Bytes) : Bytes := desD (K.take 8) (desE (K.drop 8) (desD (K.take 8) b))

/-- number of zero bytes padding method 1 adds to `len` bytes -/
def fill1 (bs len : Nat) : Nat := if len % bs > 0 then bs - len % bs else if len = 0 then bs else 0

/-- ISO 9797-1 method 1: the data followed by the fewest zero bytes that make the length a positive
multiple of the block size (`pad1_contract` proves that `fill1` is that number) -/
def pad1 (bs : Nat) (d : Bytes) : Bytes := d ++ zeros (fill1 bs d.length)

/-- ISO 9797-1 method 2: the data, one 0x80 byte, then the fewest zero bytes to a multiple -/
def pad2 (bs : Nat) (d : Bytes) : Bytes := d ++ [0x80] ++ zeros (fill1 bs (d.length + 1))

/-- strip trailing zero bytes, then the mandatory 0x80 -/
def unpad2 (f : Bytes) : Option Bytes :=
  match f.reverse.dropWhile (· == 0) with
  | 0x80 :: rest => some rest.reverse
  | _ => none

/-- CBC-MAC chain: `H₀ = 0`, `Hᵢ = E (Hᵢ₋₁ ⊕ Bᵢ)` -/
def cbcMac (E : Bytes → Bytes) (blocks : List Bytes) : Bytes :=
  blocks.foldl (fun h b => E (xorB h b)) (zeros 8)

/-- ISO/IEC 9797-1 MAC Algorithm 3 over already padded data: single-DES CBC from a zero IV under the
left key half, then decrypt with the right half and encrypt with the left half -/
def alg3 (KL KR padded : Bytes) : Bytes := desE KL (desD KR (cbcMac (desE KL) (blocks8 padded)))

/-- the padding a `PaddingType` selects -/
def padFor (pt : PaddingType) (d : Bytes) : Bytes :=
  match pt with | .visa => pad1 8 d | _ => pad2 8 d

end Pyemv.Spec
