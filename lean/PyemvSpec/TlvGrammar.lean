import PyemvModel.Tlv
/-!
# Spec layer: BER-TLV (EMV Book 3 Annex B) as a structural grammar over sub-lists

`parseItems` reads a region of bytes into a concrete syntax tree (`Item`): a tag (first byte; if its
low five bits are set, continue while the top bit is set), a length (short / `0x80+n` then `n`
big-endian bytes / one byte in simple mode), exactly that many value bytes or failure, and recursion
*into exactly those bytes* when bit 6 is set.  `absNested` / `absFlat` fold a CST into a dict with
last-wins assignment.  Never run against the code: only the right-hand side of the refinement theorems.
-/
namespace Pyemv.TlvSpec
open Pyemv Pyemv.Tlv

inductive Item where
  | prim (tag lenb v : Bytes)
  | cons (tag lenb : Bytes) (kids : List Item)

structure GErr where
  kind : Kind
  ofs : Nat
  tagRegion : Bytes

/-- continuation scan over a list: `(some n, _)` tag has `n` bytes, `(none, k)` the list ended after `k`. -/
def scanList : Bytes → Nat → Option Nat × Nat
  | [], n => (none, n)
  | b :: rest, n => if b &&& 0x80 != 0 then scanList rest (n+1) else (some (n+1), n+1)

def tagLen : Bytes → Option Nat
  | [] => none
  | b0 :: rest => if b0 &&& 0x1F == 0x1F then (scanList rest 1).1 else some 1

structure Hd where
  tag : Bytes
  lenb : Bytes
  ln : Nat
  h : Nat      -- header size: the value is `(r.drop h).take ln`

/-- length field and value containment; `q` = the region after the `n`-byte tag, located at `o1`. -/
def lenPart (simple : Bool) (o1 n : Nat) (tag : Bytes) : Bytes → Except GErr Hd
  | [] => .error ⟨.len 1, o1, tag⟩
  | lb :: rest =>
    if lb &&& 0x80 != 0 && !simple then
      let ll := (lb &&& 0x7F).toNat
      if ll > rest.length then .error ⟨.len ll, o1 + 1, tag⟩ else
      let ln := fromBE (rest.take ll)
      if ln > rest.length - ll then .error ⟨.val ln, o1 + 1 + ll, tag⟩ else
      .ok ⟨tag, lb :: rest.take ll, ln, n + 1 + ll⟩
    else
      if lb.toNat > rest.length then .error ⟨.val lb.toNat, o1 + 1, tag⟩ else
      .ok ⟨tag, [lb], lb.toNat, n + 1⟩

/-- header of the object at the head of a non-empty region `r` located at absolute offset `base`. -/
def header (simple : Bool) (base : Nat) (r : Bytes) : Except GErr Hd :=
  match tagLen r with
  | none => .error ⟨.tag, base, r⟩
  | some n => lenPart simple (base + n) n (r.take n) (r.drop n)

theorem scanList_some {r : Bytes} {n m k : Nat} (h : scanList r n = (some m, k)) : n + 1 ≤ m ∧ m ≤ n + r.length := by
  induction r generalizing n with
  | nil => simp [scanList] at h
  | cons b rest ih =>
    unfold scanList at h
    split at h
    · have := ih h; simp; omega
    · simp at h; simp; omega

theorem tagLen_some {r : Bytes} {n : Nat} (h : tagLen r = some n) : 1 ≤ n ∧ n ≤ r.length := by
  unfold tagLen at h
  split at h
  · simp at h
  · split at h
    · rename_i b0 rest _
      cases hs : scanList rest 1 with
      | mk a k =>
        rw [hs] at h; simp at h; subst h
        have := scanList_some hs; simp; omega
    · simp at h; subst h; simp

theorem lenPart_ok {simple o1 n tag q hd} (h : lenPart simple o1 n tag q = .ok hd) :
    n + 1 ≤ hd.h ∧ hd.h + hd.ln ≤ n + q.length := by
  unfold lenPart at h
  split at h
  · simp at h
  · simp only [List.length_cons]
    grind

theorem header_ok {simple base r hd} (h : header simple base r = .ok hd) :
    2 ≤ hd.h ∧ hd.h + hd.ln ≤ r.length := by
  unfold header at h
  split at h
  · simp at h
  · rename_i n hn
    have ⟨h1, h2⟩ := tagLen_some hn
    have := lenPart_ok h
    simp only [List.length_drop] at this
    omega

def parseItems (simple : Bool) (base : Nat) (r : Bytes) : Except (GErr × List Item) (List Item) :=
  if hr : r = [] then .ok [] else
  match hh : header simple base r with
  | .error e => .error (e, [])
  | .ok hd =>
    let val := (r.drop hd.h).take hd.ln
    let rest := r.drop (hd.h + hd.ln)
    if (r.headD 0) &&& 0x20 != 0 then
      match parseItems simple (base + hd.h) val with
      | .error (e, part) => .error (e, [Item.cons hd.tag hd.lenb part])
      | .ok kids =>
        match parseItems simple (base + hd.h + hd.ln) rest with
        | .error (e, part) => .error (e, Item.cons hd.tag hd.lenb kids :: part)
        | .ok more => .ok (Item.cons hd.tag hd.lenb kids :: more)
    else
      match parseItems simple (base + hd.h + hd.ln) rest with
      | .error (e, part) => .error (e, Item.prim hd.tag hd.lenb val :: part)
      | .ok more => .ok (Item.prim hd.tag hd.lenb val :: more)
termination_by r.length
decreasing_by
  all_goals have := header_ok hh
  all_goals simp only [List.length_take, List.length_drop]
  all_goals omega

def absNested (dec : Dict) : List Item → Dict
  | [] => dec
  | .prim t _ v :: more => absNested (dec.set t (.prim v)) more
  | .cons t _ kids :: more => absNested (dec.set t (.cons (absNested [] kids))) more

def absFlat (dec : Dict) : List Item → Dict
  | [] => dec
  | .prim t _ v :: more => absFlat (dec.set t (.prim v)) more
  | .cons _ _ kids :: more => absFlat (absFlat dec kids) more

def absInto (flatten : Bool) (dec : Dict) (items : List Item) : Dict :=
  if flatten then absFlat dec items else absNested dec items

end Pyemv.TlvSpec
