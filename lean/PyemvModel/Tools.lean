import PyemvModel.Py
import PyemvModel.Des
/-!
# pyemv/tools.py — code-shaped model

`xor` goes through little-endian big integers exactly as the Python does on this host;
`odd_parity` is the 16/8/4 fold with the `0x6996` nibble table; the Triple-DES helpers model
`cryptography`'s `TripleDES` keying (8/16/24 bytes), the IV length check of `modes.CBC`, and
`encryptor.update`, which processes whole 8-byte blocks and silently keeps a trailing partial block.
-/
namespace Pyemv

/-- tools.py 37-41 -/
def xor (data key : Bytes) : Bytes :=
  toLE data.length (fromLE data ^^^ fromLE (key.take data.length))

/-- `tools.xor` as a host whose `sys.byteorder` is `"big"` evaluates it (tools.py 37-41 with the other byte order) -/
def xorBigEndian (data key : Bytes) : Bytes :=
  toBE data.length (fromBE data ^^^ fromBE (key.take data.length))

/-- tools.py 61-65 -/
def oddParity (v : Nat) : Nat :=
  let v := v ^^^ (v >>> 16)
  let v := v ^^^ (v >>> 8)
  let v := v ^^^ (v >>> 4)
  let v := v &&& 0xF
  (0x6996 >>> v) &&& 1

/-- tools.py 88-94: on a copy, flip bit 0 of every byte of even parity -/
def adjustKeyParity (key : Bytes) : Bytes :=
  key.map fun b => if oddParity b.toNat = 0 then b ^^^ 1 else b

/-! ## the `cryptography` Triple-DES context -/

/-- three single-DES key schedules -/
structure Ks where
  s1 : List Nat
  s2 : List Nat
  s3 : List Nat

/-- `algorithms.TripleDES(key)`: 8 bytes → k,k,k; 16 → k1,k2,k1; 24 → k1,k2,k3; else ValueError -/
def tdesKeys (key : Bytes) : R Ks :=
  if key.length = 8 then let k := Des.subkeys (fromBE key); .ok ⟨k, k, k⟩
  else if key.length = 16 then
    let k1 := Des.subkeys (fromBE (key.take 8)); .ok ⟨k1, Des.subkeys (fromBE (key.drop 8)), k1⟩
  else if key.length = 24 then
    .ok ⟨Des.subkeys (fromBE (key.take 8)), Des.subkeys (fromBE ((key.drop 8).take 8)),
         Des.subkeys (fromBE (key.drop 16))⟩
  else .error .valueError

def encBlockN (ks : Ks) (x : Nat) : Nat := Des.crypt ks.s3 (Des.crypt ks.s2.reverse (Des.crypt ks.s1 x))
def decBlockN (ks : Ks) (x : Nat) : Nat := Des.crypt ks.s1.reverse (Des.crypt ks.s2 (Des.crypt ks.s3.reverse x))
/-- EDE encryption of one 8-byte block -/
def encBlock (ks : Ks) (b : Bytes) : Bytes := toBE 8 (encBlockN ks (fromBE b))
/-- DED decryption of one 8-byte block -/
def decBlock (ks : Ks) (b : Bytes) : Bytes := toBE 8 (decBlockN ks (fromBE b))

/-- byte-wise exclusive-or as the cipher modes apply it internally -/
def xorB (a b : Bytes) : Bytes := List.zipWith (· ^^^ ·) a b

/-- the whole 8-byte blocks of a byte string; a trailing partial block is not returned -/
def blocks8 (data : Bytes) : List Bytes :=
  if h : data.length < 8 then [] else data.take 8 :: blocks8 (data.drop 8)
termination_by data.length
decreasing_by simp only [List.length_drop]; omega

/-- ECB `update` -/
def ecbUpdate (f : Bytes → Bytes) (data : Bytes) : Bytes := ((blocks8 data).map f).flatten

/-- CBC encryptor `update` over whole blocks: output blocks and the new chaining value -/
def cbcEncBlocks (f : Bytes → Bytes) : Bytes → List Bytes → List Bytes × Bytes
  | iv, [] => ([], iv)
  | iv, b :: rest =>
    let c := f (xorB b iv)
    let r := cbcEncBlocks f c rest
    (c :: r.1, r.2)

/-- CBC decryptor `update` over whole blocks -/
def cbcDecBlocks (g : Bytes → Bytes) : Bytes → List Bytes → List Bytes × Bytes
  | iv, [] => ([], iv)
  | iv, c :: rest =>
    let r := cbcDecBlocks g c rest
    (xorB (g c) iv :: r.1, r.2)

/-- `(output, chaining value)` of a CBC encryptor whose chaining value is `iv` -/
def cbcEncUpdate (f : Bytes → Bytes) (iv data : Bytes) : Bytes × Bytes :=
  let r := cbcEncBlocks f iv (blocks8 data); (r.1.flatten, r.2)

def cbcDecUpdate (g : Bytes → Bytes) (iv data : Bytes) : Bytes × Bytes :=
  let r := cbcDecBlocks g iv (blocks8 data); (r.1.flatten, r.2)

/-- tools.py 119-123 -/
def keyCheckDigits (key : Bytes) (length : Nat) : R Bytes := do
  let ks ← tdesKeys key
  pure ((ecbUpdate (encBlock ks) (zeros 8)).take length)

/-- tools.py 151-156; `modes.CBC(iv)` requires an 8-byte IV -/
def encryptTdesCbc (key iv data : Bytes) : R Bytes := do
  let ks ← tdesKeys key
  if iv.length ≠ 8 then throw .valueError
  pure (cbcEncUpdate (encBlock ks) iv data).1

/-- tools.py 181-184 -/
def encryptTdesEcb (key data : Bytes) : R Bytes := do
  let ks ← tdesKeys key
  pure (ecbUpdate (encBlock ks) data)

end Pyemv
