import PyemvModel.Mac
/-! # pyemv/ac.py — code-shaped model -/
namespace Pyemv

/-- `PaddingType`; `other` stands for any object that is not a member of the enum -/
inductive PaddingType where | visa | emv | other
deriving Repr, BEq, DecidableEq

def PaddingType.value : PaddingType → Int | .visa => 1 | .emv => 2 | .other => 0

/-- ac.py 153-165 -/
def generateAc (sk data : Bytes) (pt : Option PaddingType) (length : Option Nat) : R Bytes := do
  if sk.length ≠ 16 then throw .valueError
  let pt := pt.getD .emv
  match pt with
  | .other => throw .typeError
  | _ => mac3 (sk.take 8) (lastN 8 sk) data pt.value length

/-- ac.py 221-232 -/
def generateArpc1 (sk arqc rc : Bytes) : R Bytes := do
  if sk.length ≠ 16 then throw .valueError
  if arqc.length ≠ 8 then throw .valueError
  if rc.length ≠ 2 then throw .valueError
  encryptTdesCbc sk (zeros 8) (xor (rc ++ zeros 6) arqc)

/-- ac.py 298-313 -/
def generateArpc2 (sk arqc csu : Bytes) (pad : Option Bytes) : R Bytes := do
  if sk.length ≠ 16 then throw .valueError
  let pad := pad.getD []
  if arqc.length ≠ 8 then throw .valueError
  if csu.length ≠ 4 then throw .valueError
  if pad.length > 8 then throw .valueError
  mac3 (sk.take 8) (lastN 8 sk) (arqc ++ csu ++ pad) 2 (some 4)

end Pyemv
