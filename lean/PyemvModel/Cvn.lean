import PyemvModel.Ac
import PyemvModel.Kd
import PyemvModel.Sm
/-!
# pyemv/cvn.py — the eight cryptogram-version classes as one profile table

`cvn.py` is eight near-identical copies; each class is modelled as a row of `profile` read by generic
functions.  The row entries are copied from the class docstrings (master-key option, AC session key,
padding, ARPC method and key, secure-messaging key, MAC input, encipherment scheme, PIN block rule,
command header).
-/
namespace Pyemv.Cvn
open Pyemv

inductive MkOpt | a | b deriving Repr, DecidableEq
/-- AC / ARPC session key rule -/
inductive AcSk | none | commonAtc | mcAtcUn deriving Repr, DecidableEq
/-- secure messaging session key rule -/
inductive SmSk | visaAtc | commonArqc deriving Repr, DecidableEq
inductive PinRule | visOnly | iso2OrVis | iso2Only deriving Repr, DecidableEq
inductive Hdr | visa | mc deriving Repr, DecidableEq

structure Profile where
  mkOpt : MkOpt
  acSk : AcSk
  acPad : PaddingType
  hasCounters : Bool        -- an extra trailing `counters` field in the AC data
  arpcMethod : Nat          -- 1 or 2
  arpcSk : AcSk
  smSk : SmSk
  macTxn : Bool             -- MAC input includes ATC ‖ ARQC after the header
  enc : EncryptionType
  pin : PinRule
  hdr : Hdr

def profile : String → Option Profile
  | "VisaCVN10"       => some ⟨.a, .none,      .visa, false, 1, .none,      .visaAtc,    true,  .visa,       .visOnly,   .visa⟩
  | "VisaCVN18"       => some ⟨.b, .commonAtc, .emv,  false, 2, .commonAtc, .visaAtc,    true,  .visa,       .visOnly,   .visa⟩
  | "VisaCVN22"       => some ⟨.b, .commonAtc, .emv,  false, 2, .commonAtc, .commonArqc, true,  .visa,       .iso2OrVis, .visa⟩
  | "InteracCVN133"   => some ⟨.a, .mcAtcUn,   .emv,  false, 1, .mcAtcUn,   .commonArqc, false, .mastercard, .iso2Only,  .mc⟩
  | "MasterCardCVN16" => some ⟨.a, .mcAtcUn,   .emv,  false, 1, .none,      .commonArqc, true,  .mastercard, .iso2Only,  .mc⟩
  | "MasterCardCVN17" => some ⟨.a, .mcAtcUn,   .emv,  true,  1, .none,      .commonArqc, true,  .mastercard, .iso2Only,  .mc⟩
  | "MasterCardCVN20" => some ⟨.a, .commonAtc, .emv,  false, 1, .commonAtc, .commonArqc, true,  .mastercard, .iso2Only,  .mc⟩
  | "MasterCardCVN21" => some ⟨.a, .commonAtc, .emv,  true,  1, .commonAtc, .commonArqc, true,  .mastercard, .iso2Only,  .mc⟩
  | _ => none

def classNames : List String :=
  ["VisaCVN10", "VisaCVN18", "VisaCVN22", "InteracCVN133", "MasterCardCVN16", "MasterCardCVN17",
   "MasterCardCVN20", "MasterCardCVN21"]

/-- the object state: three ICC master keys fixed at construction -/
structure Card where
  ac : Bytes
  smi : Bytes
  smc : Bytes
deriving Repr, BEq

/-- `psn = psn or "00"` -/
def psnOr00 (psn : Option StrOrBytes) : StrOrBytes :=
  if StrOrBytes.truthy psn then psn.getD (.str ['0', '0']) else .str ['0', '0']

/-- `__init__` -/
def new (p : Profile) (issAc issSmi issSmc : Bytes) (pan : StrOrBytes) (psn : Option StrOrBytes) : R Card := do
  let psn := psnOr00 psn
  let der := match p.mkOpt with | .a => deriveIccMkA | .b => deriveIccMkB
  let a ← der issAc pan (some psn)
  let i ← der issSmi pan (some psn)
  let c ← der issSmc pan (some psn)
  pure ⟨a, i, c⟩

def skFor (rule : AcSk) (card : Card) (atc un : Bytes) : R Bytes :=
  match rule with
  | .none => pure card.ac
  | .commonAtc => deriveCommonSk card.ac (atc ++ zeros 6)
  | .mcAtcUn => deriveCommonSk card.ac (atc ++ zeros 2 ++ un)

/-- the positional arguments of `generate_ac` -/
structure AcArgs where
  t9f02 : Bytes
  t9f03 : Bytes
  t9f1a : Bytes
  t95 : Bytes
  t5f2a : Bytes
  t9a : Bytes
  t9c : Bytes
  t9f37 : Bytes
  t82 : Bytes
  t9f36 : Bytes
  tail : Bytes            -- CVR or 9F10 (issuer application data)
  counters : Bytes        -- only read when the profile has counters

def acData (p : Profile) (a : AcArgs) : Bytes :=
  a.t9f02 ++ a.t9f03 ++ a.t9f1a ++ a.t95 ++ a.t5f2a ++ a.t9a ++ a.t9c ++ a.t9f37 ++ a.t82 ++ a.t9f36
    ++ a.tail ++ (if p.hasCounters then a.counters else [])

def generateAc (p : Profile) (card : Card) (a : AcArgs) : R Bytes := do
  let sk ← skFor p.acSk card a.t9f36 a.t9f37
  Pyemv.generateAc sk (acData p a) (some p.acPad) (some 8)

/-- `rcOrCsu` is the ARPC response code (method 1) or the CSU (method 2) -/
def generateArpc (p : Profile) (card : Card) (arqc atc un rcOrCsu : Bytes) (pad : Option Bytes) : R Bytes := do
  let sk ← skFor p.arpcSk card atc un
  if p.arpcMethod = 1 then generateArpc1 sk arqc rcOrCsu else generateArpc2 sk arqc rcOrCsu pad

def smKey (p : Profile) (mk arqc atc : Bytes) : R Bytes :=
  match p.smSk with
  | .visaAtc => deriveVisaSmSk mk atc
  | .commonArqc => deriveCommonSk mk arqc

def macInput (p : Profile) (hdr arqc atc data : Bytes) : Bytes :=
  if p.macTxn then hdr ++ atc ++ arqc ++ data else hdr ++ data

def commandMac (p : Profile) (card : Card) (hdr arqc atc data : Bytes) : R Bytes := do
  let sk ← smKey p card.smi arqc atc
  generateCommandMac sk (macInput p hdr arqc atc data) (some 8)

def encrypt (p : Profile) (card : Card) (data arqc atc : Bytes) : R Bytes := do
  let sk ← smKey p card.smc arqc atc
  encryptCommandData sk data p.enc

def pinBlock (p : Profile) (card : Card) (pin : StrOrBytes) (cur : Option StrOrBytes) : R Bytes :=
  match p.pin, cur with
  | .visOnly, c => formatVisPinBlock card.ac pin c
  | .iso2OrVis, none => formatIso2PinBlock pin
  | .iso2OrVis, some c => formatVisPinBlock card.ac pin (some c)
  | .iso2Only, _ => formatIso2PinBlock pin

def pinHeader (p : Profile) (cur : Option StrOrBytes) : Bytes :=
  match p.hdr, cur with
  | .visa, none => [0x84, 0x24, 0x00, 0x02, 0x18]
  | .visa, some _ => [0x84, 0x24, 0x00, 0x01, 0x18]
  | .mc, _ => [0x84, 0x24, 0x00, 0x02, 0x10]

/-- `cur` is only accepted by the Visa classes; the harness passes `none` for the others -/
def pinChange (p : Profile) (card : Card) (pin : StrOrBytes) (arqc atc : Bytes) (cur : Option StrOrBytes) : R Bytes := do
  let block ← pinBlock p card pin cur
  let ct ← encrypt p card block arqc atc
  let hdr := pinHeader p cur
  let m ← commandMac p card hdr arqc atc ct
  pure (hdr ++ ct ++ m)

end Pyemv.Cvn
