import PyemvModel.Tools
import PyemvModel.Sha1
/-! # pyemv/kd.py — code-shaped model (with the two `fix:` commits applied, see DESIGN.md §8) -/
namespace Pyemv

/-- `psn = "00" if psn is None`, then `.decode("ascii")` for bytes (kd.py 77-81, 151-155) -/
def psnTextR (psn : Option StrOrBytes) : R PyStr := (psn.getD (.str ['0', '0'])).text

/-- kd.py 90-95 / 192-197: data B is inverted data A; two TDES blocks; parity -/
def keyFromData (issMk dataA : Bytes) : R Bytes := do
  let dataB := xor dataA (List.replicate dataA.length 0xFF)
  let mk ← encryptTdesEcb issMk (dataA ++ dataB)
  pure (adjustKeyParity mk)

/-- kd.py 77-95 -/
def deriveIccMkA (issMk : Bytes) (pan : StrOrBytes) (psn : Option StrOrBytes) : R Bytes := do
  let psn ← psnTextR psn
  let pan ← pan.text
  let dataA ← a2bHex (zfill 16 (lastN 16 (pan ++ psn)))
  keyFromData issMk dataA

def isDec (c : Char) : Bool := '0' ≤ c && c ≤ '9'
def isLet (c : Char) : Bool := 'a' ≤ c && c ≤ 'f'

/-- `hashlib.sha1(m).hexdigest()` -/
def sha1Hex (m : Bytes) : PyStr := hexLower (Sha1.sha1 m)

/-- `digest.translate({97: 48, …, 102: 53})` on a string of letters a–f -/
def decimalise (s : PyStr) : PyStr := s.map fun c => Char.ofNat (c.toNat - 97 + 48)

/-- kd.py 170-188: first 16 decimal digits of the digest, topped up from its letters -/
def selectDigits (digest : PyStr) : PyStr :=
  let result := (digest.filter isDec).take 16
  if result.length < 16 then
    result ++ decimalise ((digest.filter isLet).take (16 - result.length))
  else result

/-- kd.py 162-165: odd number of digits gets a leading "0" -/
def bcdPanPsn (pan psn : PyStr) : R Bytes :=
  if pan.length % 2 = 1 then a2bHex ('0' :: pan ++ psn) else a2bHex (pan ++ psn)

/-- kd.py 147-197 -/
def deriveIccMkB (issMk : Bytes) (pan : StrOrBytes) (psn : Option StrOrBytes) : R Bytes :=
  if pan.len ≤ 16 then deriveIccMkA issMk pan psn else do
  let psn ← psnTextR psn
  let pan ← pan.text
  let panPsn ← bcdPanPsn pan psn
  let dataA ← a2bHex (selectDigits (sha1Hex panPsn))
  keyFromData issMk dataA

/-- kd.py 244-260 -/
def deriveCommonSk (mk r : Bytes) : R Bytes := do
  if mk.length ≠ 16 then throw .valueError
  if r.length ≠ 8 then throw .valueError
  let ra := r.set 2 0xF0
  let rb := r.set 2 0x0F
  let sk ← encryptTdesEcb mk (ra ++ rb)
  pure (adjustKeyParity sk)

/-- kd.py 295-309 -/
def deriveVisaSmSk (mk atc : Bytes) : R Bytes := do
  if mk.length ≠ 16 then throw .valueError
  if atc.length ≠ 2 then throw .valueError
  let skA := xor (zeros 6 ++ atc) (mk.take 8)
  let skB := xor (zeros 6 ++ xor atc [0xFF, 0xFF]) (mk.drop 8)
  pure (adjustKeyParity (skA ++ skB))

/-- kd.py 399-411, the map Φ(X, Y, j) -/
def treeDerive (b : Nat) (x y : Bytes) (j : Nat) : R Bytes := do
  if b = 0 then throw .zeroDivision
  let jb ← toBytesBE 8 (j % b)
  let l ← encryptTdesEcb x (xor (y.take 8) jb)
  let r ← encryptTdesEcb x (xor (xor (y.drop 8) jb) (zeros 7 ++ [0xF0]))
  pure (l ++ r)

/-- kd.py 417-425: returns (parent, grandparent) at level `h` on the path of `j` -/
def treeWalk (b : Nat) (mk iv : Bytes) : Nat → Nat → R (Bytes × Bytes)
  | _, 0 => pure (mk, iv)
  | j, h+1 => do
    if b = 0 then throw .zeroDivision
    let (p, gp) ← treeWalk b mk iv (j / b) h
    let ik ← treeDerive b p gp j
    pure (ik, p)

/-- kd.py 382-435 with the repaired gate (`<=`); `height ≥ 1` is the documented domain -/
def deriveEmv2000TreeSk (mk atc : Bytes) (height b : Nat) (iv : Bytes) : R Bytes := do
  if mk.length ≠ 16 then throw .valueError
  if atc.length ≠ 2 then throw .valueError
  if iv.length ≠ 16 then throw .valueError
  if b ^ height ≤ 65535 then throw .valueError
  let atcNum := fromBE atc
  if b = 0 then throw .zeroDivision
  let (p, gp) ← treeWalk b mk iv (atcNum / b) (height - 1)
  let d ← treeDerive b p gp atcNum
  pure (adjustKeyParity (xor d gp))

/-- the pinned, pre-repair gate (`<`), kept only for the negative theorem of C05 -/
def treeGateOld (b height : Nat) : Bool := b ^ height < 65535

end Pyemv
