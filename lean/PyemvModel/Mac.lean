import PyemvModel.Tools
/-! # pyemv/mac.py — code-shaped model -/
namespace Pyemv

/-- mac.py 133-143; `len(data) % 0` raises ZeroDivisionError -/
def pad1 (data : Bytes) (blockSize : Option Nat) : R Bytes :=
  let bs := blockSize.getD 8
  if bs = 0 then .error .zeroDivision else
  let r := data.length % bs
  if r > 0 then .ok (data ++ zeros (bs - r))
  else if data.length = 0 then .ok (zeros bs)
  else .ok data

/-- mac.py 176-179 -/
def pad2 (data : Bytes) (blockSize : Option Nat) : R Bytes :=
  pad1 (data ++ [0x80]) (some (blockSize.getD 8))

/-- mac.py 78-83: the padding method selector -/
def padSelect (padding : Int) (data : Bytes) : R Bytes :=
  if padding = 1 then pad1 data (some 8) else if padding = 2 then pad2 data (some 8)
  else throw .valueError

/-- mac.py 85-100 on the padded data.  Two live CBC contexts: `encryptor1` (key1, zero IV) is fed the
padded data and later, *continuing from its chaining value*, the output of `decryptor2` (key2,
IV = last block) applied to the last block. -/
def macCore (key1 key2 data : Bytes) (length : Nat) : R Bytes := do
  let ks1 ← tdesKeys key1
  let enc1 := cbcEncUpdate (encBlock ks1) (zeros 8) data            -- encryptor1.update(data)
  let last := lastN 8 enc1.1                                         -- [-8:]
  let ks2 ← tdesKeys key2
  if last.length ≠ 8 then throw .valueError                         -- modes.CBC(data) IV size check
  let dec2 := cbcDecUpdate (decBlock ks2) last last                  -- decryptor2.update(data)
  let enc1' := cbcEncUpdate (encBlock ks1) enc1.2 dec2.1             -- the same encryptor1 goes on
  pure (enc1'.1.take length)

/-- mac.py 75-100 -/
def mac3 (key1 key2 data : Bytes) (padding : Int) (length : Option Nat) : R Bytes := do
  let data ← padSelect padding data
  macCore key1 key2 data (length.getD 8)

end Pyemv
