import PyemvModel.Py
/-!
# pyemv/tlv.py — code-shaped model of the decoder and the encoder

Decoder: one Lean function per guard group of `_decode` (tlv.py 186-271).  List indexing returns
`Option`; `none` inside the Python `try` becomes a `DecodeError`, `none` anywhere else is the
distinguished outcome `crash` (an `IndexError` would escape), so that "never another exception" is a
theorem and not a convention.  Python's aliasing `dec[tag] = {}` followed by recursion becomes a
state-threaded, insertion-ordered association list; the partially filled dicts travel outwards
through every open template exactly as the aliasing makes them do.
-/
namespace Pyemv.Tlv
open Pyemv

inductive Node where
  | prim (v : Bytes)
  | cons (kids : List (Bytes × Node))
deriving Inhabited

/-- a Python `dict` keyed by tag (kept as tag *bytes*; the hex name is their upper-case rendering) -/
abbrev Dict := List (Bytes × Node)

/-- Python dict assignment: replace in place if the key is present, else append -/
def Dict.set (d : Dict) (k : Bytes) (v : Node) : Dict :=
  if d.any (fun p => p.1 == k) then d.map (fun p => if p.1 == k then (k, v) else p) else d ++ [(k, v)]

/-- the three `DecodeError` raise sites: tag, length bytes (expected count), value (expected count) -/
inductive Kind | tag | len (n : Nat) | val (n : Nat)
deriving Repr, DecidableEq

structure DErr where
  kind : Kind
  tag : Bytes
  ofs : Nat

inductive Res where
  | ok (ofs : Nat) (d : Dict)
  | err (e : DErr) (d : Dict)
  | crash (d : Dict)       -- an exception other than DecodeError would escape
  | fuel                   -- the fuel ran out (non-termination)

/-- tag continuation scan (tlv.py 190-193): `(some n, _)` = the tag has `n` bytes;
`(none, k)` = IndexError after `k` bytes were looked at -/
def scanCont : (fuel : Nat) → Bytes → Nat → Nat → (Option Nat × Nat)
  | 0, _, _, n => (none, n)
  | f+1, data, ofs, n =>
    match data[ofs + n]? with
    | none => (none, n)
    | some b => if b &&& 0x80 != 0 then scanCont f data ofs (n+1) else (some (n+1), n+1)

inductive Hdr where
  | ok (tag : Bytes) (constructed : Bool) (valOfs len : Nat)
  | err (e : DErr)
  | crash

/-- tag-number scan (tlv.py 186-194) -/
def scanTag (data : Bytes) (ofs : Nat) (b0 : UInt8) : Option Nat × Nat :=
  if b0 &&& 0x1F == 0x1F then scanCont (data.length + 1) data ofs 1 else (some 1, 1)

/-- length field and value containment (tlv.py 216-253), `o1` = offset just after the tag -/
def afterTag (simple : Bool) (data : Bytes) (lim : Nat) (c : Bool) (tag : Bytes) (o1 : Nat) : Hdr :=
  if o1 + 1 > lim then .err ⟨.len 1, tag, o1⟩ else
  match data[o1]? with
  | none => .crash
  | some lb =>
    if lb &&& 0x80 != 0 && !simple then
      let ll := (lb &&& 0x7F).toNat
      let o2 := o1 + 1
      if o2 + ll > lim then .err ⟨.len ll, tag, o2⟩ else
      let tlen := fromBE (slice data o2 (o2 + ll))
      if o2 + ll + tlen > lim then .err ⟨.val tlen, tag, o2 + ll⟩ else
      .ok tag c (o2 + ll) tlen
    else
      if o1 + 1 + lb.toNat > lim then .err ⟨.val lb.toNat, tag, o1 + 1⟩ else
      .ok tag c (o1 + 1) lb.toNat

/-- tlv.py 186-253: everything from the tag scan to the value-containment check -/
def readHeader (simple : Bool) (data : Bytes) (ofs lim : Nat) : Hdr :=
  match data[ofs]? with
  | none => .err ⟨.tag, slice data ofs (ofs+1), ofs⟩
  | some b0 =>
    match scanTag data ofs b0 with
    | (none, n) => .err ⟨.tag, slice data ofs (ofs+n), ofs⟩
    | (some n, _) =>
      if ofs + n > lim then .err ⟨.tag, slice data ofs (min (ofs+n) lim), ofs⟩ else
      afterTag simple data lim (b0 &&& 0x20 != 0) (slice data ofs (ofs+n)) (ofs + n)

/-- `_decode` (tlv.py 183-271) with the default conversion `bytes(v)` -/
def decodeSeq (flatten simple : Bool) (data : Bytes) : (fuel : Nat) → (ofs lim : Nat) → Dict → Res
  | 0, _, _, _ => .fuel
  | f+1, ofs, lim, dec =>
    if ¬ ofs < lim then .ok ofs dec else
    match readHeader simple data ofs lim with
    | .err e => .err e dec
    | .crash => .crash dec
    | .ok tag constructed vo tlen =>
      if constructed then
        if flatten then
          match decodeSeq flatten simple data f vo (vo + tlen) dec with
          | .ok o d => decodeSeq flatten simple data f o lim d
          | r => r
        else
          match decodeSeq flatten simple data f vo (vo + tlen) [] with
          | .ok o d => decodeSeq flatten simple data f o lim (dec.set tag (.cons d))
          | .err e d => .err e (dec.set tag (.cons d))
          | .crash d => .crash (dec.set tag (.cons d))
          | .fuel => .fuel
      else
        decodeSeq flatten simple data f (vo + tlen) lim (dec.set tag (.prim (slice data vo (vo + tlen))))

/-- `decode` (tlv.py 154-172) -/
def decode (flatten simple : Bool) (data : Bytes) : Res :=
  decodeSeq flatten simple data (data.length + 1) 0 data.length []

/-! ### decoding with a conversion function

`convert` is an arbitrary total function of (tag, value); its calls are recorded in order in a log
so that "applied exactly once to each primitive object and never to templates" can be stated. -/

inductive NodeC (α : Type) where
  | prim (v : α)
  | cons (kids : List (Bytes × NodeC α))

abbrev DictC (α : Type) := List (Bytes × NodeC α)

def DictC.set {α} (d : DictC α) (k : Bytes) (v : NodeC α) : DictC α :=
  if d.any (fun p => p.1 == k) then d.map (fun p => if p.1 == k then (k, v) else p) else d ++ [(k, v)]

abbrev Log := List (Bytes × Bytes)

inductive ResC (α : Type) where
  | ok (ofs : Nat) (d : DictC α) (log : Log)
  | err (e : DErr) (d : DictC α) (log : Log)
  | crash
  | fuel

def decodeSeqC {α} (conv : Bytes → Bytes → α) (flatten simple : Bool) (data : Bytes) :
    (fuel : Nat) → (ofs lim : Nat) → DictC α → Log → ResC α
  | 0, _, _, _, _ => .fuel
  | f+1, ofs, lim, dec, log =>
    if ¬ ofs < lim then .ok ofs dec log else
    match readHeader simple data ofs lim with
    | .err e => .err e dec log
    | .crash => .crash
    | .ok tag constructed vo tlen =>
      if constructed then
        if flatten then
          match decodeSeqC conv flatten simple data f vo (vo + tlen) dec log with
          | .ok o d l => decodeSeqC conv flatten simple data f o lim d l
          | r => r
        else
          match decodeSeqC conv flatten simple data f vo (vo + tlen) [] log with
          | .ok o d l => decodeSeqC conv flatten simple data f o lim (dec.set tag (.cons d)) l
          | .err e d l => .err e (dec.set tag (.cons d)) l
          | .crash => .crash
          | .fuel => .fuel
      else
        let v := slice data vo (vo + tlen)
        decodeSeqC conv flatten simple data f (vo + tlen) lim (dec.set tag (.prim (conv tag v))) (log ++ [(tag, v)])

def decodeC {α} (conv : Bytes → Bytes → α) (flatten simple : Bool) (data : Bytes) : ResC α :=
  decodeSeqC conv flatten simple data (data.length + 1) 0 data.length [] []

/-! ## encoder (tlv.py 321-391) -/

/-- the values a caller can put into the mapping handed to `encode` -/
inductive PyVal where
  | bytes (b : Bytes)                          -- `bytes` or `bytearray`
  | str (s : PyStr)
  | dict (kvs : List (PyStr × PyVal))          -- a Mapping with `str` keys, in `items()` order
  | other                                      -- an object of any other type

/-- `EncodeError.tag` is the offending tag name exactly as the caller wrote it -/
structure EErr where
  tag : PyStr

/-- tag syntax check (tlv.py 330-346) on the parsed tag bytes: `some n` = expected tag length,
`none` = IndexError inside the `try` ("expecting more data") -/
def tagNameLen : Bytes → Option Nat
  | [] => none
  | b0 :: rest =>
    if b0 &&& 0x1F == 0x1F then
      match scanCont (rest.length + 2) (b0 :: rest) 0 1 with
      | (some n, _) => some n
      | (none, _) => none
    else some 1

/-- the sizing loop `while len(value) > 2 ** (8 * tag_len_len) - 1: tag_len_len += 1` -/
def lenLoop (n : Nat) : (fuel : Nat) → Nat → Nat
  | 0, k => k
  | f+1, k => if n > 2 ^ (8 * k) - 1 then lenLoop n f (k + 1) else k

/-- length field (tlv.py 373-389); `none` = the simple-mode 255 limit is exceeded -/
def lenField (simple : Bool) (n : Nat) : Option Bytes :=
  if n > 255 && simple then none else
  if n > 127 && !simple then
    let k := lenLoop n n 1
    some (UInt8.ofNat (k ||| 0x80) :: toBE k n)
  else some (toBE 1 n)

mutual
/-- value part of one loop iteration (tlv.py 348-371): the bytes to be length-prefixed -/
def encodeValue (simple : Bool) (tagS : PyStr) (constructed : Bool) : PyVal → Except EErr Bytes
  | .dict kvs => if constructed then encodeItems simple kvs else .error ⟨tagS⟩
  | .str s =>
    if constructed then .error ⟨tagS⟩                             -- constructed tag needs a dict
    else match bytesFromHex s with
      | .ok b => .ok b
      | .error _ => .error ⟨tagS⟩                                 -- value not a hexchar string
  | .bytes b => if constructed then .error ⟨tagS⟩ else .ok b
  | .other => .error ⟨tagS⟩                                       -- wrong value type

/-- the body of the `for tag_s, value in tlv.items()` loop -/
def encodeItem (simple : Bool) : PyStr × PyVal → Except EErr Bytes
  | (tagS, v) =>
    match bytesFromHex tagS with
    | .error _ => .error ⟨tagS⟩                                   -- not a hexchar string
    | .ok tag =>
      match tagNameLen tag with
      | none => .error ⟨tagS⟩                                     -- expecting more data
      | some n =>
        if tag.length != n then .error ⟨tagS⟩ else                -- extra data
        match encodeValue simple tagS (tag.headD 0 &&& 0x20 != 0) v with
        | .error e => .error e
        | .ok value =>
          match lenField simple value.length with
          | none => .error ⟨tagS⟩                                 -- simple mode, more than 255 bytes
          | some l => .ok (tag ++ l ++ value)

/-- `_encode` -/
def encodeItems (simple : Bool) : List (PyStr × PyVal) → Except EErr Bytes
  | [] => .ok []
  | kv :: rest =>
    match encodeItem simple kv with
    | .error e => .error e
    | .ok b =>
      match encodeItems simple rest with
      | .error e => .error e
      | .ok r => .ok (b ++ r)
end

/-- `encode` -/
def encode (simple : Bool) (t : List (PyStr × PyVal)) : Except EErr Bytes := encodeItems simple t

end Pyemv.Tlv
