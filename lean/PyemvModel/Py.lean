/-!
# Python prelude

The CPython builtins pyemv relies on, modelled once.  Each definition here has a micro-operation
in the line protocol (`py.*`) so that it is compared with the interpreter on every run.
Core Lean only (no Mathlib) so that the driver links natively.
-/
namespace Pyemv

abbrev Bytes := List UInt8

/-- The exception classes pyemv can let escape. `DecodeError`/`EncodeError` carry their fields in
the TLV model; here they only appear as classes. -/
inductive PyErr where
  | valueError | typeError | overflowError | zeroDivision | indexError
deriving Repr, BEq, DecidableEq

def PyErr.name : PyErr → String
  | .valueError => "ValueError" | .typeError => "TypeError" | .overflowError => "OverflowError"
  | .zeroDivision => "ZeroDivisionError" | .indexError => "IndexError"

abbrev R := Except PyErr

/-! ## integers and byte strings -/

/-- `int.from_bytes(bs, "big")` -/
def fromBE (bs : Bytes) : Nat := bs.foldl (fun a b => 256 * a + b.toNat) 0

/-- the `k` low-order base-256 digits of `n`, most significant first -/
def toBE : Nat → Nat → Bytes
  | 0, _ => []
  | k+1, n => UInt8.ofNat (n / 256 ^ k % 256) :: toBE k (n % 256 ^ k)

/-- `int.from_bytes(bs, "little")` -/
def fromLE : Bytes → Nat
  | [] => 0
  | b :: bs => b.toNat + 256 * fromLE bs

def toLE : Nat → Nat → Bytes
  | 0, _ => []
  | k+1, n => UInt8.ofNat (n % 256) :: toLE k (n / 256)

/-- `int.to_bytes(n, k, "big")`; `OverflowError` when `n` does not fit -/
def toBytesBE (k n : Nat) : R Bytes := if n < 256 ^ k then .ok (toBE k n) else .error .overflowError

/-- `l[-n:]` for `n > 0` -/
def lastN (n : Nat) (l : List α) : List α := l.drop (l.length - n)

/-- `x[a:b]` for `0 ≤ a`, `0 ≤ b` -/
def slice (data : List α) (a b : Nat) : List α := (data.drop a).take (b - a)

def zeros (n : Nat) : Bytes := List.replicate n 0

/-! ## text -/

abbrev PyStr := List Char

def hexVal (c : Char) : Option Nat :=
  if '0' ≤ c ∧ c ≤ '9' then some (c.toNat - 48)
  else if 'a' ≤ c ∧ c ≤ 'f' then some (c.toNat - 87)
  else if 'A' ≤ c ∧ c ≤ 'F' then some (c.toNat - 55)
  else none

/-- `binascii.a2b_hex` on a `str`: an even number of hex digits, else `binascii.Error` (a ValueError) -/
def a2bHex : PyStr → R Bytes
  | [] => .ok []
  | [_] => .error .valueError
  | h :: l :: rest =>
    match hexVal h, hexVal l with
    | some a, some b => do let r ← a2bHex rest; pure (UInt8.ofNat (16 * a + b) :: r)
    | _, _ => .error .valueError

/-- the characters `bytes.fromhex` skips: ASCII whitespace `' \t\n\r\v\f'` -/
def isPySpace (c : Char) : Bool :=
  c == ' ' || c == '\t' || c == '\n' || c == '\r' || c.toNat == 11 || c.toNat == 12

/-- `bytes.fromhex` (CPython 3.12): whitespace is skipped before each *pair* and at the end, never
inside a pair; anything else is a ValueError.  `fuel` ≥ number of characters suffices. -/
def bytesFromHexAux : (fuel : Nat) → PyStr → R Bytes
  | 0, _ => .ok []
  | f+1, cs =>
    match cs.dropWhile isPySpace with
    | [] => .ok []
    | [_] => .error .valueError
    | h :: l :: rest =>
      match hexVal h, hexVal l with
      | some a, some b => do let r ← bytesFromHexAux f rest; pure (UInt8.ofNat (16 * a + b) :: r)
      | _, _ => .error .valueError

def bytesFromHex (s : PyStr) : R Bytes := bytesFromHexAux (s.length + 1) s

def hexDigitLower (n : Nat) : Char := if n < 10 then Char.ofNat (48 + n) else Char.ofNat (87 + n)
def hexDigitUpper (n : Nat) : Char := if n < 10 then Char.ofNat (48 + n) else Char.ofNat (55 + n)

/-- `bs.hex()` -/
def hexLower (bs : Bytes) : PyStr := bs.flatMap fun b => [hexDigitLower (b.toNat / 16), hexDigitLower (b.toNat % 16)]
/-- `bs.hex().upper()` -/
def hexUpper (bs : Bytes) : PyStr := bs.flatMap fun b => [hexDigitUpper (b.toNat / 16), hexDigitUpper (b.toNat % 16)]

/-- `s.zfill(n)` for strings that do not start with a sign -/
def zfill (n : Nat) (s : PyStr) : PyStr := List.replicate (n - s.length) '0' ++ s

def decDigit (n : Nat) : Char := Char.ofNat (48 + n % 10)

/-- `str(n)` for a natural number; `fuel` bounds the number of digits -/
def strOfNatAux : Nat → Nat → PyStr
  | 0, _ => []
  | f+1, n => if n < 10 then [decDigit n] else strOfNatAux f (n / 10) ++ [decDigit n]

/-- `str(n)` -/
def pyStr (n : Nat) : PyStr := strOfNatAux (n + 1) n

/-- an argument the API accepts either as `str` or as `bytes` -/
inductive StrOrBytes where
  | str (s : PyStr)
  | bytes (b : Bytes)
deriving Repr, BEq

/-- `len(x)` -/
def StrOrBytes.len : StrOrBytes → Nat | .str s => s.length | .bytes b => b.length

/-- `x.decode("ascii") if isinstance(x, bytes) else x`; non-ASCII bytes raise `UnicodeDecodeError`
(a ValueError) -/
def StrOrBytes.text : StrOrBytes → R PyStr
  | .str s => .ok s
  | .bytes b => if b.all (· < 128) then .ok (b.map fun x => Char.ofNat x.toNat) else .error .valueError

/-- Python truthiness of an optional str/bytes argument: `None`, `""` and `b""` are falsy -/
def StrOrBytes.truthy : Option StrOrBytes → Bool
  | none => false
  | some (.str s) => !s.isEmpty
  | some (.bytes b) => !b.isEmpty

end Pyemv
