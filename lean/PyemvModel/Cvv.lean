import PyemvModel.Mac
/-! # pyemv/cvv.py — code-shaped model (with the `fix:` commit applied, see DESIGN.md §8) -/
namespace Pyemv

/-- cvv.py 75-93 as repaired: `str(int(cvc3.hex(), 16)).zfill(5)` -/
def generateCvc3 (k track atc un : Bytes) : R PyStr := do
  if k.length ≠ 16 then throw .valueError
  if atc.length ≠ 2 then throw .valueError
  if un.length ≠ 4 then throw .valueError
  let m ← mac3 (k.take 8) (lastN 8 k) track 2 none
  let iv := lastN 2 m
  let ct ← encryptTdesEcb k (iv ++ un ++ atc)
  pure (zfill 5 (pyStr (fromBE (lastN 2 ct))))

/-- the pinned, pre-repair rendering `str(int(…))`, kept only for the negative theorem of C11 -/
def cvc3RenderOld (v : Nat) : PyStr := pyStr v

end Pyemv
