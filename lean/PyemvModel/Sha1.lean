/-!
# SHA-1 (FIPS 180-4), executable

Stands for `hashlib.sha1` in option B of the master-key derivation.  Tied to `hashlib`
differentially (`py.sha1`); the only fact proved about it and used is that the digest has 20 bytes.
-/
namespace Sha1

@[inline] def rotl (x : UInt32) (n : UInt32) : UInt32 := (x <<< n) ||| (x >>> (32 - n))

def padMsg (msg : ByteArray) : ByteArray := Id.run do
  let ml : UInt64 := msg.size.toUInt64 * 8
  let mut m := msg.push 0x80
  for _ in [0:(119 - msg.size % 64) % 64] do
    m := m.push 0
  for i in [0:8] do
    m := m.push ((ml >>> (8 * (7 - i).toUInt64)).toUInt8)
  return m

def word (m : ByteArray) (i : Nat) : UInt32 :=
  (m[i]!.toUInt32 <<< 24) ||| (m[i+1]!.toUInt32 <<< 16) ||| (m[i+2]!.toUInt32 <<< 8) ||| m[i+3]!.toUInt32

abbrev State := UInt32 × UInt32 × UInt32 × UInt32 × UInt32

def processBlock (h : State) (m : ByteArray) (off : Nat) : State := Id.run do
  let mut w : Array UInt32 := Array.mkEmpty 80
  for t in [0:16] do
    w := w.push (word m (off + 4*t))
  for t in [16:80] do
    w := w.push (rotl (w[t-3]! ^^^ w[t-8]! ^^^ w[t-14]! ^^^ w[t-16]!) 1)
  let (h0, h1, h2, h3, h4) := h
  let mut a := h0; let mut b := h1; let mut c := h2; let mut d := h3; let mut e := h4
  for t in [0:80] do
    let (f, k) : UInt32 × UInt32 :=
      if t < 20 then ((b &&& c) ||| ((~~~ b) &&& d), 0x5A827999)
      else if t < 40 then (b ^^^ c ^^^ d, 0x6ED9EBA1)
      else if t < 60 then ((b &&& c) ||| (b &&& d) ||| (c &&& d), 0x8F1BBCDC)
      else (b ^^^ c ^^^ d, 0xCA62C1D6)
    let tmp := rotl a 5 + f + e + k + w[t]!
    e := d; d := c; c := rotl b 30; b := a; a := tmp
  return (h0 + a, h1 + b, h2 + c, h3 + d, h4 + e)

def compress (msg : ByteArray) : State := Id.run do
  let m := padMsg msg
  let mut h : State := (0x67452301, 0xEFCDAB89, 0x98BADCFE, 0x10325476, 0xC3D2E1F0)
  for i in [0:m.size / 64] do
    h := processBlock h m (64 * i)
  return h

def be32 (x : UInt32) : List UInt8 := [(x >>> 24).toUInt8, (x >>> 16).toUInt8, (x >>> 8).toUInt8, x.toUInt8]

/-- the 20-byte digest -/
def sha1 (msg : List UInt8) : List UInt8 :=
  let h := compress (ByteArray.mk msg.toArray)
  be32 h.1 ++ be32 h.2.1 ++ be32 h.2.2.1 ++ be32 h.2.2.2.1 ++ be32 h.2.2.2.2

theorem sha1_length (msg : List UInt8) : (sha1 msg).length = 20 := by
  simp [sha1, be32]

end Sha1
