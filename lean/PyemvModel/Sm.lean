import PyemvModel.Mac
/-! # pyemv/sm.py — code-shaped model -/
namespace Pyemv

/-- sm.py 105-108 -/
def generateCommandMac (sk cmd : Bytes) (length : Option Nat) : R Bytes := do
  if sk.length ≠ 16 then throw .valueError
  mac3 (sk.take 8) (lastN 8 sk) cmd 2 length

/-- `EncryptionType`; `other` stands for any object that is not a member of the enum -/
inductive EncryptionType where | visa | mastercard | emv | other
deriving Repr, BEq, DecidableEq

/-- sm.py 178-215 -/
def encryptCommandData (sk data : Bytes) (t : EncryptionType) : R Bytes := do
  if sk.length ≠ 16 then throw .valueError
  match t with
  | .visa => do
    let l ← toBytesBE 1 data.length                       -- len(command_data).to_bytes(1, …)
    let p ← pad2 (l ++ data) (some 8)
    encryptTdesEcb sk p
  | .mastercard =>
    if data.length % 8 > 0 then do
      let p ← pad2 data (some 8)
      encryptTdesCbc sk (zeros 8) p
    else encryptTdesCbc sk (zeros 8) data
  | .emv => do
    let p ← pad2 data (some 8)
    encryptTdesCbc sk (zeros 8) p
  | .other => throw .typeError

/-- sm.py 257-288 -/
def formatVisPinBlock (mk : Bytes) (pin : StrOrBytes) (cur : Option StrOrBytes) : R Bytes := do
  if pin.len < 4 ∨ pin.len > 12 then throw .valueError
  if mk.length ≠ 16 then throw .valueError
  let pin ← pin.text
  let cur ← match cur with | none => pure none | some c => do let t ← c.text; pure (some t)
  let blockA := zeros 4 ++ slice mk 4 8
  let l ← toBytesBE 1 pin.length
  let body ← a2bHex (pin ++ List.replicate (14 - pin.length) 'F')
  let blockB := l ++ body
  let pb := xor blockA blockB
  match cur with
  | none => pure pb
  | some c =>
    if c.length < 4 ∨ c.length > 12 then throw .valueError
    let cb ← a2bHex (c ++ List.replicate (16 - c.length) '0')
    pure (xor pb cb)

/-- sm.py 315-323 -/
def formatIso2PinBlock (pin : StrOrBytes) : R Bytes := do
  if pin.len < 4 ∨ pin.len > 12 then throw .valueError
  let pin ← pin.text
  let l ← toBytesBE 1 (pin.length + 32)
  let body ← a2bHex (pin ++ List.replicate (14 - pin.length) 'F')
  pure (l ++ body)

end Pyemv
