import PyemvSpec.Basic
