import PyemvGen.CvnGen
import PyemvGen.CvnRefines
import PyemvGen.ModGen
import PyemvGen.ModRefines
import PyemvGen.TlvGen
import PyemvGen.TlvRefines
