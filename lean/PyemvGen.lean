import PyemvGen.CvnGen
import PyemvGen.CvnRefines
import PyemvGen.ModGen
import PyemvGen.ModRefines
