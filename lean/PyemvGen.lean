import PyemvGen.CvnGen
import PyemvGen.CvnRefines
