import PyemvProofs.TlvRefine
namespace Pyemv.Refine
open Pyemv Pyemv.Tlv Pyemv.TlvSpec

theorem parseItems_nil (si : Bool) (base : Nat) : parseItems si base [] = .ok [] := by
  rw [parseItems]; simp

theorem parseItems_ne {si : Bool} {base : Nat} {r : Bytes} (hr : r ≠ []) :
    parseItems si base r =
      match header si base r with
      | .error e => .error (e, [])
      | .ok hd =>
        if (r.headD 0) &&& 0x20 != 0 then
          match parseItems si (base + hd.h) ((r.drop hd.h).take hd.ln) with
          | .error (e, part) => .error (e, [Item.cons hd.tag hd.lenb part])
          | .ok kids =>
            match parseItems si (base + hd.h + hd.ln) (r.drop (hd.h + hd.ln)) with
            | .error (e, part) => .error (e, Item.cons hd.tag hd.lenb kids :: part)
            | .ok more => .ok (Item.cons hd.tag hd.lenb kids :: more)
        else
          match parseItems si (base + hd.h + hd.ln) (r.drop (hd.h + hd.ln)) with
          | .error (e, part) => .error (e, Item.prim hd.tag hd.lenb ((r.drop hd.h).take hd.ln) :: part)
          | .ok more => .ok (Item.prim hd.tag hd.lenb ((r.drop hd.h).take hd.ln) :: more) := by
  rw [parseItems]
  simp only [hr, dite_false]
  split <;> rename_i heq <;> rw [heq] <;> rfl


def Refines (fl : Bool) (data : Bytes) (lim : Nat) (dec : Dict) :
    Res → Except (GErr × List Item) (List Item) → Prop
  | .ok o d, .ok items => o = lim ∧ d = absInto fl dec items
  | .err e d, .error (g, part) => e.kind = g.kind ∧ e.ofs = g.ofs ∧ d = absInto fl dec part ∧ TagRel data g e
  | _, _ => False

theorem absInto_nil (fl : Bool) (dec : Dict) : absInto fl dec [] = dec := by
  cases fl <;> simp [absInto, absFlat, absNested]

theorem absInto_prim (fl : Bool) (dec : Dict) (t l v : Bytes) (more : List Item) :
    absInto fl dec (Item.prim t l v :: more) = absInto fl (dec.set t (.prim v)) more := by
  cases fl <;> simp [absInto, absFlat, absNested]

theorem absInto_cons_nested (dec : Dict) (t l : Bytes) (kids more : List Item) :
    absInto false dec (Item.cons t l kids :: more) =
      absInto false (dec.set t (.cons (absInto false [] kids))) more := by
  simp [absInto, absNested]

theorem absInto_cons_flat (dec : Dict) (t l : Bytes) (kids more : List Item) :
    absInto true dec (Item.cons t l kids :: more) = absInto true (absInto true dec kids) more := by
  simp [absInto, absFlat]

/-- **Refinement** (C09/C17 core): the offset-and-limit loop of `tlv._decode`, on any sub-range of the
input and any starting dictionary, computes exactly what the structural grammar defines on that
sub-list: the same tree on success; on failure the same fault kind, the same offset, the same partial
tree, and a tag name related as the property states. -/
theorem decodeSeq_refines (fl si : Bool) (data : Bytes) :
    ∀ (fuel ofs lim : Nat) (dec : Dict), lim ≤ data.length → ofs ≤ lim → lim - ofs < fuel →
      Refines fl data lim dec (decodeSeq fl si data fuel ofs lim dec)
        (parseItems si ofs (slice data ofs lim)) := by
  intro fuel
  induction fuel with
  | zero => intro ofs lim dec _ _ h; omega
  | succ f ih =>
    intro ofs lim dec hl ho hf
    unfold decodeSeq
    by_cases hlt : ofs < lim
    · simp only [hlt, not_true_eq_false, if_false]
      obtain ⟨b0, hb0, hhead, hH⟩ := readHeader_refines (simple := si) hl hlt
      have hne : slice data ofs lim ≠ [] := by
        intro h
        have := slice_length (data := data) (a := ofs) (b := lim) hl
        rw [h] at this; simp at this; omega
      rw [parseItems_ne hne]
      unfold HeaderRefines at hH
      cases hh : header si ofs (slice data ofs lim) with
      | error g =>
        rw [hh] at hH
        obtain ⟨tag, hrh, hrel⟩ := hH
        simp only [hrh]
        exact ⟨rfl, rfl, (absInto_nil fl dec).symm, hrel⟩
      | ok hd =>
        rw [hh] at hH
        simp only [hH, hhead]
        have ⟨h2, h3⟩ := header_ok hh
        rw [slice_length hl] at h3
        have hval : ((slice data ofs lim).drop hd.h).take hd.ln
            = slice data (ofs + hd.h) (ofs + hd.h + hd.ln) := by
          rw [slice_drop, slice_take (by omega)]
        have hrest : (slice data ofs lim).drop (hd.h + hd.ln) = slice data (ofs + hd.h + hd.ln) lim := by
          rw [slice_drop]; congr 1; omega
        rw [hval, hrest]
        by_cases hc : (b0 &&& 0x20 != 0) = true
        · simp only [hc, if_true]
          cases fl with
          | false =>
            simp only [Bool.false_eq_true, if_false]
            have ihc := ih (ofs + hd.h) (ofs + hd.h + hd.ln) [] (by omega) (by omega) (by omega)
            revert ihc
            cases decodeSeq false si data f (ofs + hd.h) (ofs + hd.h + hd.ln) [] with
            | ok o d =>
              cases parseItems si (ofs + hd.h) (slice data (ofs + hd.h) (ofs + hd.h + hd.ln)) with
              | error p => intro h; exact h.elim
              | ok kids =>
                intro h
                obtain ⟨ho', hd'⟩ := h
                subst ho' hd'
                simp only
                have ihr := ih (ofs + hd.h + hd.ln) lim (dec.set hd.tag (.cons (absInto false [] kids)))
                  hl (by omega) (by omega)
                revert ihr
                cases decodeSeq false si data f (ofs + hd.h + hd.ln) lim
                    (dec.set hd.tag (.cons (absInto false [] kids))) with
                | ok o2 d2 =>
                  cases parseItems si (ofs + hd.h + hd.ln) (slice data (ofs + hd.h + hd.ln) lim) with
                  | error p => intro h; exact h.elim
                  | ok more =>
                    intro h
                    exact ⟨h.1, by rw [absInto_cons_nested]; exact h.2⟩
                | err e2 d2 =>
                  cases parseItems si (ofs + hd.h + hd.ln) (slice data (ofs + hd.h + hd.ln) lim) with
                  | ok more => intro h; exact h.elim
                  | error p =>
                    obtain ⟨g, part⟩ := p
                    intro h
                    exact ⟨h.1, h.2.1, by rw [absInto_cons_nested]; exact h.2.2.1, h.2.2.2⟩
                | crash d2 =>
                  cases parseItems si (ofs + hd.h + hd.ln) (slice data (ofs + hd.h + hd.ln) lim) <;>
                    (intro h; exact h.elim)
                | fuel =>
                  cases parseItems si (ofs + hd.h + hd.ln) (slice data (ofs + hd.h + hd.ln) lim) <;>
                    (intro h; exact h.elim)
            | err e d =>
              cases parseItems si (ofs + hd.h) (slice data (ofs + hd.h) (ofs + hd.h + hd.ln)) with
              | ok kids => intro h; exact h.elim
              | error p =>
                obtain ⟨g, part⟩ := p
                intro h
                obtain ⟨hk, hof, hd', hrel⟩ := h
                subst hd'
                exact ⟨hk, hof, by rw [absInto_cons_nested, absInto_nil], hrel⟩
            | crash d =>
              cases parseItems si (ofs + hd.h) (slice data (ofs + hd.h) (ofs + hd.h + hd.ln)) <;>
                (intro h; exact h.elim)
            | fuel =>
              cases parseItems si (ofs + hd.h) (slice data (ofs + hd.h) (ofs + hd.h + hd.ln)) <;>
                (intro h; exact h.elim)
          | true =>
            simp only [if_true]
            have ihc := ih (ofs + hd.h) (ofs + hd.h + hd.ln) dec (by omega) (by omega) (by omega)
            revert ihc
            cases decodeSeq true si data f (ofs + hd.h) (ofs + hd.h + hd.ln) dec with
            | ok o d =>
              cases parseItems si (ofs + hd.h) (slice data (ofs + hd.h) (ofs + hd.h + hd.ln)) with
              | error p => intro h; exact h.elim
              | ok kids =>
                intro h
                obtain ⟨ho', hd'⟩ := h
                subst ho' hd'
                simp only
                have ihr := ih (ofs + hd.h + hd.ln) lim (absInto true dec kids) hl (by omega) (by omega)
                revert ihr
                cases decodeSeq true si data f (ofs + hd.h + hd.ln) lim (absInto true dec kids) with
                | ok o2 d2 =>
                  cases parseItems si (ofs + hd.h + hd.ln) (slice data (ofs + hd.h + hd.ln) lim) with
                  | error p => intro h; exact h.elim
                  | ok more =>
                    intro h
                    exact ⟨h.1, by rw [absInto_cons_flat]; exact h.2⟩
                | err e2 d2 =>
                  cases parseItems si (ofs + hd.h + hd.ln) (slice data (ofs + hd.h + hd.ln) lim) with
                  | ok more => intro h; exact h.elim
                  | error p =>
                    obtain ⟨g, part⟩ := p
                    intro h
                    exact ⟨h.1, h.2.1, by rw [absInto_cons_flat]; exact h.2.2.1, h.2.2.2⟩
                | crash d2 =>
                  cases parseItems si (ofs + hd.h + hd.ln) (slice data (ofs + hd.h + hd.ln) lim) <;>
                    (intro h; exact h.elim)
                | fuel =>
                  cases parseItems si (ofs + hd.h + hd.ln) (slice data (ofs + hd.h + hd.ln) lim) <;>
                    (intro h; exact h.elim)
            | err e d =>
              cases parseItems si (ofs + hd.h) (slice data (ofs + hd.h) (ofs + hd.h + hd.ln)) with
              | ok kids => intro h; exact h.elim
              | error p =>
                obtain ⟨g, part⟩ := p
                intro h
                obtain ⟨hk, hof, hd', hrel⟩ := h
                subst hd'
                exact ⟨hk, hof, by rw [absInto_cons_flat, absInto_nil], hrel⟩
            | crash d =>
              cases parseItems si (ofs + hd.h) (slice data (ofs + hd.h) (ofs + hd.h + hd.ln)) <;>
                (intro h; exact h.elim)
            | fuel =>
              cases parseItems si (ofs + hd.h) (slice data (ofs + hd.h) (ofs + hd.h + hd.ln)) <;>
                (intro h; exact h.elim)
        · simp only [hc]
          have ihr := ih (ofs + hd.h + hd.ln) lim
            (dec.set hd.tag (.prim (slice data (ofs + hd.h) (ofs + hd.h + hd.ln)))) hl (by omega) (by omega)
          revert ihr
          cases decodeSeq fl si data f (ofs + hd.h + hd.ln) lim
              (dec.set hd.tag (.prim (slice data (ofs + hd.h) (ofs + hd.h + hd.ln)))) with
          | ok o2 d2 =>
            cases parseItems si (ofs + hd.h + hd.ln) (slice data (ofs + hd.h + hd.ln) lim) with
            | error p => intro h; exact h.elim
            | ok more =>
              intro h
              exact ⟨h.1, by rw [absInto_prim]; exact h.2⟩
          | err e2 d2 =>
            cases parseItems si (ofs + hd.h + hd.ln) (slice data (ofs + hd.h + hd.ln) lim) with
            | ok more => intro h; exact h.elim
            | error p =>
              obtain ⟨g, part⟩ := p
              intro h
              exact ⟨h.1, h.2.1, by rw [absInto_prim]; exact h.2.2.1, h.2.2.2⟩
          | crash d2 =>
            cases parseItems si (ofs + hd.h + hd.ln) (slice data (ofs + hd.h + hd.ln) lim) <;>
              (intro h; exact h.elim)
          | fuel =>
            cases parseItems si (ofs + hd.h + hd.ln) (slice data (ofs + hd.h + hd.ln) lim) <;>
              (intro h; exact h.elim)
    · have : ofs = lim := by omega
      subst this
      simp only [hlt, not_false_eq_true, if_true]
      rw [slice_nil (Nat.le_refl _), parseItems_nil]
      exact ⟨rfl, (absInto_nil fl dec).symm⟩

end Pyemv.Refine

namespace Pyemv.Refine
open Pyemv Pyemv.Tlv Pyemv.TlvSpec

/-- Top level: `pyemv.tlv.decode` (model) refines the grammar on the whole input. -/
theorem decode_refines (fl si : Bool) (data : Bytes) :
    Refines fl data data.length [] (Tlv.decode fl si data) (parseItems si 0 data) := by
  have h := decodeSeq_refines fl si data (data.length + 1) 0 data.length [] (Nat.le_refl _) (Nat.zero_le _) (by omega)
  have hs : slice data 0 data.length = data := by simp [slice]
  rw [hs] at h
  exact h

end Pyemv.Refine
