import PyemvModel.Tools
/-! # Helper lemmas: big/little-endian conversion and `tools.xor` -/
namespace Pyemv

theorem toBE_length (k n : Nat) : (toBE k n).length = k := by
  induction k generalizing n with
  | zero => rfl
  | succ k ih => simp [toBE, ih]

theorem foldl_acc (bs : Bytes) (a : Nat) :
    bs.foldl (fun a b => 256 * a + b.toNat) a = a * 256 ^ bs.length + bs.foldl (fun a b => 256 * a + b.toNat) 0 := by
  induction bs generalizing a with
  | nil => simp
  | cons b bs ih =>
    simp only [List.foldl_cons, List.length_cons]
    rw [ih (256 * a + b.toNat), ih (256 * 0 + b.toNat), Nat.pow_succ]
    simp only [Nat.mul_zero, Nat.zero_add, Nat.add_mul, Nat.add_assoc]
    congr 1
    ac_rfl

theorem fromBE_cons (b : UInt8) (bs : Bytes) : fromBE (b :: bs) = b.toNat * 256 ^ bs.length + fromBE bs := by
  unfold fromBE
  simp only [List.foldl_cons, Nat.mul_zero, Nat.zero_add]
  exact foldl_acc bs b.toNat

theorem pow256_pos (k : Nat) : 0 < 256 ^ k := Nat.pow_pos (by decide)

theorem fromBE_lt (bs : Bytes) : fromBE bs < 256 ^ bs.length := by
  induction bs with
  | nil => simp [fromBE]
  | cons b bs ih =>
    rw [fromBE_cons, List.length_cons, Nat.pow_succ]
    have hb := b.toNat_lt
    have : b.toNat * 256 ^ bs.length + 256 ^ bs.length ≤ 256 ^ bs.length * 256 := by
      rw [Nat.mul_comm (256 ^ bs.length) 256]
      have : (b.toNat + 1) * 256 ^ bs.length ≤ 256 * 256 ^ bs.length := Nat.mul_le_mul_right _ (by omega)
      rw [Nat.add_mul, Nat.one_mul] at this
      exact this
    omega

theorem fromBE_toBE (k n : Nat) (h : n < 256 ^ k) : fromBE (toBE k n) = n := by
  induction k generalizing n with
  | zero => simp [toBE, fromBE] at *; omega
  | succ k ih =>
    simp only [toBE]
    rw [fromBE_cons, toBE_length, ih (n % 256 ^ k) (Nat.mod_lt _ (pow256_pos k))]
    have hq : n / 256 ^ k < 256 := by
      rw [Nat.div_lt_iff_lt_mul (pow256_pos k)]
      rw [Nat.pow_succ, Nat.mul_comm] at h
      exact h
    have : (UInt8.ofNat (n / 256 ^ k % 256)).toNat = n / 256 ^ k := by
      simp [UInt8.toNat_ofNat', Nat.mod_eq_of_lt hq]
    rw [this, Nat.mul_comm]
    exact Nat.div_add_mod n (256 ^ k)

theorem toBE_fromBE (bs : Bytes) : toBE bs.length (fromBE bs) = bs := by
  induction bs with
  | nil => rfl
  | cons b bs ih =>
    rw [fromBE_cons, List.length_cons]
    simp only [toBE]
    have hF := fromBE_lt bs
    have hp := pow256_pos bs.length
    have h1 : (b.toNat * 256 ^ bs.length + fromBE bs) / 256 ^ bs.length = b.toNat := by
      rw [Nat.mul_comm, Nat.mul_add_div hp, Nat.div_eq_of_lt hF, Nat.add_zero]
    have h2 : (b.toNat * 256 ^ bs.length + fromBE bs) % 256 ^ bs.length = fromBE bs := by
      rw [Nat.mul_comm, Nat.mul_add_mod, Nat.mod_eq_of_lt hF]
    rw [h1, h2, ih, Nat.mod_eq_of_lt b.toNat_lt, UInt8.ofNat_toNat]


/-! ### `tools.xor` through little-endian big integers is the byte-wise xor -/

theorem xor_step (x y : UInt8) (X Y : Nat) :
    ((x.toNat + 256 * X) ^^^ (y.toNat + 256 * Y)) % 256 = (x ^^^ y).toNat ∧
    ((x.toNat + 256 * X) ^^^ (y.toNat + 256 * Y)) / 256 = X ^^^ Y := by
  have hx := x.toNat_lt
  have hy := y.toNat_lt
  constructor
  · have := Nat.xor_mod_two_pow (a := x.toNat + 256 * X) (b := y.toNat + 256 * Y) (n := 8)
    have e : (2:Nat)^8 = 256 := by decide
    rw [e] at this
    rw [this, UInt8.toNat_xor]
    congr 1 <;> omega
  · have := Nat.xor_div_two_pow (a := x.toNat + 256 * X) (b := y.toNat + 256 * Y) (n := 8)
    have e : (2:Nat)^8 = 256 := by decide
    rw [e] at this
    rw [this]
    congr 1 <;> omega

theorem xor_eq_zipWith : ∀ (a b : Bytes), a.length = b.length → xor a b = List.zipWith (· ^^^ ·) a b := by
  intro a
  induction a with
  | nil => intro b _; simp [xor, toLE]
  | cons x xs ih =>
    intro b hb
    cases b with
    | nil => simp at hb
    | cons y ys =>
      have hl : xs.length = ys.length := by simpa using hb
      have ih' := ih ys hl
      unfold xor at ih' ⊢
      simp only [List.length_cons, List.take_succ_cons, fromLE, toLE, List.zipWith_cons_cons]
      obtain ⟨h1, h2⟩ := xor_step x y (fromLE xs) (fromLE (ys.take xs.length))
      rw [h1, h2, ih']
      congr 1
      exact UInt8.ofNat_toNat


theorem xor_eq_xorB (a b : Bytes) (h : a.length = b.length) : xor a b = xorB a b := xor_eq_zipWith a b h

/-! ### … and so it is through big-endian big integers: the result does not depend on the host's byte order -/

theorem pow256_eq (k : Nat) : (256 : Nat) ^ k = 2 ^ (8 * k) := by
  rw [show (256 : Nat) = 2 ^ 8 from rfl, ← Nat.pow_mul]

theorem xorBE_step (x y : UInt8) (X Y n : Nat) (hX : X < 256 ^ n) (hY : Y < 256 ^ n) :
    ((x.toNat * 256 ^ n + X) ^^^ (y.toNat * 256 ^ n + Y)) / 256 ^ n % 256 = (x ^^^ y).toNat ∧
    ((x.toNat * 256 ^ n + X) ^^^ (y.toNat * 256 ^ n + Y)) % 256 ^ n = X ^^^ Y := by
  have hp : 0 < 256 ^ n := Nat.pow_pos (by decide)
  have d1 : (x.toNat * 256 ^ n + X) / 256 ^ n = x.toNat := by
    rw [Nat.mul_comm, Nat.mul_add_div hp, Nat.div_eq_of_lt hX, Nat.add_zero]
  have d2 : (y.toNat * 256 ^ n + Y) / 256 ^ n = y.toNat := by
    rw [Nat.mul_comm, Nat.mul_add_div hp, Nat.div_eq_of_lt hY, Nat.add_zero]
  have m1 : (x.toNat * 256 ^ n + X) % 256 ^ n = X := by
    rw [Nat.mul_comm, Nat.mul_add_mod, Nat.mod_eq_of_lt hX]
  have m2 : (y.toNat * 256 ^ n + Y) % 256 ^ n = Y := by
    rw [Nat.mul_comm, Nat.mul_add_mod, Nat.mod_eq_of_lt hY]
  constructor
  · have := Nat.xor_div_two_pow (a := x.toNat * 256 ^ n + X) (b := y.toNat * 256 ^ n + Y) (n := 8 * n)
    rw [← pow256_eq] at this
    rw [this, d1, d2, UInt8.toNat_xor]
    exact Nat.mod_eq_of_lt (by have := (x ^^^ y).toNat_lt; rwa [UInt8.toNat_xor] at this)
  · have := Nat.xor_mod_two_pow (a := x.toNat * 256 ^ n + X) (b := y.toNat * 256 ^ n + Y) (n := 8 * n)
    rw [← pow256_eq] at this
    rw [this, m1, m2]

/-- on a big-endian host as well, XOR of two equal-length strings is the byte-wise exclusive-or -/
theorem xorBigEndian_eq_zipWith : ∀ (a b : Bytes), a.length = b.length → xorBigEndian a b = List.zipWith (· ^^^ ·) a b := by
  intro a
  induction a with
  | nil => intro b _; simp [xorBigEndian, toBE]
  | cons x xs ih =>
    intro b hb
    cases b with
    | nil => simp at hb
    | cons y ys =>
      have hl : xs.length = ys.length := by simpa using hb
      have ih' := ih ys hl
      unfold xorBigEndian at ih' ⊢
      have ht : (y :: ys).take (x :: xs).length = y :: ys := List.take_of_length_le (by simp [hl])
      have ht' : ys.take xs.length = ys := List.take_of_length_le (by simp [hl])
      rw [ht' ] at ih'
      rw [ht, fromBE_cons, fromBE_cons, List.length_cons, ← hl]
      simp only [toBE, List.zipWith_cons_cons]
      obtain ⟨h1, h2⟩ := xorBE_step x y (fromBE xs) (fromBE ys) xs.length (fromBE_lt xs) (by rw [hl]; exact fromBE_lt ys)
      rw [h1, h2, ih']
      congr 1
      exact UInt8.ofNat_toNat

/-- hence the result does not depend on the host's byte order when the operands have equal lengths -/
theorem xor_host_independent (a b : Bytes) (h : a.length = b.length) : xorBigEndian a b = xor a b := by
  rw [xorBigEndian_eq_zipWith a b h, xor_eq_zipWith a b h]

end Pyemv
