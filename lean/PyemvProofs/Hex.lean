import PyemvProofs.Bytes
/-! # `binascii.a2b_hex` on strings of upper-case hex digits, and its inverse `hex().upper()` -/
namespace Pyemv

def upperHexChars : List Char := "0123456789ABCDEF".toList
def digitChars : List Char := "0123456789".toList

def IsUpperHex (s : PyStr) : Prop := ∀ c ∈ s, c ∈ upperHexChars
def IsDigits (s : PyStr) : Prop := ∀ c ∈ s, c ∈ digitChars

theorem upperHex_table : ∀ c ∈ upperHexChars, ∃ v, v < 16 ∧ hexVal c = some v ∧ hexDigitUpper v = c := by
  decide

theorem digit_table : ∀ c ∈ digitChars, c ∈ upperHexChars ∧ hexVal c = some (c.toNat - 48) ∧ c.toNat - 48 < 10 ∧ c.toNat < 128 := by
  decide

theorem IsDigits.upperHex {s : PyStr} (h : IsDigits s) : IsUpperHex s := fun c hc => (digit_table c (h c hc)).1

theorem IsUpperHex.append {s t : PyStr} (hs : IsUpperHex s) (ht : IsUpperHex t) : IsUpperHex (s ++ t) := by
  intro c hc; rcases List.mem_append.mp hc with h | h
  · exact hs c h
  · exact ht c h

theorem isUpperHex_replicate_F (n : Nat) : IsUpperHex (List.replicate n 'F') := by
  intro c hc; rw [List.eq_of_mem_replicate hc]; decide

theorem isUpperHex_replicate_0 (n : Nat) : IsUpperHex (List.replicate n '0') := by
  intro c hc; rw [List.eq_of_mem_replicate hc]; decide

theorem byte_of_nibbles (a b : Nat) (ha : a < 16) (hb : b < 16) :
    (UInt8.ofNat (16 * a + b)).toNat / 16 = a ∧ (UInt8.ofNat (16 * a + b)).toNat % 16 = b := by
  have : (UInt8.ofNat (16 * a + b)).toNat = 16 * a + b := by
    rw [UInt8.toNat_ofNat']; exact Nat.mod_eq_of_lt (by omega)
  rw [this]; omega

/-- on an even number of upper-case hex digits `a2b_hex` succeeds with half as many bytes, and
`hex().upper()` of the result is the string again -/
theorem a2bHex_upperHex : ∀ (n : Nat) (s : PyStr), s.length = 2 * n → IsUpperHex s →
    ∃ body, a2bHex s = .ok body ∧ body.length = n ∧ hexUpper body = s := by
  intro n
  induction n with
  | zero => intro s hs _; have : s = [] := List.eq_nil_of_length_eq_zero (by omega); subst this; exact ⟨[], rfl, rfl, rfl⟩
  | succ n ih =>
    intro s hs hhex
    match s, hs with
    | h :: l :: rest, hs =>
      obtain ⟨a, ha, hva, hda⟩ := upperHex_table h (hhex h (by simp))
      obtain ⟨b, hb, hvb, hdb⟩ := upperHex_table l (hhex l (by simp))
      obtain ⟨body, he, hl, hx⟩ := ih rest (by simp at hs; omega) (fun c hc => hhex c (by simp [hc]))
      refine ⟨UInt8.ofNat (16 * a + b) :: body, ?_, by simp [hl], ?_⟩
      · simp only [a2bHex, hva, hvb, he, bind, Except.bind, pure, Except.pure]
      · obtain ⟨q, r⟩ := byte_of_nibbles a b ha hb
        simp only [hexUpper, List.flatMap_cons, q, r, hda, hdb] at hx ⊢
        rw [hx]; rfl

theorem hexUpper_length (b : Bytes) : (hexUpper b).length = 2 * b.length := by
  induction b with
  | nil => rfl
  | cons x xs ih => simp only [hexUpper, List.flatMap_cons, List.length_append, List.length_cons, List.length_nil] at ih ⊢; omega

/-- ASCII decoding of the ASCII bytes of a digit string is the string -/
def asciiBytes (s : PyStr) : Bytes := s.map fun c => UInt8.ofNat c.toNat

theorem text_bytes_of_digits (s : PyStr) (h : IsDigits s) : (StrOrBytes.bytes (asciiBytes s)).text = .ok s := by
  have hall : (asciiBytes s).all (· < 128) = true := by
    rw [List.all_eq_true]
    intro x hx
    simp only [asciiBytes, List.mem_map] at hx
    obtain ⟨c, hc, rfl⟩ := hx
    have := (digit_table c (h c hc)).2.2.2
    simp only [decide_eq_true_eq]
    rw [UInt8.lt_iff_toNat_lt, UInt8.toNat_ofNat']
    show c.toNat % 256 < 128
    omega
  simp only [StrOrBytes.text, hall, if_true]
  congr 1
  simp only [asciiBytes, List.map_map]
  conv => rhs; rw [← List.map_id s]
  apply List.map_congr_left
  intro c hc
  have := (digit_table c (h c hc)).2.2.2
  simp only [Function.comp, UInt8.toNat_ofNat', id]
  rw [Nat.mod_eq_of_lt (by omega)]
  exact Char.ofNat_toNat c

theorem asciiBytes_length (s : PyStr) : (asciiBytes s).length = s.length := by simp [asciiBytes]

end Pyemv
