import PyemvProofs.TlvRoundTrip
import PyemvProofs.Bytes
/-! # The encoder's length field: the sizing loop is minimal; the field is the shortest definite form -/
namespace Pyemv.Tlv
open Pyemv Pyemv.TlvSpec Pyemv.RoundTrip

theorem two_pow_gt (k : Nat) : k < 2 ^ (8 * k) := by
  calc k < 2 ^ k := Nat.lt_two_pow_self
    _ ≤ 2 ^ (8 * k) := Nat.pow_le_pow_right (by omega) (by omega)

/-- with enough fuel the loop stops at the least `k ≥ k₀` with `n < 256^k` -/
theorem lenLoop_spec (n : Nat) : ∀ fuel k, n < k + fuel → (∀ j, k ≤ j → j < lenLoop n fuel k → 2 ^ (8 * j) ≤ n) ∧
    k ≤ lenLoop n fuel k ∧ n < 2 ^ (8 * lenLoop n fuel k) := by
  intro fuel
  induction fuel with
  | zero =>
    intro k h
    simp only [lenLoop]
    refine ⟨fun j h1 h2 => by omega, Nat.le_refl _, ?_⟩
    have := two_pow_gt k; omega
  | succ f ih =>
    intro k h
    simp only [lenLoop]
    have hp : 0 < 2 ^ (8 * k) := Nat.pow_pos (by omega)
    split
    · rename_i hgt
      obtain ⟨h1, h2, h3⟩ := ih (k+1) (by omega)
      refine ⟨?_, by omega, h3⟩
      intro j hj hlt
      rcases Nat.lt_or_ge k j with hk | hk
      · exact h1 j (by omega) hlt
      · have : j = k := by omega
        subst this; omega
    · rename_i hle
      exact ⟨fun j h1 h2 => by omega, Nat.le_refl _, by omega⟩

/-- **minimality**: for `n ≥ 128` the number of length bytes `k` satisfies `256^(k-1) ≤ n < 256^k` -/
theorem lenLoop_minimal (n : Nat) (hn : 128 ≤ n) :
    let k := lenLoop n n 1
    1 ≤ k ∧ n < 2 ^ (8 * k) ∧ (k = 1 ∨ 2 ^ (8 * (k - 1)) ≤ n) := by
  obtain ⟨h1, h2, h3⟩ := lenLoop_spec n n 1 (by omega)
  refine ⟨h2, h3, ?_⟩
  rcases Nat.lt_or_ge 1 (lenLoop n n 1) with h | h
  · right; exact h1 _ (by omega) (by omega)
  · left; omega

theorem pow256_eq (k : Nat) : (256 : Nat) ^ k = 2 ^ (8 * k) := by
  rw [show (256 : Nat) = 2 ^ 8 from rfl, ← Nat.pow_mul]

/-- the number of length bytes never exceeds what the value length needs: below `256^127` it is < 128 -/
theorem lenLoop_lt_128 (n : Nat) (hn : 128 ≤ n) (hbig : n < 256 ^ 127) : lenLoop n n 1 < 128 := by
  obtain ⟨_, _, h3⟩ := lenLoop_minimal n hn
  apply Nat.lt_of_not_le
  intro hge
  rcases h3 with h | h
  · omega
  · have : 2 ^ (8 * 127) ≤ 2 ^ (8 * (lenLoop n n 1 - 1)) := Nat.pow_le_pow_right (by omega) (by omega)
    rw [pow256_eq] at hbig
    omega

theorem byte_or_80 (k : Nat) (hk : k < 128) :
    UInt8.ofNat (k ||| 0x80) &&& 0x80 ≠ 0 ∧ (UInt8.ofNat (k ||| 0x80) &&& 0x7F).toNat = k := by
  have h : ∀ k : Fin 128, UInt8.ofNat (k.val ||| 0x80) &&& 0x80 ≠ 0 ∧ (UInt8.ofNat (k.val ||| 0x80) &&& 0x7F).toNat = k.val := by
    decide +kernel
  exact h ⟨k, hk⟩

theorem byte_small (n : Nat) (hn : n < 128) : UInt8.ofNat n &&& 0x80 = 0 ∧ (UInt8.ofNat n).toNat = n := by
  have h : ∀ k : Fin 128, UInt8.ofNat k.val &&& 0x80 = 0 ∧ (UInt8.ofNat k.val).toNat = k.val := by decide +kernel
  exact h ⟨n, hn⟩

theorem toBE_1 (n : Nat) : toBE 1 n = [UInt8.ofNat (n % 256)] := by simp [toBE]

/-- every length field the encoder writes is one the decoder accepts for that value length -/
theorem lenField_valid (si : Bool) (n : Nat) (l : Bytes) (hbig : si = false → n < 256 ^ 127) (h : lenField si n = some l) :
    ValidLen si l n := by
  unfold lenField at h
  by_cases h1 : (decide (n > 255) && si) = true
  · simp [h1] at h
  · simp only [h1, Bool.false_eq_true, if_false] at h
    by_cases h2 : (decide (n > 127) && !si) = true
    · simp only [h2, if_true, Option.some.injEq] at h
      have hn : 128 ≤ n := by simp at h2; omega
      have hsi : si = false := by simp at h2; exact h2.2
      obtain ⟨k1, klt, _⟩ := lenLoop_minimal n hn
      have k128 := lenLoop_lt_128 n hn (hbig hsi)
      obtain ⟨b1, b2⟩ := byte_or_80 _ k128
      right
      refine ⟨hsi, _, _, h.symm, b1, ?_, ?_⟩
      · rw [b2, toBE_length]
      · exact fromBE_toBE _ _ (by rw [pow256_eq]; exact klt)
    · simp only [h2, Bool.false_eq_true, if_false, Option.some.injEq] at h
      left
      have hn : n ≤ 255 ∨ si = false := by
        simp at h1; rcases Nat.lt_or_ge 255 n with hh | hh
        · right; exact h1 hh
        · left; exact hh
      have hn2 : n ≤ 127 ∨ si = true := by
        simp at h2; rcases Nat.lt_or_ge 127 n with hh | hh
        · right; exact h2 hh
        · left; exact hh
      have hlt : n < 256 := by
        rcases hn with a | a
        · omega
        · rcases hn2 with b | b
          · omega
          · rw [a] at b; cases b
      refine ⟨UInt8.ofNat n, ?_, ?_, ?_⟩
      · rw [← h, toBE_1, Nat.mod_eq_of_lt hlt]
      · rw [UInt8.toNat_ofNat']; exact Nat.mod_eq_of_lt hlt
      · rcases hn2 with b | b
        · right; exact (byte_small n (by omega)).1
        · left; exact b

/-- in simple mode exactly the values above 255 bytes are refused; otherwise nothing is refused -/
theorem lenField_none_iff (si : Bool) (n : Nat) : lenField si n = none ↔ (si = true ∧ n > 255) := by
  unfold lenField
  by_cases h1 : (decide (n > 255) && si) = true
  · simp only [h1, if_true, true_iff]; simp at h1; exact ⟨h1.2, h1.1⟩
  · simp only [h1, Bool.false_eq_true, if_false]
    constructor
    · intro h; split at h <;> cases h
    · rintro ⟨a, b⟩; simp [a, b] at h1

/-! ### the Spec's shortest definite length -/

/-- number of base-256 digits of `n` -/
def byteLen (n : Nat) : Nat := if h : n = 0 then 0 else byteLen (n / 256) + 1
termination_by n
decreasing_by omega

theorem byteLen_spec : ∀ (n : Nat), 0 < n → 256 ^ (byteLen n - 1) ≤ n ∧ n < 256 ^ byteLen n := by
  intro n
  induction n using Nat.strongRecOn with
  | _ n ih =>
    intro hn
    rw [byteLen]
    simp only [show ¬ n = 0 by omega, dite_false, Nat.add_sub_cancel]
    by_cases hq : n / 256 = 0
    · rw [hq, byteLen]; simp; omega
    · obtain ⟨a, b⟩ := ih (n / 256) (by omega) (by omega)
      have hb : 1 ≤ byteLen (n / 256) := by
        rw [byteLen]; simp [hq]
      constructor
      · have : 256 ^ byteLen (n / 256) = 256 ^ (byteLen (n / 256) - 1) * 256 := by
          rw [← Nat.pow_succ]; congr 1; omega
        rw [this]
        calc 256 ^ (byteLen (n / 256) - 1) * 256 ≤ (n / 256) * 256 := Nat.mul_le_mul_right _ a
          _ ≤ n := Nat.div_mul_le_self n 256
      · rw [Nat.pow_succ]
        have := Nat.lt_mul_of_div_lt b (by omega : 0 < 256)
        omega

/-- EMV Book 3 Annex B shortest definite length: one byte up to 127, otherwise `0x80 + k` followed by
the `k`-byte minimal big-endian length; in simple mode always one byte -/
def berLen (si : Bool) (n : Nat) : Bytes :=
  if si || decide (n < 128) then [UInt8.ofNat n] else UInt8.ofNat (0x80 + byteLen n) :: toBE (byteLen n) n

theorem pow_lt_pow_cancel {a b : Nat} (h : 256 ^ a < 256 ^ b) : a < b := by
  apply Nat.lt_of_not_le
  intro hle
  have := Nat.pow_le_pow_right (show 0 < 256 by omega) hle
  omega

theorem lenLoop_eq_byteLen (n : Nat) (hn : 128 ≤ n) : lenLoop n n 1 = byteLen n := by
  obtain ⟨k1, klt, kmin⟩ := lenLoop_minimal n hn
  obtain ⟨a, b⟩ := byteLen_spec n (by omega)
  rw [← pow256_eq] at klt
  have hb1 : 1 ≤ byteLen n := by
    apply Nat.lt_of_not_le; intro h
    have : byteLen n = 0 := by omega
    rw [this] at b; simp at b; omega
  -- both k satisfy 256^(k-1) ≤ n < 256^k
  have u1 : byteLen n - 1 < lenLoop n n 1 := pow_lt_pow_cancel (Nat.lt_of_le_of_lt a klt)
  have u2 : lenLoop n n 1 - 1 < byteLen n := by
    rcases kmin with h | h
    · omega
    · rw [← pow256_eq] at h; exact pow_lt_pow_cancel (Nat.lt_of_le_of_lt h b)
  omega

theorem or_80_eq_add (k : Nat) (hk : k < 128) : k ||| 0x80 = 0x80 + k := by
  have h : ∀ k : Fin 128, k.val ||| 0x80 = 0x80 + k.val := by decide +kernel
  exact h ⟨k, hk⟩

/-- **canonical**: the encoder's length field is the shortest definite length -/
theorem lenField_canonical (si : Bool) (n : Nat) (l : Bytes) (hbig : si = false → n < 256 ^ 127) (h : lenField si n = some l) :
    l = berLen si n := by
  unfold lenField at h
  unfold berLen
  by_cases h1 : (decide (n > 255) && si) = true
  · simp [h1] at h
  · simp only [h1, Bool.false_eq_true, if_false] at h
    by_cases h2 : (decide (n > 127) && !si) = true
    · simp only [h2, if_true, Option.some.injEq] at h
      have hn : 128 ≤ n := by simp at h2; omega
      have hsi : si = false := by simp at h2; exact h2.2
      have : (si || decide (n < 128)) = false := by simp [hsi]; omega
      simp only [this, Bool.false_eq_true, if_false]
      rw [← h, lenLoop_eq_byteLen n hn, or_80_eq_add _ (by rw [← lenLoop_eq_byteLen n hn]; exact lenLoop_lt_128 n hn (hbig hsi))]
    · simp only [h2, Bool.false_eq_true, if_false, Option.some.injEq] at h
      have hn2 : n ≤ 127 ∨ si = true := by
        simp at h2; rcases Nat.lt_or_ge 127 n with hh | hh
        · right; exact h2 hh
        · left; exact hh
      have hlt : n < 256 := by
        simp at h1
        rcases hn2 with b | b
        · omega
        · rcases Nat.lt_or_ge 255 n with hh | hh
          · have := h1 hh; rw [b] at this; cases this
          · omega
      have : (si || decide (n < 128)) = true := by
        rcases hn2 with b | b
        · simp; right; omega
        · simp [b]
      simp only [this, if_true]
      rw [← h, toBE_1, Nat.mod_eq_of_lt hlt]

end Pyemv.Tlv
