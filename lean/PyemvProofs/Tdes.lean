import PyemvProofs.Mac
/-! # The TDES helpers of tools.py under a 16-byte key, in terms of the Spec's `tdesE` -/
namespace Pyemv
open Spec

theorem encryptTdesEcb_16 (K d : Bytes) (hK : K.length = 16) :
    encryptTdesEcb K d = .ok (ecbUpdate (tdesE K) d) := by
  unfold encryptTdesEcb
  simp only [tdesKeys_16 K hK, encBlock_16, bind, Except.bind, pure, Except.pure]

theorem encryptTdesCbc_16 (K iv d : Bytes) (hK : K.length = 16) (hiv : iv.length = 8) :
    encryptTdesCbc K iv d = .ok (cbcEncUpdate (tdesE K) iv d).1 := by
  unfold encryptTdesCbc
  simp only [tdesKeys_16 K hK, encBlock_16, hiv, ne_eq, not_true_eq_false, if_false, bind, Except.bind, pure, Except.pure]

theorem zeros_length (n : Nat) : (zeros n).length = n := by simp [zeros]

theorem tdesE_length (K b : Bytes) : (tdesE K b).length = 8 := desE_length _ _
theorem tdesD_length (K b : Bytes) : (tdesD K b).length = 8 := desD_length _ _

theorem ecbUpdate_one (f : Bytes → Bytes) (a : Bytes) (ha : a.length = 8) : ecbUpdate f a = f a := by
  simp [ecbUpdate, blocks8_single a ha]

theorem ecbUpdate_two (f : Bytes → Bytes) (a b : Bytes) (ha : a.length = 8) (hb : b.length = 8) :
    ecbUpdate f (a ++ b) = f a ++ f b := by
  simp [ecbUpdate, blocks8_append a b ha, blocks8_single b hb]

/-- two whole blocks under a 16-byte key: ECB is `T K B₁ ‖ T K B₂` -/
theorem ecb_two_blocks (K a b : Bytes) (hK : K.length = 16) (ha : a.length = 8) (hb : b.length = 8) :
    encryptTdesEcb K (a ++ b) = .ok (tdesE K a ++ tdesE K b) := by
  rw [encryptTdesEcb_16 K _ hK, ecbUpdate_two _ a b ha hb]

theorem cbc_one_block_zero_iv (f : Bytes → Bytes) (x : Bytes) (hx : x.length = 8) :
    (cbcEncUpdate f (zeros 8) x).1 = f x := by
  simp [cbcEncUpdate, blocks8_single x hx, cbcEncBlocks, xorB_zeros x 8 hx]

/-- the block laws of the concrete DES, lifted to the Spec's two-key TDES -/
theorem tdesD_tdesE (K b : Bytes) (hb : b.length = 8) : tdesD K (tdesE K b) = b := by
  rw [← encBlock_16, ← decBlock_16]; exact decBlock_encBlock _ b hb

theorem tdesE_tdesD (K b : Bytes) (hb : b.length = 8) : tdesE K (tdesD K b) = b := by
  rw [← encBlock_16, ← decBlock_16]; exact encBlock_decBlock _ b hb

theorem desD_desE (k b : Bytes) (hb : b.length = 8) : desD k (desE k b) = b := by
  rw [← encBlock_8, ← decBlock_8]; exact decBlock_encBlock _ b hb

theorem xor_length (a b : Bytes) : (xor a b).length = a.length := by
  unfold xor
  have : ∀ k n, (toLE k n).length = k := by
    intro k; induction k with
    | zero => intro n; rfl
    | succ k ih => intro n; simp [toLE, ih]
  exact this _ _

end Pyemv
