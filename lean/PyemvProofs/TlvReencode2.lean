import PyemvProofs.TlvReencode
import PyemvProofs.TlvParseSound
/-!
# Re-encoding any decoded tree

An invariant of decoded dictionaries (`Good`): distinct keys, every key a valid tag whose bit 6 matches the
node kind, sizes the length field can express.  Decoding establishes it; under it, encoding the tree succeeds,
decodes back to the same dictionary, and is no longer than the input.
-/
namespace Pyemv.Tlv
open Pyemv Pyemv.TlvSpec Pyemv.RoundTrip Pyemv.Refine

/-! ### Dict.set on a cons -/

theorem set_cons_eq (k : Bytes) (v w : Node) (rest : Dict) : Dict.set ((k, v) :: rest) k w = (k, w) :: rest.map (fun p => if p.1 == k then (k, w) else p) := by
  simp [Dict.set]

theorem set_cons_ne (h : Bytes × Node) (rest : Dict) (k : Bytes) (w : Node) (hne : h.1 ≠ k) :
    Dict.set (h :: rest) k w = h :: Dict.set rest k w := by
  have hb : (h.1 == k) = false := by simpa using hne
  unfold Dict.set
  simp only [List.any_cons, hb, Bool.false_or, List.map_cons, Bool.false_eq_true, if_false]
  split <;> simp

theorem set_keys (d : Dict) (k : Bytes) (w : Node) : ∀ p ∈ Dict.set d k w, p.1 = k ∨ ∃ q ∈ d, q.1 = p.1 := by
  intro p hp
  unfold Dict.set at hp
  split at hp
  · simp only [List.mem_map] at hp
    obtain ⟨q, hq, rfl⟩ := hp
    by_cases h : (q.1 == k) = true
    · simp [h]
    · simp only [h, Bool.false_eq_true, if_false]; exact Or.inr ⟨q, hq, rfl⟩
  · rcases List.mem_append.mp hp with h | h
    · exact Or.inr ⟨p, h, rfl⟩
    · simp at h; subst h; exact Or.inl rfl

theorem map_id_of_absent (rest : Dict) (k : Bytes) (w : Node) (h : ∀ p ∈ rest, p.1 ≠ k) :
    rest.map (fun p => if p.1 == k then (k, w) else p) = rest := by
  conv => rhs; rw [← List.map_id rest]
  apply List.map_congr_left
  intro p hp
  have : (p.1 == k) = false := by simpa using h p hp
  simp [this]

/-! ### the canonical CST of a dictionary -/

mutual
def itemOfNode (si : Bool) (t : Bytes) : Node → Item
  | .prim v => .prim t (berLen si v.length) v
  | .cons kids => .cons t (berLen si (printItems (itemsOfDict si kids)).length) (itemsOfDict si kids)
def itemOfEntry (si : Bool) : Bytes × Node → Item
  | (t, n) => itemOfNode si t n
def itemsOfDict (si : Bool) : List (Bytes × Node) → List Item
  | [] => []
  | e :: rest => itemOfEntry si e :: itemsOfDict si rest
end

/-- size of the canonical encoding of a dictionary -/
def encSize (si : Bool) (d : Dict) : Nat := (printItems (itemsOfDict si d)).length

/-- a value length the length field can express in this mode -/
def LenOk (si : Bool) (n : Nat) : Prop := (si = true → n ≤ 255) ∧ (si = false → n < 256 ^ 127)

inductive Good (si : Bool) : Dict → Prop
  | nil : Good si []
  | prim {t v rest} : ValidTag t → t.headD 0 &&& 0x20 = 0 → LenOk si v.length → (∀ p ∈ rest, p.1 ≠ t) → Good si rest →
      Good si ((t, .prim v) :: rest)
  | cons {t kids rest} : ValidTag t → t.headD 0 &&& 0x20 ≠ 0 → Good si kids → LenOk si (encSize si kids) →
      (∀ p ∈ rest, p.1 ≠ t) → Good si rest → Good si ((t, .cons kids) :: rest)

theorem berLen_valid (si : Bool) (n : Nat) (h : LenOk si n) : ValidLen si (berLen si n) n := by
  obtain ⟨l, hl⟩ := lenField_some si n h.1
  have := lenField_canonical si n l h.2 hl
  rw [← this]
  exact lenField_valid si n l h.2 hl

theorem itemTag_itemOfEntry (si : Bool) (e : Bytes × Node) : itemTag (itemOfEntry si e) = e.1 := by
  obtain ⟨t, n⟩ := e
  cases n <;> simp [itemOfEntry, itemOfNode, itemTag]

theorem mem_itemsOfDict (si : Bool) (d : Dict) : ∀ i ∈ itemsOfDict si d, ∃ e ∈ d, i = itemOfEntry si e := by
  induction d with
  | nil => intro i hi; simp [itemsOfDict] at hi
  | cons e rest ih =>
    intro i hi
    simp only [itemsOfDict, List.mem_cons] at hi
    rcases hi with rfl | hi
    · exact ⟨e, by simp, rfl⟩
    · obtain ⟨e', he', rfl⟩ := ih i hi; exact ⟨e', by simp [he'], rfl⟩

/-- under the invariant the canonical CST is well-formed, canonical and has distinct tags; it denotes the
same tree as the dictionary and folds back to the dictionary -/
theorem good_items (si : Bool) (d : Dict) (h : Good si d) :
    (∀ i ∈ itemsOfDict si d, WF si i) ∧ CanonLens si (itemsOfDict si d) ∧ Distinct (itemsOfDict si d) ∧
    treeOfItems (itemsOfDict si d) = treeOfDict d ∧
    (∀ dec : Dict, (∀ p ∈ dec, ∀ q ∈ d, q.1 ≠ p.1) → absNested dec (itemsOfDict si d) = dec ++ d) := by
  induction h with
  | nil =>
    refine ⟨by simp [itemsOfDict], by simp only [itemsOfDict]; exact CanonLens.nil, by simp only [itemsOfDict]; exact Distinct.nil,
      by simp [itemsOfDict, treeOfItems, treeOfDict], ?_⟩
    intro dec _; simp [itemsOfDict, absNested]
  | @prim t v rest hvt hp hl hne _ ih =>
    obtain ⟨w, c, dd, tr, ab⟩ := ih
    have hne' : ∀ i ∈ itemsOfDict si rest, itemTag i ≠ t := by
      intro i hi; obtain ⟨e, he, rfl⟩ := mem_itemsOfDict si rest i hi
      rw [itemTag_itemOfEntry]; exact hne e he
    refine ⟨?_, ?_, ?_, ?_, ?_⟩
    · intro i hi
      simp only [itemsOfDict, itemOfEntry, itemOfNode, List.mem_cons] at hi
      rcases hi with rfl | hi
      · exact WF.prim hvt hp (berLen_valid si _ hl)
      · exact w i hi
    · simp only [itemsOfDict, itemOfEntry, itemOfNode]; exact CanonLens.prim rfl c
    · simp only [itemsOfDict, itemOfEntry, itemOfNode]; exact Distinct.prim hne' dd
    · simp only [itemsOfDict, itemOfEntry, itemOfNode, treeOfItems, treeOfItem, treeOfDict, treeOfEntry, treeOfNode, tr]
    · intro dec hdis
      simp only [itemsOfDict, itemOfEntry, itemOfNode, absNested]
      rw [set_absent dec t (Node.prim v) (fun p hp' => (hdis p hp' (t, .prim v) (by simp)).symm)]
      rw [ab (dec ++ [(t, Node.prim v)])]
      · simp
      · intro p hp' q hq
        rcases List.mem_append.mp hp' with a | a
        · exact hdis p a q (by simp [hq])
        · simp at a; subst a; exact hne q hq
  | @cons t kids rest hvt hp _ hl hne _ ihk ih =>
    obtain ⟨w, c, dd, tr, ab⟩ := ih
    obtain ⟨wk, ck, dk, trk, abk⟩ := ihk
    have hne' : ∀ i ∈ itemsOfDict si rest, itemTag i ≠ t := by
      intro i hi; obtain ⟨e, he, rfl⟩ := mem_itemsOfDict si rest i hi
      rw [itemTag_itemOfEntry]; exact hne e he
    refine ⟨?_, ?_, ?_, ?_, ?_⟩
    · intro i hi
      simp only [itemsOfDict, itemOfEntry, itemOfNode, List.mem_cons] at hi
      rcases hi with rfl | hi
      · exact WF.cons hvt hp wk (berLen_valid si _ hl)
      · exact w i hi
    · simp only [itemsOfDict, itemOfEntry, itemOfNode]; exact CanonLens.cons rfl ck c
    · simp only [itemsOfDict, itemOfEntry, itemOfNode]; exact Distinct.cons hne' dk dd
    · simp only [itemsOfDict, itemOfEntry, itemOfNode, treeOfItems, treeOfItem, treeOfDict, treeOfEntry, treeOfNode, tr, trk]
    · intro dec hdis
      simp only [itemsOfDict, itemOfEntry, itemOfNode, absNested]
      have hk := abk [] (by intro p hp'; cases hp')
      simp only [List.nil_append] at hk
      rw [hk, set_absent dec t (Node.cons kids) (fun p hp' => (hdis p hp' (t, .cons kids) (by simp)).symm)]
      rw [ab (dec ++ [(t, Node.cons kids)])]
      · simp
      · intro p hp' q hq
        rcases List.mem_append.mp hp' with a | a
        · exact hdis p a q (by simp [hq])
        · simp at a; subst a; exact hne q hq

end Pyemv.Tlv

namespace Pyemv.Tlv
open Pyemv Pyemv.TlvSpec Pyemv.RoundTrip Pyemv.Refine

/-- an entry that may be stored in a `Good` dictionary -/
inductive GoodEntry (si : Bool) : Bytes → Node → Prop
  | prim {t v} : ValidTag t → t.headD 0 &&& 0x20 = 0 → LenOk si v.length → GoodEntry si t (.prim v)
  | cons {t kids} : ValidTag t → t.headD 0 &&& 0x20 ≠ 0 → Good si kids → LenOk si (encSize si kids) →
      GoodEntry si t (.cons kids)

theorem good_cons_of_entry {si : Bool} {t : Bytes} {n : Node} {rest : Dict} (he : GoodEntry si t n)
    (hne : ∀ p ∈ rest, p.1 ≠ t) (hr : Good si rest) : Good si ((t, n) :: rest) := by
  cases he with
  | prim a b c => exact Good.prim a b c hne hr
  | cons a b c d => exact Good.cons a b c d hne hr

/-- storing a good entry keeps the invariant (replacement in place, or append) -/
theorem good_set {si : Bool} {d : Dict} (hd : Good si d) {t : Bytes} {n : Node} (he : GoodEntry si t n) :
    Good si (Dict.set d t n) := by
  induction hd with
  | nil =>
    have : Dict.set [] t n = [(t, n)] := by simp [Dict.set]
    rw [this]; exact good_cons_of_entry he (by intro p hp; cases hp) Good.nil
  | @prim t' v rest hvt hp hl hne hr ih =>
    by_cases h : t' = t
    · subst h
      rw [set_cons_eq, map_id_of_absent rest t' n hne]
      exact good_cons_of_entry he hne hr
    · rw [set_cons_ne (t', Node.prim v) rest t n h]
      refine Good.prim hvt hp hl ?_ ih
      intro p hp'
      rcases set_keys rest t n p hp' with a | ⟨q, hq, hqe⟩
      · rw [a]; exact fun e => h e.symm
      · rw [← hqe]; exact hne q hq
  | @cons t' kids rest hvt hp hk hl hne hr _ ih =>
    by_cases h : t' = t
    · subst h
      rw [set_cons_eq, map_id_of_absent rest t' n hne]
      exact good_cons_of_entry he hne hr
    · rw [set_cons_ne (t', Node.cons kids) rest t n h]
      refine Good.cons hvt hp hk hl ?_ ih
      intro p hp'
      rcases set_keys rest t n p hp' with a | ⟨q, hq, hqe⟩
      · rw [a]; exact fun e => h e.symm
      · rw [← hqe]; exact hne q hq

end Pyemv.Tlv
