import PyemvProofs.TlvReencode
import PyemvProofs.TlvParseSound
/-!
# Re-encoding any decoded tree

An invariant of decoded dictionaries (`Good`): distinct keys, every key a valid tag whose bit 6 matches the
node kind, sizes the length field can express.  Decoding establishes it; under it, encoding the tree succeeds,
decodes back to the same dictionary, and is no longer than the input.
-/
namespace Pyemv.Tlv
open Pyemv Pyemv.TlvSpec Pyemv.RoundTrip Pyemv.Refine

/-! ### Dict.set on a cons -/

theorem set_cons_eq (k : Bytes) (v w : Node) (rest : Dict) : Dict.set ((k, v) :: rest) k w = (k, w) :: rest.map (fun p => if p.1 == k then (k, w) else p) := by
  simp [Dict.set]

theorem set_cons_ne (h : Bytes × Node) (rest : Dict) (k : Bytes) (w : Node) (hne : h.1 ≠ k) :
    Dict.set (h :: rest) k w = h :: Dict.set rest k w := by
  have hb : (h.1 == k) = false := by simpa using hne
  unfold Dict.set
  simp only [List.any_cons, hb, Bool.false_or, List.map_cons, Bool.false_eq_true, if_false]
  split <;> simp

theorem set_keys (d : Dict) (k : Bytes) (w : Node) : ∀ p ∈ Dict.set d k w, p.1 = k ∨ ∃ q ∈ d, q.1 = p.1 := by
  intro p hp
  unfold Dict.set at hp
  split at hp
  · simp only [List.mem_map] at hp
    obtain ⟨q, hq, rfl⟩ := hp
    by_cases h : (q.1 == k) = true
    · simp [h]
    · simp only [h, Bool.false_eq_true, if_false]; exact Or.inr ⟨q, hq, rfl⟩
  · rcases List.mem_append.mp hp with h | h
    · exact Or.inr ⟨p, h, rfl⟩
    · simp at h; subst h; exact Or.inl rfl

theorem map_id_of_absent (rest : Dict) (k : Bytes) (w : Node) (h : ∀ p ∈ rest, p.1 ≠ k) :
    rest.map (fun p => if p.1 == k then (k, w) else p) = rest := by
  conv => rhs; rw [← List.map_id rest]
  apply List.map_congr_left
  intro p hp
  have : (p.1 == k) = false := by simpa using h p hp
  simp [this]

/-! ### the canonical CST of a dictionary -/

mutual
def itemOfNode (si : Bool) (t : Bytes) : Node → Item
  | .prim v => .prim t (berLen si v.length) v
  | .cons kids => .cons t (berLen si (printItems (itemsOfDict si kids)).length) (itemsOfDict si kids)
def itemOfEntry (si : Bool) : Bytes × Node → Item
  | (t, n) => itemOfNode si t n
def itemsOfDict (si : Bool) : List (Bytes × Node) → List Item
  | [] => []
  | e :: rest => itemOfEntry si e :: itemsOfDict si rest
end

/-- size of the canonical encoding of a dictionary -/
def encSize (si : Bool) (d : Dict) : Nat := (printItems (itemsOfDict si d)).length

/-- a value length the length field can express in this mode -/
def LenOk (si : Bool) (n : Nat) : Prop := (si = true → n ≤ 255) ∧ (si = false → n < 256 ^ 127)

inductive Good (si : Bool) : Dict → Prop
  | nil : Good si []
  | prim {t v rest} : ValidTag t → t.headD 0 &&& 0x20 = 0 → LenOk si v.length → (∀ p ∈ rest, p.1 ≠ t) → Good si rest →
      Good si ((t, .prim v) :: rest)
  | cons {t kids rest} : ValidTag t → t.headD 0 &&& 0x20 ≠ 0 → Good si kids → LenOk si (encSize si kids) →
      (∀ p ∈ rest, p.1 ≠ t) → Good si rest → Good si ((t, .cons kids) :: rest)

theorem berLen_valid (si : Bool) (n : Nat) (h : LenOk si n) : ValidLen si (berLen si n) n := by
  obtain ⟨l, hl⟩ := lenField_some si n h.1
  have := lenField_canonical si n l h.2 hl
  rw [← this]
  exact lenField_valid si n l h.2 hl

theorem itemTag_itemOfEntry (si : Bool) (e : Bytes × Node) : itemTag (itemOfEntry si e) = e.1 := by
  obtain ⟨t, n⟩ := e
  cases n <;> simp [itemOfEntry, itemOfNode, itemTag]

theorem mem_itemsOfDict (si : Bool) (d : Dict) : ∀ i ∈ itemsOfDict si d, ∃ e ∈ d, i = itemOfEntry si e := by
  induction d with
  | nil => intro i hi; simp [itemsOfDict] at hi
  | cons e rest ih =>
    intro i hi
    simp only [itemsOfDict, List.mem_cons] at hi
    rcases hi with rfl | hi
    · exact ⟨e, by simp, rfl⟩
    · obtain ⟨e', he', rfl⟩ := ih i hi; exact ⟨e', by simp [he'], rfl⟩

/-- under the invariant the canonical CST is well-formed, canonical and has distinct tags; it denotes the
same tree as the dictionary and folds back to the dictionary -/
theorem good_items (si : Bool) (d : Dict) (h : Good si d) :
    (∀ i ∈ itemsOfDict si d, WF si i) ∧ CanonLens si (itemsOfDict si d) ∧ Distinct (itemsOfDict si d) ∧
    treeOfItems (itemsOfDict si d) = treeOfDict d ∧
    (∀ dec : Dict, (∀ p ∈ dec, ∀ q ∈ d, q.1 ≠ p.1) → absNested dec (itemsOfDict si d) = dec ++ d) := by
  induction h with
  | nil =>
    refine ⟨by simp [itemsOfDict], by simp only [itemsOfDict]; exact CanonLens.nil, by simp only [itemsOfDict]; exact Distinct.nil,
      by simp [itemsOfDict, treeOfItems, treeOfDict], ?_⟩
    intro dec _; simp [itemsOfDict, absNested]
  | @prim t v rest hvt hp hl hne _ ih =>
    obtain ⟨w, c, dd, tr, ab⟩ := ih
    have hne' : ∀ i ∈ itemsOfDict si rest, itemTag i ≠ t := by
      intro i hi; obtain ⟨e, he, rfl⟩ := mem_itemsOfDict si rest i hi
      rw [itemTag_itemOfEntry]; exact hne e he
    refine ⟨?_, ?_, ?_, ?_, ?_⟩
    · intro i hi
      simp only [itemsOfDict, itemOfEntry, itemOfNode, List.mem_cons] at hi
      rcases hi with rfl | hi
      · exact WF.prim hvt hp (berLen_valid si _ hl)
      · exact w i hi
    · simp only [itemsOfDict, itemOfEntry, itemOfNode]; exact CanonLens.prim rfl c
    · simp only [itemsOfDict, itemOfEntry, itemOfNode]; exact Distinct.prim hne' dd
    · simp only [itemsOfDict, itemOfEntry, itemOfNode, treeOfItems, treeOfItem, treeOfDict, treeOfEntry, treeOfNode, tr]
    · intro dec hdis
      simp only [itemsOfDict, itemOfEntry, itemOfNode, absNested]
      rw [set_absent dec t (Node.prim v) (fun p hp' => (hdis p hp' (t, .prim v) (by simp)).symm)]
      rw [ab (dec ++ [(t, Node.prim v)])]
      · simp
      · intro p hp' q hq
        rcases List.mem_append.mp hp' with a | a
        · exact hdis p a q (by simp [hq])
        · simp at a; subst a; exact hne q hq
  | @cons t kids rest hvt hp _ hl hne _ ihk ih =>
    obtain ⟨w, c, dd, tr, ab⟩ := ih
    obtain ⟨wk, ck, dk, trk, abk⟩ := ihk
    have hne' : ∀ i ∈ itemsOfDict si rest, itemTag i ≠ t := by
      intro i hi; obtain ⟨e, he, rfl⟩ := mem_itemsOfDict si rest i hi
      rw [itemTag_itemOfEntry]; exact hne e he
    refine ⟨?_, ?_, ?_, ?_, ?_⟩
    · intro i hi
      simp only [itemsOfDict, itemOfEntry, itemOfNode, List.mem_cons] at hi
      rcases hi with rfl | hi
      · exact WF.cons hvt hp wk (berLen_valid si _ hl)
      · exact w i hi
    · simp only [itemsOfDict, itemOfEntry, itemOfNode]; exact CanonLens.cons rfl ck c
    · simp only [itemsOfDict, itemOfEntry, itemOfNode]; exact Distinct.cons hne' dk dd
    · simp only [itemsOfDict, itemOfEntry, itemOfNode, treeOfItems, treeOfItem, treeOfDict, treeOfEntry, treeOfNode, tr, trk]
    · intro dec hdis
      simp only [itemsOfDict, itemOfEntry, itemOfNode, absNested]
      have hk := abk [] (by intro p hp'; cases hp')
      simp only [List.nil_append] at hk
      rw [hk, set_absent dec t (Node.cons kids) (fun p hp' => (hdis p hp' (t, .cons kids) (by simp)).symm)]
      rw [ab (dec ++ [(t, Node.cons kids)])]
      · simp
      · intro p hp' q hq
        rcases List.mem_append.mp hp' with a | a
        · exact hdis p a q (by simp [hq])
        · simp at a; subst a; exact hne q hq

end Pyemv.Tlv

namespace Pyemv.Tlv
open Pyemv Pyemv.TlvSpec Pyemv.RoundTrip Pyemv.Refine

/-- an entry that may be stored in a `Good` dictionary -/
inductive GoodEntry (si : Bool) : Bytes → Node → Prop
  | prim {t v} : ValidTag t → t.headD 0 &&& 0x20 = 0 → LenOk si v.length → GoodEntry si t (.prim v)
  | cons {t kids} : ValidTag t → t.headD 0 &&& 0x20 ≠ 0 → Good si kids → LenOk si (encSize si kids) →
      GoodEntry si t (.cons kids)

theorem good_cons_of_entry {si : Bool} {t : Bytes} {n : Node} {rest : Dict} (he : GoodEntry si t n)
    (hne : ∀ p ∈ rest, p.1 ≠ t) (hr : Good si rest) : Good si ((t, n) :: rest) := by
  cases he with
  | prim a b c => exact Good.prim a b c hne hr
  | cons a b c d => exact Good.cons a b c d hne hr

/-- storing a good entry keeps the invariant (replacement in place, or append) -/
theorem good_set {si : Bool} {d : Dict} (hd : Good si d) {t : Bytes} {n : Node} (he : GoodEntry si t n) :
    Good si (Dict.set d t n) := by
  induction hd with
  | nil =>
    have : Dict.set [] t n = [(t, n)] := by simp [Dict.set]
    rw [this]; exact good_cons_of_entry he (by intro p hp; cases hp) Good.nil
  | @prim t' v rest hvt hp hl hne hr ih =>
    by_cases h : t' = t
    · subst h
      rw [set_cons_eq, map_id_of_absent rest t' n hne]
      exact good_cons_of_entry he hne hr
    · rw [set_cons_ne (t', Node.prim v) rest t n h]
      refine Good.prim hvt hp hl ?_ ih
      intro p hp'
      rcases set_keys rest t n p hp' with a | ⟨q, hq, hqe⟩
      · rw [a]; exact fun e => h e.symm
      · rw [← hqe]; exact hne q hq
  | @cons t' kids rest hvt hp hk hl hne hr _ ih =>
    by_cases h : t' = t
    · subst h
      rw [set_cons_eq, map_id_of_absent rest t' n hne]
      exact good_cons_of_entry he hne hr
    · rw [set_cons_ne (t', Node.cons kids) rest t n h]
      refine Good.cons hvt hp hk hl ?_ ih
      intro p hp'
      rcases set_keys rest t n p hp' with a | ⟨q, hq, hqe⟩
      · rw [a]; exact fun e => h e.symm
      · rw [← hqe]; exact hne q hq

end Pyemv.Tlv

namespace Pyemv.Tlv
open Pyemv Pyemv.TlvSpec Pyemv.RoundTrip Pyemv.Refine

/-! ### sizes -/

theorem lenOk_mono {si : Bool} {m n : Nat} (h : m ≤ n) (hn : LenOk si n) : LenOk si m :=
  ⟨fun a => Nat.le_trans h (hn.1 a), fun a => Nat.lt_of_le_of_lt h (hn.2 a)⟩

theorem lenOk_of_validLen {si : Bool} {l : Bytes} {n : Nat} (h : ValidLen si l n) : LenOk si n := by
  rcases h with ⟨b, _, hb, _⟩ | ⟨hsi, lb, bs, _, _, hcnt, hfrom⟩
  · have : b.toNat < 256 := UInt8.toNat_lt b
    refine ⟨fun _ => by omega, fun _ => ?_⟩
    have : (256 : Nat) ≤ 256 ^ 127 := Nat.le_self_pow (by decide) 256
    omega
  · refine ⟨fun a => (by rw [hsi] at a; cases a), fun _ => ?_⟩
    have h1 := fromBE_lt bs
    have h2 : (lb &&& 0x7F).toNat ≤ 127 := by
      have : lb &&& 0x7F ≤ 0x7F := UInt8.and_le_right
      exact this
    have h3 : 256 ^ bs.length ≤ 256 ^ 127 := Nat.pow_le_pow_right (by decide) (by omega)
    omega

theorem byteLen_le_of_lt_pow (m k : Nat) (h : m < 256 ^ k) : byteLen m ≤ k := by
  by_cases hm : m = 0
  · subst hm; rw [byteLen]; simp
  · obtain ⟨a, _⟩ := byteLen_spec m (by omega)
    have : 256 ^ (byteLen m - 1) < 256 ^ k := Nat.lt_of_le_of_lt a h
    have := pow_lt_pow_cancel this
    omega

theorem top_clear_lt (b : UInt8) (h : b &&& 0x80 = 0) : b.toNat < 128 := by
  have key : ∀ k : Fin 256, UInt8.ofNat k.val &&& 0x80 = 0 → k.val < 128 := by decide +kernel
  have := key ⟨b.toNat, UInt8.toNat_lt b⟩
  simp only [UInt8.ofNat_toNat] at this
  exact this h

/-- the minimal length field of a smaller-or-equal size is no longer than any valid length field -/
theorem berLen_length_le (si : Bool) (m n : Nat) (l : Bytes) (hm : m ≤ n) (hv : ValidLen si l n) :
    (berLen si m).length ≤ l.length := by
  unfold berLen
  rcases hv with ⟨b, rfl, hb, hform⟩ | ⟨hsi, lb, bs, rfl, _, _, hfrom⟩
  · have hlt : si = true ∨ m < 128 := by
      rcases hform with h | h
      · exact Or.inl h
      · right
        have : b.toNat < 128 := top_clear_lt b h
        omega
    have : (si || decide (m < 128)) = true := by
      rcases hlt with h | h <;> simp [h]
    simp [this]
  · split
    · simp
    · rename_i hc
      simp only [List.length_cons, toBE_length]
      have : m < 256 ^ bs.length := by
        have := fromBE_lt bs; omega
      have := byteLen_le_of_lt_pow m bs.length this
      omega

/-- size of the canonical encoding of one entry -/
def entrySize (si : Bool) (t : Bytes) : Node → Nat
  | .prim v => t.length + (berLen si v.length).length + v.length
  | .cons kids => t.length + (berLen si (encSize si kids)).length + encSize si kids

theorem encSize_nil (si : Bool) : encSize si [] = 0 := by simp [encSize, itemsOfDict, printItems]

theorem encSize_cons (si : Bool) (t : Bytes) (n : Node) (rest : Dict) :
    encSize si ((t, n) :: rest) = entrySize si t n + encSize si rest := by
  cases n <;> simp [encSize, itemsOfDict, itemOfEntry, itemOfNode, printItems, entrySize] <;> omega

theorem encSize_append_one (si : Bool) (d : Dict) (t : Bytes) (n : Node) :
    encSize si (d ++ [(t, n)]) = encSize si d + entrySize si t n := by
  induction d with
  | nil => rw [List.nil_append, encSize_cons, encSize_nil]; omega
  | cons e rest ih =>
    obtain ⟨t', n'⟩ := e
    rw [List.cons_append, encSize_cons, encSize_cons, ih]; omega

/-- storing an entry grows the canonical size by at most the entry's own size -/
theorem encSize_set_le {si : Bool} {d : Dict} (hd : Good si d) (t : Bytes) (n : Node) :
    encSize si (Dict.set d t n) ≤ encSize si d + entrySize si t n := by
  induction hd with
  | nil =>
    have : Dict.set [] t n = [(t, n)] := by simp [Dict.set]
    rw [this, encSize_cons, encSize_nil]; omega
  | @prim t' v rest _ _ _ hne _ ih =>
    by_cases h : t' = t
    · subst h
      rw [set_cons_eq, map_id_of_absent rest t' n hne, encSize_cons, encSize_cons]; omega
    · rw [set_cons_ne (t', Node.prim v) rest t n h, encSize_cons, encSize_cons]; omega
  | @cons t' kids rest _ _ _ _ hne _ _ ih =>
    by_cases h : t' = t
    · subst h
      rw [set_cons_eq, map_id_of_absent rest t' n hne, encSize_cons, encSize_cons]; omega
    · rw [set_cons_ne (t', Node.cons kids) rest t n h, encSize_cons, encSize_cons]; omega

end Pyemv.Tlv

namespace Pyemv.Tlv
open Pyemv Pyemv.TlvSpec Pyemv.RoundTrip Pyemv.Refine

/-- folding well-formed objects into a good dictionary gives a good dictionary whose canonical encoding
is no larger than the old one plus the bytes read -/
theorem absNested_good (si : Bool) : ∀ (n : Nat) (items : List Item) (dec : Dict),
    (printItems items).length ≤ n → (∀ i ∈ items, WF si i) → Good si dec →
    Good si (absNested dec items) ∧ encSize si (absNested dec items) ≤ encSize si dec + (printItems items).length := by
  intro n
  induction n using Nat.strongRecOn with
  | _ n ih =>
    intro items dec hn hwf hd
    match items, hwf with
    | [], _ => simp only [absNested, printItems, List.length_nil, Nat.add_zero]; exact ⟨hd, Nat.le_refl _⟩
    | .prim t l v :: more, hwf =>
      have hw := hwf (.prim t l v) (by simp)
      have hmore : ∀ i ∈ more, WF si i := fun i hi => hwf i (by simp [hi])
      cases hw with
      | prim hvt hp hl =>
        have tne : 0 < t.length := List.length_pos_iff.mpr (validTag_ne_nil hvt)
        have hsz : (printItems (Item.prim t l v :: more)).length = t.length + l.length + v.length + (printItems more).length := by
          simp [printItems]; omega
        have he : GoodEntry si t (.prim v) := GoodEntry.prim hvt hp (lenOk_of_validLen hl)
        have hd' := good_set hd he
        obtain ⟨g, sz⟩ := ih ((printItems more).length) (by omega) more (Dict.set dec t (.prim v)) (Nat.le_refl _) hmore hd'
        have hs := encSize_set_le (si := si) hd t (.prim v)
        have hb := berLen_length_le si v.length v.length l (Nat.le_refl _) hl
        simp only [absNested]
        refine ⟨g, ?_⟩
        simp only [entrySize] at hs
        omega
    | .cons t l kids :: more, hwf =>
      have hw := hwf (.cons t l kids) (by simp)
      have hmore : ∀ i ∈ more, WF si i := fun i hi => hwf i (by simp [hi])
      cases hw with
      | cons hvt hp hk hl =>
        have tne : 0 < t.length := List.length_pos_iff.mpr (validTag_ne_nil hvt)
        have hsz : (printItems (Item.cons t l kids :: more)).length = t.length + l.length + (printItems kids).length + (printItems more).length := by
          simp [printItems]; omega
        obtain ⟨gk, szk⟩ := ih ((printItems kids).length) (by omega) kids [] (Nat.le_refl _) hk Good.nil
        rw [encSize_nil] at szk
        have hlk : LenOk si (encSize si (absNested [] kids)) := lenOk_mono (by omega) (lenOk_of_validLen hl)
        have he : GoodEntry si t (.cons (absNested [] kids)) := GoodEntry.cons hvt hp gk hlk
        have hd' := good_set hd he
        obtain ⟨g, sz⟩ := ih ((printItems more).length) (by omega) more (Dict.set dec t (.cons (absNested [] kids))) (Nat.le_refl _) hmore hd'
        have hs := encSize_set_le (si := si) hd t (.cons (absNested [] kids))
        have hb := berLen_length_le si (encSize si (absNested [] kids)) (printItems kids).length l (by omega) hl
        simp only [absNested]
        refine ⟨g, ?_⟩
        simp only [entrySize] at hs
        omega

end Pyemv.Tlv
