import PyemvProofs.Modes
import PyemvProofs.Pad
/-! # `mac_iso9797_3` as written (two live CBC contexts) is ISO 9797-1 Algorithm 3 -/
namespace Pyemv
open Spec

/-! ### single-key TripleDES is single DES -/

theorem tdesKeys_8 (k : Bytes) (h : k.length = 8) :
    tdesKeys k = .ok ⟨Des.subkeys (fromBE k), Des.subkeys (fromBE k), Des.subkeys (fromBE k)⟩ := by
  simp [tdesKeys, h]

theorem tdesKeys_16 (k : Bytes) (h : k.length = 16) :
    tdesKeys k = .ok ⟨Des.subkeys (fromBE (k.take 8)), Des.subkeys (fromBE (k.drop 8)), Des.subkeys (fromBE (k.take 8))⟩ := by
  simp [tdesKeys, h]

theorem encBlock_single (s : List Nat) (b : Bytes) : encBlock ⟨s, s, s⟩ b = toBE 8 (Des.crypt s (fromBE b)) := by
  unfold encBlock encBlockN
  simp only
  have := Des.crypt_reverse s.reverse (Des.crypt s (fromBE b)) (Des.crypt_lt _ _)
  rw [List.reverse_reverse] at this
  rw [this]

theorem decBlock_single (s : List Nat) (b : Bytes) : decBlock ⟨s, s, s⟩ b = toBE 8 (Des.crypt s.reverse (fromBE b)) := by
  unfold decBlock decBlockN
  simp only
  rw [Des.crypt_reverse s _ (Des.crypt_lt _ _)]

theorem encBlock_8 (k : Bytes) :
    encBlock ⟨Des.subkeys (fromBE k), Des.subkeys (fromBE k), Des.subkeys (fromBE k)⟩ = desE k := by
  funext b; rw [encBlock_single]; rfl

theorem decBlock_8 (k : Bytes) :
    decBlock ⟨Des.subkeys (fromBE k), Des.subkeys (fromBE k), Des.subkeys (fromBE k)⟩ = desD k := by
  funext b; rw [decBlock_single]; rfl

theorem desE_length (k b : Bytes) : (desE k b).length = 8 := toBE_length _ _
theorem desD_length (k b : Bytes) : (desD k b).length = 8 := toBE_length _ _

/-- two-key TDES as keyed by `cryptography` from a 16-byte key is `E K_L ∘ D K_R ∘ E K_L` -/
theorem encBlock_16 (K : Bytes) :
    encBlock ⟨Des.subkeys (fromBE (K.take 8)), Des.subkeys (fromBE (K.drop 8)), Des.subkeys (fromBE (K.take 8))⟩ = tdesE K := by
  funext b
  unfold encBlock encBlockN tdesE desE desD Des.enc Des.dec
  simp only
  rw [fromBE_toBE 8 _ (by rw [pow256_8]; exact Des.crypt_lt _ _), fromBE_toBE 8 _ (by rw [pow256_8]; exact Des.crypt_lt _ _)]

theorem decBlock_16 (K : Bytes) :
    decBlock ⟨Des.subkeys (fromBE (K.take 8)), Des.subkeys (fromBE (K.drop 8)), Des.subkeys (fromBE (K.take 8))⟩ = tdesD K := by
  funext b
  unfold decBlock decBlockN tdesD desE desD Des.enc Des.dec
  simp only
  rw [fromBE_toBE 8 _ (by rw [pow256_8]; exact Des.crypt_lt _ _), fromBE_toBE 8 _ (by rw [pow256_8]; exact Des.crypt_lt _ _)]

/-! ### the last block of the CBC output -/

theorem lastN_append_right {α} (x c : List α) (n : Nat) (hc : c.length = n) : lastN n (x ++ c) = c := by
  unfold lastN
  rw [List.length_append, hc, Nat.add_sub_cancel, List.drop_left]

theorem lastN_flatten (bs : List Bytes) (c : Bytes) (hc : c.length = 8) (hl : bs.getLast? = some c) :
    lastN 8 bs.flatten = c := by
  obtain ⟨init, rfl⟩ : ∃ init, bs = init ++ [c] := by
    have hne : bs ≠ [] := by intro h; subst h; simp at hl
    refine ⟨bs.dropLast, ?_⟩
    have := List.dropLast_concat_getLast hne
    rw [List.getLast?_eq_some_getLast hne] at hl
    simp only [Option.some.injEq] at hl
    rw [← hl]; exact this.symm
  simp only [List.flatten_append, List.flatten_cons, List.flatten_nil, List.append_nil]
  exact lastN_append_right _ _ 8 hc

theorem blocks8_single (b : Bytes) (hb : b.length = 8) : blocks8 b = [b] := by
  have := blocks8_append b [] hb
  rw [List.append_nil, blocks8_nil] at this
  exact this

/-- the chain value of the CBC-MAC is an 8-byte block when the cipher outputs 8-byte blocks -/
theorem foldl_chain_length (f : Bytes → Bytes) (hfl : ∀ b, (f b).length = 8) (bs : List Bytes) (iv : Bytes)
    (hiv : iv.length = 8) : (bs.foldl (fun h b => f (xorB b h)) iv).length = 8 := by
  induction bs generalizing iv with
  | nil => simpa
  | cons b rest ih => simp only [List.foldl_cons]; exact ih _ (hfl _)

/-- mac.py 87-100 on padded data of `n ≥ 1` whole blocks, over any block functions with 8-byte outputs -/
theorem mac_core (f g : Bytes → Bytes) (hfl : ∀ b, (f b).length = 8) (hgl : ∀ b, (g b).length = 8)
    (p : Bytes) (n : Nat) (hn : 1 ≤ n) (hp : p.length = 8 * n) :
    let H := (blocks8 p).foldl (fun h b => f (xorB b h)) (zeros 8)
    let enc1 := cbcEncUpdate f (zeros 8) p
    lastN 8 enc1.1 = H ∧ enc1.2 = H ∧
    (cbcEncUpdate f enc1.2 (cbcDecUpdate g H H).1).1 = f (g H) := by
  intro H enc1
  have hne : blocks8 p ≠ [] := by
    intro h
    have := blocks8_length n p hp
    rw [h] at this; simp at this; omega
  obtain ⟨h1, h2⟩ := cbcEncBlocks_chain (f := f) (zeros 8) (blocks8 p)
  simp only [hne, if_false] at h2
  have hH : H.length = 8 := foldl_chain_length f hfl _ _ (by simp [zeros])
  have e2 : enc1.2 = H := h1
  have e1 : lastN 8 enc1.1 = H := lastN_flatten _ H hH h2
  refine ⟨e1, e2, ?_⟩
  rw [e2]
  have hx : (xorB (g H) H).length = 8 := by rw [xorB_length _ _ (by rw [hgl, hH])]; exact hgl H
  simp only [cbcDecUpdate, cbcEncUpdate, blocks8_single H hH, cbcDecBlocks, List.flatten_cons, List.flatten_nil,
    List.append_nil, blocks8_single _ hx, cbcEncBlocks]
  rw [xorB_cancel (g H) H (by rw [hgl, hH])]

theorem foldl_xorB_comm (f : Bytes → Bytes) (bs : List Bytes) (iv : Bytes) :
    bs.foldl (fun h b => f (xorB b h)) iv = bs.foldl (fun h b => f (xorB h b)) iv := by
  congr 1; funext h b; rw [xorB_comm]

/-- **mac_iso9797_3 = Algorithm 3** for 8-byte key halves, both padding methods, every output length -/
theorem mac3_eq_alg3 (k1 k2 data : Bytes) (pm : Int) (len : Option Nat)
    (h1 : k1.length = 8) (h2 : k2.length = 8) (hp : pm = 1 ∨ pm = 2) :
    mac3 k1 k2 data pm len =
      .ok ((alg3 k1 k2 (if pm = 1 then Spec.pad1 8 data else Spec.pad2 8 data)).take (len.getD 8)) := by
  have hpad : padSelect pm data = Except.ok (if pm = 1 then Spec.pad1 8 data else Spec.pad2 8 data) := by
    unfold padSelect
    rcases hp with rfl | rfl
    · simp [pad1_eq_spec 8 (by omega)]
    · simp [pad2_eq_spec 8 (by omega)]
  generalize hP : (if pm = 1 then Spec.pad1 8 data else Spec.pad2 8 data) = P at hpad
  have hPl : P.length % 8 = 0 ∧ 0 < P.length := by
    rw [← hP]; split
    · exact Spec.pad1_length 8 (by omega) data
    · exact Spec.pad2_length 8 (by omega) data
  obtain ⟨n, hn⟩ : ∃ n, P.length = 8 * n := ⟨P.length / 8, by omega⟩
  have hn1 : 1 ≤ n := by omega
  obtain ⟨c1, c2, c3⟩ := mac_core (desE k1) (desD k2) (desE_length k1) (desD_length k2) P n hn1 hn
  have hH : ((blocks8 P).foldl (fun h b => desE k1 (xorB b h)) (zeros 8)).length = 8 :=
    foldl_chain_length _ (desE_length k1) _ _ (by simp [zeros])
  unfold mac3 macCore
  simp only [hpad, tdesKeys_8 k1 h1, tdesKeys_8 k2 h2, encBlock_8, decBlock_8, bind, Except.bind, pure, Except.pure]
  rw [c1]
  simp only [hH, ne_eq, not_true_eq_false, if_false]
  rw [c2] at c3
  rw [c2, c3]
  unfold alg3 cbcMac
  rw [foldl_xorB_comm]

theorem lastN_8_of_16 (sk : Bytes) (h : sk.length = 16) : lastN 8 sk = sk.drop 8 := by
  unfold lastN; rw [h]

theorem alg3_length (KL KR p : Bytes) : (alg3 KL KR p).length = 8 := desE_length _ _

end Pyemv
