import PyemvProofs.TlvLen
/-! # The encoder: what it produces on success, what it names on refusal -/
namespace Pyemv.Tlv
open Pyemv Pyemv.TlvSpec Pyemv.RoundTrip Pyemv.Refine

/-- the tag bytes a key denotes when its syntax is valid (tlv.py 323-346): hex digits (either case,
whitespace between pairs), exactly one complete tag -/
def tagOfName (k : PyStr) : Option Bytes :=
  match bytesFromHex k with
  | .ok tag => match tagNameLen tag with
    | some n => if tag.length == n then some tag else none
    | none => none
  | .error _ => none

theorem tagNameLen_eq_tagLen (t : Bytes) : tagNameLen t = tagLen t := by
  cases t with
  | nil => rfl
  | cons b0 rest =>
    simp only [tagNameLen, tagLen]
    split
    · have := scanCont_eq_scanList (b0 :: rest) 0 (rest.length + 2) 1 (by simp)
      rw [this]
      simp only [Nat.zero_add, List.drop_succ_cons, List.drop_zero]
      cases scanList rest 1 with
      | mk a b => cases a <;> rfl
    · rfl

theorem tagOfName_valid {k : PyStr} {t : Bytes} (h : tagOfName k = some t) : bytesFromHex k = .ok t ∧ ValidTag t := by
  unfold tagOfName at h
  split at h
  · rename_i tag hb
    split at h
    · rename_i n hn
      split at h
      · rename_i hl
        simp only [Option.some.injEq] at h; subst h
        refine ⟨hb, ?_⟩
        unfold ValidTag
        rw [← tagNameLen_eq_tagLen, hn]
        simp at hl; rw [hl]
      · cases h
    · cases h
  · cases h

/-- the concrete syntax tree the encoder writes for a tree: tag bytes parsed from the names, shortest
definite lengths, values as bytes, in mapping order -/
inductive Mirror (si : Bool) : List (PyStr × PyVal) → List Item → Prop
  | nil : Mirror si [] []
  | bytes {k t v rest more} : tagOfName k = some t → t.headD 0 &&& 0x20 = 0 → Mirror si rest more →
      Mirror si ((k, .bytes v) :: rest) (.prim t (berLen si v.length) v :: more)
  | str {k t s v rest more} : tagOfName k = some t → t.headD 0 &&& 0x20 = 0 → bytesFromHex s = .ok v →
      Mirror si rest more → Mirror si ((k, .str s) :: rest) (.prim t (berLen si v.length) v :: more)
  | dict {k t kvs kids rest more} : tagOfName k = some t → t.headD 0 &&& 0x20 ≠ 0 → Mirror si kvs kids →
      Mirror si rest more →
      Mirror si ((k, .dict kvs) :: rest) (.cons t (berLen si (printItems kids).length) kids :: more)

/-- some key of the tree, at any depth -/
inductive KeyIn : PyStr → List (PyStr × PyVal) → Prop
  | here {k v rest} : KeyIn k ((k, v) :: rest)
  | inside {k k' kvs rest} : KeyIn k kvs → KeyIn k ((k', .dict kvs) :: rest)
  | later {k kv rest} : KeyIn k rest → KeyIn k (kv :: rest)

theorem printItems_append (a b : List Item) : printItems (a ++ b) = printItems a ++ printItems b := by
  induction a with
  | nil => simp [printItems]
  | cons x xs ih => cases x <;> simp [printItems, ih]

theorem printItems_cons (i : Item) (more : List Item) : printItems (i :: more) = printItems [i] ++ printItems more := by
  cases i <;> simp [printItems]

def L : Nat := 256 ^ 127

/-- success of the encoder: the output is the serialisation of a well-formed CST that mirrors the tree -/
theorem encodeItems_ok (si : Bool) : ∀ (kvs : List (PyStr × PyVal)) (b : Bytes),
    encodeItems si kvs = .ok b → (si = false → b.length < L) →
      ∃ items, b = printItems items ∧ Mirror si kvs items ∧ ∀ i ∈ items, WF si i := by
  intro kvs
  apply encodeItems.induct si
    (motive_1 := fun tagS c v => ∀ value, encodeValue si tagS c v = .ok value → (si = false → value.length < L) →
      (c = true → ∃ kvs kids, v = .dict kvs ∧ value = printItems kids ∧ Mirror si kvs kids ∧ ∀ i ∈ kids, WF si i) ∧
      (c = false → (v = .bytes value) ∨ (∃ s, v = .str s ∧ bytesFromHex s = .ok value)))
    (motive_2 := fun kvs => ∀ b, encodeItems si kvs = .ok b → (si = false → b.length < L) →
      ∃ items, b = printItems items ∧ Mirror si kvs items ∧ ∀ i ∈ items, WF si i)
    (motive_3 := fun kv => ∀ b, encodeItem si kv = .ok b → (si = false → b.length < L) →
      ∀ rest more, Mirror si rest more → (∀ i ∈ more, WF si i) →
        ∃ item, b = printItems [item] ∧ Mirror si (kv :: rest) (item :: more) ∧ WF si item)
  -- 1: dict under a constructed tag
  · intro tagS kvs ih value hv hlen
    simp only [encodeValue, if_true] at hv
    obtain ⟨kids, e, m, w⟩ := ih value hv hlen
    exact ⟨fun _ => ⟨kvs, kids, rfl, e, m, w⟩, fun h => by cases h⟩
  -- 2: dict under a primitive tag: refused
  · intro tagS c kvs hc value hv; simp [encodeValue, hc] at hv
  -- 3: str under a constructed tag: refused
  · intro tagS s value hv; simp [encodeValue] at hv
  -- 4: hex string under a primitive tag
  · intro tagS c s hc b hb value hv hlen
    simp only [encodeValue, hc, if_false, hb, Except.ok.injEq, Bool.false_eq_true] at hv
    subst hv
    exact ⟨fun h => absurd h hc, fun _ => Or.inr ⟨s, rfl, hb⟩⟩
  -- 5: not a hex string: refused
  · intro tagS c s hc a ha value hv; simp [encodeValue, hc, ha] at hv
  -- 6: bytes under a constructed tag: refused
  · intro tagS b value hv; simp [encodeValue] at hv
  -- 7: bytes under a primitive tag
  · intro tagS c b hc value hv hlen
    simp only [encodeValue, hc, if_false, Except.ok.injEq, Bool.false_eq_true] at hv
    subst hv
    exact ⟨fun h => absurd h hc, fun _ => Or.inl rfl⟩
  -- 8: any other object: refused
  · intro tagS c value hv; simp [encodeValue] at hv
  -- 9: empty mapping
  · intro b hb _
    simp only [encodeItems, Except.ok.injEq] at hb; subst hb
    exact ⟨[], by simp [printItems], Mirror.nil, by simp⟩
  -- 10, 11: an item or the rest is refused
  · intro kv rest e he _ b hb; simp [encodeItems, he] at hb
  · intro kv rest value hv e he _ _ b hb; simp [encodeItems, hv, he] at hb
  -- 12: item and rest encoded
  · intro kv rest value hv value' hv' ih3 ih2 b hb hlen
    simp only [encodeItems, hv, hv', Except.ok.injEq] at hb
    subst hb
    simp only [List.length_append] at hlen
    obtain ⟨more, e2, m2, w2⟩ := ih2 value' hv' (fun h => by have := hlen h; omega)
    obtain ⟨item, e3, m3, w3⟩ := ih3 value hv (fun h => by have := hlen h; omega) rest more m2 w2
    refine ⟨item :: more, ?_, m3, ?_⟩
    · rw [printItems_cons, ← e3, ← e2]
    · intro i hi; rcases List.mem_cons.mp hi with rfl | h
      · exact w3
      · exact w2 i h
  -- 13, 14, 15: tag name refused
  · intro tagS v a ha b hb; simp [encodeItem, ha] at hb
  · intro tagS v tag ht hn b hb; simp [encodeItem, ht, hn] at hb
  · intro tagS v tag ht n hn hl b hb; simp [encodeItem, ht, hn, hl] at hb
  -- 16, 17: value or length refused
  · intro tagS v tag ht n hn hl e he _ b hb; simp only [encodeItem, ht, hn, hl, he, Bool.false_eq_true, ↓reduceIte] at hb; cases hb
  · intro tagS v tag ht n hn hl value hv hlf _ b hb; simp only [encodeItem, ht, hn, hl, hv, hlf, Bool.false_eq_true, ↓reduceIte] at hb; cases hb
  -- 18: one object written
  · intro tagS v tag ht n hn hl value hv l hlf ih1 b hb hlen rest more mrest wrest
    simp only [encodeItem, ht, hn, hl, hv, hlf, Bool.false_eq_true, ↓reduceIte, Except.ok.injEq] at hb
    subst hb
    have htag : tagOfName tagS = some tag := by
      have : (tag.length == n) = true := by simpa using hl
      simp [tagOfName, ht, hn, this]
    have hvt := (tagOfName_valid htag).2
    simp only [List.length_append] at hlen
    have hvl : si = false → value.length < L := fun h => by have := hlen h; omega
    have hlv := lenField_valid si value.length l hvl hlf
    have hcan := lenField_canonical si value.length l hvl hlf
    obtain ⟨hT, hF⟩ := ih1 value hv hvl
    by_cases hc : (tag.headD 0 &&& 0x20 != 0) = true
    · obtain ⟨kvs, kids, rfl, e, m, w⟩ := hT hc
      have hne : tag.headD 0 &&& 0x20 ≠ 0 := by simpa using hc
      subst e
      refine ⟨.cons tag l kids, by simp [printItems], ?_, WF.cons hvt hne w hlv⟩
      rw [hcan]; exact Mirror.dict htag hne m mrest
    · have hc' : (tag.headD 0 &&& 0x20 != 0) = false := by simpa using hc
      have heq : tag.headD 0 &&& 0x20 = 0 := by simpa using hc'
      rcases hF hc' with rfl | ⟨s, rfl, hs⟩
      · refine ⟨.prim tag l value, by simp [printItems], ?_, WF.prim hvt heq hlv⟩
        rw [hcan]; exact Mirror.bytes htag heq mrest
      · refine ⟨.prim tag l value, by simp [printItems], ?_, WF.prim hvt heq hlv⟩
        rw [hcan]; exact Mirror.str htag heq hs mrest

/-- refusal of the encoder: the error names a key of the tree (at some depth) -/
theorem encodeItems_err (si : Bool) : ∀ (kvs : List (PyStr × PyVal)) (e : EErr),
    encodeItems si kvs = .error e → KeyIn e.tag kvs := by
  intro kvs
  apply encodeItems.induct si
    (motive_1 := fun tagS c v => ∀ e, encodeValue si tagS c v = .error e →
      e.tag = tagS ∨ ∃ kvs, v = .dict kvs ∧ KeyIn e.tag kvs)
    (motive_2 := fun kvs => ∀ e, encodeItems si kvs = .error e → KeyIn e.tag kvs)
    (motive_3 := fun kv => ∀ e, encodeItem si kv = .error e → ∀ rest, KeyIn e.tag (kv :: rest))
  · intro tagS kvs ih e he
    simp only [encodeValue, if_true] at he
    exact Or.inr ⟨kvs, rfl, ih e he⟩
  · intro tagS c kvs hc e he; simp only [encodeValue, hc, Bool.false_eq_true, if_false, Except.error.injEq] at he; subst he; exact Or.inl rfl
  · intro tagS s e he; simp only [encodeValue, if_true, Except.error.injEq] at he; subst he; exact Or.inl rfl
  · intro tagS c s hc b hb e he; simp [encodeValue, hc, hb] at he
  · intro tagS c s hc a ha e he; simp only [encodeValue, hc, Bool.false_eq_true, if_false, ha, Except.error.injEq] at he; subst he; exact Or.inl rfl
  · intro tagS b e he; simp only [encodeValue, if_true, Except.error.injEq] at he; subst he; exact Or.inl rfl
  · intro tagS c b hc e he; simp [encodeValue, hc] at he
  · intro tagS c e he; simp only [encodeValue, Except.error.injEq] at he; subst he; exact Or.inl rfl
  · intro e he; simp [encodeItems] at he
  · intro kv rest e' he' ih3 e he
    simp only [encodeItems, he', Except.error.injEq] at he; subst he
    exact ih3 e' he' rest
  · intro kv rest value hv e' he' _ ih2 e he
    simp only [encodeItems, hv, he', Except.error.injEq] at he; subst he
    exact KeyIn.later (ih2 e' he')
  · intro kv rest value hv value' hv' _ _ e he; simp [encodeItems, hv, hv'] at he
  · intro tagS v a ha e he rest; simp only [encodeItem, ha, Except.error.injEq] at he; subst he; exact KeyIn.here
  · intro tagS v tag ht hn e he rest; simp only [encodeItem, ht, hn, Except.error.injEq] at he; subst he; exact KeyIn.here
  · intro tagS v tag ht n hn hl e he rest
    simp only [encodeItem, ht, hn, hl, ↓reduceIte, Except.error.injEq] at he; subst he; exact KeyIn.here
  · intro tagS v tag ht n hn hl e' he' ih1 e he rest
    simp only [encodeItem, ht, hn, hl, he', Bool.false_eq_true, ↓reduceIte, Except.error.injEq] at he; subst he
    rcases ih1 e' he' with h | ⟨kvs, rfl, h⟩
    · rw [h]; exact KeyIn.here
    · exact KeyIn.inside h
  · intro tagS v tag ht n hn hl value hv hlf _ e he rest
    simp only [encodeItem, ht, hn, hl, hv, hlf, Bool.false_eq_true, ↓reduceIte, Except.error.injEq] at he; subst he; exact KeyIn.here
  · intro tagS v tag ht n hn hl value hv l hlf _ e he rest
    simp only [encodeItem, ht, hn, hl, hv, hlf, Bool.false_eq_true, ↓reduceIte] at he; cases he

/-- well-formed trees: every key is the hex name of exactly one valid tag; a constructed tag holds a
mapping that is well-formed itself, a primitive tag holds bytes or a hex string; in simple mode every
encoded value has at most 255 bytes -/
inductive WFTree (si : Bool) : List (PyStr × PyVal) → Prop
  | nil : WFTree si []
  | bytes {k t v rest} : tagOfName k = some t → t.headD 0 &&& 0x20 = 0 → (si = true → v.length ≤ 255) →
      WFTree si rest → WFTree si ((k, .bytes v) :: rest)
  | str {k t s v rest} : tagOfName k = some t → t.headD 0 &&& 0x20 = 0 → bytesFromHex s = .ok v →
      (si = true → v.length ≤ 255) → WFTree si rest → WFTree si ((k, .str s) :: rest)
  | dict {k t kvs rest} : tagOfName k = some t → t.headD 0 &&& 0x20 ≠ 0 → WFTree si kvs →
      (si = true → ∀ b, encodeItems si kvs = .ok b → b.length ≤ 255) → WFTree si rest →
      WFTree si ((k, .dict kvs) :: rest)

theorem tagOfName_unfold {k : PyStr} {t : Bytes} (h : tagOfName k = some t) :
    bytesFromHex k = .ok t ∧ ∃ n, tagNameLen t = some n ∧ (t.length != n) = false := by
  unfold tagOfName at h
  split at h
  · rename_i tag hb
    split at h
    · rename_i n hn
      split at h
      · rename_i hl
        simp only [Option.some.injEq] at h; subst h
        exact ⟨hb, n, hn, by simpa using hl⟩
      · cases h
    · cases h
  · cases h

theorem lenField_some (si : Bool) (n : Nat) (h : si = true → n ≤ 255) : ∃ l, lenField si n = some l := by
  cases hl : lenField si n with
  | some l => exact ⟨l, rfl⟩
  | none => obtain ⟨a, b⟩ := (lenField_none_iff si n).mp hl; have := h a; omega

/-- every well-formed tree is accepted -/
theorem wf_accepts (si : Bool) (kvs : List (PyStr × PyVal)) (h : WFTree si kvs) : ∃ b, encodeItems si kvs = .ok b := by
  induction h with
  | nil => exact ⟨[], rfl⟩
  | @bytes k t v rest ht hp hs _ ih =>
    obtain ⟨r, hr⟩ := ih
    obtain ⟨hb, n, hn, hl⟩ := tagOfName_unfold ht
    obtain ⟨l, hlf⟩ := lenField_some si v.length hs
    have hc : (t.headD 0 &&& 0x20 != 0) = false := by rw [hp]; decide
    refine ⟨t ++ l ++ v ++ r, ?_⟩
    simp only [encodeItems, encodeItem, hb, hn, hl, hc, encodeValue, hlf, hr, Bool.false_eq_true, ↓reduceIte]
  | @str k t s v rest ht hp hx hs _ ih =>
    obtain ⟨r, hr⟩ := ih
    obtain ⟨hb, n, hn, hl⟩ := tagOfName_unfold ht
    obtain ⟨l, hlf⟩ := lenField_some si v.length hs
    have hc : (t.headD 0 &&& 0x20 != 0) = false := by rw [hp]; decide
    refine ⟨t ++ l ++ v ++ r, ?_⟩
    simp only [encodeItems, encodeItem, hb, hn, hl, hc, encodeValue, hx, hlf, hr, Bool.false_eq_true, ↓reduceIte]
  | @dict k t kvs rest ht hp _ hs _ ihk ihr =>
    obtain ⟨r, hr⟩ := ihr
    obtain ⟨kb, hk⟩ := ihk
    obtain ⟨hb, n, hn, hl⟩ := tagOfName_unfold ht
    obtain ⟨l, hlf⟩ := lenField_some si kb.length (fun a => hs a kb hk)
    have hc : (t.headD 0 &&& 0x20 != 0) = true := by simp only [bne_iff_ne, ne_eq]; exact hp
    refine ⟨t ++ l ++ kb ++ r, ?_⟩
    simp only [encodeItems, encodeItem, hb, hn, hl, hc, encodeValue, hk, hlf, hr, Bool.false_eq_true, ↓reduceIte]

/-- … and only well-formed trees are accepted -/
theorem ok_wf (si : Bool) : ∀ (kvs : List (PyStr × PyVal)) (b : Bytes), encodeItems si kvs = .ok b → WFTree si kvs := by
  intro kvs
  apply encodeItems.induct si
    (motive_1 := fun tagS c v => ∀ value, encodeValue si tagS c v = .ok value →
      (c = true → ∃ kvs, v = .dict kvs ∧ WFTree si kvs ∧ encodeItems si kvs = .ok value) ∧
      (c = false → (v = .bytes value) ∨ (∃ s, v = .str s ∧ bytesFromHex s = .ok value)))
    (motive_2 := fun kvs => ∀ b, encodeItems si kvs = .ok b → WFTree si kvs)
    (motive_3 := fun kv => ∀ b, encodeItem si kv = .ok b → ∀ rest, WFTree si rest → WFTree si (kv :: rest))
  · intro tagS kvs ih value hv
    simp only [encodeValue, if_true] at hv
    exact ⟨fun _ => ⟨kvs, rfl, ih value hv, hv⟩, fun h => by cases h⟩
  · intro tagS c kvs hc value hv; simp [encodeValue, hc] at hv
  · intro tagS s value hv; simp [encodeValue] at hv
  · intro tagS c s hc b hb value hv
    simp only [encodeValue, hc, if_false, hb, Except.ok.injEq, Bool.false_eq_true] at hv
    subst hv
    exact ⟨fun h => absurd h hc, fun _ => Or.inr ⟨s, rfl, hb⟩⟩
  · intro tagS c s hc a ha value hv; simp [encodeValue, hc, ha] at hv
  · intro tagS b value hv; simp [encodeValue] at hv
  · intro tagS c b hc value hv
    simp only [encodeValue, hc, if_false, Except.ok.injEq, Bool.false_eq_true] at hv
    subst hv
    exact ⟨fun h => absurd h hc, fun _ => Or.inl rfl⟩
  · intro tagS c value hv; simp [encodeValue] at hv
  · intro b _; exact WFTree.nil
  · intro kv rest e he _ b hb; simp [encodeItems, he] at hb
  · intro kv rest value hv e he _ _ b hb; simp [encodeItems, hv, he] at hb
  · intro kv rest value hv value' hv' ih3 ih2 b _
    exact ih3 value hv rest (ih2 value' hv')
  · intro tagS v a ha b hb; simp [encodeItem, ha] at hb
  · intro tagS v tag ht hn b hb; simp [encodeItem, ht, hn] at hb
  · intro tagS v tag ht n hn hl b hb; simp [encodeItem, ht, hn, hl] at hb
  · intro tagS v tag ht n hn hl e he _ b hb; simp only [encodeItem, ht, hn, hl, he, Bool.false_eq_true, ↓reduceIte] at hb; cases hb
  · intro tagS v tag ht n hn hl value hv hlf _ b hb; simp only [encodeItem, ht, hn, hl, hv, hlf, Bool.false_eq_true, ↓reduceIte] at hb; cases hb
  · intro tagS v tag ht n hn hl value hv l hlf ih1 b _ rest wrest
    have htag : tagOfName tagS = some tag := by
      have : (tag.length == n) = true := by simpa using hl
      simp [tagOfName, ht, hn, this]
    have hsz : si = true → value.length ≤ 255 := by
      intro hs
      apply Nat.le_of_not_lt; intro hgt
      have := (lenField_none_iff si value.length).mpr ⟨hs, hgt⟩
      rw [this] at hlf; cases hlf
    obtain ⟨hT, hF⟩ := ih1 value hv
    by_cases hc : (tag.headD 0 &&& 0x20 != 0) = true
    · obtain ⟨kvs, rfl, w, e⟩ := hT hc
      have hne : tag.headD 0 &&& 0x20 ≠ 0 := by simpa using hc
      refine WFTree.dict htag hne w ?_ wrest
      intro hs b' hb'
      rw [e] at hb'; cases hb'; exact hsz hs
    · have hc' : (tag.headD 0 &&& 0x20 != 0) = false := by simpa using hc
      have heq : tag.headD 0 &&& 0x20 = 0 := by simpa using hc'
      rcases hF hc' with rfl | ⟨s, rfl, hs⟩
      · exact WFTree.bytes htag heq hsz wrest
      · exact WFTree.str htag heq hs hsz wrest

end Pyemv.Tlv
