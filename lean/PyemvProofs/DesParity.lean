import PyemvProofs.DesProofs
namespace Des

theorem PC1_avoids_parity : ∀ j : Fin 56, (64 - PC1[PC1.length - 1 - j.val]!) % 8 ≠ 0 := by decide

/-- two keys that agree on every non-parity bit have the same key schedule -/
theorem subkeys_parity_indep (k k' : Nat) (h : ∀ i, i % 8 ≠ 0 → k'.testBit i = k.testBit i) :
    subkeys k' = subkeys k := by
  have hpc : permute PC1 64 k' = permute PC1 64 k := by
    apply Nat.eq_of_testBit_eq
    intro i
    rw [permute_testBit, permute_testBit]
    by_cases hi : i < PC1.length
    · simp only [hi, dite_true]
      have hlen : PC1.length = 56 := rfl
      have := PC1_avoids_parity ⟨i, by omega⟩
      simp only at this
      rw [getElem!_pos PC1 _ (by omega)] at this
      exact h _ this
    · simp [hi]
  unfold subkeys
  rw [hpc]

theorem enc_parity_indep (k k' x : Nat) (h : ∀ i, i % 8 ≠ 0 → k'.testBit i = k.testBit i) :
    enc k' x = enc k x ∧ dec k' x = dec k x := by
  unfold enc dec
  rw [subkeys_parity_indep k k' h]
  exact ⟨rfl, rfl⟩

end Des
