import PyemvSpec.Basic
import PyemvProofs.Bytes
/-! # Padding: the code-shaped `pad1`/`pad2` equal the Spec, and the Spec's contract -/
namespace Pyemv
open Spec

theorem pad1_eq_spec (bs : Nat) (hbs : 1 ≤ bs) (d : Bytes) : pad1 d (some bs) = .ok (Spec.pad1 bs d) := by
  unfold pad1 Spec.pad1 fill1
  simp only [Option.getD_some]
  have : ¬ bs = 0 := by omega
  simp only [this, if_false]
  split
  · rfl
  · split
    · rename_i h; have : d = [] := List.eq_nil_of_length_eq_zero h; subst this; simp [zeros]
    · simp [zeros]

theorem pad1_default (d : Bytes) : pad1 d none = pad1 d (some 8) := rfl

theorem pad2_eq_spec (bs : Nat) (hbs : 1 ≤ bs) (d : Bytes) : pad2 d (some bs) = .ok (Spec.pad2 bs d) := by
  unfold pad2
  simp only [Option.getD_some]
  rw [pad1_eq_spec bs hbs]
  unfold Spec.pad1 Spec.pad2
  simp

theorem pad2_default (d : Bytes) : pad2 d none = pad2 d (some 8) := rfl

theorem pad_zero_block (d : Bytes) : pad1 d (some 0) = .error .zeroDivision := by simp [pad1]

namespace Spec

/-- **method 1 contract**: data, then the *fewest* zero bytes making the length a *positive* multiple -/
theorem pad1_contract (bs : Nat) (hbs : 1 ≤ bs) (d : Bytes) :
    let n := fill1 bs d.length
    pad1 bs d = d ++ zeros n ∧ (d.length + n) % bs = 0 ∧ 0 < d.length + n ∧
      ∀ m, m < n → ¬ ((d.length + m) % bs = 0 ∧ 0 < d.length + m) := by
  refine ⟨rfl, ?_, ?_, ?_⟩
  · unfold fill1
    split
    · rename_i h
      have hlt := Nat.mod_lt d.length (show bs > 0 by omega)
      have : d.length + (bs - d.length % bs) = bs * (d.length / bs + 1) := by
        have := Nat.div_add_mod d.length bs
        rw [Nat.mul_add, Nat.mul_one]; omega
      rw [this]; exact Nat.mul_mod_right _ _
    · split
      · rename_i h; simp [h]
      · rename_i h1 h2; simp; omega
  · unfold fill1
    split
    · rename_i h
      have hlt := Nat.mod_lt d.length (show bs > 0 by omega)
      have := Nat.mod_le d.length bs
      omega
    · split <;> omega
  · intro m hm hcon
    unfold fill1 at hm
    split at hm
    · rename_i h
      have hlt := Nat.mod_lt d.length (show bs > 0 by omega)
      have : (d.length + m) % bs = d.length % bs + m := by
        rw [Nat.add_mod, Nat.mod_eq_of_lt (show m < bs by omega), Nat.mod_eq_of_lt (by omega)]
      omega
    · split at hm
      · rename_i h
        have : (d.length + m) % bs = m := by rw [h, Nat.zero_add, Nat.mod_eq_of_lt hm]
        omega
      · omega

theorem pad2_eq_pad1 (bs : Nat) (d : Bytes) : pad2 bs d = pad1 bs (d ++ [0x80]) := by
  simp [pad1, pad2]

theorem pad1_length (bs : Nat) (hbs : 1 ≤ bs) (d : Bytes) : (pad1 bs d).length % bs = 0 ∧ 0 < (pad1 bs d).length := by
  have h := pad1_contract bs hbs d
  simp only at h
  obtain ⟨_, h2, h3, _⟩ := h
  simp only [pad1, List.length_append, zeros, List.length_replicate]
  exact ⟨h2, h3⟩

theorem pad2_length (bs : Nat) (hbs : 1 ≤ bs) (d : Bytes) : (pad2 bs d).length % bs = 0 ∧ 0 < (pad2 bs d).length := by
  rw [pad2_eq_pad1]; exact pad1_length bs hbs _

/-- method 2 always adds the 0x80 byte and fewer than `bs` zero bytes -/
theorem fill_after_marker_lt (bs : Nat) (hbs : 1 ≤ bs) (len : Nat) : fill1 bs (len + 1) < bs := by
  unfold fill1
  split
  · omega
  · split <;> omega

theorem dropWhile_zeros (n : Nat) (l : Bytes) : (zeros n ++ l).dropWhile (· == 0) = l.dropWhile (· == 0) := by
  induction n with
  | zero => rfl
  | succ n ih => simp [zeros, List.replicate_succ] at ih ⊢

/-- **method 2 is reversible** for every data string, including data ending in 0x80 or 0x00 bytes -/
theorem unpad2_pad2 (bs : Nat) (d : Bytes) : unpad2 (pad2 bs d) = some d := by
  unfold unpad2 pad2
  have : (d ++ [0x80] ++ zeros (fill1 bs (d.length + 1))).reverse
      = zeros (fill1 bs (d.length + 1)) ++ (0x80 :: d.reverse) := by
    simp [zeros]
  rw [this, dropWhile_zeros]
  simp

/-- Visa convention: nothing is added to a non-empty whole number of blocks, one zero block to the empty message -/
theorem pad1_cases (d : Bytes) :
    (d = [] → pad1 8 d = zeros 8) ∧ (d ≠ [] → d.length % 8 = 0 → pad1 8 d = d) := by
  constructor
  · intro h; subst h; simp [pad1, fill1, zeros]
  · intro hne h8
    have : d.length ≠ 0 := by intro h; exact hne (List.eq_nil_of_length_eq_zero h)
    simp [pad1, fill1, h8, this, zeros]

end Spec
end Pyemv
