import PyemvModel.Tools
/-! # `tools.odd_parity`: the 16/8/4 fold with the 0x6996 table is the XOR of the 32 low bits -/
namespace Pyemv

/-- XOR of bits `0 .. k-1` of `n` -/
def par : Nat → Nat → Bool
  | 0, _ => false
  | k+1, n => par k n ^^ n.testBit k

theorem par_xor (k a b : Nat) : par k (a ^^^ b) = (par k a ^^ par k b) := by
  induction k with
  | zero => rfl
  | succ k ih =>
    simp only [par, ih, Nat.testBit_xor]
    cases par k a <;> cases par k b <;> cases a.testBit k <;> cases b.testBit k <;> rfl

/-- XOR of bits `s .. s+k-1` -/
def parFrom (s : Nat) : Nat → Nat → Bool
  | 0, _ => false
  | k+1, n => parFrom s k n ^^ n.testBit (s + k)

theorem par_shift (k s n : Nat) : par k (n >>> s) = parFrom s k n := by
  induction k with
  | zero => rfl
  | succ k ih => simp only [par, parFrom, ih, Nat.testBit_shiftRight]

theorem par_add (k m n : Nat) : par (k + m) n = (par k n ^^ parFrom k m n) := by
  induction m with
  | zero => simp [parFrom]
  | succ m ih =>
    rw [← Nat.add_assoc]
    simp only [par, parFrom, ih]
    cases par k n <;> cases parFrom k m n <;> cases n.testBit (k + m) <;> rfl

/-- one folding step: the low `k` bits of `n ^^^ (n >>> k)` have the parity of the low `2k` bits of `n` -/
theorem fold_step (k n : Nat) : par k (n ^^^ (n >>> k)) = par (k + k) n := by
  rw [par_xor, par_shift, par_add]

theorem par_and_mask (n : Nat) : par 4 (n &&& 0xF) = par 4 n := by
  have h : ∀ i, i < 4 → (n &&& 0xF).testBit i = n.testBit i := by
    intro i hi
    rw [Nat.testBit_and]
    have : (0xF : Nat).testBit i = true := by
      have : i = 0 ∨ i = 1 ∨ i = 2 ∨ i = 3 := by omega
      rcases this with rfl | rfl | rfl | rfl <;> decide
    simp [this]
  simp only [par, h 0 (by omega), h 1 (by omega), h 2 (by omega), h 3 (by omega)]

theorem table (v : Fin 16) : (0x6996 >>> v.val) &&& 1 = if par 4 v.val then 1 else 0 := by
  revert v; decide

/-- **odd_parity** returns the XOR of the 32 low bits — for *every* natural number `v`; for
`v < 2^32` these are all its bits. -/
theorem oddParity_eq (v : Nat) : oddParity v = if par 32 v then 1 else 0 := by
  unfold oddParity
  simp only
  have hlt : ((v ^^^ v >>> 16) ^^^ (v ^^^ v >>> 16) >>> 8 ^^^ ((v ^^^ v >>> 16) ^^^ (v ^^^ v >>> 16) >>> 8) >>> 4) &&& 0xF < 16 :=
    Nat.lt_of_le_of_lt Nat.and_le_right (by decide)
  have := table ⟨_, hlt⟩
  simp only at this
  rw [this, par_and_mask, fold_step 4, fold_step 8, fold_step 16]

theorem par_bits_above (v : Nat) (k : Nat) (h : v < 2 ^ k) (m : Nat) : par (k + m) v = par k v := by
  rw [par_add]
  have : parFrom k m v = false := by
    induction m with
    | zero => rfl
    | succ m ih =>
      simp only [parFrom, ih]
      have : v < 2 ^ (k + m) := Nat.lt_of_lt_of_le h (Nat.pow_le_pow_right (by omega) (by omega))
      simp [Nat.testBit_lt_two_pow this]
  simp [this]


end Pyemv
