import PyemvProofs.Bytes
import PyemvProofs.DesParity
/-!
# Cipher modes on byte strings

`blocks8`, ECB and CBC `update` over whole blocks, their inverses, and the block cipher laws of the
concrete (OpenSSL-matching) DES lifted to 8-byte blocks.
-/
namespace Pyemv

theorem pow256_8 : (256:Nat) ^ 8 = 2 ^ 64 := by decide

/-! ### one TDES block -/

theorem encBlockN_lt (ks : Ks) (x : Nat) : encBlockN ks x < 2 ^ 64 := Des.crypt_lt _ _
theorem decBlockN_lt (ks : Ks) (x : Nat) : decBlockN ks x < 2 ^ 64 := Des.crypt_lt _ _

theorem decBlockN_encBlockN (ks : Ks) (x : Nat) (hx : x < 2 ^ 64) : decBlockN ks (encBlockN ks x) = x := by
  unfold decBlockN encBlockN
  rw [Des.crypt_reverse ks.s3 _ (Des.crypt_lt _ _)]
  have := Des.crypt_reverse ks.s2.reverse (Des.crypt ks.s1 x) (Des.crypt_lt _ _)
  rw [List.reverse_reverse] at this
  rw [this, Des.crypt_reverse ks.s1 x hx]

theorem encBlockN_decBlockN (ks : Ks) (x : Nat) (hx : x < 2 ^ 64) : encBlockN ks (decBlockN ks x) = x := by
  unfold decBlockN encBlockN
  have h1 := Des.crypt_reverse ks.s1.reverse (Des.crypt ks.s2 (Des.crypt ks.s3.reverse x)) (Des.crypt_lt _ _)
  rw [List.reverse_reverse] at h1
  rw [h1, Des.crypt_reverse ks.s2 _ (Des.crypt_lt _ _)]
  have h3 := Des.crypt_reverse ks.s3.reverse x hx
  rw [List.reverse_reverse] at h3
  exact h3

theorem encBlock_length (ks : Ks) (b : Bytes) : (encBlock ks b).length = 8 := toBE_length _ _
theorem decBlock_length (ks : Ks) (b : Bytes) : (decBlock ks b).length = 8 := toBE_length _ _

theorem fromBE_lt_64 (b : Bytes) (hb : b.length = 8) : fromBE b < 2 ^ 64 := by
  have := fromBE_lt b; rw [hb, pow256_8] at this; exact this

theorem decBlock_encBlock (ks : Ks) (b : Bytes) (hb : b.length = 8) : decBlock ks (encBlock ks b) = b := by
  unfold decBlock encBlock
  rw [fromBE_toBE 8 _ (by rw [pow256_8]; exact encBlockN_lt _ _), decBlockN_encBlockN _ _ (fromBE_lt_64 b hb),
    ← hb, toBE_fromBE]

theorem encBlock_decBlock (ks : Ks) (b : Bytes) (hb : b.length = 8) : encBlock ks (decBlock ks b) = b := by
  unfold decBlock encBlock
  rw [fromBE_toBE 8 _ (by rw [pow256_8]; exact decBlockN_lt _ _), encBlockN_decBlockN _ _ (fromBE_lt_64 b hb),
    ← hb, toBE_fromBE]

/-! ### xorB -/

theorem xorB_length (a b : Bytes) (h : a.length = b.length) : (xorB a b).length = a.length := by
  simp [xorB, h]

theorem xorB_cancel (a b : Bytes) (h : a.length = b.length) : xorB (xorB a b) b = a := by
  induction a generalizing b with
  | nil => simp [xorB]
  | cons x xs ih =>
    cases b with
    | nil => simp at h
    | cons y ys =>
      simp only [xorB, List.zipWith_cons_cons] at ih ⊢
      rw [ih ys (by simpa using h)]
      congr 1
      rw [UInt8.xor_assoc, UInt8.xor_self, UInt8.xor_zero]

theorem xorB_comm (a b : Bytes) : xorB a b = xorB b a := by
  induction a generalizing b with
  | nil => cases b <;> simp [xorB]
  | cons x xs ih =>
    cases b with
    | nil => simp [xorB]
    | cons y ys =>
      simp only [xorB, List.zipWith_cons_cons] at ih ⊢
      rw [ih ys, UInt8.xor_comm]

theorem xorB_zeros (b : Bytes) (n : Nat) (h : b.length = n) : xorB b (zeros n) = b := by
  subst h
  induction b with
  | nil => simp [xorB, zeros]
  | cons x xs ih =>
    simp only [xorB, zeros, List.length_cons, List.replicate_succ, List.zipWith_cons_cons] at ih ⊢
    rw [ih]; simp

theorem xorB_self_cancel (a b : Bytes) (h : a.length = b.length) : xorB (xorB a b) a = b := by
  rw [xorB_comm a b, xorB_cancel b a h.symm]

/-! ### blocks8 -/

theorem blocks8_short (d : Bytes) (h : d.length < 8) : blocks8 d = [] := by
  rw [blocks8]; simp [h]

theorem blocks8_append (b rest : Bytes) (hb : b.length = 8) : blocks8 (b ++ rest) = b :: blocks8 rest := by
  rw [blocks8]
  have : ¬ (b ++ rest).length < 8 := by simp [hb]
  simp only [this, dite_false]
  rw [List.take_left' hb, List.drop_left' hb]

theorem blocks8_nil : blocks8 [] = [] := blocks8_short [] (by simp)

theorem blocks8_flatten (bs : List Bytes) (h : ∀ b ∈ bs, b.length = 8) : blocks8 bs.flatten = bs := by
  induction bs with
  | nil => simp [blocks8_nil]
  | cons b rest ih =>
    rw [List.flatten_cons, blocks8_append b _ (h b (by simp)), ih (fun x hx => h x (by simp [hx]))]

theorem split_block (d : Bytes) (h : ¬ d.length < 8) :
    ∃ b rest, d = b ++ rest ∧ b.length = 8 ∧ rest.length = d.length - 8 :=
  ⟨d.take 8, d.drop 8, (List.take_append_drop 8 d).symm, by simp; omega, by simp⟩

theorem blocks8_all8 : ∀ (n : Nat) (d : Bytes), d.length < n → ∀ b ∈ blocks8 d, b.length = 8 := by
  intro n
  induction n with
  | zero => intro d h; omega
  | succ n ih =>
    intro d hd b hb
    by_cases hs : d.length < 8
    · rw [blocks8_short d hs] at hb; simp at hb
    · obtain ⟨b0, rest, rfl, hb0, hr⟩ := split_block d hs
      rw [blocks8_append b0 rest hb0] at hb
      rcases List.mem_cons.mp hb with rfl | hm
      · exact hb0
      · exact ih rest (by simp at hd; omega) b hm

theorem blocks8_mem_length (d : Bytes) : ∀ b ∈ blocks8 d, b.length = 8 := blocks8_all8 (d.length + 1) d (by omega)

/-- a whole number of blocks is exactly its blocks -/
theorem flatten_blocks8 : ∀ (n : Nat) (d : Bytes), d.length = 8 * n → (blocks8 d).flatten = d := by
  intro n
  induction n with
  | zero => intro d hd; have : d = [] := List.eq_nil_of_length_eq_zero (by omega); subst this; simp [blocks8_nil]
  | succ n ih =>
    intro d hd
    obtain ⟨b, rest, rfl, hb, hr⟩ := split_block d (by omega)
    rw [blocks8_append b rest hb, List.flatten_cons, ih rest (by omega)]

theorem blocks8_length : ∀ (n : Nat) (d : Bytes), d.length = 8 * n → (blocks8 d).length = n := by
  intro n
  induction n with
  | zero => intro d hd; have : d = [] := List.eq_nil_of_length_eq_zero (by omega); subst this; simp [blocks8_nil]
  | succ n ih =>
    intro d hd
    obtain ⟨b, rest, rfl, hb, hr⟩ := split_block d (by omega)
    rw [blocks8_append b rest hb, List.length_cons, ih rest (by omega)]

/-! ### ECB -/

variable {f g : Bytes → Bytes}

theorem ecbUpdate_length (hfl : ∀ b, (f b).length = 8) (n : Nat) (d : Bytes) (hd : d.length = 8 * n) :
    (ecbUpdate f d).length = 8 * n := by
  unfold ecbUpdate
  rw [List.length_flatten, List.map_map]
  have : List.map (List.length ∘ f) (blocks8 d) = List.replicate (blocks8 d).length 8 := by
    apply List.eq_replicate_iff.mpr
    refine ⟨by simp, ?_⟩
    intro x hx
    simp only [List.mem_map, Function.comp] at hx
    obtain ⟨b, _, rfl⟩ := hx
    exact hfl b
  rw [this, List.sum_replicate_nat, blocks8_length n d hd, Nat.mul_comm]

/-- **ECB decryption inverts ECB encryption** on whole-block input -/
theorem ecbDec_ecb (hfg : ∀ b, b.length = 8 → g (f b) = b) (hfl : ∀ b, (f b).length = 8)
    (n : Nat) (d : Bytes) (hd : d.length = 8 * n) : ecbUpdate g (ecbUpdate f d) = d := by
  unfold ecbUpdate
  rw [blocks8_flatten _ (by intro b hb; simp only [List.mem_map] at hb; obtain ⟨x, _, rfl⟩ := hb; exact hfl x),
    List.map_map]
  have : List.map (g ∘ f) (blocks8 d) = blocks8 d := by
    conv => rhs; rw [← List.map_id (blocks8 d)]
    apply List.map_congr_left
    intro b hb
    exact hfg b (blocks8_mem_length d b hb)
  rw [this, flatten_blocks8 n d hd]

/-! ### CBC -/

theorem cbcEncBlocks_all8 (hfl : ∀ b, (f b).length = 8) (iv : Bytes) (bs : List Bytes) :
    ∀ c ∈ (cbcEncBlocks f iv bs).1, c.length = 8 := by
  induction bs generalizing iv with
  | nil => simp [cbcEncBlocks]
  | cons b rest ih =>
    intro c hc
    simp only [cbcEncBlocks, List.mem_cons] at hc
    rcases hc with rfl | hc
    · exact hfl _
    · exact ih _ c hc

theorem cbcEncBlocks_length (iv : Bytes) (bs : List Bytes) : (cbcEncBlocks f iv bs).1.length = bs.length := by
  induction bs generalizing iv with
  | nil => simp [cbcEncBlocks]
  | cons b rest ih => simp [cbcEncBlocks, ih]

theorem cbcDecBlocks_cbcEncBlocks (hfg : ∀ b, b.length = 8 → g (f b) = b) (hfl : ∀ b, (f b).length = 8)
    (iv : Bytes) (bs : List Bytes) (hiv : iv.length = 8) (hbs : ∀ b ∈ bs, b.length = 8) :
    (cbcDecBlocks g iv (cbcEncBlocks f iv bs).1).1 = bs := by
  induction bs generalizing iv with
  | nil => simp [cbcEncBlocks, cbcDecBlocks]
  | cons b rest ih =>
    have hb : b.length = 8 := hbs b (by simp)
    have hx : (xorB b iv).length = 8 := by rw [xorB_length _ _ (by omega)]; exact hb
    simp only [cbcEncBlocks, cbcDecBlocks]
    rw [hfg _ hx, xorB_cancel b iv (by omega), ih (f (xorB b iv)) (hfl _) (fun x hx => hbs x (by simp [hx]))]

/-- **CBC decryption inverts CBC encryption** on whole-block input, for any 8-byte IV -/
theorem cbcDec_cbcEnc (hfg : ∀ b, b.length = 8 → g (f b) = b) (hfl : ∀ b, (f b).length = 8)
    (n : Nat) (iv d : Bytes) (hiv : iv.length = 8) (hd : d.length = 8 * n) :
    (cbcDecUpdate g iv (cbcEncUpdate f iv d).1).1 = d := by
  unfold cbcDecUpdate cbcEncUpdate
  simp only
  rw [blocks8_flatten _ (cbcEncBlocks_all8 hfl iv _),
    cbcDecBlocks_cbcEncBlocks hfg hfl iv _ hiv (blocks8_mem_length d), flatten_blocks8 n d hd]

theorem cbcEncUpdate_length (hfl : ∀ b, (f b).length = 8) (n : Nat) (iv d : Bytes) (hd : d.length = 8 * n) :
    (cbcEncUpdate f iv d).1.length = 8 * n := by
  unfold cbcEncUpdate
  simp only
  rw [List.length_flatten]
  have : List.map List.length (cbcEncBlocks f iv (blocks8 d)).1 = List.replicate (blocks8 d).length 8 := by
    apply List.eq_replicate_iff.mpr
    refine ⟨by simp [cbcEncBlocks_length], ?_⟩
    intro x hx
    simp only [List.mem_map] at hx
    obtain ⟨c, hc, rfl⟩ := hx
    exact cbcEncBlocks_all8 hfl iv _ c hc
  rw [this, List.sum_replicate_nat, blocks8_length n d hd, Nat.mul_comm]

/-- the chaining value after an update is the CBC-MAC fold over the blocks -/
theorem cbcEncBlocks_chain (iv : Bytes) (bs : List Bytes) :
    (cbcEncBlocks f iv bs).2 = bs.foldl (fun h b => f (xorB b h)) iv ∧
    (cbcEncBlocks f iv bs).1.getLast? = if bs = [] then none else some (bs.foldl (fun h b => f (xorB b h)) iv) := by
  induction bs generalizing iv with
  | nil => simp [cbcEncBlocks]
  | cons b rest ih =>
    simp only [cbcEncBlocks, List.foldl_cons]
    obtain ⟨h1, h2⟩ := ih (f (xorB b iv))
    refine ⟨h1, ?_⟩
    rw [List.getLast?_cons, h2]
    cases rest <;> simp [cbcEncBlocks]

/-! ### instantiation with the concrete DES -/

theorem tdes_ecb_roundtrip (ks : Ks) (n : Nat) (d : Bytes) (hd : d.length = 8 * n) :
    ecbUpdate (decBlock ks) (ecbUpdate (encBlock ks) d) = d :=
  ecbDec_ecb (decBlock_encBlock ks) (encBlock_length ks) n d hd

theorem tdes_cbc_roundtrip (ks : Ks) (n : Nat) (iv d : Bytes) (hiv : iv.length = 8) (hd : d.length = 8 * n) :
    (cbcDecUpdate (decBlock ks) iv (cbcEncUpdate (encBlock ks) iv d).1).1 = d :=
  cbcDec_cbcEnc (decBlock_encBlock ks) (encBlock_length ks) n iv d hiv hd

end Pyemv
