import PyemvProofs.TlvRefine2
/-! Scratch: print ∘ parse round trip on the concrete syntax tree (C10 / C18 core). -/
namespace Pyemv.RoundTrip
open Pyemv Pyemv.Tlv Pyemv.TlvSpec

def printItems : List Item → Bytes
  | [] => []
  | .prim t l v :: more => t ++ l ++ v ++ printItems more
  | .cons t l kids :: more => t ++ l ++ printItems kids ++ printItems more

/-- a tag as the grammar reads it: scanning it consumes exactly its own bytes -/
def ValidTag (t : Bytes) : Prop := tagLen t = some t.length

/-- a length field the decoder accepts for a value of `n` bytes (any form, minimal or not) -/
def ValidLen (si : Bool) (l : Bytes) (n : Nat) : Prop :=
  (∃ b, l = [b] ∧ b.toNat = n ∧ (si = true ∨ b &&& 0x80 = 0)) ∨
  (si = false ∧ ∃ lb bs, l = lb :: bs ∧ lb &&& 0x80 ≠ 0 ∧ (lb &&& 0x7F).toNat = bs.length ∧ fromBE bs = n)

inductive WF (si : Bool) : Item → Prop
  | prim {t l v} : ValidTag t → (t.headD 0 &&& 0x20 = 0) → ValidLen si l v.length → WF si (.prim t l v)
  | cons {t l kids} : ValidTag t → (t.headD 0 &&& 0x20 ≠ 0) → (∀ k ∈ kids, WF si k) →
      ValidLen si l (printItems kids).length → WF si (.cons t l kids)

theorem validTag_ne_nil {t : Bytes} (h : ValidTag t) : t ≠ [] := by
  intro ht; subst ht; simp [ValidTag, tagLen] at h

theorem tagLen_append {t s : Bytes} (h : ValidTag t) : tagLen (t ++ s) = some t.length := by
  unfold ValidTag at h
  cases t with
  | nil => simp [tagLen] at h
  | cons b0 rest =>
    simp only [List.cons_append, tagLen] at h ⊢
    split
    · rename_i hm
      simp only [hm, if_true] at h
      cases hs : scanList rest 1 with
      | mk o k =>
        rw [hs] at h
        simp only at h
        subst h
        rw [Refine.scanList_append_some hs]
    · rename_i hm
      simp only [hm] at h
      exact h

theorem lenPart_print {si : Bool} {o1 n : Nat} {tag l body rest : Bytes}
    (h : ValidLen si l body.length) :
    lenPart si o1 n tag (l ++ body ++ rest) = .ok ⟨tag, l, body.length, n + l.length⟩ := by
  rcases h with ⟨b, rfl, hb, hs⟩ | ⟨hsi, lb, bs, rfl, hlb, hll, hbe⟩
  · simp only [List.cons_append, List.nil_append, lenPart]
    have hcond : (b &&& 0x80 != 0 && !si) = false := by
      rcases hs with hs | hs
      · simp [hs]
      · simp [hs]
    simp only [hcond, Bool.false_eq_true, if_false, List.length_append, hb]
    have : ¬ (body.length > body.length + rest.length) := by omega
    simp only [this, if_false, List.length_cons, List.length_nil]
  · subst hsi
    simp only [List.cons_append, lenPart]
    have hcond : (lb &&& 0x80 != 0 && !false) = true := by simp [hlb]
    simp only [hcond, if_true, hll]
    have htake : List.take bs.length (bs ++ body ++ rest) = bs := by simp [List.append_assoc]
    have hlen : (bs ++ body ++ rest).length = bs.length + body.length + rest.length := by simp; omega
    rw [htake, hlen, hbe, if_neg (by omega), if_neg (by omega)]
    simp only [List.length_cons]
    have h3 : n + 1 + bs.length = n + (bs.length + 1) := by omega
    rw [h3]

theorem header_print {si : Bool} {base : Nat} {t l body rest : Bytes}
    (ht : ValidTag t) (hl : ValidLen si l body.length) :
    header si base (t ++ l ++ body ++ rest) = .ok ⟨t, l, body.length, t.length + l.length⟩ := by
  unfold header
  have : t ++ l ++ body ++ rest = t ++ (l ++ body ++ rest) := by simp [List.append_assoc]
  rw [this, tagLen_append ht]
  simp only [List.take_left', List.drop_left']
  exact lenPart_print hl


theorem headD_append {t x : Bytes} (h : t ≠ []) : (t ++ x).headD 0 = t.headD 0 := by
  cases t with
  | nil => exact absurd rfl h
  | cons a b => rfl

theorem drop_hdr {t l body rest : Bytes} :
    (t ++ l ++ body ++ rest).drop (t.length + l.length) = body ++ rest := by
  have : t ++ l ++ body ++ rest = (t ++ l) ++ (body ++ rest) := by simp [List.append_assoc]
  rw [this, List.drop_left' (by simp)]

theorem drop_all {t l body rest : Bytes} :
    (t ++ l ++ body ++ rest).drop (t.length + l.length + body.length) = rest := by
  rw [List.drop_left' (by simp [Nat.add_assoc])]

/-- **parse ∘ print = id** on well-formed concrete syntax trees, for every accepted length form. -/
theorem parse_print (si : Bool) : ∀ (n : Nat) (items : List Item) (base : Nat),
    (printItems items).length ≤ n → (∀ i ∈ items, WF si i) →
      parseItems si base (printItems items) = .ok items := by
  intro n
  induction n with
  | zero =>
    intro items base hlen hwf
    cases items with
    | nil => simp [printItems, Refine.parseItems_nil]
    | cons it more =>
      exfalso
      have hw := hwf it (by simp)
      cases hw with
      | prim ht _ _ =>
        have := validTag_ne_nil ht
        simp only [printItems, List.length_append] at hlen
        have : 0 < List.length _ := List.length_pos_iff.mpr this
        omega
      | cons ht _ _ _ =>
        have := validTag_ne_nil ht
        simp only [printItems, List.length_append] at hlen
        have : 0 < List.length _ := List.length_pos_iff.mpr this
        omega
  | succ n ih =>
    intro items base hlen hwf
    cases items with
    | nil => simp [printItems, Refine.parseItems_nil]
    | cons it more =>
      have hw := hwf it (by simp)
      have hwm : ∀ i ∈ more, WF si i := fun i hi => hwf i (by simp [hi])
      cases hw with
      | @prim t l v ht hc hl =>
        have htne := validTag_ne_nil ht
        have htpos : 0 < t.length := List.length_pos_iff.mpr htne
        simp only [printItems] at hlen ⊢
        have hne : t ++ l ++ v ++ printItems more ≠ [] := by
          intro h; have := congrArg List.length h; simp only [List.length_append, List.length_nil] at this; omega
        rw [Refine.parseItems_ne hne, header_print ht hl]
        have hhead : (t ++ l ++ v ++ printItems more).headD 0 = t.headD 0 := by
          rw [List.append_assoc, List.append_assoc]; exact headD_append htne
        have hcb : ((t.headD 0) &&& 0x20 != 0) = false := by rw [hc]; rfl
        simp only [hhead, hcb, Bool.false_eq_true, if_false, drop_hdr, drop_all, List.take_left']
        simp only [List.length_append] at hlen
        rw [ih more _ (by omega) hwm]
      | @cons t l kids ht hc hk hl =>
        have htne := validTag_ne_nil ht
        have htpos : 0 < t.length := List.length_pos_iff.mpr htne
        simp only [printItems] at hlen ⊢
        have hne : t ++ l ++ printItems kids ++ printItems more ≠ [] := by
          intro h; have := congrArg List.length h; simp only [List.length_append, List.length_nil] at this; omega
        rw [Refine.parseItems_ne hne, header_print ht hl]
        have hhead : (t ++ l ++ printItems kids ++ printItems more).headD 0 = t.headD 0 := by
          rw [List.append_assoc, List.append_assoc]; exact headD_append htne
        have hcb : ((t.headD 0) &&& 0x20 != 0) = true := by simp only [bne_iff_ne, ne_eq]; exact hc
        simp only [hhead, hcb, if_true, drop_hdr, drop_all, List.take_left']
        simp only [List.length_append] at hlen
        rw [ih kids _ (by omega) hk, ih more _ (by omega) hwm]

end Pyemv.RoundTrip
