import PyemvProofs.Tdes
import PyemvProofs.Par
/-! # Parity adjustment: byte-level facts by complete enumeration, lifted to keys; DES ignores parity bits -/
namespace Pyemv

/-- what `adjust_key_parity` does to one byte -/
def adjByte (b : UInt8) : UInt8 := if oddParity b.toNat = 0 then b ^^^ 1 else b

theorem adjustKeyParity_eq_map (k : Bytes) : adjustKeyParity k = k.map adjByte := rfl

theorem adjByte_table : ∀ n : Fin 256,
    oddParity (adjByte (UInt8.ofNat n.val)).toNat = 1 ∧
    (adjByte (UInt8.ofNat n.val) = UInt8.ofNat n.val ∨ adjByte (UInt8.ofNat n.val) = UInt8.ofNat n.val ^^^ 1) ∧
    adjByte (adjByte (UInt8.ofNat n.val)) = adjByte (UInt8.ofNat n.val) ∧
    (oddParity (UInt8.ofNat n.val).toNat = 1 → adjByte (UInt8.ofNat n.val) = UInt8.ofNat n.val) := by
  decide +kernel

theorem adjByte_facts (b : UInt8) :
    oddParity (adjByte b).toNat = 1 ∧ (adjByte b = b ∨ adjByte b = b ^^^ 1) ∧ adjByte (adjByte b) = adjByte b ∧
    (oddParity b.toNat = 1 → adjByte b = b) := by
  have h := adjByte_table ⟨b.toNat, b.toNat_lt⟩
  simp only [UInt8.ofNat_toNat] at h
  exact h

/-- a key every byte of which has an odd number of one bits -/
def OddBytes (k : Bytes) : Prop := ∀ b ∈ k, oddParity b.toNat = 1

/-- a 16-byte odd-parity DES key -/
def OddParityKey (k : Bytes) : Prop := k.length = 16 ∧ OddBytes k

theorem adjust_length (k : Bytes) : (adjustKeyParity k).length = k.length := by simp [adjustKeyParity]

theorem adjust_odd (k : Bytes) : OddBytes (adjustKeyParity k) := by
  intro b hb
  rw [adjustKeyParity_eq_map, List.mem_map] at hb
  obtain ⟨x, _, rfl⟩ := hb
  exact (adjByte_facts x).1

theorem adjust_idempotent (k : Bytes) : adjustKeyParity (adjustKeyParity k) = adjustKeyParity k := by
  simp only [adjustKeyParity_eq_map, List.map_map]
  apply List.map_congr_left
  intro b _
  exact (adjByte_facts b).2.2.1

theorem adjust_fixes_odd (k : Bytes) (h : OddBytes k) : adjustKeyParity k = k := by
  rw [adjustKeyParity_eq_map]
  conv => rhs; rw [← List.map_id k]
  apply List.map_congr_left
  intro b hb
  exact (adjByte_facts b).2.2.2 (h b hb)

/-- adjustment changes nothing but the least significant bit of a byte -/
theorem adjust_only_lsb (k : Bytes) (i : Nat) (hi : i < k.length) :
    (adjustKeyParity k)[i]'(by rw [adjust_length]; exact hi) = k[i] ∨
    (adjustKeyParity k)[i]'(by rw [adjust_length]; exact hi) = k[i] ^^^ 1 := by
  simp only [adjustKeyParity_eq_map, List.getElem_map]
  exact (adjByte_facts k[i]).2.1

theorem adjust_key (k : Bytes) (h : k.length = 16) : OddParityKey (adjustKeyParity k) :=
  ⟨by rw [adjust_length, h], adjust_odd k⟩

/-! ### DES never looks at the parity bits -/

theorem adjByte_testBit (b : UInt8) (j : Nat) (hj : j ≠ 0) : (adjByte b).toNat.testBit j = b.toNat.testBit j := by
  rcases (adjByte_facts b).2.1 with h | h
  · rw [h]
  · rw [h, UInt8.toNat_xor, Nat.testBit_xor]
    have : Nat.testBit 1 j = false := by
      cases j with
      | zero => exact absurd rfl hj
      | succ j => simp [Nat.testBit_succ]
    show (b.toNat.testBit j ^^ Nat.testBit 1 j) = b.toNat.testBit j
    rw [this]; simp

theorem fromBE_testBit_cons (b : UInt8) (bs : Bytes) (i : Nat) :
    (fromBE (b :: bs)).testBit i = if i < 8 * bs.length then (fromBE bs).testBit i else b.toNat.testBit (i - 8 * bs.length) := by
  rw [fromBE_cons]
  have h256 : 256 ^ bs.length = 2 ^ (8 * bs.length) := by
    rw [show (256 : Nat) = 2 ^ 8 from rfl, ← Nat.pow_mul]
  have hlt : fromBE bs < 2 ^ (8 * bs.length) := by rw [← h256]; exact fromBE_lt bs
  rw [h256, Nat.mul_comm, Nat.testBit_two_pow_mul_add _ hlt]

/-- parity adjustment leaves every non-parity bit of the big-endian key value unchanged -/
theorem fromBE_adjust_testBit (k : Bytes) (i : Nat) (hi : i % 8 ≠ 0) :
    (fromBE (adjustKeyParity k)).testBit i = (fromBE k).testBit i := by
  rw [adjustKeyParity_eq_map]
  induction k with
  | nil => rfl
  | cons b bs ih =>
    simp only [List.map_cons]
    rw [fromBE_testBit_cons, fromBE_testBit_cons, List.length_map]
    split
    · exact ih
    · exact adjByte_testBit b _ (by omega)

theorem subkeys_adjust (k : Bytes) : Des.subkeys (fromBE (adjustKeyParity k)) = Des.subkeys (fromBE k) :=
  Des.subkeys_parity_indep _ _ (fun i hi => fromBE_adjust_testBit k i hi)

theorem adjust_take (k : Bytes) (n : Nat) : (adjustKeyParity k).take n = adjustKeyParity (k.take n) := by
  simp [adjustKeyParity_eq_map, List.map_take]
theorem adjust_drop (k : Bytes) (n : Nat) : (adjustKeyParity k).drop n = adjustKeyParity (k.drop n) := by
  simp [adjustKeyParity_eq_map, List.map_drop]

/-- the TDES context built from a parity-adjusted key is the one built from the key itself -/
theorem tdesKeys_adjust (k : Bytes) : tdesKeys (adjustKeyParity k) = tdesKeys k := by
  unfold tdesKeys
  simp only [adjust_length, adjust_take, adjust_drop, subkeys_adjust]

theorem ecb_adjust (k d : Bytes) : encryptTdesEcb (adjustKeyParity k) d = encryptTdesEcb k d := by
  unfold encryptTdesEcb; rw [tdesKeys_adjust]

theorem cbc_adjust (k iv d : Bytes) : encryptTdesCbc (adjustKeyParity k) iv d = encryptTdesCbc k iv d := by
  unfold encryptTdesCbc; rw [tdesKeys_adjust]

end Pyemv
