import PyemvProofs.TlvEncode
/-!
# The tag an `EncodeError` names is the first offending one

`ItemFault` lists, syntactically, what can be wrong with one `(name, value)` pair whose children (if any) are
fine; `FirstOffender k t` says that the pair named `k` has such a fault, that every pair evaluated before it
(earlier in its mapping, at every enclosing level) is well-formed, and that every enclosing template has a
valid constructed tag name.
-/
namespace Pyemv.Tlv
open Pyemv Pyemv.TlvSpec Pyemv.RoundTrip

inductive ItemFault (si : Bool) : PyStr → PyVal → Prop
  /-- the name is not the hex name of exactly one tag -/
  | name {k v} : tagOfName k = none → ItemFault si k v
  /-- a constructed tag holds something that is not a mapping -/
  | consType {k t v} : tagOfName k = some t → t.headD 0 &&& 0x20 ≠ 0 → (∀ kvs, v ≠ .dict kvs) → ItemFault si k v
  /-- a primitive tag holds a mapping or an object of another type -/
  | primType {k t v} : tagOfName k = some t → t.headD 0 &&& 0x20 = 0 → (v = .other ∨ ∃ kvs, v = .dict kvs) → ItemFault si k v
  /-- a primitive tag holds a string that is not a hex string -/
  | primHex {k t s} : tagOfName k = some t → t.headD 0 &&& 0x20 = 0 → (∀ b, bytesFromHex s ≠ .ok b) → ItemFault si k (.str s)
  /-- simple mode: the value (for a template: the encoding of its well-formed content) exceeds 255 bytes -/
  | tooLong {k t v value} : tagOfName k = some t → encodeValue si k (t.headD 0 &&& 0x20 != 0) v = .ok value →
      si = true → 255 < value.length → ItemFault si k v

inductive FirstOffender (si : Bool) : PyStr → List (PyStr × PyVal) → Prop
  | here {k v rest} : ItemFault si k v → FirstOffender si k ((k, v) :: rest)
  | inside {k k' t kvs rest} : tagOfName k' = some t → t.headD 0 &&& 0x20 ≠ 0 → FirstOffender si k kvs →
      FirstOffender si k ((k', .dict kvs) :: rest)
  | later {k kv rest} : WFTree si [kv] → FirstOffender si k rest → FirstOffender si k (kv :: rest)

theorem tagOfName_none_of_hex {k : PyStr} {a : PyErr} (h : bytesFromHex k = .error a) : tagOfName k = none := by
  simp [tagOfName, h]

theorem tagOfName_none_of_len {k : PyStr} {tag : Bytes} (h : bytesFromHex k = .ok tag) (hn : tagNameLen tag = none) :
    tagOfName k = none := by
  simp [tagOfName, h, hn]

theorem tagOfName_none_of_ne {k : PyStr} {tag : Bytes} {n : Nat} (h : bytesFromHex k = .ok tag) (hn : tagNameLen tag = some n)
    (hl : (tag.length != n) = true) : tagOfName k = none := by
  have : (tag.length == n) = false := by simpa [bne] using hl
  simp [tagOfName, h, hn, this]

theorem tagOfName_some_of {k : PyStr} {tag : Bytes} {n : Nat} (h : bytesFromHex k = .ok tag) (hn : tagNameLen tag = some n)
    (hl : ¬ (tag.length != n) = true) : tagOfName k = some tag := by
  have : (tag.length == n) = true := by simpa [bne] using hl
  simp [tagOfName, h, hn, this]

/-- **the error names the first offending tag** -/
theorem encodeItems_offender (si : Bool) : ∀ (kvs : List (PyStr × PyVal)) (e : EErr),
    encodeItems si kvs = .error e → FirstOffender si e.tag kvs := by
  intro kvs
  apply encodeItems.induct si
    (motive_1 := fun tagS c v => ∀ e, encodeValue si tagS c v = .error e →
      (e.tag = tagS ∧ ((c = true ∧ ∀ kvs, v ≠ .dict kvs) ∨
                      (c = false ∧ (v = .other ∨ ∃ kvs, v = .dict kvs)) ∨
                      (c = false ∧ ∃ s, v = .str s ∧ ∀ b, bytesFromHex s ≠ .ok b))) ∨
      (c = true ∧ ∃ kvs, v = .dict kvs ∧ FirstOffender si e.tag kvs))
    (motive_2 := fun kvs => ∀ e, encodeItems si kvs = .error e → FirstOffender si e.tag kvs)
    (motive_3 := fun kv => ∀ e, encodeItem si kv = .error e → ∀ rest, FirstOffender si e.tag (kv :: rest))
  · intro tagS kvs ih e he
    simp only [encodeValue, if_true] at he
    exact Or.inr ⟨rfl, kvs, rfl, ih e he⟩
  · intro tagS c kvs hc e he
    simp only [encodeValue, hc, Bool.false_eq_true, if_false, Except.error.injEq] at he; subst he
    exact Or.inl ⟨rfl, Or.inr (Or.inl ⟨by simpa using hc, Or.inr ⟨kvs, rfl⟩⟩)⟩
  · intro tagS s e he
    simp only [encodeValue, if_true, Except.error.injEq] at he; subst he
    exact Or.inl ⟨rfl, Or.inl ⟨rfl, fun kvs h => by cases h⟩⟩
  · intro tagS c s hc b hb e he; simp [encodeValue, hc, hb] at he
  · intro tagS c s hc a ha e he
    simp only [encodeValue, hc, Bool.false_eq_true, if_false, ha, Except.error.injEq] at he; subst he
    exact Or.inl ⟨rfl, Or.inr (Or.inr ⟨by simpa using hc, s, rfl, fun b hb => by rw [ha] at hb; cases hb⟩)⟩
  · intro tagS b e he
    simp only [encodeValue, if_true, Except.error.injEq] at he; subst he
    exact Or.inl ⟨rfl, Or.inl ⟨rfl, fun kvs h => by cases h⟩⟩
  · intro tagS c b hc e he; simp [encodeValue, hc] at he
  · intro tagS c e he
    simp only [encodeValue, Except.error.injEq] at he; subst he
    cases c with
    | true => exact Or.inl ⟨rfl, Or.inl ⟨rfl, fun kvs h => by cases h⟩⟩
    | false => exact Or.inl ⟨rfl, Or.inr (Or.inl ⟨rfl, Or.inl rfl⟩)⟩
  · intro e he; simp [encodeItems] at he
  · intro kv rest e' he' ih3 e he
    simp only [encodeItems, he', Except.error.injEq] at he; subst he
    exact ih3 e' he' rest
  · intro kv rest value hv e' he' _ ih2 e he
    simp only [encodeItems, hv, he', Except.error.injEq] at he; subst he
    have hone : encodeItems si [kv] = .ok (value ++ []) := by simp [encodeItems, hv]
    exact FirstOffender.later (ok_wf si [kv] _ hone) (ih2 e' he')
  · intro kv rest value hv value' hv' _ _ e he; simp [encodeItems, hv, hv'] at he
  · intro tagS v a ha e he rest
    simp only [encodeItem, ha, Except.error.injEq] at he; subst he
    exact FirstOffender.here (ItemFault.name (tagOfName_none_of_hex ha))
  · intro tagS v tag ht hn e he rest
    simp only [encodeItem, ht, hn, Except.error.injEq] at he; subst he
    exact FirstOffender.here (ItemFault.name (tagOfName_none_of_len ht hn))
  · intro tagS v tag ht n hn hl e he rest
    simp only [encodeItem, ht, hn, hl, ↓reduceIte, Except.error.injEq] at he; subst he
    exact FirstOffender.here (ItemFault.name (tagOfName_none_of_ne ht hn hl))
  · intro tagS v tag ht n hn hl e' he' ih1 e he rest
    simp only [encodeItem, ht, hn, hl, he', Bool.false_eq_true, ↓reduceIte, Except.error.injEq] at he; subst he
    have htag := tagOfName_some_of ht hn hl
    rcases ih1 e' he' with ⟨h, hf⟩ | ⟨hc, kvs, rfl, h⟩
    · rw [h]
      rcases hf with ⟨hc, hnd⟩ | ⟨hc, hty⟩ | ⟨hc, s, rfl, hs⟩
      · exact FirstOffender.here (ItemFault.consType htag (by simpa using hc) hnd)
      · exact FirstOffender.here (ItemFault.primType htag (by simpa using hc) hty)
      · exact FirstOffender.here (ItemFault.primHex htag (by simpa using hc) hs)
    · exact FirstOffender.inside htag (by simpa using hc) h
  · intro tagS v tag ht n hn hl value hv hlf _ e he rest
    simp only [encodeItem, ht, hn, hl, hv, hlf, Bool.false_eq_true, ↓reduceIte, Except.error.injEq] at he; subst he
    have htag := tagOfName_some_of ht hn hl
    obtain ⟨hs, hlen⟩ := (lenField_none_iff si value.length).mp hlf
    exact FirstOffender.here (ItemFault.tooLong htag hv hs hlen)
  · intro tagS v tag ht n hn hl value hv l hlf _ e he rest
    simp only [encodeItem, ht, hn, hl, hv, hlf, Bool.false_eq_true, ↓reduceIte] at he; cases he

end Pyemv.Tlv

namespace Pyemv.Tlv
open Pyemv Pyemv.TlvSpec Pyemv.RoundTrip

theorem wfTree_tail {si : Bool} {kv : PyStr × PyVal} {rest : List (PyStr × PyVal)} (h : WFTree si (kv :: rest)) : WFTree si rest := by
  cases h <;> assumption

/-- an item with a fault makes the tree ill-formed -/
theorem itemFault_not_wf {si : Bool} {k : PyStr} {v : PyVal} {rest : List (PyStr × PyVal)} (hf : ItemFault si k v) :
    ¬ WFTree si ((k, v) :: rest) := by
  intro hw
  cases hf with
  | name hn => cases hw <;> simp_all
  | consType ht hc hnd =>
    cases hw with
    | bytes ht' hp _ _ => rw [ht] at ht'; cases ht'; exact hc hp
    | str ht' hp _ _ _ => rw [ht] at ht'; cases ht'; exact hc hp
    | dict ht' hp _ _ _ => exact hnd _ rfl
  | primType ht hc hty =>
    cases hw with
    | bytes _ _ _ _ => rcases hty with h | ⟨_, h⟩ <;> cases h
    | str _ _ _ _ _ => rcases hty with h | ⟨_, h⟩ <;> cases h
    | dict ht' hp _ _ _ => rw [ht] at ht'; cases ht'; exact hp hc
  | primHex ht hc hs =>
    cases hw with
    | str _ _ hb _ _ => exact hs _ hb
  | tooLong ht hv hs hlen =>
    rename_i t value
    cases hw with
    | bytes ht' hp hl _ =>
      rw [ht] at ht'; cases ht'
      have hc : (t.headD 0 &&& 0x20 != 0) = false := by rw [hp]; rfl
      simp only [hc, encodeValue, Bool.false_eq_true, if_false, Except.ok.injEq] at hv
      subst hv; have := hl hs; omega
    | str ht' hp hb hl _ =>
      rw [ht] at ht'; cases ht'
      have hc : (t.headD 0 &&& 0x20 != 0) = false := by rw [hp]; rfl
      simp only [hc, encodeValue, Bool.false_eq_true, if_false, hb, Except.ok.injEq] at hv
      subst hv; have := hl hs; omega
    | dict ht' hp _ hl _ =>
      rw [ht] at ht'; cases ht'
      have hc : (t.headD 0 &&& 0x20 != 0) = true := by simpa using hp
      simp only [hc, encodeValue, if_true] at hv
      have := hl hs _ hv; omega

/-- the named tag really is an offending one: a tree with a first offender is not well-formed -/
theorem offender_not_wf {si : Bool} {k : PyStr} {t : List (PyStr × PyVal)} (h : FirstOffender si k t) : ¬ WFTree si t := by
  induction h with
  | here hf => exact itemFault_not_wf hf
  | inside _ _ _ ih => intro hw; cases hw with | dict _ _ hk _ _ => exact ih hk
  | later _ _ ih => intro hw; exact ih (wfTree_tail hw)

end Pyemv.Tlv
