import PyemvProofs.TlvTotal
import PyemvSpec.TlvGrammar
/-! Scratch: refinement of the offset-based decoder (Tlv2) to the structural grammar (TlvSpec2). -/
namespace Pyemv.Refine
open Pyemv Pyemv.Tlv Pyemv.TlvSpec

/-! ### slices -/

theorem slice_length {data : Bytes} {a b : Nat} (hb : b ≤ data.length) : (slice data a b).length = b - a := by
  simp [slice]; omega

theorem slice_nil {data : Bytes} {a b : Nat} (h : b ≤ a) : slice data a b = [] := by
  simp [slice]; omega

theorem slice_getElem? {data : Bytes} {a b i : Nat} (hi : a + i < b) :
    (slice data a b)[i]? = data[a + i]? := by
  simp [slice, List.getElem?_take, List.getElem?_drop]; omega

theorem slice_drop {data : Bytes} {a b k : Nat} : (slice data a b).drop k = slice data (a + k) b := by
  simp only [slice, List.drop_take, List.drop_drop]
  congr 1
  omega

theorem slice_take {data : Bytes} {a b k : Nat} (h : a + k ≤ b) : (slice data a b).take k = slice data a (a + k) := by
  simp only [slice, List.take_take]
  congr 1
  omega

theorem slice_cons {data : Bytes} {a b : Nat} {x : UInt8} (hx : data[a]? = some x) (hab : a < b) :
    slice data a b = x :: slice data (a + 1) b := by
  have hlt : a < data.length := by
    rcases Nat.lt_or_ge a data.length with h | h
    · exact h
    · rw [List.getElem?_eq_none h] at hx; cases hx
  unfold slice
  rw [List.drop_eq_getElem_cons hlt]
  have : b - a = (b - (a + 1)) + 1 := by omega
  rw [this, List.take_succ_cons]
  congr 1
  rw [List.getElem?_eq_getElem hlt] at hx
  exact Option.some.inj hx

/-- data from `a` on = the part inside the parent ++ the part beyond it -/
theorem drop_eq_slice_append {data : Bytes} {a b : Nat} (hab : a ≤ b) :
    data.drop a = slice data a b ++ data.drop b := by
  unfold slice
  have : data.drop b = (data.drop a).drop (b - a) := by
    rw [List.drop_drop]; congr 1; omega
  rw [this, List.take_append_drop]

/-! ### tag scan -/

theorem scanCont_eq_scanList (data : Bytes) (ofs : Nat) :
    ∀ fuel n, data.length < fuel + (ofs + n) → scanCont fuel data ofs n = scanList (data.drop (ofs + n)) n := by
  intro fuel
  induction fuel with
  | zero =>
    intro n h
    have : data.drop (ofs + n) = [] := List.drop_eq_nil_of_le (by omega)
    simp [scanCont, this, scanList]
  | succ f ih =>
    intro n h
    unfold scanCont
    cases hx : data[ofs + n]? with
    | none =>
      have : data.length ≤ ofs + n := by simpa using hx
      simp [List.drop_eq_nil_of_le this, scanList]
    | some b =>
      have hlt : ofs + n < data.length := by
        rcases Nat.lt_or_ge (ofs + n) data.length with h' | h'
        · exact h'
        · rw [List.getElem?_eq_none h'] at hx; cases hx
      rw [List.drop_eq_getElem_cons hlt]
      have hb : data[ofs + n] = b := by
        rw [List.getElem?_eq_getElem hlt] at hx; exact Option.some.inj hx
      simp only [scanList, hb]
      split
      · have := ih (n + 1) (by omega)
        simpa [Nat.add_assoc] using this
      · rfl

theorem scanList_append_some {p s : Bytes} {n m k : Nat} (h : scanList p n = (some m, k)) :
    scanList (p ++ s) n = (some m, k) := by
  induction p generalizing n with
  | nil => simp [scanList] at h
  | cons b rest ih =>
    simp only [List.cons_append, scanList] at h ⊢
    split
    · rename_i hb; simp only [hb, if_true] at h; exact ih h
    · rename_i hb; simp only [hb, if_false] at h; exact h

theorem scanList_append_none {p s : Bytes} {n k : Nat} (h : scanList p n = (none, k)) :
    k = n + p.length ∧ scanList (p ++ s) n = scanList s (n + p.length) := by
  induction p generalizing n with
  | nil => simp [scanList] at h; simp [h]
  | cons b rest ih =>
    simp only [List.cons_append, scanList] at h ⊢
    split
    · rename_i hb; simp only [hb, if_true] at h
      have := ih h
      simp only [List.length_cons]
      constructor
      · omega
      · rw [this.2]; congr 1; omega
    · rename_i hb; simp only [hb, if_false] at h; simp at h


/-! ### header -/

def TagRel (data : Bytes) (g : GErr) (e : DErr) : Prop :=
  match g.kind with
  | .tag => g.tagRegion <+: e.tag ∧ e.tag <+: data.drop e.ofs
  | _ => e.tag = g.tagRegion

theorem getElem?_some_of_lt {data : Bytes} {i : Nat} (h : i < data.length) : ∃ x, data[i]? = some x :=
  ⟨data[i], List.getElem?_eq_getElem h⟩

theorem afterTag_refines {simple : Bool} {data : Bytes} {lim : Nat} {c : Bool} {tag : Bytes} {ofs n : Nat}
    (hl : lim ≤ data.length) (ho : ofs + n ≤ lim) :
    match lenPart simple (ofs + n) n tag (slice data (ofs + n) lim) with
    | .ok hd => afterTag simple data lim c tag (ofs + n) = .ok tag c (ofs + hd.h) hd.ln ∧ hd.tag = tag
    | .error g => afterTag simple data lim c tag (ofs + n) = .err ⟨g.kind, tag, g.ofs⟩ ∧ g.tagRegion = tag ∧
        (g.kind = .tag → False) := by
  rcases Nat.lt_or_ge (ofs + n) lim with hlt | hge
  · obtain ⟨lb, hlb⟩ := getElem?_some_of_lt (show ofs + n < data.length by omega)
    rw [slice_cons hlb hlt]
    have hrl : (slice data (ofs + n + 1) lim).length = lim - (ofs + n + 1) := slice_length hl
    unfold lenPart afterTag
    simp only [hlb, hrl]
    have h1 : ¬ (ofs + n + 1 > lim) := by omega
    simp only [h1, if_false]
    by_cases hlong : (lb &&& 0x80 != 0 && !simple) = true
    · simp only [hlong, if_true]
      generalize (lb &&& 0x7F).toNat = ll
      by_cases h2 : ll > lim - (ofs + n + 1)
      · have h2' : ofs + n + 1 + ll > lim := by omega
        simp only [h2, h2', if_true]
        simp
      · have h2' : ¬ (ofs + n + 1 + ll > lim) := by omega
        simp only [h2, h2', if_false]
        rw [slice_take (by omega)]
        generalize Pyemv.fromBE (slice data (ofs + n + 1) (ofs + n + 1 + ll)) = tl
        by_cases h3 : tl > lim - (ofs + n + 1) - ll
        · have h3' : ofs + n + 1 + ll + tl > lim := by omega
          simp only [h3, h3', if_true]
          simp
        · have h3' : ¬ (ofs + n + 1 + ll + tl > lim) := by omega
          simp only [h3, h3', if_false]
          refine ⟨?_, by first | trivial | rfl⟩
          congr 1
          omega
    · simp only [hlong]
      generalize lb.toNat = tl
      by_cases h2 : tl > lim - (ofs + n + 1)
      · have h2' : ofs + n + 1 + tl > lim := by omega
        simp only [h2, h2', if_true]
        simp
      · have h2' : ¬ (ofs + n + 1 + tl > lim) := by omega
        simp only [h2, h2', if_false]
        refine ⟨?_, by first | trivial | rfl⟩
        congr 1
  · have : ofs + n = lim := by omega
    rw [slice_nil (by omega)]
    unfold lenPart afterTag
    have h1 : ofs + n + 1 > lim := by omega
    simp only [h1, if_true]
    simp


theorem scanList_none {s : Bytes} {n k : Nat} (h : scanList s n = (none, k)) : k = n + s.length := by
  have := (scanList_append_none (s := []) h).1
  exact this

theorem take_prefix_take {l : Bytes} {a b : Nat} (h : a ≤ b) : l.take a <+: l.take b := by
  have : l.take a = (l.take b).take a := by rw [List.take_take]; congr 1; omega
  rw [this]; exact List.take_prefix _ _

/-- The statement the loop needs about one header. -/
def HeaderRefines (simple : Bool) (data : Bytes) (ofs lim : Nat) (b0 : UInt8) : Prop :=
  match header simple ofs (slice data ofs lim) with
  | .ok hd => readHeader simple data ofs lim = .ok hd.tag (b0 &&& 0x20 != 0) (ofs + hd.h) hd.ln
  | .error g => ∃ tag, readHeader simple data ofs lim = .err ⟨g.kind, tag, g.ofs⟩ ∧ TagRel data g ⟨g.kind, tag, g.ofs⟩

theorem readHeader_known_tag {simple : Bool} {data : Bytes} {ofs lim : Nat} {b0 : UInt8} {n k : Nat}
    (hl : lim ≤ data.length) (hb0 : data[ofs]? = some b0)
    (h1 : 1 ≤ n) (hn : ofs + n ≤ lim)
    (hscan : scanTag data ofs b0 = (some n, k)) (htl : tagLen (slice data ofs lim) = some n) :
    HeaderRefines simple data ofs lim b0 := by
  unfold HeaderRefines header readHeader
  simp only [htl, hb0, hscan]
  have hn' : ¬ (ofs + n > lim) := by omega
  simp only [hn', if_false]
  rw [slice_take hn, slice_drop]
  have := afterTag_refines (simple := simple) (data := data) (lim := lim) (c := (b0 &&& 0x20 != 0))
    (tag := slice data ofs (ofs + n)) (ofs := ofs) (n := n) hl hn
  revert this
  cases lenPart simple (ofs + n) n (slice data ofs (ofs + n)) (slice data (ofs + n) lim) with
  | ok hd =>
    intro h
    simp only at h ⊢
    rw [h.1, h.2]
  | error g =>
    intro h
    simp only at h ⊢
    refine ⟨_, h.1, ?_⟩
    unfold TagRel
    split
    · rename_i hk; exact absurd hk (fun hk => h.2.2 hk)
    · exact h.2.1.symm

theorem readHeader_refines {simple : Bool} {data : Bytes} {ofs lim : Nat}
    (hl : lim ≤ data.length) (ho : ofs < lim) :
    ∃ b0, data[ofs]? = some b0 ∧ (slice data ofs lim).headD 0 = b0 ∧ HeaderRefines simple data ofs lim b0 := by
  obtain ⟨b0, hb0⟩ := getElem?_some_of_lt (show ofs < data.length by omega)
  have hr : slice data ofs lim = b0 :: slice data (ofs + 1) lim := slice_cons hb0 ho
  refine ⟨b0, hb0, by rw [hr]; rfl, ?_⟩
  by_cases hmulti : (b0 &&& 0x1F == 0x1F) = true
  · -- multi-byte tag number
    have hsc : scanTag data ofs b0 = scanList (slice data (ofs + 1) lim ++ data.drop lim) 1 := by
      unfold scanTag
      simp only [hmulti, if_true]
      rw [scanCont_eq_scanList data ofs _ 1 (by omega), drop_eq_slice_append (show ofs + 1 ≤ lim by omega)]
    have hpl : (slice data (ofs + 1) lim).length = lim - (ofs + 1) := slice_length hl
    cases hs : scanList (slice data (ofs + 1) lim) 1 with
    | mk o k =>
      cases o with
      | some m =>
        have hb := scanList_some hs
        have htl : tagLen (slice data ofs lim) = some m := by
          rw [hr]; unfold tagLen; simp only [hmulti, if_true, hs]
        exact readHeader_known_tag hl hb0 (by omega) (by omega)
          (by rw [hsc]; exact scanList_append_some hs) htl
      | none =>
        obtain ⟨hk, happ⟩ := scanList_append_none (s := data.drop lim) hs
        have htl : tagLen (slice data ofs lim) = none := by
          rw [hr]; unfold tagLen; simp only [hmulti, if_true, hs]
        unfold HeaderRefines header readHeader
        simp only [htl, hb0, hsc, happ]
        cases hs2 : scanList (data.drop lim) (1 + (slice data (ofs + 1) lim).length) with
        | mk o2 k2 =>
          cases o2 with
          | none =>
            have hk2 := scanList_none hs2
            simp only
            refine ⟨_, rfl, ?_⟩
            unfold TagRel
            simp only
            constructor
            · unfold slice
              apply take_prefix_take
              omega
            · unfold slice
              exact List.take_prefix _ _
          | some m =>
            have hb := scanList_some hs2
            have hgt : ofs + m > lim := by omega
            simp only [hgt, if_true]
            refine ⟨_, rfl, ?_⟩
            unfold TagRel
            simp only
            have : min (ofs + m) lim = lim := by omega
            rw [this]
            constructor
            · exact List.prefix_refl _
            · unfold slice
              exact List.take_prefix _ _
  · -- single-byte tag
    have hsc : scanTag data ofs b0 = (some 1, 1) := by
      unfold scanTag; simp only [hmulti]; rfl
    have htl : tagLen (slice data ofs lim) = some 1 := by
      rw [hr]; unfold tagLen; simp only [hmulti]; rfl
    exact readHeader_known_tag hl hb0 (by omega) (by omega) hsc htl

end Pyemv.Refine
