import PyemvProofs.TlvEncode
import PyemvProofs.TlvConvert
import PyemvProofs.Hex
/-! # Re-encoding a decoded tree: canonical input is reproduced byte for byte -/
namespace Pyemv.Tlv
open Pyemv Pyemv.TlvSpec Pyemv.RoundTrip Pyemv.Refine

/-! ### `bytes.fromhex` on the upper-case hex name the decoder produces -/

theorem upperHex_not_space : ∀ c ∈ upperHexChars, isPySpace c = false := by decide

theorem bytesFromHexAux_hexUpper : ∀ (b : Bytes) (fuel : Nat), b.length < fuel → bytesFromHexAux fuel (hexUpper b) = .ok b := by
  intro b
  induction b with
  | nil => intro fuel h; cases fuel with | zero => omega | succ f => simp [bytesFromHexAux, hexUpper]
  | cons x xs ih =>
    intro fuel h
    cases fuel with
    | zero => omega
    | succ f =>
      have hx : hexUpper (x :: xs) = hexDigitUpper (x.toNat / 16) :: hexDigitUpper (x.toNat % 16) :: hexUpper xs := by
        simp [hexUpper]
      have hd : ∀ n, n < 16 → hexDigitUpper n ∈ upperHexChars ∧ hexVal (hexDigitUpper n) = some n := by
        intro n hn
        have : ∀ k : Fin 16, hexDigitUpper k.val ∈ upperHexChars ∧ hexVal (hexDigitUpper k.val) = some k.val := by decide
        exact this ⟨n, hn⟩
      have h1 := hd (x.toNat / 16) (by have := x.toNat_lt; omega)
      have h2 := hd (x.toNat % 16) (by omega)
      have hsp : isPySpace (hexDigitUpper (x.toNat / 16)) = false := upperHex_not_space _ h1.1
      rw [hx]
      simp only [bytesFromHexAux, List.dropWhile_cons, hsp, Bool.false_eq_true, if_false, h1.2, h2.2,
        ih f (by simp at h; omega), bind, Except.bind, pure, Except.pure]
      congr 2
      have := Nat.div_add_mod x.toNat 16
      rw [show 16 * (x.toNat / 16) + x.toNat % 16 = x.toNat by omega]
      exact UInt8.ofNat_toNat

theorem bytesFromHex_hexUpper (b : Bytes) : bytesFromHex (hexUpper b) = .ok b :=
  bytesFromHexAux_hexUpper b _ (by rw [hexUpper_length]; omega)

theorem tagOfName_hexUpper (t : Bytes) (h : ValidTag t) : tagOfName (hexUpper t) = some t := by
  unfold ValidTag at h
  simp only [tagOfName, bytesFromHex_hexUpper, tagNameLen_eq_tagLen, h, beq_self_eq_true, if_true]

/-! ### the tree a decoded CST denotes, with the decoder's key names -/

mutual
def treeOfItem : Item → PyStr × PyVal
  | .prim t _ v => (hexUpper t, .bytes v)
  | .cons t _ kids => (hexUpper t, .dict (treeOfItems kids))
def treeOfItems : List Item → List (PyStr × PyVal)
  | [] => []
  | i :: more => treeOfItem i :: treeOfItems more
end

/-- canonical length fields throughout (the shortest definite form) -/
inductive CanonLens (si : Bool) : List Item → Prop
  | nil : CanonLens si []
  | prim {t l v more} : l = berLen si v.length → CanonLens si more → CanonLens si (.prim t l v :: more)
  | cons {t l kids more} : l = berLen si (printItems kids).length → CanonLens si kids → CanonLens si more →
      CanonLens si (.cons t l kids :: more)

/-- well-formed items with canonical lengths mirror the tree they denote -/
theorem mirror_treeOfItems (si : Bool) (items : List Item) (hc : CanonLens si items) :
    (∀ i ∈ items, WF si i) → Mirror si (treeOfItems items) items := by
  induction hc with
  | nil => intro _; simp only [treeOfItems]; exact Mirror.nil
  | @prim t l v more hl _ ih =>
    intro hwf
    have hw := hwf (.prim t l v) (List.mem_cons_self ..)
    cases hw with
    | prim hvt hp hv =>
      simp only [treeOfItems, treeOfItem]
      rw [hl]
      exact Mirror.bytes (tagOfName_hexUpper t hvt) hp (ih (fun i hi => hwf i (List.mem_cons_of_mem _ hi)))
  | @cons t l kids more hl _ _ ihk ihm =>
    intro hwf
    have hw := hwf (.cons t l kids) (List.mem_cons_self ..)
    cases hw with
    | cons hvt hp hkw hv =>
      simp only [treeOfItems, treeOfItem]
      rw [hl]
      exact Mirror.dict (tagOfName_hexUpper t hvt) hp (ihk hkw) (ihm (fun i hi => hwf i (List.mem_cons_of_mem _ hi)))

/-- the mirror of a tree is unique -/
theorem mirror_unique (si : Bool) : ∀ {t : List (PyStr × PyVal)} {a b : List Item}, Mirror si t a → Mirror si t b → a = b := by
  intro t a b ha
  induction ha generalizing b with
  | nil => intro hb; cases hb; rfl
  | bytes ht _ _ ih =>
    intro hb
    cases hb with
    | bytes ht' _ hm' => rw [ht] at ht'; cases ht'; rw [ih hm']
  | str ht _ hs _ ih =>
    intro hb
    cases hb with
    | str ht' _ hs' hm' => rw [ht] at ht'; cases ht'; rw [hs] at hs'; cases hs'; rw [ih hm']
  | dict ht _ _ _ ihk ihr =>
    intro hb
    cases hb with
    | dict ht' _ hk' hm' => rw [ht] at ht'; cases ht'; rw [ihk hk', ihr hm']

theorem validLen_simple_le {l : Bytes} {n : Nat} (h : ValidLen true l n) : n ≤ 255 := by
  rcases h with ⟨b, _, hb, _⟩ | ⟨hsi, _⟩
  · have := b.toNat_lt; omega
  · cases hsi

/-- the tree a mirror relates to well-formed items is well-formed -/
theorem wfTree_of_mirror (si : Bool) : ∀ {t : List (PyStr × PyVal)} {items : List Item}, Mirror si t items →
    (∀ i ∈ items, WF si i) → WFTree si t := by
  intro t items hm
  induction hm with
  | nil => intro _; exact WFTree.nil
  | @bytes k t v rest more ht hp _ ih =>
    intro hwf
    have hw := hwf _ (List.mem_cons_self ..)
    cases hw with
    | prim _ _ hv =>
      exact WFTree.bytes ht hp (fun hs => by subst hs; exact validLen_simple_le hv)
        (ih (fun i hi => hwf i (List.mem_cons_of_mem _ hi)))
  | @str k t s v rest more ht hp hs _ ih =>
    intro hwf
    have hw := hwf _ (List.mem_cons_self ..)
    cases hw with
    | prim _ _ hv =>
      exact WFTree.str ht hp hs (fun h => by subst h; exact validLen_simple_le hv)
        (ih (fun i hi => hwf i (List.mem_cons_of_mem _ hi)))
  | @dict k t kvs kids rest more ht hp hmk _ ihk ihr =>
    intro hwf
    have hw := hwf _ (List.mem_cons_self ..)
    cases hw with
    | cons _ _ hkw hv =>
      refine WFTree.dict ht hp (ihk hkw) ?_ (ihr (fun i hi => hwf i (List.mem_cons_of_mem _ hi)))
      intro hs b hb
      subst hs
      obtain ⟨kids', e, m', _⟩ := encodeItems_ok true kvs b hb (by intro h; cases h)
      rw [mirror_unique true hmk m'] at hv
      rw [e]; exact validLen_simple_le hv

/-- **re-encoding reproduces canonical input byte for byte**: for well-formed items with shortest
length fields, encoding the tree they denote gives back exactly their serialisation -/
theorem encode_treeOfItems (si : Bool) (items : List Item) (hwf : ∀ i ∈ items, WF si i) (hc : CanonLens si items) :
    encode si (treeOfItems items) = .ok (printItems items) := by
  have hm := mirror_treeOfItems si items hc hwf
  obtain ⟨b, hb⟩ := wf_accepts si _ (wfTree_of_mirror si hm hwf)
  -- the output mirrors the tree; the mirror is unique
  have key : ∀ (n : Nat), b.length ≤ n → b = printItems items := by
    intro n _
    by_cases hs : si = false
    · -- bound the output by comparing with the claim through a second run of the structure theorem
      -- `encodeItems_ok` needs `b.length < L`; obtain it from determinism of the encoder on mirrored trees
      have : ∀ (t : List (PyStr × PyVal)) (its : List Item), Mirror si t its → (∀ i ∈ its, WF si i) →
          ∀ b', encodeItems si t = .ok b' → b' = printItems its := by
        intro t its hmt
        induction hmt with
        | nil => intro _ b' hb'; simp only [encodeItems, Except.ok.injEq] at hb'; subst hb'; simp [printItems]
        | @bytes k tg v rest more ht hp _ ih =>
          intro hw b' hb'
          obtain ⟨hbx, n', hn', hl'⟩ := tagOfName_unfold ht
          have hcb : (tg.headD 0 &&& 0x20 != 0) = false := by rw [hp]; decide
          have hwi := hw _ (List.mem_cons_self ..)
          cases hwi with
          | prim _ _ hv =>
            cases hr : encodeItems si rest with
            | error e => simp only [encodeItems, encodeItem, hbx, hn', hl', hcb, encodeValue, hr, Bool.false_eq_true, ↓reduceIte] at hb'; split at hb' <;> cases hb'
            | ok r =>
              have hrr := ih (fun i hi => hw i (List.mem_cons_of_mem _ hi)) r hr
              cases hlf : lenField si v.length with
              | none => simp only [encodeItems, encodeItem, hbx, hn', hl', hcb, encodeValue, hlf, Bool.false_eq_true, ↓reduceIte] at hb'; cases hb'
              | some l =>
                simp only [encodeItems, encodeItem, hbx, hn', hl', hcb, encodeValue, hlf, hr, Bool.false_eq_true, ↓reduceIte, Except.ok.injEq] at hb'
                subst hb'
                have hcan : l = berLen si v.length := by
                  -- the written field is valid for the same value length as the canonical one: both are `lenField`
                  rcases hv with ⟨bb, hbb, hbn, _⟩ | ⟨_, lb, bs, hlbs, hlb, hll, hbe⟩
                  · exact lenField_canonical si _ l (fun _ => by have := bb.toNat_lt; rw [← hbn]; exact Nat.lt_of_lt_of_le this (by decide)) hlf
                  · have hk : bs.length < 128 := by
                      rw [← hll]; have : (lb &&& 0x7F).toNat ≤ 127 := by
                        have := UInt8.toNat_and lb 0x7F; rw [this]; exact Nat.and_le_right
                      omega
                    have : v.length < 256 ^ 127 := by
                      rw [← hbe]
                      exact Nat.lt_of_lt_of_le (fromBE_lt bs) (Nat.pow_le_pow_right (by omega) (by omega))
                    exact lenField_canonical si _ l (fun _ => this) hlf
                rw [hcan, hrr]; simp [printItems]
        | @str k tg s0 v rest more ht hp hs0 _ ih =>
          intro hw b' hb'
          obtain ⟨hbx, n', hn', hl'⟩ := tagOfName_unfold ht
          have hcb : (tg.headD 0 &&& 0x20 != 0) = false := by rw [hp]; decide
          have hwi := hw _ (List.mem_cons_self ..)
          cases hwi with
          | prim _ _ hv =>
            cases hr : encodeItems si rest with
            | error e => simp only [encodeItems, encodeItem, hbx, hn', hl', hcb, encodeValue, hs0, hr, Bool.false_eq_true, ↓reduceIte] at hb'; split at hb' <;> cases hb'
            | ok r =>
              have hrr := ih (fun i hi => hw i (List.mem_cons_of_mem _ hi)) r hr
              cases hlf : lenField si v.length with
              | none => simp only [encodeItems, encodeItem, hbx, hn', hl', hcb, encodeValue, hs0, hlf, Bool.false_eq_true, ↓reduceIte] at hb'; cases hb'
              | some l =>
                simp only [encodeItems, encodeItem, hbx, hn', hl', hcb, encodeValue, hs0, hlf, hr, Bool.false_eq_true, ↓reduceIte, Except.ok.injEq] at hb'
                subst hb'
                have hcan : l = berLen si v.length := by
                  rcases hv with ⟨bb, hbb, hbn, _⟩ | ⟨_, lb, bs, hlbs, hlb, hll, hbe⟩
                  · exact lenField_canonical si _ l (fun _ => by have := bb.toNat_lt; rw [← hbn]; exact Nat.lt_of_lt_of_le this (by decide)) hlf
                  · have hk : bs.length < 128 := by
                      rw [← hll]; have : (lb &&& 0x7F).toNat ≤ 127 := by
                        have := UInt8.toNat_and lb 0x7F; rw [this]; exact Nat.and_le_right
                      omega
                    have : v.length < 256 ^ 127 := by
                      rw [← hbe]
                      exact Nat.lt_of_lt_of_le (fromBE_lt bs) (Nat.pow_le_pow_right (by omega) (by omega))
                    exact lenField_canonical si _ l (fun _ => this) hlf
                rw [hcan, hrr]; simp [printItems]
        | @dict k tg kvs kids rest more ht hp hmk _ ihk ihr =>
          intro hw b' hb'
          obtain ⟨hbx, n', hn', hl'⟩ := tagOfName_unfold ht
          have hcb : (tg.headD 0 &&& 0x20 != 0) = true := by simp only [bne_iff_ne, ne_eq]; exact hp
          have hwi := hw _ (List.mem_cons_self ..)
          cases hwi with
          | cons _ _ hkw hv =>
            cases hk : encodeItems si kvs with
            | error e => simp only [encodeItems, encodeItem, hbx, hn', hl', hcb, encodeValue, hk, Bool.false_eq_true, ↓reduceIte] at hb'; cases hb'
            | ok kb =>
              have hkk := ihk hkw kb hk
              cases hr : encodeItems si rest with
              | error e => simp only [encodeItems, encodeItem, hbx, hn', hl', hcb, encodeValue, hk, hr, Bool.false_eq_true, ↓reduceIte] at hb'; split at hb' <;> cases hb'
              | ok r =>
                have hrr := ihr (fun i hi => hw i (List.mem_cons_of_mem _ hi)) r hr
                cases hlf : lenField si kb.length with
                | none => simp only [encodeItems, encodeItem, hbx, hn', hl', hcb, encodeValue, hk, hlf, Bool.false_eq_true, ↓reduceIte] at hb'; cases hb'
                | some l =>
                  simp only [encodeItems, encodeItem, hbx, hn', hl', hcb, encodeValue, hk, hlf, hr, Bool.false_eq_true, ↓reduceIte, Except.ok.injEq] at hb'
                  subst hb'
                  have hcan : l = berLen si kb.length := by
                    rw [hkk] at hlf ⊢
                    rcases hv with ⟨bb, hbb, hbn, _⟩ | ⟨_, lb, bs, hlbs, hlb, hll, hbe⟩
                    · exact lenField_canonical si _ l (fun _ => by have := bb.toNat_lt; rw [← hbn]; exact Nat.lt_of_lt_of_le this (by decide)) hlf
                    · have hk : bs.length < 128 := by
                        rw [← hll]; have : (lb &&& 0x7F).toNat ≤ 127 := by
                          have := UInt8.toNat_and lb 0x7F; rw [this]; exact Nat.and_le_right
                        omega
                      have : (printItems kids).length < 256 ^ 127 := by
                        rw [← hbe]
                        exact Nat.lt_of_lt_of_le (fromBE_lt bs) (Nat.pow_le_pow_right (by omega) (by omega))
                      exact lenField_canonical si _ l (fun _ => this) hlf
                  rw [hcan, hkk, hrr]; simp [printItems]
      exact this _ _ hm hwf b hb
    · have hs' : si = true := by simpa using hs
      obtain ⟨its, e, m', _⟩ := encodeItems_ok si _ b hb (fun h => by rw [hs'] at h; cases h)
      rw [e, mirror_unique si hm m']
  unfold encode
  rw [hb, key b.length (Nat.le_refl _)]

/-! ### from the decoded dictionary back to a tree -/

def itemTag : Item → Bytes
  | .prim t _ _ => t
  | .cons t _ _ => t

/-- no tag repeats within a template, at any depth -/
inductive Distinct : List Item → Prop
  | nil : Distinct []
  | prim {t l v more} : (∀ i ∈ more, itemTag i ≠ t) → Distinct more → Distinct (.prim t l v :: more)
  | cons {t l kids more} : (∀ i ∈ more, itemTag i ≠ t) → Distinct kids → Distinct more → Distinct (.cons t l kids :: more)

mutual
def treeOfNode : Node → PyVal
  | .prim v => .bytes v
  | .cons kids => .dict (treeOfDict kids)
def treeOfEntry : Bytes × Node → PyStr × PyVal
  | (k, n) => (hexUpper k, treeOfNode n)
/-- the tree the decoder hands to the caller: hex names in upper case, values as bytes -/
def treeOfDict : List (Bytes × Node) → List (PyStr × PyVal)
  | [] => []
  | e :: rest => treeOfEntry e :: treeOfDict rest
end

theorem treeOfDict_append (a b : Dict) : treeOfDict (a ++ b) = treeOfDict a ++ treeOfDict b := by
  induction a with
  | nil => simp [treeOfDict]
  | cons e rest ih => simp [treeOfDict, ih]

theorem set_absent (d : Dict) (k : Bytes) (v : Node) (h : ∀ p ∈ d, p.1 ≠ k) : d.set k v = d ++ [(k, v)] := by
  unfold Dict.set
  have : d.any (fun p => p.1 == k) = false := by
    rw [List.any_eq_false]; intro p hp; simpa using h p hp
  simp [this]

/-- with distinct tags the nested fold keeps every object, in order -/
theorem absNested_distinct (items : List Item) (hd : Distinct items) :
    ∀ (dec : Dict), (∀ p ∈ dec, ∀ i ∈ items, itemTag i ≠ p.1) →
      treeOfDict (absNested dec items) = treeOfDict dec ++ treeOfItems items := by
  induction hd with
  | nil => intro dec _; simp [absNested, treeOfItems]
  | @prim t l v more hne _ ih =>
    intro dec hdis
    have habs : ∀ p ∈ dec, p.1 ≠ t := fun p hp => (hdis p hp (.prim t l v) (List.mem_cons_self ..)).symm
    simp only [absNested]
    rw [set_absent dec t _ habs, ih]
    · simp [treeOfDict_append, treeOfDict, treeOfEntry, treeOfNode, treeOfItems, treeOfItem]
    · intro p hp i hi
      rcases List.mem_append.mp hp with h | h
      · exact hdis p h i (List.mem_cons_of_mem _ hi)
      · simp at h; subst h; exact hne i hi
  | @cons t l kids more hne _ _ ihk ih =>
    intro dec hdis
    have habs : ∀ p ∈ dec, p.1 ≠ t := fun p hp => (hdis p hp (.cons t l kids) (List.mem_cons_self ..)).symm
    simp only [absNested]
    rw [set_absent dec t _ habs, ih]
    · have hk := ihk [] (by intro p hp; cases hp)
      simp only [treeOfDict, List.nil_append] at hk
      simp [treeOfDict_append, treeOfDict, treeOfEntry, treeOfNode, treeOfItems, treeOfItem, hk]
    · intro p hp i hi
      rcases List.mem_append.mp hp with h | h
      · exact hdis p h i (List.mem_cons_of_mem _ hi)
      · simp at h; subst h; exact hne i hi

/-- the flattened result is the map of all primitive objects at every depth in input order, the last
occurrence winning -/
theorem absFlat_eq_prims (items : List Item) : ∀ (dec : Dict),
    absFlat dec items = (prims items).foldl (fun d p => d.set p.1 (.prim p.2)) dec := by
  intro dec
  fun_induction absFlat dec items with
  | case1 dec => simp [prims]
  | case2 dec t l v more ih => rw [ih]; simp [prims]
  | case3 dec t l kids more ihk ih => rw [ih, ihk]; simp [prims, List.foldl_append]

end Pyemv.Tlv
