import PyemvModel.Des
namespace Des

/-! ### table permutations -/

theorem permute_foldl_testBit (tbl : List Nat) (w x acc i : Nat) :
    (tbl.foldl (fun acc p => 2 * acc + (if x.testBit (w - p) then 1 else 0)) acc).testBit i =
      if h : i < tbl.length then x.testBit (w - tbl[tbl.length - 1 - i]) else acc.testBit (i - tbl.length) := by
  induction tbl generalizing acc i with
  | nil => simp
  | cons p t ih =>
    simp only [List.foldl_cons, List.length_cons]
    rw [ih]
    by_cases h1 : i < t.length
    · have h2 : i < t.length + 1 := by omega
      simp only [h1, h2, dite_true]
      congr 2
      have : t.length + 1 - 1 - i = (t.length - 1 - i) + 1 := by omega
      rw [List.getElem_cons]
      simp only [this]
      simp
    · simp only [h1, dite_false]
      by_cases h3 : i = t.length
      · subst h3
        simp
        by_cases hb : x.testBit (w - p) <;> simp [hb] <;> omega
      · have h4 : ¬ i < t.length + 1 := by omega
        simp only [h4, dite_false]
        have : i - t.length = (i - (t.length + 1)) + 1 := by omega
        rw [this, Nat.testBit_succ]
        congr 1
        by_cases hb : x.testBit (w - p) <;> simp [hb] <;> omega

theorem permute_testBit (tbl : List Nat) (w x i : Nat) :
    (permute tbl w x).testBit i =
      if h : i < tbl.length then x.testBit (w - tbl[tbl.length - 1 - i]) else false := by
  unfold permute
  rw [permute_foldl_testBit]
  split <;> simp

theorem permute_lt (tbl : List Nat) (w x : Nat) : permute tbl w x < 2 ^ tbl.length := by
  apply Nat.lt_pow_two_of_testBit
  intro i hi
  rw [permute_testBit]
  have : ¬ i < tbl.length := by omega
  simp [this]

/-- composition of two table permutations is the identity when the index tables are mutually inverse -/
theorem permute_permute_id (t1 t2 : List Nat) (w : Nat) (h1 : t1.length = w) (h2 : t2.length = w)
    (hidx : ∀ i : Fin w, w - t2[t2.length - 1 - (w - t1[t1.length - 1 - i.val]!)]! = i.val ∧
        w - t1[t1.length - 1 - i.val]! < w)
    (x : Nat) (hx : x < 2 ^ w) : permute t1 w (permute t2 w x) = x := by
  apply Nat.eq_of_testBit_eq
  intro i
  rw [permute_testBit]
  by_cases hi : i < w
  · have hi1 : i < t1.length := by omega
    simp only [hi1, dite_true]
    obtain ⟨ha, hb⟩ := hidx ⟨i, hi⟩
    simp only at ha hb
    rw [permute_testBit]
    have e1 : t1[t1.length - 1 - i]! = t1[t1.length - 1 - i] := getElem!_pos t1 _ (by omega)
    rw [e1] at ha hb
    have hb2 : w - t1[t1.length - 1 - i] < t2.length := by omega
    simp only [hb2, dite_true]
    have e2 : t2[t2.length - 1 - (w - t1[t1.length - 1 - i])]! = t2[t2.length - 1 - (w - t1[t1.length - 1 - i])] :=
      getElem!_pos t2 _ (by omega)
    rw [e2] at ha
    rw [ha]
  · have hi1 : ¬ i < t1.length := by omega
    simp only [hi1, dite_false]
    have : 2 ^ w ≤ 2 ^ i := Nat.pow_le_pow_right (by omega) (by omega)
    exact (Nat.testBit_lt_two_pow (by omega)).symm

theorem FP_IP (x : Nat) (hx : x < 2 ^ 64) : permute FP 64 (permute IP 64 x) = x :=
  permute_permute_id FP IP 64 rfl rfl (by decide) x hx

theorem IP_FP (x : Nat) (hx : x < 2 ^ 64) : permute IP 64 (permute FP 64 x) = x :=
  permute_permute_id IP FP 64 rfl rfl (by decide) x hx

/-! ### Feistel network -/

def stepF (k : Nat) (lr : Nat × Nat) : Nat × Nat := (lr.2, lr.1 ^^^ f lr.2 k)

theorem rounds_eq_foldl (ks : List Nat) (l r : Nat) : rounds ks l r = ks.foldl (fun lr k => stepF k lr) (l, r) := rfl

theorem stepF_swap_stepF (k : Nat) (p : Nat × Nat) : stepF k (Prod.swap (stepF k p)) = Prod.swap p := by
  obtain ⟨l, r⟩ := p
  simp [stepF, Prod.swap, Nat.xor_assoc]

theorem feistel_inverse (ks : List Nat) (p : Nat × Nat) :
    ks.reverse.foldl (fun lr k => stepF k lr) (Prod.swap (ks.foldl (fun lr k => stepF k lr) p)) = Prod.swap p := by
  induction ks generalizing p with
  | nil => rfl
  | cons k t ih =>
    simp only [List.reverse_cons, List.foldl_append, List.foldl_cons, List.foldl_nil]
    rw [ih (stepF k p), stepF_swap_stepF]

theorem f_lt (r k : Nat) : f r k < 2 ^ 32 := permute_lt P 32 _

theorem rounds_lt (ks : List Nat) (p : Nat × Nat) (h1 : p.1 < 2 ^ 32) (h2 : p.2 < 2 ^ 32) :
    (ks.foldl (fun lr k => stepF k lr) p).1 < 2 ^ 32 ∧ (ks.foldl (fun lr k => stepF k lr) p).2 < 2 ^ 32 := by
  induction ks generalizing p with
  | nil => exact ⟨h1, h2⟩
  | cons k t ih =>
    simp only [List.foldl_cons]
    apply ih
    · exact h2
    · exact Nat.xor_lt_two_pow h1 (f_lt _ _)

/-! ### halves -/

theorem join_hi (a b : Nat) (hb : b < 2 ^ 32) : ((a <<< 32) ||| b) >>> 32 = a := by
  rw [← Nat.shiftLeft_add_eq_or_of_lt hb, Nat.shiftLeft_eq, Nat.shiftRight_eq_div_pow]
  omega

theorem join_lo (a b : Nat) (hb : b < 2 ^ 32) : ((a <<< 32) ||| b) % 2 ^ 32 = b := by
  rw [← Nat.shiftLeft_add_eq_or_of_lt hb, Nat.shiftLeft_eq]
  omega

theorem join_split (y : Nat) : ((y >>> 32) <<< 32) ||| (y % 2 ^ 32) = y := by
  rw [← Nat.shiftLeft_add_eq_or_of_lt (Nat.mod_lt _ (by decide)), Nat.shiftLeft_eq, Nat.shiftRight_eq_div_pow]
  omega

theorem join_lt (a b : Nat) (ha : a < 2 ^ 32) (hb : b < 2 ^ 32) : ((a <<< 32) ||| b) < 2 ^ 64 := by
  rw [← Nat.shiftLeft_add_eq_or_of_lt hb, Nat.shiftLeft_eq]
  omega

/-! ### the block function is a permutation -/

theorem crypt_lt (ks : List Nat) (x : Nat) : crypt ks x < 2 ^ 64 := permute_lt FP 64 _

theorem crypt_reverse (ks : List Nat) (x : Nat) (hx : x < 2 ^ 64) : crypt ks.reverse (crypt ks x) = x := by
  unfold crypt
  simp only [rounds_eq_foldl]
  have hy : permute IP 64 x < 2 ^ 64 := permute_lt IP 64 x
  generalize hyd : permute IP 64 x = y at hy
  have hp1 : y >>> 32 < 2 ^ 32 := by rw [Nat.shiftRight_eq_div_pow]; omega
  have hp2 : y % 2 ^ 32 < 2 ^ 32 := Nat.mod_lt _ (by decide)
  obtain ⟨hl, hr⟩ := rounds_lt ks (y >>> 32, y % 2 ^ 32) hp1 hp2
  generalize hq : ks.foldl (fun lr k => stepF k lr) (y >>> 32, y % 2 ^ 32) = q at hl hr
  obtain ⟨ql, qr⟩ := q
  simp only at hl hr ⊢
  rw [IP_FP _ (join_lt _ _ hr hl), join_hi _ _ hl, join_lo _ _ hl]
  have := feistel_inverse ks (y >>> 32, y % 2 ^ 32)
  rw [hq] at this
  simp only [Prod.swap] at this
  rw [this]
  simp only
  rw [join_split, ← hyd, FP_IP x hx]

/-- **DES decryption inverts encryption** (for every key, every 64-bit block). -/
theorem dec_enc (key x : Nat) (hx : x < 2 ^ 64) : dec key (enc key x) = x := crypt_reverse _ x hx

theorem enc_dec (key x : Nat) (hx : x < 2 ^ 64) : enc key (dec key x) = x := by
  have := crypt_reverse (subkeys key).reverse x hx
  rwa [List.reverse_reverse] at this

end Des
