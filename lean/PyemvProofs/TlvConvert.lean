import PyemvProofs.TlvRefine2
/-!
# Decoding with a conversion function

`decodeSeqC` (the decoder with `convert` and a call log) relates to the plain decoder and to the grammar:
the call log is the list of primitive objects of the parse in input order — once each, never a template —
and the converted tree is the plain tree mapped through the conversion.
-/
namespace Pyemv.Refine
open Pyemv Pyemv.Tlv Pyemv.TlvSpec

/-- the primitive objects of a CST at every depth, in input order -/
def prims : List Item → Log
  | [] => []
  | .prim t _ v :: more => (t, v) :: prims more
  | .cons _ _ kids :: more => prims kids ++ prims more

/-- log relation between the logging decoder and the grammar -/
def LogRel {α} (lim : Nat) (log : Log) : ResC α → Except (GErr × List Item) (List Item) → Prop
  | .ok o _ l, .ok items => o = lim ∧ l = log ++ prims items
  | .err _ _ l, .error (_, part) => l = log ++ prims part
  | _, _ => False

theorem prims_nil : prims [] = [] := by simp [prims]
theorem prims_prim (t l v : Bytes) (more : List Item) : prims (.prim t l v :: more) = (t, v) :: prims more := by simp [prims]
theorem prims_cons (t l : Bytes) (kids more : List Item) : prims (.cons t l kids :: more) = prims kids ++ prims more := by
  simp [prims]

/-- **the conversion function is applied exactly once to each primitive object, in input order, and never
to a template**: the call log is the log so far followed by the primitives of the parse (complete, or
the part completed before a fault) -/
theorem decodeSeqC_log {α} (conv : Bytes → Bytes → α) (fl si : Bool) (data : Bytes) :
    ∀ (fuel ofs lim : Nat) (dec : DictC α) (log : Log), lim ≤ data.length → ofs ≤ lim → lim - ofs < fuel →
      LogRel lim log (decodeSeqC conv fl si data fuel ofs lim dec log) (parseItems si ofs (slice data ofs lim)) := by
  intro fuel
  induction fuel with
  | zero => intro ofs lim dec log _ _ h; omega
  | succ f ih =>
    intro ofs lim dec log hl ho hf
    unfold decodeSeqC
    by_cases hlt : ofs < lim
    · simp only [hlt, not_true_eq_false, if_false]
      obtain ⟨b0, hb0, hhead, hH⟩ := readHeader_refines (simple := si) hl hlt
      have hne : slice data ofs lim ≠ [] := by
        intro h
        have := slice_length (data := data) (a := ofs) (b := lim) hl
        rw [h] at this; simp at this; omega
      rw [parseItems_ne hne]
      unfold HeaderRefines at hH
      cases hh : header si ofs (slice data ofs lim) with
      | error g =>
        rw [hh] at hH
        obtain ⟨tag, hrh, _⟩ := hH
        simp only [hrh]
        simp [LogRel, prims_nil]
      | ok hd =>
        rw [hh] at hH
        simp only [hH, hhead]
        have ⟨h2, h3⟩ := header_ok hh
        rw [slice_length hl] at h3
        have hval : ((slice data ofs lim).drop hd.h).take hd.ln
            = slice data (ofs + hd.h) (ofs + hd.h + hd.ln) := by
          rw [slice_drop, slice_take (by omega)]
        have hrest : (slice data ofs lim).drop (hd.h + hd.ln) = slice data (ofs + hd.h + hd.ln) lim := by
          rw [slice_drop]; congr 1; omega
        rw [hval, hrest]
        -- the two recursive calls, for any dictionaries
        have child : ∀ (d : DictC α), LogRel (ofs + hd.h + hd.ln) log (decodeSeqC conv fl si data f (ofs + hd.h) (ofs + hd.h + hd.ln) d log)
            (parseItems si (ofs + hd.h) (slice data (ofs + hd.h) (ofs + hd.h + hd.ln))) :=
          fun d => ih (ofs + hd.h) (ofs + hd.h + hd.ln) d log (by omega) (by omega) (by omega)
        have rest : ∀ (d : DictC α) (l : Log), LogRel lim l (decodeSeqC conv fl si data f (ofs + hd.h + hd.ln) lim d l)
            (parseItems si (ofs + hd.h + hd.ln) (slice data (ofs + hd.h + hd.ln) lim)) :=
          fun d l => ih (ofs + hd.h + hd.ln) lim d l hl (by omega) (by omega)
        by_cases hc : (b0 &&& 0x20 != 0) = true
        · simp only [hc, if_true]
          cases fl with
          | false =>
            simp only [Bool.false_eq_true, if_false]
            have ihc := child []
            revert ihc
            cases decodeSeqC conv false si data f (ofs + hd.h) (ofs + hd.h + hd.ln) [] log with
            | ok o d l1 =>
              cases parseItems si (ofs + hd.h) (slice data (ofs + hd.h) (ofs + hd.h + hd.ln)) with
              | error p => intro h; exact h.elim
              | ok kids =>
                intro h
                simp only [LogRel] at h
                obtain ⟨ho', h⟩ := h
                subst ho' h
                simp only
                have ihr := rest (dec.set hd.tag (.cons d)) (log ++ prims kids)
                revert ihr
                cases decodeSeqC conv false si data f (ofs + hd.h + hd.ln) lim (dec.set hd.tag (.cons d)) (log ++ prims kids) with
                | ok o2 d2 l2 =>
                  cases parseItems si (ofs + hd.h + hd.ln) (slice data (ofs + hd.h + hd.ln) lim) with
                  | error p => intro h; exact h.elim
                  | ok more => intro h; simp only [LogRel] at h ⊢; exact ⟨h.1, by rw [h.2, prims_cons, List.append_assoc]⟩
                | err e2 d2 l2 =>
                  cases parseItems si (ofs + hd.h + hd.ln) (slice data (ofs + hd.h + hd.ln) lim) with
                  | ok more => intro h; exact h.elim
                  | error p =>
                    obtain ⟨g, part⟩ := p
                    intro h; simp only [LogRel] at h ⊢; rw [h, prims_cons, List.append_assoc]
                | crash =>
                  cases parseItems si (ofs + hd.h + hd.ln) (slice data (ofs + hd.h + hd.ln) lim) <;> (intro h; exact h.elim)
                | fuel =>
                  cases parseItems si (ofs + hd.h + hd.ln) (slice data (ofs + hd.h + hd.ln) lim) <;> (intro h; exact h.elim)
            | err e d l1 =>
              cases parseItems si (ofs + hd.h) (slice data (ofs + hd.h) (ofs + hd.h + hd.ln)) with
              | ok kids => intro h; exact h.elim
              | error p =>
                obtain ⟨g, part⟩ := p
                intro h; simp only [LogRel] at h ⊢; rw [h, prims_cons, prims_nil, List.append_nil]
            | crash =>
              cases parseItems si (ofs + hd.h) (slice data (ofs + hd.h) (ofs + hd.h + hd.ln)) <;> (intro h; exact h.elim)
            | fuel =>
              cases parseItems si (ofs + hd.h) (slice data (ofs + hd.h) (ofs + hd.h + hd.ln)) <;> (intro h; exact h.elim)
          | true =>
            simp only [if_true]
            have ihc := child dec
            revert ihc
            cases decodeSeqC conv true si data f (ofs + hd.h) (ofs + hd.h + hd.ln) dec log with
            | ok o d l1 =>
              cases parseItems si (ofs + hd.h) (slice data (ofs + hd.h) (ofs + hd.h + hd.ln)) with
              | error p => intro h; exact h.elim
              | ok kids =>
                intro h
                simp only [LogRel] at h
                obtain ⟨ho', h⟩ := h
                subst ho' h
                simp only
                have ihr := rest d (log ++ prims kids)
                revert ihr
                cases decodeSeqC conv true si data f (ofs + hd.h + hd.ln) lim d (log ++ prims kids) with
                | ok o2 d2 l2 =>
                  cases parseItems si (ofs + hd.h + hd.ln) (slice data (ofs + hd.h + hd.ln) lim) with
                  | error p => intro h; exact h.elim
                  | ok more => intro h; simp only [LogRel] at h ⊢; exact ⟨h.1, by rw [h.2, prims_cons, List.append_assoc]⟩
                | err e2 d2 l2 =>
                  cases parseItems si (ofs + hd.h + hd.ln) (slice data (ofs + hd.h + hd.ln) lim) with
                  | ok more => intro h; exact h.elim
                  | error p =>
                    obtain ⟨g, part⟩ := p
                    intro h; simp only [LogRel] at h ⊢; rw [h, prims_cons, List.append_assoc]
                | crash =>
                  cases parseItems si (ofs + hd.h + hd.ln) (slice data (ofs + hd.h + hd.ln) lim) <;> (intro h; exact h.elim)
                | fuel =>
                  cases parseItems si (ofs + hd.h + hd.ln) (slice data (ofs + hd.h + hd.ln) lim) <;> (intro h; exact h.elim)
            | err e d l1 =>
              cases parseItems si (ofs + hd.h) (slice data (ofs + hd.h) (ofs + hd.h + hd.ln)) with
              | ok kids => intro h; exact h.elim
              | error p =>
                obtain ⟨g, part⟩ := p
                intro h; simp only [LogRel] at h ⊢; rw [h, prims_cons, prims_nil, List.append_nil]
            | crash =>
              cases parseItems si (ofs + hd.h) (slice data (ofs + hd.h) (ofs + hd.h + hd.ln)) <;> (intro h; exact h.elim)
            | fuel =>
              cases parseItems si (ofs + hd.h) (slice data (ofs + hd.h) (ofs + hd.h + hd.ln)) <;> (intro h; exact h.elim)
        · have hc' : (b0 &&& 0x20 != 0) = false := by simpa using hc
          simp only [hc', Bool.false_eq_true, if_false]
          have ihr := rest (dec.set hd.tag (.prim (conv hd.tag (slice data (ofs + hd.h) (ofs + hd.h + hd.ln)))))
            (log ++ [(hd.tag, slice data (ofs + hd.h) (ofs + hd.h + hd.ln))])
          revert ihr
          cases decodeSeqC conv fl si data f (ofs + hd.h + hd.ln) lim
              (dec.set hd.tag (.prim (conv hd.tag (slice data (ofs + hd.h) (ofs + hd.h + hd.ln)))))
              (log ++ [(hd.tag, slice data (ofs + hd.h) (ofs + hd.h + hd.ln))]) with
          | ok o2 d2 l2 =>
            cases parseItems si (ofs + hd.h + hd.ln) (slice data (ofs + hd.h + hd.ln) lim) with
            | error p => intro h; exact h.elim
            | ok more => intro h; simp only [LogRel] at h ⊢; exact ⟨h.1, by rw [h.2, prims_prim]; simp⟩
          | err e2 d2 l2 =>
            cases parseItems si (ofs + hd.h + hd.ln) (slice data (ofs + hd.h + hd.ln) lim) with
            | ok more => intro h; exact h.elim
            | error p =>
              obtain ⟨g, part⟩ := p
              intro h; simp only [LogRel] at h ⊢; rw [h, prims_prim]; simp
          | crash =>
            cases parseItems si (ofs + hd.h + hd.ln) (slice data (ofs + hd.h + hd.ln) lim) <;> (intro h; exact h.elim)
          | fuel =>
            cases parseItems si (ofs + hd.h + hd.ln) (slice data (ofs + hd.h + hd.ln) lim) <;> (intro h; exact h.elim)
    · have : ofs = lim := by omega
      subst this
      simp only [hlt, not_false_eq_true, if_true]
      rw [slice_nil (Nat.le_refl _), parseItems_nil]
      simp [LogRel, prims_nil]

theorem decodeC_log {α} (conv : Bytes → Bytes → α) (fl si : Bool) (data : Bytes) :
    LogRel data.length [] (decodeC conv fl si data) (parseItems si 0 data) := by
  have h := decodeSeqC_log conv fl si data (data.length + 1) 0 data.length [] [] (Nat.le_refl _) (Nat.zero_le _) (by omega)
  have hs : slice data 0 data.length = data := by simp [slice]
  rw [hs] at h
  exact h

end Pyemv.Refine

namespace Pyemv.Refine
open Pyemv Pyemv.Tlv Pyemv.TlvSpec

/-! ### the converted tree is the plain tree mapped through the conversion -/

mutual
def mapNode {α} (conv : Bytes → Bytes → α) (k : Bytes) : Node → NodeC α
  | .prim v => .prim (conv k v)
  | .cons kids => .cons (mapDict conv kids)
def mapPair {α} (conv : Bytes → Bytes → α) : Bytes × Node → Bytes × NodeC α
  | (k, n) => (k, mapNode conv k n)
def mapDict {α} (conv : Bytes → Bytes → α) : List (Bytes × Node) → DictC α
  | [] => []
  | p :: rest => mapPair conv p :: mapDict conv rest
end

theorem mapDict_eq_map {α} (conv : Bytes → Bytes → α) (d : Dict) : mapDict conv d = d.map (mapPair conv) := by
  induction d with
  | nil => simp [mapDict]
  | cons p rest ih => simp [mapDict, ih]

theorem mapPair_fst {α} (conv : Bytes → Bytes → α) (p : Bytes × Node) : (mapPair conv p).1 = p.1 := by
  cases p; simp [mapPair]

theorem mapDict_set {α} (conv : Bytes → Bytes → α) (d : Dict) (k : Bytes) (v : Node) :
    mapDict conv (d.set k v) = DictC.set (mapDict conv d) k (mapNode conv k v) := by
  have hany : (mapDict conv d).any (fun p => p.1 == k) = d.any (fun p => p.1 == k) := by
    rw [mapDict_eq_map, List.any_map]
    congr 1; funext p; simp [Function.comp, mapPair_fst]
  unfold Dict.set DictC.set
  rw [hany]
  split
  · rw [mapDict_eq_map, mapDict_eq_map, List.map_map, List.map_map]
    apply List.map_congr_left
    intro p _
    simp only [Function.comp, mapPair_fst]
    split <;> simp [mapPair]
  · rw [mapDict_eq_map, mapDict_eq_map]; simp [mapPair]

/-- outcome relation between the plain decoder and the converting decoder -/
def SimRel {α} (conv : Bytes → Bytes → α) : Res → ResC α → Prop
  | .ok o d, .ok o' d' _ => o = o' ∧ d' = mapDict conv d
  | .err e d, .err e' d' _ => e.kind = e'.kind ∧ e.tag = e'.tag ∧ e.ofs = e'.ofs ∧ d' = mapDict conv d
  | .crash _, .crash => True
  | .fuel, .fuel => True
  | _, _ => False

/-- **naturality**: decoding with a conversion function gives the plain result mapped through it
(same success/failure, same offset and error, dictionaries related by `mapDict`) -/
theorem decodeSeqC_sim {α} (conv : Bytes → Bytes → α) (fl si : Bool) (data : Bytes) :
    ∀ (fuel ofs lim : Nat) (dec : Dict) (log : Log),
      SimRel conv (decodeSeq fl si data fuel ofs lim dec) (decodeSeqC conv fl si data fuel ofs lim (mapDict conv dec) log) := by
  intro fuel
  induction fuel with
  | zero => intro ofs lim dec log; simp [decodeSeq, decodeSeqC, SimRel]
  | succ f ih =>
    intro ofs lim dec log
    unfold decodeSeq decodeSeqC
    by_cases hlt : ofs < lim
    · simp only [hlt, not_true_eq_false, if_false]
      cases hr : readHeader si data ofs lim with
      | err e => simp [SimRel]
      | crash => simp [SimRel]
      | ok tag c vo tlen =>
        simp only
        by_cases hc : c = true
        · simp only [hc, if_true]
          cases fl with
          | true =>
            simp only [if_true]
            have h1 := ih vo (vo + tlen) dec log
            revert h1
            cases decodeSeq true si data f vo (vo + tlen) dec with
            | ok o d =>
              cases decodeSeqC conv true si data f vo (vo + tlen) (mapDict conv dec) log with
              | ok o' d' l' =>
                intro h; obtain ⟨ho, hd⟩ := h; subst ho hd
                exact ih o lim d l'
              | err _ _ _ => intro h; exact h.elim
              | crash => intro h; exact h.elim
              | fuel => intro h; exact h.elim
            | err e d =>
              cases decodeSeqC conv true si data f vo (vo + tlen) (mapDict conv dec) log with
              | err e' d' l' => intro h; exact h
              | ok _ _ _ => intro h; exact h.elim
              | crash => intro h; exact h.elim
              | fuel => intro h; exact h.elim
            | crash d =>
              cases decodeSeqC conv true si data f vo (vo + tlen) (mapDict conv dec) log with
              | crash => intro _; trivial
              | ok _ _ _ => intro h; exact h.elim
              | err _ _ _ => intro h; exact h.elim
              | fuel => intro h; exact h.elim
            | fuel =>
              cases decodeSeqC conv true si data f vo (vo + tlen) (mapDict conv dec) log with
              | fuel => intro _; trivial
              | ok _ _ _ => intro h; exact h.elim
              | err _ _ _ => intro h; exact h.elim
              | crash => intro h; exact h.elim
          | false =>
            simp only [Bool.false_eq_true, if_false]
            have h1 := ih vo (vo + tlen) [] log
            have hnil : mapDict conv ([] : Dict) = [] := by simp [mapDict]
            rw [hnil] at h1
            revert h1
            cases decodeSeq false si data f vo (vo + tlen) [] with
            | ok o d =>
              cases decodeSeqC conv false si data f vo (vo + tlen) [] log with
              | ok o' d' l' =>
                intro h; obtain ⟨ho, hd⟩ := h; subst ho hd
                have := ih o lim (dec.set tag (.cons d)) l'
                rw [mapDict_set] at this
                simpa [mapNode] using this
              | err _ _ _ => intro h; exact h.elim
              | crash => intro h; exact h.elim
              | fuel => intro h; exact h.elim
            | err e d =>
              cases decodeSeqC conv false si data f vo (vo + tlen) [] log with
              | err e' d' l' =>
                intro h; obtain ⟨a, b, c', hd⟩ := h; subst hd
                exact ⟨a, b, c', by rw [mapDict_set]; simp [mapNode]⟩
              | ok _ _ _ => intro h; exact h.elim
              | crash => intro h; exact h.elim
              | fuel => intro h; exact h.elim
            | crash d =>
              cases decodeSeqC conv false si data f vo (vo + tlen) [] log with
              | crash => intro _; trivial
              | ok _ _ _ => intro h; exact h.elim
              | err _ _ _ => intro h; exact h.elim
              | fuel => intro h; exact h.elim
            | fuel =>
              cases decodeSeqC conv false si data f vo (vo + tlen) [] log with
              | fuel => intro _; trivial
              | ok _ _ _ => intro h; exact h.elim
              | err _ _ _ => intro h; exact h.elim
              | crash => intro h; exact h.elim
        · have hc' : c = false := by simpa using hc
          simp only [hc', Bool.false_eq_true, if_false]
          have := ih (vo + tlen) lim (dec.set tag (.prim (slice data vo (vo + tlen)))) (log ++ [(tag, slice data vo (vo + tlen))])
          rw [mapDict_set] at this
          simpa [mapNode] using this
    · simp only [hlt, not_false_eq_true, if_true]
      exact ⟨rfl, rfl⟩

theorem decodeC_sim {α} (conv : Bytes → Bytes → α) (fl si : Bool) (data : Bytes) :
    SimRel conv (decode fl si data) (decodeC conv fl si data) := by
  have := decodeSeqC_sim conv fl si data (data.length + 1) 0 data.length [] []
  simpa [mapDict, decode, decodeC] using this

end Pyemv.Refine
