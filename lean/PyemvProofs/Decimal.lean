import PyemvModel.Py
/-! # `str(n)` and `zfill(5)` on 16-bit values -/
namespace Pyemv

theorem strOfNatAux_fuel : ∀ (f1 f2 n : Nat), n < f1 → n < f2 → strOfNatAux f1 n = strOfNatAux f2 n := by
  intro f1
  induction f1 with
  | zero => intro f2 n h; omega
  | succ f1 ih =>
    intro f2 n h1 h2
    cases f2 with
    | zero => omega
    | succ f2 =>
      simp only [strOfNatAux]
      split
      · rfl
      · rw [ih f2 (n / 10) (by omega) (by omega)]

/-- the recursion equation of `str(n)` -/
theorem pyStr_eq (n : Nat) : pyStr n = if n < 10 then [decDigit n] else pyStr (n / 10) ++ [decDigit n] := by
  unfold pyStr
  rw [strOfNatAux]
  split
  · rfl
  · rw [strOfNatAux_fuel n (n / 10 + 1) (n / 10) (by omega) (by omega)]

/-- five decimal digits of `v`, most significant first -/
def digits5 (v : Nat) : PyStr :=
  [decDigit (v / 10000), decDigit (v / 1000), decDigit (v / 100), decDigit (v / 10), decDigit v]

theorem decDigit_mod (n : Nat) : decDigit (n % 10) = decDigit n := by simp [decDigit]
theorem decDigit_zero_of (n : Nat) (h : n % 10 = 0) : decDigit n = '0' := by simp [decDigit, h]

/-- `str(v).zfill(5)` is the five-digit rendering, for every `v < 100000` -/
theorem zfill5_pyStr (v : Nat) (hv : v < 100000) : zfill 5 (pyStr v) = digits5 v := by
  have z : ∀ k, k % 10 = 0 → decDigit k = '0' := decDigit_zero_of
  by_cases h1 : v < 10
  · rw [pyStr_eq, if_pos h1]
    simp [zfill, digits5, z (v / 10000) (by omega), z (v / 1000) (by omega), z (v / 100) (by omega), z (v / 10) (by omega)]
  by_cases h2 : v < 100
  · rw [pyStr_eq, if_neg h1, pyStr_eq, if_pos (by omega)]
    simp [zfill, digits5, z (v / 10000) (by omega), z (v / 1000) (by omega), z (v / 100) (by omega)]
  by_cases h3 : v < 1000
  · rw [pyStr_eq, if_neg h1, pyStr_eq, if_neg (by omega), pyStr_eq, if_pos (by omega)]
    simp [zfill, digits5, z (v / 10000) (by omega), z (v / 1000) (by omega), Nat.div_div_eq_div_mul]
  by_cases h4 : v < 10000
  · rw [pyStr_eq, if_neg h1, pyStr_eq, if_neg (by omega), pyStr_eq, if_neg (by omega), pyStr_eq, if_pos (by omega)]
    simp [zfill, digits5, z (v / 10000) (by omega), Nat.div_div_eq_div_mul]
  · rw [pyStr_eq, if_neg h1, pyStr_eq, if_neg (by omega), pyStr_eq, if_neg (by omega), pyStr_eq, if_neg (by omega),
      pyStr_eq, if_pos (by omega)]
    simp [zfill, digits5, Nat.div_div_eq_div_mul]

theorem decDigit_table : ∀ k : Fin 10, (Char.ofNat (48 + k.val)).toNat = 48 + k.val ∧ (Char.ofNat (48 + k.val)).isDigit = true := by
  decide

theorem decDigit_facts (n : Nat) : (decDigit n).toNat = 48 + n % 10 ∧ (decDigit n).isDigit = true :=
  decDigit_table ⟨n % 10, Nat.mod_lt _ (by omega)⟩

/-- the number a decimal string denotes -/
def decValue (s : PyStr) : Nat := s.foldl (fun a c => 10 * a + (c.toNat - 48)) 0

theorem decValue_digits5 (v : Nat) (hv : v < 100000) : decValue (digits5 v) = v := by
  simp only [decValue, digits5, List.foldl_cons, List.foldl_nil, (decDigit_facts _).1]
  omega

/-- without the zero fill, small values come out shorter than five characters (the repaired defect) -/
theorem pyStr_short : (pyStr 6531).length = 4 ∧ (zfill 5 (pyStr 6531)) = ['0', '6', '5', '3', '1'] := by decide

end Pyemv
