import PyemvModel.Tlv
/-! # Totality of the code-shaped TLV decoder -/
namespace Pyemv.Tlv
open Pyemv

theorem scanCont_some (fuel : Nat) (data : Bytes) (ofs n m k : Nat)
    (h : scanCont fuel data ofs n = (some m, k)) : n + 1 ≤ m := by
  induction fuel generalizing n with
  | zero => simp [scanCont] at h
  | succ f ih =>
    unfold scanCont at h
    split at h
    · simp at h
    · split at h
      · have := ih (n+1) h; omega
      · simp at h; omega

theorem scanTag_some {data ofs b0 n k} (h : scanTag data ofs b0 = (some n, k)) : 1 ≤ n := by
  unfold scanTag at h
  split at h
  · have := scanCont_some _ _ _ _ _ _ h; omega
  · simp at h; omega

theorem afterTag_ok {simple data lim c tag o1 tag' c' vo tlen}
    (h : afterTag simple data lim c tag o1 = .ok tag' c' vo tlen) : o1 + 1 ≤ vo ∧ vo + tlen ≤ lim := by
  unfold afterTag at h
  grind

theorem afterTag_ne_crash {simple data lim c tag o1} (hl : lim ≤ data.length) :
    afterTag simple data lim c tag o1 ≠ .crash := by
  unfold afterTag
  split
  · simp
  · split
    · rename_i hnone
      have : data.length ≤ o1 := by simpa using hnone
      omega
    · grind

/-- A successfully read header consumes at least two bytes and its value ends inside the parent. -/
theorem readHeader_ok {simple data ofs lim tag c vo tlen}
    (h : readHeader simple data ofs lim = .ok tag c vo tlen) : ofs + 2 ≤ vo ∧ vo + tlen ≤ lim := by
  unfold readHeader at h
  split at h
  · simp at h
  · split at h
    · simp at h
    · rename_i hs
      have := scanTag_some hs
      split at h
      · simp at h
      · have := afterTag_ok h; omega

/-- Inside the parent (and the parent inside the data) the length byte is always readable:
the only unguarded index in tlv.py can never raise IndexError. -/
theorem readHeader_ne_crash {simple data ofs lim} (hl : lim ≤ data.length) :
    readHeader simple data ofs lim ≠ .crash := by
  unfold readHeader
  split
  · simp
  · split
    · simp
    · split
      · simp
      · exact afterTag_ne_crash hl

/-- Totality of the loop: with fuel exceeding the remaining bytes it never runs out of fuel and never
lets a foreign exception escape; on success it stops exactly at the parent's end. -/
theorem decodeSeq_total (flatten simple : Bool) (data : Bytes) :
    ∀ (fuel ofs lim : Nat) (dec : Dict), lim ≤ data.length → ofs ≤ lim → lim - ofs < fuel →
      (∃ d, decodeSeq flatten simple data fuel ofs lim dec = .ok lim d) ∨
      (∃ e d, decodeSeq flatten simple data fuel ofs lim dec = .err e d) := by
  intro fuel
  induction fuel with
  | zero => intro ofs lim dec _ _ h; omega
  | succ f ih =>
    intro ofs lim dec hl ho hf
    unfold decodeSeq
    by_cases hlt : ofs < lim
    · simp only [hlt, not_true_eq_false, if_false]
      split
      · exact Or.inr ⟨_, _, rfl⟩
      · rename_i hc; exact absurd hc (readHeader_ne_crash hl)
      · rename_i tag c vo tlen hh
        obtain ⟨h2, h3⟩ := readHeader_ok hh
        split
        · split
          · -- flatten
            rcases ih vo (vo + tlen) dec (by omega) (by omega) (by omega) with ⟨d, hd⟩ | ⟨e, d, hd⟩
            · rw [hd]; exact ih (vo + tlen) lim d hl h3 (by omega)
            · rw [hd]; exact Or.inr ⟨_, _, rfl⟩
          · rcases ih vo (vo + tlen) [] (by omega) (by omega) (by omega) with ⟨d, hd⟩ | ⟨e, d, hd⟩
            · rw [hd]; exact ih (vo + tlen) lim _ hl h3 (by omega)
            · rw [hd]; exact Or.inr ⟨_, _, rfl⟩
        · exact ih (vo + tlen) lim _ hl h3 (by omega)
    · have : ofs = lim := by omega
      subst this
      simp only [hlt, not_false_eq_true, if_true]
      exact Or.inl ⟨_, rfl⟩

/-- C09, totality half: for every byte string and every option combination the decoder terminates
with a tree or a DecodeError - never another exception. -/
theorem decode_total (flatten simple : Bool) (data : Bytes) :
    (∃ d, decode flatten simple data = .ok data.length d) ∨ (∃ e d, decode flatten simple data = .err e d) :=
  decodeSeq_total flatten simple data _ 0 data.length [] (Nat.le_refl _) (Nat.zero_le _) (by omega)


end Pyemv.Tlv
