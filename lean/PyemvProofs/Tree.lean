import PyemvProofs.Parity
/-! # EMV2000 tree derivation over an abstract map Φ, and the bridge from the code-shaped model -/
namespace Pyemv.Tree
section
variable {K : Type} (Φ : K → K → Nat → K) (b : Nat) (mk iv : K)

/-- `derive` of kd.py: only `j mod b` enters the block computation. -/
def derive (x y : K) (j : Nat) : K := Φ x y (j % b)

/-- Impl: `walk(j, h)` of kd.py returning (parent, grandparent). -/
def walk : Nat → Nat → K × K
  | _, 0 => (mk, iv)
  | j, h+1 => let pg := walk (j / b) h; (derive Φ b pg.1 pg.2 j, pg.1)

/-- Spec: EMV 4.1 Book 2 A1.3.1, intermediate key at level `i`, index `j`. -/
def IK : Nat → Nat → K
  | 0, _ => mk
  | i+1, j => derive Φ b (IK i (j / b)) (match i with | 0 => iv | i'+1 => IK i' (j / b / b)) j

/-- grandparent of the node at level `i+1`, index `j` -/
def GP (i j : Nat) : K := match i with | 0 => iv | i'+1 => IK Φ b mk iv i' (j / b / b)

theorem walk_eq (h j : Nat) :
    walk Φ b mk iv j h = (IK Φ b mk iv h j, match h with | 0 => iv | h'+1 => IK Φ b mk iv h' (j / b)) := by
  induction h generalizing j with
  | zero => rfl
  | succ h ih =>
    simp only [walk, ih]
    cases h <;> rfl

/-- the node key produced by the code's final step equals the spec's `IK H atc`, its grandparent `GP` -/
theorem final_step (H atc : Nat) :
    let pg := walk Φ b mk iv (atc / b) H
    (derive Φ b pg.1 pg.2 atc, pg.2) = (IK Φ b mk iv (H+1) atc, GP Φ b mk iv H atc) := by
  simp only [walk_eq]
  cases H <;> rfl

theorem div_mod_pow (j i : Nat) (hb : 0 < b) : (j % b ^ (i+1)) / b = (j / b) % b ^ i := by
  rw [Nat.pow_succ, Nat.mul_comm, Nat.mod_mul_right_div_self]

theorem mod_mod_pow (j i : Nat) : (j % b ^ (i+1)) % b = j % b := by
  apply Nat.mod_mod_of_dvd
  exact ⟨b ^ i, by rw [Nat.pow_succ, Nat.mul_comm]⟩

/-- the key at level `i` depends on the index only modulo `b^i` -/
theorem IK_mod (hb : 0 < b) : ∀ i j, IK Φ b mk iv i j = IK Φ b mk iv i (j % b ^ i) ∧
    IK Φ b mk iv (i+1) j = IK Φ b mk iv (i+1) (j % b ^ (i+1)) := by
  intro i
  induction i with
  | zero =>
    intro j
    refine ⟨rfl, ?_⟩
    simp only [IK, derive]
    rw [mod_mod_pow]
  | succ i ih =>
    intro j
    refine ⟨(ih j).2, ?_⟩
    simp only [IK, derive]
    have e1 : j % b ^ (i + 1 + 1) % b = j % b := mod_mod_pow b j (i+1)
    have e2 : j % b ^ (i + 1 + 1) / b = (j / b) % b ^ (i+1) := div_mod_pow b j (i+1) hb
    have e3 : (j / b) % b ^ (i+1) / b = (j / b / b) % b ^ i := div_mod_pow b (j / b) i hb
    rw [e1, e2, e3, ← (ih (j / b)).2, ← (ih (j / b / b)).1]

variable (xor : K → K → K)

/-- session key before parity adjustment, as the spec writes it (H ≥ 1 levels) -/
def skSpec (H atc : Nat) : K := xor (IK Φ b mk iv (H+1) atc) (GP Φ b mk iv H atc)

/-- session key as the code computes it with `height = H+1` -/
def skImpl (H atc : Nat) : K :=
  let pg := walk Φ b mk iv (atc / b) H
  xor (derive Φ b pg.1 pg.2 atc) pg.2

theorem skImpl_eq_skSpec (H atc : Nat) : skImpl Φ b mk iv xor H atc = skSpec Φ b mk iv xor H atc := by
  have := final_step Φ b mk iv H atc
  simp only at this
  unfold skImpl skSpec
  simp only
  rw [(Prod.mk.inj this).1, (Prod.mk.inj this).2]

theorem GP_mod (hb : 0 < b) (H j : Nat) : GP Φ b mk iv H j = GP Φ b mk iv H (j % b ^ (H+1)) := by
  cases H with
  | zero => rfl
  | succ H =>
    simp only [GP]
    rw [(IK_mod Φ b mk iv hb H _).1, (IK_mod Φ b mk iv hb H (j % b ^ (H + 1 + 1) / b / b)).1]
    congr 1
    rw [div_mod_pow b j (H+1) hb, div_mod_pow b _ H hb]
    exact (Nat.mod_mod _ _).symm

/-- **Collision theorem**: if the tree has no more than 65535 leaves (`b^height ≤ 65535`), ATC 0 and
ATC `b^height` are both valid ATCs and get the same session key under every master key, IV and Φ. -/
theorem collision_of_small_tree (hb : 0 < b) (H : Nat) (hsmall : b ^ (H+1) ≤ 65535) :
    (0 : Nat) ≠ b ^ (H+1) ∧ b ^ (H+1) ≤ 65535 ∧
      skSpec Φ b mk iv xor H 0 = skSpec Φ b mk iv xor H (b ^ (H+1)) := by
  refine ⟨?_, hsmall, ?_⟩
  · have := Nat.pow_pos (n := H+1) hb; omega
  · unfold skSpec
    rw [(IK_mod Φ b mk iv hb H (b ^ (H+1))).2, GP_mod Φ b mk iv hb H (b ^ (H+1))]
    simp
end

/-! ### digit paths -/

def digitsRev (b : Nat) : Nat → Nat → List Nat
  | 0, _ => []
  | H+1, a => (a % b) :: digitsRev b H (a / b)

def ofDigitsRev (b : Nat) : List Nat → Nat
  | [] => 0
  | d :: ds => d + b * ofDigitsRev b ds

theorem ofDigits_digits (b : Nat) (hb : 0 < b) : ∀ H a, ofDigitsRev b (digitsRev b H a) = a % b ^ H := by
  intro H
  induction H with
  | zero => intro a; simp [digitsRev, ofDigitsRev, Nat.mod_one]
  | succ H ih =>
    intro a
    simp only [digitsRev, ofDigitsRev, ih]
    rw [Nat.pow_succ, Nat.mul_comm (b ^ H) b, Nat.mod_mul, Nat.add_comm]

/-- distinct ATCs below `b^H` follow distinct digit paths: the tree has a leaf of its own for each -/
theorem path_injective (b H a₁ a₂ : Nat) (hb : 0 < b) (h1 : a₁ < b ^ H) (h2 : a₂ < b ^ H)
    (hd : digitsRev b H a₁ = digitsRev b H a₂) : a₁ = a₂ := by
  have e1 := ofDigits_digits b hb H a₁
  have e2 := ofDigits_digits b hb H a₂
  rw [hd] at e1
  rw [Nat.mod_eq_of_lt h1] at e1
  rw [Nat.mod_eq_of_lt h2] at e2
  omega

/-- acceptance ⇔ every ATC has its own path -/
theorem gate_iff_injective (b H : Nat) (hb : 0 < b) :
    b ^ H > 65535 ↔ ∀ a₁ a₂, a₁ ≤ 65535 → a₂ ≤ 65535 → digitsRev b H a₁ = digitsRev b H a₂ → a₁ = a₂ := by
  constructor
  · intro hg a₁ a₂ h1 h2 hd
    exact path_injective b H a₁ a₂ hb (by omega) (by omega) hd
  · intro hinj
    apply Nat.lt_of_not_le
    intro hle
    have hpos := Nat.pow_pos (n := H) hb
    have hd : digitsRev b H 0 = digitsRev b H (b ^ H) := by
      have key : ∀ H a c, a % b ^ H = c % b ^ H → digitsRev b H a = digitsRev b H c := by
        intro H
        induction H with
        | zero => intros; rfl
        | succ H ih =>
          intro a c hac
          simp only [digitsRev]
          have hm : a % b = c % b := by
            have := congrArg (fun x => x % b) hac
            have d : b ∣ b ^ (H+1) := ⟨b ^ H, by rw [Nat.pow_succ, Nat.mul_comm]⟩
            show a % b = c % b
            have t : a % b ^ (H+1) % b = c % b ^ (H+1) % b := this
            rwa [Nat.mod_mod_of_dvd _ d, Nat.mod_mod_of_dvd _ d] at t
          rw [hm]
          congr 1
          apply ih
          have := congrArg (fun x => x / b) hac
          show a / b % b ^ H = c / b % b ^ H
          have t : a % b ^ (H+1) / b = c % b ^ (H+1) / b := this
          rw [Nat.pow_succ, Nat.mul_comm, Nat.mod_mul_right_div_self, Nat.mod_mul_right_div_self] at t
          exact t
      apply key
      simp
    have := hinj 0 (b ^ H) (by omega) hle hd
    omega

end Pyemv.Tree

namespace Pyemv
open Spec

/-- the map Φ(X, Y, j) of EMV 4.1 A1.3.1 on byte strings: two TDES blocks under `X` over the halves of
`Y` XOR `j`, the right half also XOR `F0` in its last byte (`j` already reduced modulo `b`) -/
def phi (x y : Bytes) (j : Nat) : Bytes :=
  tdesE x (xorB (y.take 8) (toBE 8 j)) ++ tdesE x (xorB (xorB (y.drop 8) (toBE 8 j)) (zeros 7 ++ [0xF0]))

theorem phi_length (x y : Bytes) (j : Nat) : (phi x y j).length = 16 := by
  simp [phi, tdesE_length]

theorem treeDerive_eq (b : Nat) (x y : Bytes) (j : Nat) (hb : 0 < b) (hx : x.length = 16) (hy : y.length = 16)
    (hj : j % b < 256 ^ 8) : treeDerive b x y j = .ok (phi x y (j % b)) := by
  unfold treeDerive toBytesBE
  have hb0 : ¬ b = 0 := by omega
  have l8 : (toBE 8 (j % b)).length = 8 := toBE_length _ _
  have e1 : xor (y.take 8) (toBE 8 (j % b)) = xorB (y.take 8) (toBE 8 (j % b)) := xor_eq_xorB _ _ (by simp [hy, l8])
  have e2 : xor (y.drop 8) (toBE 8 (j % b)) = xorB (y.drop 8) (toBE 8 (j % b)) := xor_eq_xorB _ _ (by simp [hy, l8])
  have l2 : (xorB (y.drop 8) (toBE 8 (j % b))).length = 8 := by rw [xorB_length _ _ (by simp [hy, l8])]; simp [hy]
  have e3 : xor (xorB (y.drop 8) (toBE 8 (j % b))) (zeros 7 ++ [0xF0]) = xorB (xorB (y.drop 8) (toBE 8 (j % b))) (zeros 7 ++ [0xF0]) :=
    xor_eq_xorB _ _ (by rw [l2]; simp [zeros])
  have l1 : (xorB (y.take 8) (toBE 8 (j % b))).length = 8 := by rw [xorB_length _ _ (by simp [hy, l8])]; simp [hy]
  have l3 : (xorB (xorB (y.drop 8) (toBE 8 (j % b))) (zeros 7 ++ [0xF0])).length = 8 := by
    rw [xorB_length _ _ (by rw [l2]; simp [zeros])]; exact l2
  simp only [hb0, hj, if_true, if_false, bind, Except.bind, pure, Except.pure, e1, e2, e3,
    encryptTdesEcb_16 x _ hx, ecbUpdate_one _ _ l1, ecbUpdate_one _ _ l3]
  rfl

/-- the recursive walk of kd.py computes the abstract walk over Φ, and every key on the way has 16 bytes -/
theorem treeWalk_eq (b : Nat) (mk iv : Bytes) (hb : 0 < b) (hmk : mk.length = 16) (hiv : iv.length = 16) :
    ∀ (h j : Nat), j < 256 ^ 8 →
      treeWalk b mk iv j h = .ok (Tree.walk phi b mk iv j h) ∧
      (Tree.walk phi b mk iv j h).1.length = 16 ∧ (Tree.walk phi b mk iv j h).2.length = 16 := by
  intro h
  induction h with
  | zero => intro j _; exact ⟨rfl, hmk, hiv⟩
  | succ h ih =>
    intro j hj
    have hdiv : j / b < 256 ^ 8 := Nat.lt_of_le_of_lt (Nat.div_le_self _ _) hj
    obtain ⟨e, l1, l2⟩ := ih (j / b) hdiv
    have hb0 : ¬ b = 0 := by omega
    have hjm : j % b < 256 ^ 8 := Nat.lt_of_le_of_lt (Nat.mod_le _ _) hj
    refine ⟨?_, ?_, ?_⟩
    · simp only [treeWalk, hb0, if_false, e, bind, Except.bind, pure, Except.pure]
      rw [treeDerive_eq b _ _ j hb l1 l2 hjm]
      rfl
    · simp only [Tree.walk, Tree.derive]; exact phi_length _ _ _
    · simp only [Tree.walk]; exact l1

end Pyemv
