import PyemvProofs.TlvRoundTrip
/-! # Soundness of the grammar: a successful parse is lossless and yields well-formed items -/
namespace Pyemv.RoundTrip
open Pyemv Pyemv.Tlv Pyemv.TlvSpec

theorem scanList_take : ∀ (r : Bytes) (n m k : Nat), scanList r n = (some m, k) →
    scanList (r.take (m - n)) n = (some m, m) ∧ k = m := by
  intro r
  induction r with
  | nil => intro n m k h; simp [scanList] at h
  | cons b rest ih =>
    intro n m k h
    unfold scanList at h
    split at h
    · rename_i hb
      obtain ⟨h1, h2⟩ := ih (n + 1) m k h
      have hm := (scanList_some h).1
      have : m - n = (m - (n + 1)) + 1 := by omega
      rw [this, List.take_succ_cons]
      unfold scanList
      simp only [hb, if_true]
      exact ⟨h1, h2⟩
    · rename_i hb
      simp only [Prod.mk.injEq, Option.some.injEq] at h
      obtain ⟨rfl, rfl⟩ := h
      have : n + 1 - n = 1 := by omega
      rw [this]
      simp only [List.take_succ_cons, List.take_zero]
      unfold scanList
      simp [hb]

/-- the bytes a tag scan consumed are themselves a complete tag -/
theorem validTag_take {r : Bytes} {n : Nat} (h : tagLen r = some n) : ValidTag (r.take n) := by
  have hn := tagLen_some h
  unfold ValidTag
  cases r with
  | nil => simp [tagLen] at h
  | cons b0 rest =>
    have hlen : ((b0 :: rest).take n).length = n := by rw [List.length_take]; exact Nat.min_eq_left hn.2
    rw [hlen]
    cases n with
    | zero => omega
    | succ n' =>
      rw [List.take_succ_cons]
      unfold tagLen at h ⊢
      simp only at h ⊢
      by_cases hm : (b0 &&& 0x1F == 0x1F) = true
      · rw [if_pos hm] at h ⊢
        cases hs : scanList rest 1 with
        | mk o k =>
          rw [hs] at h
          have ho : o = some (n' + 1) := h
          subst ho
          obtain ⟨h1, _⟩ := scanList_take rest 1 (n' + 1) k hs
          have : n' + 1 - 1 = n' := by omega
          rw [this] at h1
          rw [h1]
      · rw [if_neg hm] at h ⊢
        exact h

theorem lenPart_sound {si : Bool} {o1 n : Nat} {tag q : Bytes} {hd : Hd} (h : lenPart si o1 n tag q = .ok hd) :
    hd.tag = tag ∧ ValidLen si hd.lenb hd.ln ∧ hd.h = n + hd.lenb.length ∧
      q.take hd.lenb.length = hd.lenb ∧ hd.lenb.length + hd.ln ≤ q.length := by
  unfold lenPart at h
  cases q with
  | nil => cases h
  | cons lb rest =>
    simp only at h
    generalize hll : (lb &&& 0x7F).toNat = ll at h
    by_cases hc : (lb &&& 0x80 != 0 && !si) = true
    · rw [if_pos hc] at h
      by_cases h1 : ll > rest.length
      · rw [if_pos h1] at h; cases h
      · rw [if_neg h1] at h
        by_cases h2 : fromBE (rest.take ll) > rest.length - ll
        · rw [if_pos h2] at h; cases h
        · rw [if_neg h2] at h
          have h' : hd = ⟨tag, lb :: rest.take ll, fromBE (rest.take ll), n + 1 + ll⟩ := by
            injection h with h; exact h.symm
          subst h'
          have hlb : lb &&& 0x80 ≠ 0 ∧ si = false := by
            simp only [Bool.and_eq_true, bne_iff_ne, ne_eq, Bool.not_eq_true'] at hc; exact hc
          have htl : (rest.take ll).length = ll := by rw [List.length_take]; omega
          refine ⟨rfl, Or.inr ⟨hlb.2, lb, rest.take ll, rfl, hlb.1, by rw [hll, htl], rfl⟩, ?_, ?_, ?_⟩
          · show n + 1 + ll = n + (lb :: rest.take ll).length
            rw [List.length_cons, htl]; omega
          · show (lb :: rest).take (lb :: rest.take ll).length = lb :: rest.take ll
            rw [List.length_cons, htl, List.take_succ_cons]
          · show (lb :: rest.take ll).length + fromBE (rest.take ll) ≤ (lb :: rest).length
            rw [List.length_cons, htl, List.length_cons]; omega
    · rw [if_neg hc] at h
      by_cases h1 : lb.toNat > rest.length
      · rw [if_pos h1] at h; cases h
      · rw [if_neg h1] at h
        have h' : hd = ⟨tag, [lb], lb.toNat, n + 1⟩ := by injection h with h; exact h.symm
        subst h'
        refine ⟨rfl, Or.inl ⟨lb, rfl, rfl, ?_⟩, rfl, rfl, ?_⟩
        · simp only [Bool.and_eq_true, bne_iff_ne, ne_eq, Bool.not_eq_true', not_and, Bool.not_eq_false] at hc
          by_cases hz : lb &&& 0x80 = 0
          · exact Or.inr hz
          · exact Or.inl (hc hz)
        · show [lb].length + lb.toNat ≤ (lb :: rest).length
          simp only [List.length_cons, List.length_nil]; omega

/-- **soundness**: whatever the grammar accepts is exactly the serialisation of the items it returns, and
every item is well-formed -/
theorem parse_sound (si : Bool) : ∀ (n : Nat) (r : Bytes) (base : Nat) (items : List Item), r.length ≤ n →
    parseItems si base r = .ok items → r = printItems items ∧ ∀ i ∈ items, WF si i := by
  intro n
  induction n with
  | zero =>
    intro r base items hlen h
    have : r = [] := List.eq_nil_of_length_eq_zero (by omega)
    subst this
    rw [Refine.parseItems_nil] at h; cases h
    exact ⟨by simp [printItems], by simp⟩
  | succ n ih =>
    intro r base items hlen h
    by_cases hr : r = []
    · subst hr; rw [Refine.parseItems_nil] at h; cases h; exact ⟨by simp [printItems], by simp⟩
    · rw [Refine.parseItems_ne hr] at h
      cases hh : header si base r with
      | error e => rw [hh] at h; cases h
      | ok hd =>
        rw [hh] at h
        simp only at h
        have ⟨hh2, hh3⟩ := header_ok hh
        -- decompose the header
        unfold header at hh
        cases htl : tagLen r with
        | none => rw [htl] at hh; cases hh
        | some tn =>
          rw [htl] at hh
          simp only at hh
          obtain ⟨e1, vl, eh, etake, elen⟩ := lenPart_sound hh
          have ⟨t1, t2⟩ := tagLen_some htl
          have hvt := validTag_take htl
          rw [← e1] at hvt
          -- r = tag ++ lenb ++ value ++ rest
          have hsplit : r = hd.tag ++ hd.lenb ++ (r.drop hd.h).take hd.ln ++ r.drop (hd.h + hd.ln) := by
            have a1 : r = r.take tn ++ r.drop tn := (List.take_append_drop tn r).symm
            have a2 : r.drop tn = (r.drop tn).take hd.lenb.length ++ (r.drop tn).drop hd.lenb.length :=
              (List.take_append_drop _ _).symm
            have a3 : (r.drop tn).drop hd.lenb.length = r.drop hd.h := by rw [List.drop_drop, eh]
            have a4 : r.drop hd.h = (r.drop hd.h).take hd.ln ++ (r.drop hd.h).drop hd.ln := (List.take_append_drop _ _).symm
            have a5 : (r.drop hd.h).drop hd.ln = r.drop (hd.h + hd.ln) := by rw [List.drop_drop]
            rw [e1]
            conv => lhs; rw [a1, a2, etake, a3, a4, a5]
            simp [List.append_assoc]
          have hvlen : ((r.drop hd.h).take hd.ln).length = hd.ln := by
            simp only [List.length_take, List.length_drop]; omega
          have hhead : r.headD 0 = hd.tag.headD 0 := by
            have hne := validTag_ne_nil hvt
            conv => lhs; rw [hsplit]
            rw [List.append_assoc, List.append_assoc]; exact headD_append hne
          by_cases hc : (r.headD 0 &&& 0x20 != 0) = true
          · simp only [hc, if_true] at h
            cases hk : parseItems si (base + hd.h) ((r.drop hd.h).take hd.ln) with
            | error e => rw [hk] at h; cases h
            | ok kids =>
              rw [hk] at h; simp only at h
              cases hm : parseItems si (base + hd.h + hd.ln) (r.drop (hd.h + hd.ln)) with
              | error e => rw [hm] at h; cases h
              | ok more =>
                rw [hm] at h; simp only [Except.ok.injEq] at h; subst h
                obtain ⟨pk, wk⟩ := ih _ _ kids (by rw [hvlen]; omega) hk
                obtain ⟨pm, wm⟩ := ih _ _ more (by simp only [List.length_drop]; omega) hm
                refine ⟨?_, ?_⟩
                · conv => lhs; rw [hsplit]
                  simp only [printItems, ← pk, ← pm]
                · intro i hi
                  rcases List.mem_cons.mp hi with rfl | hi
                  · refine WF.cons hvt ?_ wk ?_
                    · rw [← hhead]; simpa using hc
                    · rw [← pk, hvlen]; exact vl
                  · exact wm i hi
          · have hc' : (r.headD 0 &&& 0x20 != 0) = false := by simpa using hc
            simp only [hc', Bool.false_eq_true, if_false] at h
            cases hm : parseItems si (base + hd.h + hd.ln) (r.drop (hd.h + hd.ln)) with
            | error e => rw [hm] at h; cases h
            | ok more =>
              rw [hm] at h; simp only [Except.ok.injEq] at h; subst h
              obtain ⟨pm, wm⟩ := ih _ _ more (by simp only [List.length_drop]; omega) hm
              refine ⟨?_, ?_⟩
              · conv => lhs; rw [hsplit]
                simp only [printItems, ← pm]
              · intro i hi
                rcases List.mem_cons.mp hi with rfl | hi
                · refine WF.prim hvt ?_ ?_
                  · rw [← hhead]; simpa using hc'
                  · rw [hvlen]; exact vl
                · exact wm i hi

end Pyemv.RoundTrip
