import PyemvProps.C01
import PyemvProps.C02
import PyemvProps.C06
import PyemvProps.C09
import PyemvProps.C17
