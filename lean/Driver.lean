import PyemvModel
/-!
# Line-protocol driver: one operation per line in, one canonical answer per line out.

The harness (Python, in-process with the real pyemv) writes the same lines to this program and
compares the answers (DESIGN.md §5.1, Appendix A).  Nothing here is part of a theorem; it only
parses arguments, calls the Impl layer (`PyemvModel`) and prints results.
-/
open Pyemv

namespace Drv

def hv (c : Char) : Nat := (hexVal c).getD 0

def unhex (s : String) : Bytes :=
  if s == "." then [] else
  let cs := s.toList.toArray
  (List.range (cs.size / 2)).map fun i => UInt8.ofNat (16 * hv cs[2*i]! + hv cs[2*i+1]!)

/-- `rep:FF*65536` for long runs, otherwise plain hex -/
def bytesArg (s : String) : Bytes :=
  if s.startsWith "rep:" then
    match (s.drop 4).toString.splitOn "*" with
    | [h, n] => (List.replicate n.toNat! (unhex h)).flatten
    | _ => []
  else unhex s

def hexL (bs : Bytes) : String := if bs.isEmpty then "." else String.ofList (hexLower bs)
def hexU (bs : Bytes) : String := String.ofList (hexUpper bs)
def optB (s : String) : Option Bytes := if s == "-" then none else some (bytesArg s)
def optN (s : String) : Option Nat := if s == "-" then none else s.toNat?

/-- text arguments travel as hex of their UTF-8 encoding -/
def strArg (s : String) : PyStr :=
  match String.fromUTF8? (ByteArray.mk (unhex s).toArray) with
  | some t => t.toList
  | none => []
def strOut (s : PyStr) : String := hexL (String.ofList s).toUTF8.toList

def sb (s : String) : Option StrOrBytes :=
  if s == "-" then none
  else if s.startsWith "s:" then some (.str (strArg (s.drop 2).toString))
  else some (.bytes (unhex (s.drop 2).toString))
def sb! (s : String) : StrOrBytes := (sb s).getD (.str [])

def pt (s : String) : Option PaddingType :=
  match s with | "-" => none | "VISA" => some .visa | "EMV" => some .emv | _ => some .other
def et (s : String) : EncryptionType :=
  match s with | "VISA" => .visa | "MASTERCARD" => .mastercard | "EMV" => .emv | _ => .other

def showR (r : R Bytes) : String := match r with | .ok b => "ok " ++ hexL b | .error e => "err " ++ e.name
def showS (r : R PyStr) : String := match r with | .ok b => "okstr " ++ String.ofList b | .error e => "err " ++ e.name

/-! ### TLV rendering -/
open Pyemv.Tlv

partial def showDict (d : Dict) : String :=
  "{" ++ ",".intercalate (d.map fun p => hexU p.1 ++ ":" ++
    (match p.2 with | .prim v => hexU v | .cons k => showDict k)) ++ "}"

partial def showDictC (d : DictC Bytes) : String :=
  "{" ++ ",".intercalate (d.map fun p => hexU p.1 ++ ":" ++
    (match p.2 with | .prim v => hexU v | .cons k => showDictC k)) ++ "}"

def kindS : Kind → String | .tag => "T" | .len n => s!"L{n}" | .val n => s!"V{n}"

/-- canonical answer of a decode; `lvl` 0 = tree or error class only (C09), 1 = + kind, tag, offset,
partial tree (C17) -/
def showRes (lvl : Nat) : Res → String
  | .ok _ d => "tree " ++ showDict d
  | .err e d => if lvl == 0 then "err DecodeError" else
      s!"err DecodeError {kindS e.kind} {if e.tag.isEmpty then "." else hexU e.tag} {e.ofs} " ++ showDict d
  | .crash _ => "uncaught IndexError"
  | .fuel => "uncaught NonTermination"

def showLog (l : Log) : String :=
  "[" ++ ",".intercalate (l.map fun p => hexU p.1 ++ "=" ++ hexU p.2) ++ "]"

/-- the recording conversion used by the harness: `convert = lambda t, v: tag-bytes ‖ 3A ‖ value` is
rendered on both sides as `TAG3Avalue` so that a wrong tag argument is visible in the tree -/
def convRec (tag v : Bytes) : Bytes := tag ++ [0x3A] ++ v

def showResC : ResC Bytes → String
  | .ok _ d l => "tree " ++ showDictC d ++ " " ++ showLog l
  | .err e d l => s!"err DecodeError {kindS e.kind} {if e.tag.isEmpty then "." else hexU e.tag} {e.ofs} " ++ showDictC d ++ " " ++ showLog l
  | .crash => "uncaught IndexError"
  | .fuel => "uncaught NonTermination"

/-- tree literal, preorder tokens: `D n (key val)*n` | `B hex` | `A hex` (bytearray) | `S hexutf8` | `O` -/
partial def parseVal : List String → Option (PyVal × List String)
  | "B" :: h :: rest => some (.bytes (bytesArg h), rest)
  | "A" :: h :: rest => some (.bytes (bytesArg h), rest)
  | "S" :: h :: rest => some (.str (strArg h), rest)
  | "O" :: rest => some (.other, rest)
  | "D" :: n :: rest =>
    let rec go (k : Nat) (toks : List String) (acc : List (PyStr × PyVal)) : Option (List (PyStr × PyVal) × List String) :=
      match k with
      | 0 => some (acc.reverse, toks)
      | k+1 =>
        match toks with
        | key :: more =>
          match parseVal more with
          | some (v, r) => go k r ((strArg key, v) :: acc)
          | none => none
        | [] => none
    match go n.toNat! rest [] with
    | some (kvs, r) => some (.dict kvs, r)
    | none => none
  | _ => none

def flag (s : String) (c : Char) : Bool := s.toList.contains c

/-! ### enumerations answered by digest -/

def alphabet : Array UInt8 := #[0x00,0x01,0x02,0x03,0x1F,0x3F,0x7F,0x80,0x81,0x82,0x9C,0x9F,0xE0,0xFF]

def nth (len idx : Nat) : Bytes := Id.run do
  let mut i := idx
  let mut out : Bytes := []
  for _ in [0:len] do
    out := alphabet[i % 14]! :: out
    i := i / 14
  return out

def sha1Str (chunks : Array String) : String :=
  let buf := chunks.foldl (fun (b : ByteArray) s => (b.append s.toUTF8).push 10) ByteArray.empty
  String.ofList (hexLower (Sha1.sha1 buf.toList))

def step (ws : List String) : String :=
  match ws with
  | ["tools.xor", a, b] => "ok " ++ hexL (xor (bytesArg a) (bytesArg b))
  | ["tools.xor_be", a, b] => "ok " ++ hexL (xorBigEndian (bytesArg a) (bytesArg b))
  | ["tools.odd_parity", n] => s!"okstr {oddParity n.toNat!}"
  | ["tools.adjust_key_parity", k] => "ok " ++ hexL (adjustKeyParity (bytesArg k))
  | ["tools.kcv", k, n] => showR (keyCheckDigits (bytesArg k) n.toNat!)
  | ["tools.ecb", k, d] => showR (encryptTdesEcb (bytesArg k) (bytesArg d))
  | ["tools.cbc", k, iv, d] => showR (encryptTdesCbc (bytesArg k) (bytesArg iv) (bytesArg d))
  | ["mac.pad1", d, n] => showR (pad1 (bytesArg d) (optN n))
  | ["mac.pad2", d, n] => showR (pad2 (bytesArg d) (optN n))
  | ["mac.mac3", k1, k2, d, p, l] => showR (mac3 (bytesArg k1) (bytesArg k2) (bytesArg d) p.toInt! (optN l))
  | ["ac.generate_ac", k, d, p, l] => showR (generateAc (bytesArg k) (bytesArg d) (pt p) (optN l))
  | ["ac.arpc1", k, q, rc] => showR (generateArpc1 (bytesArg k) (bytesArg q) (bytesArg rc))
  | ["ac.arpc2", k, q, csu, p] => showR (generateArpc2 (bytesArg k) (bytesArg q) (bytesArg csu) (optB p))
  | ["kd.mk_a", k, pan, psn] => showR (deriveIccMkA (bytesArg k) (sb! pan) (sb psn))
  | ["kd.mk_b", k, pan, psn] => showR (deriveIccMkB (bytesArg k) (sb! pan) (sb psn))
  | ["kd.common_sk", k, r] => showR (deriveCommonSk (bytesArg k) (bytesArg r))
  | ["kd.visa_sk", k, a] => showR (deriveVisaSmSk (bytesArg k) (bytesArg a))
  | ["kd.tree_sk", k, a, h, b, iv] => showR (deriveEmv2000TreeSk (bytesArg k) (bytesArg a) h.toNat! b.toNat! (bytesArg iv))
  | ["sm.command_mac", k, c, l] => showR (generateCommandMac (bytesArg k) (bytesArg c) (optN l))
  | ["sm.encrypt", k, d, t] => showR (encryptCommandData (bytesArg k) (bytesArg d) (et t))
  | ["sm.vis_pin", k, p, c] => showR (formatVisPinBlock (bytesArg k) (sb! p) (sb c))
  | ["sm.iso2_pin", p] => showR (formatIso2PinBlock (sb! p))
  | ["cvv.cvc3", k, t, a, u] => showS (generateCvc3 (bytesArg k) (bytesArg t) (bytesArg a) (bytesArg u))
  | ["py.fromhex", s] => showR (bytesFromHex (strArg s))
  | ["py.a2bhex", s] => showR (a2bHex (strArg s))
  | ["py.sha1", s] => "ok " ++ String.ofList (sha1Hex (bytesArg s))
  | ["py.str", n] => "okstr " ++ String.ofList (pyStr n.toNat!)
  | ["py.zfill", s, n] => "okstr " ++ String.ofList (zfill n.toNat! (strArg s))
  | ["py.tobytes", n, k] => showR (toBytesBE k.toNat! n.toNat!)
  | ["py.frombytes", b] => s!"okstr {fromBE (bytesArg b)}"
  | ["py.ascii", b] => (match (StrOrBytes.bytes (bytesArg b)).text with | .ok t => "ok " ++ strOut t | .error e => "err " ++ e.name)
  | ["tlv.decode", d, fl] =>
    let data := bytesArg d
    if flag fl 'c' then showResC (decodeC convRec (flag fl 'f') (flag fl 's') data)
    else showRes 1 (decode (flag fl 'f') (flag fl 's') data)
  | "tlv.encode" :: fl :: toks =>
    (match parseVal toks with
     | some (.dict kvs, []) =>
       (match encode (flag fl 's') kvs with
        | .ok b => "ok " ++ hexL b
        | .error e => "err EncodeError " ++ strOut e.tag)
     | _ => "bad-op")
  | "cvn" :: cls :: ka :: ki :: kc :: pan :: psn :: rest =>
    (match Cvn.profile cls with
    | none => "bad-class"
    | some p =>
      match Cvn.new p (bytesArg ka) (bytesArg ki) (bytesArg kc) (sb! pan) (sb psn) with
      | .error e => "err " ++ e.name
      | .ok card =>
        match rest with
        | ["keys"] => "ok " ++ hexL (card.ac ++ card.smi ++ card.smc)
        | ["ac", a1, a2, a3, a4, a5, a6, a7, a8, a9, a10, tail, cnt] =>
          showR (Cvn.generateAc p card ⟨bytesArg a1, bytesArg a2, bytesArg a3, bytesArg a4, bytesArg a5, bytesArg a6,
            bytesArg a7, bytesArg a8, bytesArg a9, bytesArg a10, bytesArg tail, bytesArg cnt⟩)
        | ["arpc", q, atc, un, x, pad] => showR (Cvn.generateArpc p card (bytesArg q) (bytesArg atc) (bytesArg un) (bytesArg x) (optB pad))
        | ["mac", h, q, atc, d] => showR (Cvn.commandMac p card (bytesArg h) (bytesArg q) (bytesArg atc) (bytesArg d))
        | ["enc", d, q, atc] => showR (Cvn.encrypt p card (bytesArg d) (bytesArg q) (bytesArg atc))
        | ["pin", pin, q, atc, cur] => showR (Cvn.pinChange p card (sb! pin) (bytesArg q) (bytesArg atc) (sb cur))
        | _ => "bad-op")
  | ["enum.tlv", len, lo, hi, lvl] =>
    let len := len.toNat!; let lvl := lvl.toNat!
    Id.run do
      let mut lines : Array String := #[]
      let mut nok := 0
      for i in [lo.toNat!:hi.toNat!] do
        let x := nth len i
        for fl in [false, true] do
          for si in [false, true] do
            let r := decode fl si x
            match r with | .ok .. => nok := nok + 1 | _ => pure ()
            lines := lines.push (showRes lvl r)
      return s!"dig {sha1Str lines} {nok}"
  | ["enum.visa_sk", k, lo, hi] =>
    let key := bytesArg k
    let lines := (List.range (hi.toNat! - lo.toNat!)).toArray.map fun i =>
      showR (deriveVisaSmSk key (toBE 2 (lo.toNat! + i)))
    s!"dig {sha1Str lines} 0"
  | ["enum.tree_sk", k, h, b, iv, lo, hi] =>
    let key := bytesArg k; let ivb := bytesArg iv
    let lines := (List.range (hi.toNat! - lo.toNat!)).toArray.map fun i =>
      showR (deriveEmv2000TreeSk key (toBE 2 (lo.toNat! + i)) h.toNat! b.toNat! ivb)
    s!"dig {sha1Str lines} 0"
  | ["enum.parity", lo, hi] =>
    let lines := (List.range (hi.toNat! - lo.toNat!)).toArray.map fun i => s!"{oddParity (lo.toNat! + i)}"
    s!"dig {sha1Str lines} 0"
  | ["enum.pin4", which, k, lo, hi] =>
    let key := bytesArg k
    let lines := (List.range (hi.toNat! - lo.toNat!)).toArray.map fun i =>
      let pin : PyStr := zfill 4 (pyStr (lo.toNat! + i))
      if which == "iso2" then showR (formatIso2PinBlock (.str pin)) else showR (formatVisPinBlock key (.str pin) none)
    s!"dig {sha1Str lines} 0"
  | _ => "bad-op"

end Drv

partial def loop (h : IO.FS.Stream) (out : IO.FS.Stream) : IO Unit := do
  let line ← h.getLine
  if line.isEmpty then return ()
  let ws := (line.trimAscii.toString.splitOn " ").filter (· ≠ "")
  match ws with
  | n :: rest => out.putStrLn (n ++ " " ++ Drv.step rest)
  | [] => out.putStrLn "bad-op"
  loop h out

def main : IO Unit := do
  let out ← IO.getStdout
  loop (← IO.getStdin) out
  out.flush
