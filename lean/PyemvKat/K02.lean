import PyemvProps.KnownAnswers
/-! one known answer per file so that they build in parallel (each is minutes of kernel evaluation) -/
namespace Pyemv.KnownAnswers
open Pyemv

/-- FIPS 180 SHA-1 of the 56-byte message (two blocks) -/
example : Sha1.sha1 ("abcdbcdecdefdefgefghfghighijhijkijkljklmklmnlmnomnopnopq".toList.map fun c => UInt8.ofNat c.toNat) = [0x84, 0x98, 0x3E, 0x44, 0x1C, 0x3B, 0xD2, 0x6E, 0xBA, 0xAE, 0x4A, 0xA1, 0xF9, 0x51, 0x29, 0xE5, 0xE5, 0x46, 0x70, 0xF1] := by decide +kernel

end Pyemv.KnownAnswers
