import PyemvModel.Des
/-! Rivest's test of a DES implementation ("Testing implementations of DES", 1985): starting from
`X₀ = 9474B8E8C73BCA7D`, `X_{i+1} = E_{X_i}(X_i)` for even `i` and `D_{X_i}(X_i)` for odd `i`; a correct DES ends at
`X₁₆ = 1B1A2DDB4C642438`.  The sequence is designed so that an error in any single S-box entry, permutation entry or
shift changes the result.  Evaluated here *in the kernel* on the Lean DES of the Impl layer (no compiler, no axioms):
a test, labelled as a test — it anchors the hand-modelled DES to a published value besides OpenSSL. -/
namespace Pyemv.Kat

def rivestStep (x : Nat) (i : Nat) : Nat := if i % 2 = 0 then Des.enc x x else Des.dec x x

example : (List.range 16).foldl rivestStep 0x9474B8E8C73BCA7D = 0x1B1A2DDB4C642438 := by decide +kernel

/-- the sixteen intermediate values, as published -/
example : (List.range 8).foldl rivestStep 0x9474B8E8C73BCA7D = 0xC1576A14DE707097 := by decide +kernel

end Pyemv.Kat
