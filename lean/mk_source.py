#!/usr/bin/env python3
"""Writes lean/PyemvGen/Src/*.lean and lean/PyemvGen/Src/index.json.

For every registered property theorem (lean/obligations.json) whose statement mentions hand-written Impl functions
for which a refinement theorem `Gen.f = Model.f` exists (lean/PyemvGen/Mod/<f>.lean), emit the *same statement about
the definition translated from the repository's source* (`Pyemv.Gen.<module>.<function>`, regenerated on every run by
harness/translate_py.py), proved by rewriting with the refinement theorem(s) and applying the property theorem.
One Lean module per (property, set of functions mentioned), importing exactly the refinement modules of those
functions — so a function that is no longer translated / proved takes down only the statements that speak about it.

The output is committed; re-run this script after adding a property theorem (`python3 mk_source.py`).
Statements are copied textually; nothing here is trusted: Lean elaborates and checks every emitted theorem.
"""
import json
import os
import re

HERE = os.path.dirname(os.path.abspath(__file__))

# model function -> (definition translated from the source, refinement theorem / module)
FUNCS = {
    "generateAc": ("Gen.ac.generate_ac", "ac_generate_ac"),
    "mac3": ("Gen.mac.mac_iso9797_3", "mac_mac3"),
    "generateArpc1": ("Gen.ac.generate_arpc_1", "ac_generate_arpc_1"),
    "generateArpc2": ("Gen.ac.generate_arpc_2", "ac_generate_arpc_2"),
    "deriveIccMkA": ("Gen.kd.derive_icc_mk_a", "kd_derive_icc_mk_a"),
    "deriveIccMkB": ("Gen.kd.derive_icc_mk_b", "kd_derive_icc_mk_b"),
    "deriveCommonSk": ("Gen.kd.derive_common_sk", "kd_derive_common_sk"),
    "deriveVisaSmSk": ("Gen.kd.derive_visa_sm_sk", "kd_derive_visa_sm_sk"),
    "deriveEmv2000TreeSk": ("Gen.kd.derive_emv2000_tree_sk", "kd_tree_sk"),
    "generateCommandMac": ("Gen.sm.generate_command_mac", "sm_generate_command_mac"),
    "encryptCommandData": ("Gen.sm.encrypt_command_data", "sm_encrypt_command_data"),
    "formatVisPinBlock": ("Gen.sm.format_vis_pin_block", "sm_format_vis"),
    "formatIso2PinBlock": ("Gen.sm.format_iso9564_2_pin_block", "sm_format_iso2"),
    "generateCvc3": ("Gen.cvv.generate_cvc3", "cvv_generate_cvc3"),
    "pad1": ("Gen.mac.pad_iso9797_1", "mac_pad1"),
    "pad2": ("Gen.mac.pad_iso9797_2", "mac_pad2"),
    "keyCheckDigits": ("Gen.tools.key_check_digits", "tools_kcv"),
    "encryptTdesEcb": ("Gen.tools.encrypt_tdes_ecb", "tools_ecb"),
    "encryptTdesCbc": ("Gen.tools.encrypt_tdes_cbc", "tools_cbc"),
    "oddParity": ("Gen.tools.odd_parity", "tools_odd_parity"),
}
PIDS = ["C01", "C02", "C03", "C04", "C05", "C06", "C07", "C11", "C12", "C13", "C15", "C16", "C19"]
SKIP = {"C13.adjust_preserves_encryption",           # about the helpers as *spec* vocabulary (handled by hand below)
        "C05.old_gate_accepted_a_colliding_tree", "C11.cvc3_old_short"}   # about the pre-repair code, not the source

# statements that need more than a word-for-word substitution (the translated helper returns `.ok _`), written by hand
HAND = {
    ("C19", ("tools_xor",)): '''
theorem xor_eq_zipWith (a b : Bytes) (h : a.length = b.length) : Gen.tools.xor a b = .ok (List.zipWith (· ^^^ ·) a b) := by
  rw [ModRefines.tools_xor, _root_.Pyemv.C19.xor_eq_zipWith a b h]

theorem xor_bigendian_host (a b : Bytes) (h : a.length = b.length) :
    Gen.tools.xor_bigendian a b = .ok (List.zipWith (· ^^^ ·) a b) ∧ Gen.tools.xor_bigendian a b = Gen.tools.xor a b := by
  rw [ModRefines.tools_xor_bigendian, ModRefines.tools_xor, (_root_.Pyemv.C19.xor_bigendian_host a b h).1,
    _root_.Pyemv.C19.xor_eq_zipWith a b h]
  exact ⟨rfl, rfl⟩

theorem xor_same_length (a b : Bytes) : ∃ r, Gen.tools.xor a b = .ok r ∧ r.length = a.length :=
  ⟨_, ModRefines.tools_xor a b, _root_.Pyemv.C19.xor_same_length a b⟩

theorem xor_self_inverse (a b : Bytes) (h : a.length = b.length) :
    ∃ r, Gen.tools.xor a b = .ok r ∧ Gen.tools.xor r b = .ok a := by
  refine ⟨_, ModRefines.tools_xor a b, ?_⟩
  rw [ModRefines.tools_xor, _root_.Pyemv.C19.xor_self_inverse a b h]
''',
    ("C13", ("tools_adjust",)): '''
theorem adjust_gives_odd_parity (k : Bytes) :
    ∃ r, Gen.tools.adjust_key_parity k = .ok r ∧ r.length = k.length ∧ OddBytes r :=
  ⟨_, ModRefines.tools_adjust k, _root_.Pyemv.C13.adjust_gives_odd_parity k⟩

theorem adjust_only_lsb (k : Bytes) :
    ∃ r, Gen.tools.adjust_key_parity k = .ok r ∧ ∃ hl : r.length = k.length,
      ∀ i (hi : i < k.length), r[i]'(hl ▸ hi) = k[i] ∨ r[i]'(hl ▸ hi) = k[i] ^^^ 1 :=
  ⟨_, ModRefines.tools_adjust k, adjust_length k, fun i hi => _root_.Pyemv.C13.adjust_only_lsb k i hi⟩

theorem adjust_idempotent (k : Bytes) :
    ∃ r, Gen.tools.adjust_key_parity k = .ok r ∧ Gen.tools.adjust_key_parity r = .ok r := by
  refine ⟨_, ModRefines.tools_adjust k, ?_⟩
  rw [ModRefines.tools_adjust, _root_.Pyemv.C13.adjust_idempotent]
''',
    ("C13", ("tools_adjust", "tools_cbc", "tools_ecb")): '''
theorem adjust_preserves_encryption (k iv d : Bytes) :
    ∃ r, Gen.tools.adjust_key_parity k = .ok r ∧ Gen.tools.encrypt_tdes_ecb r d = Gen.tools.encrypt_tdes_ecb k d ∧
      Gen.tools.encrypt_tdes_cbc r iv d = Gen.tools.encrypt_tdes_cbc k iv d := by
  refine ⟨_, ModRefines.tools_adjust k, ?_⟩
  simp only [ModRefines.tools_ecb, ModRefines.tools_cbc]
  exact (_root_.Pyemv.C13.adjust_preserves_encryption k iv d).2
''',
}


def theorem_text(pid, name):
    src = open(os.path.join(HERE, "PyemvProps", pid + ".lean")).read()
    m = re.search(r"^theorem " + re.escape(name) + r"\b(.*?):=", src, re.S | re.M)
    return m.group(1).strip() if m else None


def split_binders(sig):
    """(binder text, conclusion, explicit argument names) of `binders : conclusion`"""
    i = 0
    names = []
    n = len(sig)
    while i < n:
        while i < n and sig[i].isspace():
            i += 1
        if i < n and sig[i] in "({[":
            close = {"(": ")", "{": "}", "[": "]"}[sig[i]]
            depth = 0
            j = i
            while j < n:
                if sig[j] in "({[":
                    depth += 1
                elif sig[j] in ")}]":
                    depth -= 1
                    if depth == 0:
                        break
                j += 1
            grp = sig[i + 1:j]
            if sig[i] == "(":
                names += grp.split(":", 1)[0].split()
            elif sig[i] == "{":
                pass
            i = j + 1
            assert sig[j] == close
        else:
            break
    rest = sig[i:].lstrip()
    assert rest.startswith(":"), sig
    return sig[:i].rstrip(), rest[1:].strip(), names


def subst(text):
    used = []
    for model, (gen, thm) in FUNCS.items():
        pat = re.compile(r"(?<![\w.])" + model + r"\b")
        if pat.search(text):
            text = pat.sub(gen, text)
            used.append(thm)
    return text, sorted(used)


def main():
    reg = json.load(open(os.path.join(HERE, "obligations.json")))
    out = os.path.join(HERE, "PyemvGen", "Src")
    os.makedirs(out, exist_ok=True)
    for f in os.listdir(out):
        if f.endswith(".lean"):
            os.remove(os.path.join(out, f))
    groups = {}
    for pid in PIDS:
        for full in reg[pid]:
            name = full.split(".")[-1]
            if f"{pid}.{name}" in SKIP:
                continue
            sig = theorem_text(pid, name)
            if not sig or "let " in sig:
                continue
            binders, concl, names = split_binders(sig)
            b2, u1 = subst(binders)
            c2, u2 = subst(concl)
            used = tuple(sorted(set(u1 + u2)))
            if not used:
                continue
            lemmas = ", ".join("ModRefines." + u for u in used)
            body = (f"theorem {name} {b2} :\n    {c2} := by\n"
                    f"  simp only [{lemmas}] at *\n"
                    f"  exact _root_.Pyemv.{pid}.{name} {' '.join(names)}\n")
            groups.setdefault((pid, used), []).append((name, body))
    for (pid, used), text in HAND.items():
        for m in re.finditer(r"^theorem (\w+)", text, re.M):
            groups.setdefault((pid, used), [])
        groups[(pid, used)] = [(m.group(1), None) for m in re.finditer(r"^theorem (\w+)", text, re.M)] + groups[(pid, used)]
    index = {}
    for (pid, used), thms in sorted(groups.items()):
        mod = pid + "__" + "__".join(used)
        hdr = "".join(f"import PyemvGen.Mod.{u}\n" for u in used) + f"import PyemvProps.{pid}\n"
        hdr += (f"/-! Generated by lean/mk_source.py (committed). {pid} restated about the definitions translated from the\n"
                f"repository's source on this run (`Pyemv.Gen.*`), by the refinement theorem(s) {', '.join(used)}. -/\n")
        hdr += f"namespace Pyemv.{pid}.Source\nopen Pyemv Spec Pyemv.{pid}\n\n"
        bodies = []
        if (pid, used) in HAND:
            bodies.append(HAND[(pid, used)].strip() + "\n")
        bodies += [b for _, b in thms if b]
        open(os.path.join(out, mod + ".lean"), "w").write(hdr + "\n".join(bodies) + f"\nend Pyemv.{pid}.Source\n")
        for name, _ in thms:
            index.setdefault(pid, []).append({"module": mod, "uses": list(used), "theorem": f"Pyemv.{pid}.Source.{name}"})
    json.dump(index, open(os.path.join(out, "index.json"), "w"), indent=1)
    print({k: len(v) for k, v in index.items()}, sum(len(v) for v in index.values()))


if __name__ == "__main__":
    main()
