import PyemvGen.TlvSourceDec
import PyemvGen.TlvSourceEnc
/-! C10 round trip and C18 re-encoding restated about the translated decoder *and* encoder together. -/
namespace Pyemv.TlvSource
open Pyemv Pyemv.Tlv Pyemv.TlvSpec Pyemv.RoundTrip Pyemv.Refine Pyemv.TlvGen Pyemv.TlvRefines

private theorem ok_of_plain {α} (conv : Bytes → Bytes → α) (fl si : Option Bool) (x : Bytes) (o : Nat) (d : Dict)
    (h : Tlv.decode (fl.getD false) (si.getD false) x = .ok o d) :
    ∃ log, TlvGen.decode conv fl si x = .ok o (mapDict conv d) log := by
  have hs := tlv_decode_sim conv fl si x
  rw [h] at hs
  cases hg : TlvGen.decode conv fl si x with
  | ok o2 d2 log => rw [hg] at hs; obtain ⟨ho, hd⟩ := hs; subst ho hd; exact ⟨log, rfl⟩
  | err _ _ _ => rw [hg] at hs; exact hs.elim
  | crash => rw [hg] at hs; exact hs.elim
  | fuel => rw [hg] at hs; exact hs.elim

/-- **C10, round trip**: what the translated encoder produces, the translated decoder (any mode, any conversion)
decodes completely, to the tree that mirrors the mapping (tags upper-cased, values as bytes). -/
theorem roundtrip {α} (conv : Bytes → Bytes → α) (fl si : Option Bool) (t : List (PyStr × PyVal)) (b : Bytes)
    (h : TlvGen.encode si t = .ok b) (hlen : si.getD false = false → b.length < 256 ^ 127) :
    ∃ items log, Mirror (si.getD false) t items ∧
      TlvGen.decode conv fl si b = .ok b.length (mapDict conv (absInto (fl.getD false) [] items)) log := by
  obtain ⟨items, hm, hd⟩ := C10.roundtrip (fl.getD false) _ t b ((encode_ok_iff si t b).mp h) hlen
  obtain ⟨log, hg⟩ := ok_of_plain conv fl si b _ _ hd
  exact ⟨items, log, hm, hg⟩

/-- **C18, stable re-encoding**: whatever the translated decoder accepts (nested mode, identity conversion), the
translated encoder encodes, the result decodes to the same dictionary again and is no longer than the input. -/
theorem reencode (si : Option Bool) (x : Bytes) (o : Nat) (d : Dict)
    (h : Tlv.decode false (si.getD false) x = .ok o d) :
    ∃ e log, TlvGen.encode si (treeOfDict d) = .ok e ∧
      TlvGen.decode (fun _ v => v) (some false) si e = .ok e.length (mapDict (fun _ v => v) d) log ∧
      e.length ≤ x.length := by
  obtain ⟨e, he, hd, hl⟩ := C18.reencode _ x o d h
  obtain ⟨log, hg⟩ := ok_of_plain (fun _ v => v) (some false) si e _ _ hd
  exact ⟨e, log, (encode_ok_iff si _ e).mpr he, hg, hl⟩

end Pyemv.TlvSource
