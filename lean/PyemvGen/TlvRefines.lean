import PyemvGen.TlvRefinesDec
import PyemvGen.TlvRefinesEnc
/-!
# The definitions translated from `pyemv/tlv.py` equal the hand-written model

`TlvGen.decode = Tlv.decodeC` and `TlvGen.encode = Tlv.encode` for every argument; the generated file is
rebuilt from the repository's current source on every run, these proofs are checked against it.
-/
