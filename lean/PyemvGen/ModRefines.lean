import PyemvGen.Mod.tools_xor
import PyemvGen.Mod.tools_odd_parity
import PyemvGen.Mod.tools_adjust
import PyemvGen.Mod.tools_kcv
import PyemvGen.Mod.tools_cbc
import PyemvGen.Mod.tools_ecb
import PyemvGen.Mod.mac_pad1
import PyemvGen.Mod.mac_pad2
import PyemvGen.Mod.mac_mac3
import PyemvGen.Mod.ac_generate_ac
import PyemvGen.Mod.ac_generate_arpc_1
import PyemvGen.Mod.ac_generate_arpc_2
import PyemvGen.Mod.kd_derive_icc_mk_a
import PyemvGen.Mod.kd_derive_icc_mk_b
import PyemvGen.Mod.kd_derive_common_sk
import PyemvGen.Mod.kd_derive_visa_sm_sk
import PyemvGen.Mod.sm_generate_command_mac
import PyemvGen.Mod.sm_encrypt_command_data
import PyemvGen.Mod.sm_format_iso2
import PyemvGen.Mod.sm_format_vis
import PyemvGen.Mod.cvv_generate_cvc3
import PyemvGen.Mod.kd_tree_derive
import PyemvGen.Mod.kd_tree_walk
import PyemvGen.Mod.kd_tree_sk
/-!
# Refinement: every function translated from the source equals the hand-written Impl model

`PyemvGen/ModGen.lean` is regenerated from `/repo/pyemv/{tools,mac,ac,kd,sm,cvv}.py` on every run by
`harness/translate_py.py`.  The theorems below say that each translated function equals the function of
`PyemvModel` that all property theorems are about — for every argument.  A change to one of those source
functions that changes its behaviour breaks the corresponding proof.
-/
