import PyemvGen.ModGen
import PyemvProofs.Tdes
/-!
# Refinement: every function translated from the source equals the hand-written Impl model

`PyemvGen/ModGen.lean` is regenerated from `/repo/pyemv/{tools,mac,ac,kd,sm,cvv}.py` on every run by
`harness/translate_py.py`.  The theorems below say that each translated function equals the function of
`PyemvModel` that all property theorems are about — for every argument.  A change to one of those source
functions that changes its behaviour breaks the corresponding proof.
-/
namespace Pyemv.ModRefines
open Pyemv Pyemv.Gen

theorem rep_flatten {α} (n : Nat) (x : α) : (List.replicate n [x]).flatten = List.replicate n x := by
  induction n with
  | zero => rfl
  | succ n ih => simp [List.replicate_succ, ih]

theorem fromLE_lt (l : Bytes) : fromLE l < 256 ^ l.length := by
  induction l with
  | nil => simp [fromLE]
  | cons b bs ih =>
    simp only [fromLE, List.length_cons, Nat.pow_succ]
    have := b.toNat_lt
    omega

theorem pow256 (k : Nat) : (256 : Nat) ^ k = 2 ^ (8 * k) := by
  rw [show (256 : Nat) = 2 ^ 8 from rfl, ← Nat.pow_mul]

theorem xor_fits (a b : Bytes) : fromLE a ^^^ fromLE (b.take a.length) < 256 ^ a.length := by
  rw [pow256]
  apply Nat.xor_lt_two_pow
  · rw [← pow256]; exact fromLE_lt a
  · rw [← pow256]
    exact Nat.lt_of_lt_of_le (fromLE_lt _) (Nat.pow_le_pow_right (by omega) (by simp; omega))

/-! ### tools -/

theorem tools_xor (a b : Bytes) : Gen.tools.xor a b = .ok (Pyemv.xor a b) := by
  unfold Gen.tools.xor toBytesLE Pyemv.xor
  simp only [xor_fits a b, if_true, bind, Except.bind, pure, Except.pure]

theorem tools_odd_parity (n : Nat) : Gen.tools.odd_parity n = oddParity n := rfl

theorem tools_adjust (k : Bytes) : Gen.tools.adjust_key_parity k = .ok (adjustKeyParity k) := by
  unfold Gen.tools.adjust_key_parity adjustKeyParity
  simp only [tools_odd_parity, pure, Except.pure, Except.ok.injEq]
  apply List.map_congr_left
  intro b _
  by_cases h : oddParity b.toNat = 0 <;> simp [h]

theorem tools_kcv (k : Bytes) (n : Nat) : Gen.tools.key_check_digits k n = keyCheckDigits k n := by
  unfold Gen.tools.key_check_digits keyCheckDigits
  rfl

theorem tools_cbc (k iv d : Bytes) : Gen.tools.encrypt_tdes_cbc k iv d = encryptTdesCbc k iv d := by
  unfold Gen.tools.encrypt_tdes_cbc encryptTdesCbc
  simp only [bind, Except.bind, pure, Except.pure]
  repeat (first | rfl | split)

theorem tools_ecb (k d : Bytes) : Gen.tools.encrypt_tdes_ecb k d = encryptTdesEcb k d := by
  unfold Gen.tools.encrypt_tdes_ecb encryptTdesEcb
  rfl

/-! ### mac -/

theorem mac_pad1 (d : Bytes) (bs : Option Nat) : Gen.mac.pad_iso9797_1 d bs = pad1 d bs := by
  unfold Gen.mac.pad_iso9797_1 pad1 pyMod
  by_cases h : bs.getD 8 = 0
  · simp [h, bind, Except.bind]
  · simp only [h, if_false, bind, Except.bind, pure, Except.pure, rep_flatten, zeros, gt_iff_lt]
    repeat (first | rfl | split)

theorem mac_pad2 (d : Bytes) (bs : Option Nat) : Gen.mac.pad_iso9797_2 d bs = pad2 d bs := by
  unfold Gen.mac.pad_iso9797_2 pad2
  simp only [mac_pad1, bind, Except.bind, pure, Except.pure]
  repeat (first | rfl | split)

theorem mac_mac3 (k1 k2 d : Bytes) (pm : Int) (l : Option Nat) : Gen.mac.mac_iso9797_3 k1 k2 d pm l = mac3 k1 k2 d pm l := by
  unfold Gen.mac.mac_iso9797_3 mac3 padSelect macCore
  simp only [mac_pad1, mac_pad2, zeros, List.replicate, List.length_cons, List.length_nil, bind, Except.bind, pure, Except.pure]
  by_cases h1 : pm = 1
  · subst h1
    simp only [if_true]
    cases pad1 d (some 8) with
    | error e => rfl
    | ok p =>
      simp only []
      repeat (first | rfl | split)
      all_goals simp_all
  · by_cases h2 : pm = 2
    · subst h2
      simp only [show ¬ ((2 : Int) = 1) by decide, if_false, if_true]
      cases pad2 d (some 8) with
      | error e => rfl
      | ok p =>
        simp only []
        repeat (first | rfl | split)
        all_goals simp_all
    · simp [h1, h2, throw, throwThe, MonadExceptOf.throw]

/-! ### ac -/

theorem ac_generate_ac (sk d : Bytes) (pt : Option PaddingType) (l : Option Nat) :
    Gen.ac.generate_ac sk d pt l = generateAc sk d pt l := by
  unfold Gen.ac.generate_ac generateAc
  by_cases h : sk.length = 16
  · simp only [h, ne_eq, not_true_eq_false, if_false, tools_ecb, tools_cbc, tools_adjust, mac_mac3, bind, Except.bind, pure, Except.pure]
    cases hp : pt.getD .emv <;> simp [hp, throw, throwThe, MonadExceptOf.throw] <;>
      (cases mac3 (sk.take 8) (lastN 8 sk) d _ l <;> rfl)
  · simp [h, bind, Except.bind, throw, throwThe, MonadExceptOf.throw]

theorem ac_generate_arpc_1 (sk q rc : Bytes) : Gen.ac.generate_arpc_1 sk q rc = generateArpc1 sk q rc := by
  unfold Gen.ac.generate_arpc_1 generateArpc1
  simp only [tools_xor, rep_flatten, zeros, tools_ecb, tools_cbc, tools_adjust, mac_mac3, bind, Except.bind, pure, Except.pure]
  repeat (first | rfl | split)
  all_goals simp_all

theorem ac_generate_arpc_2 (sk q csu : Bytes) (p : Option Bytes) : Gen.ac.generate_arpc_2 sk q csu p = generateArpc2 sk q csu p := by
  unfold Gen.ac.generate_arpc_2 generateArpc2
  simp only [tools_ecb, tools_cbc, tools_adjust, mac_mac3, bind, Except.bind, pure, Except.pure]
  repeat (first | rfl | split)
  all_goals simp_all

/-! ### kd -/

theorem kd_derive_icc_mk_a (k : Bytes) (pan : StrOrBytes) (psn : Option StrOrBytes) :
    Gen.kd.derive_icc_mk_a k pan psn = deriveIccMkA k pan psn := by
  unfold Gen.kd.derive_icc_mk_a deriveIccMkA keyFromData psnTextR
  simp only [tools_xor, rep_flatten, tools_ecb, tools_cbc, tools_adjust, mac_mac3, bind, Except.bind, pure, Except.pure]
  repeat (first | rfl | split)
  all_goals simp_all

theorem kd_derive_icc_mk_b (k : Bytes) (pan : StrOrBytes) (psn : Option StrOrBytes) :
    Gen.kd.derive_icc_mk_b k pan psn = deriveIccMkB k pan psn := by
  unfold Gen.kd.derive_icc_mk_b deriveIccMkB keyFromData psnTextR bcdPanPsn selectDigits pyMod
  simp only [kd_derive_icc_mk_a, tools_xor, rep_flatten, tools_ecb, tools_cbc, tools_adjust, mac_mac3, bind, Except.bind, pure, Except.pure]
  by_cases h : pan.len ≤ 16
  · simp only [h, if_true]
    repeat (first | rfl | split)
  · simp only [h, if_false]
    cases (psn.getD (.str ['0', '0'])).text with
    | error e => rfl
    | ok ps =>
      cases pan.text with
      | error e => rfl
      | ok pt =>
        simp only []
        have hm : (pt.length % 2 ≠ 0) ↔ (pt.length % 2 = 1) := by omega
        by_cases hodd : pt.length % 2 = 1
        · simp only [hodd, show ¬ (2 : Nat) = 0 by omega, if_false, if_true, ne_eq, Nat.one_ne_zero, not_false_eq_true,
            List.cons_append, List.nil_append, List.singleton_append]
          cases a2bHex ('0' :: (pt ++ ps)) with
          | error e => rfl
          | ok hashed =>
            simp only []
            by_cases hl : ((sha1Hex hashed).filter isDec |>.take 16).length < 16
            · simp only [hl, if_true]
              repeat (first | rfl | split)
              all_goals simp_all
            · simp only [hl, if_false]
              repeat (first | rfl | split)
              all_goals simp_all
        · have h0 : pt.length % 2 = 0 := by omega
          simp only [h0, show ¬ (2 : Nat) = 0 by omega, if_false, ne_eq, not_true_eq_false, Nat.zero_ne_one]
          cases a2bHex (pt ++ ps) with
          | error e => rfl
          | ok hashed =>
            simp only []
            by_cases hl : ((sha1Hex hashed).filter isDec |>.take 16).length < 16
            · simp only [hl, if_true]
              repeat (first | rfl | split)
              all_goals simp_all
            · simp only [hl, if_false]
              repeat (first | rfl | split)
              all_goals simp_all

theorem kd_derive_common_sk (mk r : Bytes) : Gen.kd.derive_common_sk mk r = deriveCommonSk mk r := by
  unfold Gen.kd.derive_common_sk deriveCommonSk
  simp only [tools_ecb, tools_cbc, tools_adjust, mac_mac3, bind, Except.bind, pure, Except.pure]
  repeat (first | rfl | split)
  all_goals simp_all

theorem kd_derive_visa_sm_sk (mk atc : Bytes) : Gen.kd.derive_visa_sm_sk mk atc = deriveVisaSmSk mk atc := by
  unfold Gen.kd.derive_visa_sm_sk deriveVisaSmSk
  simp only [tools_xor, rep_flatten, zeros, tools_ecb, tools_cbc, tools_adjust, mac_mac3, bind, Except.bind, pure, Except.pure]
  repeat (first | rfl | split)
  all_goals simp_all

/-! ### sm -/

theorem sm_generate_command_mac (sk c : Bytes) (l : Option Nat) : Gen.sm.generate_command_mac sk c l = generateCommandMac sk c l := by
  unfold Gen.sm.generate_command_mac generateCommandMac
  simp only [tools_ecb, tools_cbc, tools_adjust, mac_mac3, bind, Except.bind, pure, Except.pure]
  repeat (first | rfl | split)
  all_goals simp_all

theorem sm_encrypt_command_data (sk d : Bytes) (t : EncryptionType) :
    Gen.sm.encrypt_command_data sk d t = encryptCommandData sk d t := by
  unfold Gen.sm.encrypt_command_data encryptCommandData pyMod
  simp only [mac_pad2, tools_ecb, tools_cbc, tools_adjust, mac_mac3, bind, Except.bind, pure, Except.pure]
  by_cases h : sk.length = 16
  · simp only [h, ne_eq, not_true_eq_false, if_false]
    cases t <;> simp [throw, throwThe, MonadExceptOf.throw] <;> repeat (first | rfl | split) <;> simp_all
  · simp [h, throw, throwThe, MonadExceptOf.throw]

theorem sm_format_iso2 (p : StrOrBytes) : Gen.sm.format_iso9564_2_pin_block p = formatIso2PinBlock p := by
  unfold Gen.sm.format_iso9564_2_pin_block formatIso2PinBlock
  simp only [rep_flatten, tools_ecb, tools_cbc, tools_adjust, mac_mac3, bind, Except.bind, pure, Except.pure]
  repeat (first | rfl | split)
  all_goals simp_all

theorem sm_format_vis (mk : Bytes) (p : StrOrBytes) (c : Option StrOrBytes) :
    Gen.sm.format_vis_pin_block mk p c = formatVisPinBlock mk p c := by
  unfold Gen.sm.format_vis_pin_block formatVisPinBlock
  simp only [tools_xor, rep_flatten, zeros, tools_ecb, tools_cbc, tools_adjust, mac_mac3, bind, Except.bind, pure, Except.pure]
  by_cases g1 : p.len < 4 ∨ p.len > 12
  · simp [g1, throw, throwThe, MonadExceptOf.throw]
  by_cases g2 : mk.length = 16
  · simp only [g1, g2, if_false, ne_eq, not_true_eq_false]
    cases p.text with
    | error e => rfl
    | ok pt =>
      simp only []
      cases c with
      | none => first | rfl | (simp only []; done) | (simp only []; repeat (first | rfl | split))
      | some cc =>
        simp only []
        cases cc.text with
        | error e => rfl
        | ok ct =>
          first
          | rfl
          | (simp only []; done)
          | (simp only []
             cases toBytesBE 1 pt.length with
             | error e => rfl
             | ok l =>
               cases a2bHex (pt ++ List.replicate (14 - pt.length) 'F') with
               | error e => rfl
               | ok body =>
                 simp only []
                 by_cases g3 : ct.length < 4 ∨ ct.length > 12
                 · simp [g3, throw, throwThe, MonadExceptOf.throw]
                 · simp only [g3, if_false]
                   cases a2bHex (ct ++ List.replicate (16 - ct.length) '0') <;> rfl)
  · simp [g1, g2, throw, throwThe, MonadExceptOf.throw]

/-! ### cvv -/

theorem cvv_generate_cvc3 (k t a u : Bytes) : Gen.cvv.generate_cvc3 k t a u = generateCvc3 k t a u := by
  unfold Gen.cvv.generate_cvc3 generateCvc3
  simp only [tools_ecb, tools_cbc, tools_adjust, mac_mac3, bind, Except.bind, pure, Except.pure]
  repeat (first | rfl | split)
  all_goals simp_all

end Pyemv.ModRefines

namespace Pyemv.ModRefines
open Pyemv Pyemv.Gen

/-! ### the EMV2000 tree (nested closures lifted, recursion on the height) -/

theorem kd_tree_derive (b : Nat) (x y : Bytes) (j : Nat) :
    Gen.kd.derive_emv2000_tree_sk.derive b x y j = treeDerive b x y j := by
  unfold Gen.kd.derive_emv2000_tree_sk.derive treeDerive pyMod
  simp only [tools_xor, tools_ecb, rep_flatten, zeros, bind, Except.bind, pure, Except.pure]
  by_cases hb : b = 0
  · simp [hb, throw, throwThe, MonadExceptOf.throw]
  · simp only [hb, if_false]
    repeat (first | rfl | split)
    all_goals simp_all

theorem kd_tree_walk (b : Nat) (mk iv : Bytes) : ∀ (h j : Nat),
    Gen.kd.derive_emv2000_tree_sk.walk b mk iv j h = treeWalk b mk iv j h := by
  intro h
  induction h with
  | zero => intro j; rfl
  | succ h ih =>
    intro j
    unfold Gen.kd.derive_emv2000_tree_sk.walk treeWalk pyDiv
    simp only [ih, kd_tree_derive, bind, Except.bind, pure, Except.pure]
    by_cases hb : b = 0
    · simp [hb, throw, throwThe, MonadExceptOf.throw]
    · simp only [hb, if_false]
      all_goals
        cases treeWalk b mk iv (j / b) h with
        | error e => rfl
        | ok pg =>
          obtain ⟨p, gp⟩ := pg
          first
          | rfl
          | (simp only []; done)
          | (simp only []; cases treeDerive b p gp j <;> rfl)

theorem kd_tree_sk (mk atc : Bytes) (h b : Nat) (iv : Bytes) :
    Gen.kd.derive_emv2000_tree_sk mk atc h b iv = deriveEmv2000TreeSk mk atc h b iv := by
  unfold Gen.kd.derive_emv2000_tree_sk deriveEmv2000TreeSk pyDiv
  simp only [kd_tree_walk, kd_tree_derive, tools_xor, tools_adjust, bind, Except.bind, pure, Except.pure]
  by_cases h1 : mk.length = 16 <;> by_cases h2 : atc.length = 2 <;> by_cases h3 : iv.length = 16 <;>
    by_cases hg : b ^ h ≤ 65535 <;> by_cases hb : b = 0 <;>
    simp [h1, h2, h3, hg, hb, throw, throwThe, MonadExceptOf.throw]
  all_goals (repeat (first | rfl | split))
  all_goals simp_all

end Pyemv.ModRefines
