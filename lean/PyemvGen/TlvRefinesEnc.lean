import PyemvGen.TlvRefinesCommon
/-! encoder half: `TlvGen.encode = Tlv.encode` -/
namespace Pyemv.TlvRefines
open Pyemv Pyemv.Tlv Pyemv.TlvGen

/-! ### `_encode` -/

theorem ewhile1_scan (tag : Bytes) : ∀ (f n : Nat), 1 ≤ f → tag.length + 1 ≤ n + f →
    _encode_while1 tag f n ≠ .fuel ∧ toScan (_encode_while1 tag f n) = scanCont f tag 0 n := by
  intro f
  induction f with
  | zero => intro n h; omega
  | succ f ih =>
    intro n _ hlen
    unfold _encode_while1 scanCont
    simp only [Nat.zero_add]
    cases hb : tag[n]? with
    | none => simp [toScan]
    | some b =>
      have hlt : n < tag.length := by
        rcases List.getElem?_eq_some_iff.mp hb with ⟨h, _⟩; exact h
      by_cases hc : (b &&& 128 != 0) = true
      · have := ih (n + 1) (by omega) (by omega)
        simp only [hc, if_true]
        exact this
      · simp only [hc, if_false, Bool.false_eq_true]
        simp [toScan]

theorem pow8_gt (k : Nat) : k + 1 ≤ 2 ^ (8 * k) := by
  have h1 : k < 2 ^ k := Nat.lt_two_pow_self
  have h2 : 2 ^ k ≤ 2 ^ (8 * k) := Nat.pow_le_pow_right (by decide) (by omega)
  omega

theorem ewhile2_done (value : Bytes) : ∀ (f k : Nat), 1 ≤ f → value.length + 1 ≤ k + f →
    _encode_while2 value f k = .done (lenLoop value.length f k) := by
  intro f
  induction f with
  | zero => intro k h; omega
  | succ f ih =>
    intro k _ hlen
    unfold _encode_while2 lenLoop
    by_cases hc : value.length > 2 ^ (8 * k) - 1
    · have := pow8_gt k
      simp only [hc, decide_true, if_true]
      exact ih (k + 1) (by omega) (by omega)
    · simp [hc]

theorem toBE_one (n : Nat) : toBE 1 n = [UInt8.ofNat n] := by
  simp only [toBE, Nat.pow_zero, Nat.div_one]
  congr 1
  apply UInt8.toNat_inj.mp
  simp [UInt8.toNat_ofNat']


def embed : Except EErr Bytes → ERes
  | .ok b => .ok b
  | .error e => .err e

def ERes.pre (data : Bytes) : ERes → ERes
  | .ok b => .ok (data ++ b)
  | r => r

/-- what the recursive call on a nested template must satisfy -/
def CallOk (si : Bool) (c : Bool) (v : PyVal) : Prop :=
  c = true → ∀ kvs, v = .dict kvs → _encode_call si v = embed (encodeItems si kvs)

theorem len_part (si : Bool) (tagS : PyStr) (acc value : Bytes) :
    (if (decide (value.length > 255) && si) = true then ERes.err ⟨tagS⟩ else
      if (decide (value.length > 127) && !si) = true then
        match _encode_while2 value value.length 1 with
        | .fuel => ERes.fuel
        | .indexErr _ => ERes.crash
        | .done k => ERes.ok (acc ++ toBE 1 (k ||| 128) ++ (toBE k value.length ++ value))
      else ERes.ok (acc ++ (toBE 1 value.length ++ value)))
    = match lenField si value.length with
      | none => ERes.err ⟨tagS⟩
      | some l => ERes.ok (acc ++ l ++ value) := by
  unfold lenField
  by_cases h255 : (decide (value.length > 255) && si) = true
  · simp [h255]
  · simp only [h255, Bool.false_eq_true, if_false]
    by_cases h127 : (decide (value.length > 127) && !si) = true
    · have hlen : value.length > 127 := by
        simp only [Bool.and_eq_true, decide_eq_true_eq] at h127; exact h127.1
      rw [ewhile2_done value value.length 1 (by omega) (by omega)]
      simp only [h127, if_true, toBE_one, List.append_assoc, List.cons_append, List.nil_append]
    · simp only [h127, Bool.false_eq_true, if_false, List.append_assoc]

theorem len_fin (si : Bool) (tagS : PyStr) (data tag value : Bytes) :
    (match lenField si value.length with
      | none => ERes.err ⟨tagS⟩
      | some l => ERes.ok (data ++ tag ++ l ++ value)) =
    ERes.pre data (embed (match lenField si value.length with
      | none => Except.error ⟨tagS⟩
      | some l => Except.ok (tag ++ l ++ value))) := by
  cases lenField si value.length <;> simp [embed, ERes.pre, List.append_assoc]

set_option hygiene false in
/-- the value dispatch and the length field, once the tag is known to be well-formed -/
macro "value_tac" hv:ident hx:ident htn:ident : tactic => `(tactic| (
  split
  · simp [embed, ERes.pre]
  · rename_i hn
    have hn' := hn
    simp only [bne_iff_ne, ne_eq, Decidable.not_not] at hn'
    have hlen : tagNameLen (b0 :: rest) = some (b0 :: rest).length := by
      rw [$htn:ident, hn']
    have hcall := $hv:ident _ $hx:ident hlen
    simp only [List.headD_cons]
    by_cases hc : (b0 &&& 32 != 0) = true
    · simp only [hc, if_true]
      cases v with
      | dict kvs =>
        have := hcall hc kvs rfl
        simp only [PyVal.isMapping, Bool.not_true, Bool.false_eq_true, if_false, this, encodeValue, if_true]
        cases encodeItems si kvs with
        | error e => simp [embed, ERes.pre]
        | ok value =>
          simp only [embed]
          exact (len_part si tagS _ value).trans (len_fin si tagS data _ value)
      | str s => simp [PyVal.isMapping, encodeValue, embed, ERes.pre]
      | bytes b => simp [PyVal.isMapping, encodeValue, embed, ERes.pre]
      | other => simp [PyVal.isMapping, encodeValue, embed, ERes.pre]
    · simp only [hc, Bool.false_eq_true, if_false]
      cases v with
      | dict kvs => simp [PyVal.isStr, PyVal.isBytes, encodeValue, embed, ERes.pre]
      | str s =>
        simp only [PyVal.isStr, if_true, PyVal.asStr?, encodeValue, Bool.false_eq_true, if_false]
        cases bytesFromHex s with
        | error e => simp [embed, ERes.pre]
        | ok value =>
          simp only []
          exact (len_part si tagS _ value).trans (len_fin si tagS data _ value)
      | bytes value =>
        simp only [PyVal.isStr, PyVal.isBytes, Bool.false_eq_true, if_false, Bool.not_true, PyVal.asBytes?, encodeValue]
        exact (len_part si tagS _ value).trans (len_fin si tagS data _ value)
      | other => simp [PyVal.isStr, PyVal.isBytes, encodeValue, embed, ERes.pre]))

theorem body_eq (si : Bool) (tagS : PyStr) (v : PyVal) (data : Bytes)
    (hv : ∀ tag, bytesFromHex tagS = .ok tag → tagNameLen tag = some tag.length → CallOk si (tag.headD 0 &&& 32 != 0) v) :
    _encode_body si data (tagS, v) = ERes.pre data (embed (encodeItem si (tagS, v))) := by
  unfold _encode_body encodeItem
  cases hx : bytesFromHex tagS with
  | error e => simp [embed, ERes.pre]
  | ok tag =>
    cases tag with
    | nil => simp [tagNameLen, embed, ERes.pre]
    | cons b0 rest =>
      simp only [List.getElem?_cons_zero]
      by_cases h31 : (b0 &&& 31 == 31) = true
      · obtain ⟨hne, hs⟩ := ewhile1_scan (b0 :: rest) ((b0 :: rest).length + 1) 1 (by omega) (by simp)
        have hfuel : rest.length + 2 = (b0 :: rest).length + 1 := by simp
        simp only [h31, if_true]
        cases hw : _encode_while1 (b0 :: rest) ((b0 :: rest).length + 1) 1 with
        | fuel => exact absurd hw hne
        | indexErr m =>
          rw [hw] at hs; simp only [toScan] at hs
          have htn : tagNameLen (b0 :: rest) = none := by
            simp only [tagNameLen, h31, if_true, hfuel, ← hs]
          simp [htn, embed, ERes.pre]
        | done m =>
          rw [hw] at hs; simp only [toScan] at hs
          have htn : tagNameLen (b0 :: rest) = some (m + 1) := by
            simp only [tagNameLen, h31, if_true, hfuel, ← hs]
          simp only [htn]
          value_tac hv hx htn
      · have htn : tagNameLen (b0 :: rest) = some 1 := by
          simp only [tagNameLen, h31, Bool.false_eq_true, if_false]
        simp only [h31, Bool.false_eq_true, if_false, htn]
        value_tac hv hx htn


theorem pre_nil (r : ERes) : ERes.pre [] r = r := by cases r <;> simp [ERes.pre]

theorem for_cons (si : Bool) (data : Bytes) (kv : PyStr × PyVal) (rest : List (PyStr × PyVal))
    (h3 : ∀ data, _encode_body si data kv = ERes.pre data (embed (encodeItem si kv)))
    (h2 : ∀ b, encodeItem si kv = .ok b → ∀ data, _encode_for si data rest = ERes.pre data (embed (encodeItems si rest))) :
    _encode_for si data (kv :: rest) = ERes.pre data (embed (encodeItems si (kv :: rest))) := by
  unfold _encode_for encodeItems
  rw [h3]
  cases hb : encodeItem si kv with
  | error e => simp [embed, ERes.pre]
  | ok b =>
    simp only [embed, ERes.pre, h2 b hb]
    cases encodeItems si rest with
    | error e => simp
    | ok r => simp [List.append_assoc]

/-- the `for` loop of `_encode`, started with any accumulator, appends what the model's `encodeItems` returns -/
theorem encode_for_eq (si : Bool) : ∀ (kvs : List (PyStr × PyVal)) (data : Bytes),
    _encode_for si data kvs = ERes.pre data (embed (encodeItems si kvs)) := by
  intro kvs
  apply encodeItems.induct si
    (motive_1 := fun _ c v => CallOk si c v)
    (motive_2 := fun kvs => ∀ data, _encode_for si data kvs = ERes.pre data (embed (encodeItems si kvs)))
    (motive_3 := fun kv => ∀ data, _encode_body si data kv = ERes.pre data (embed (encodeItem si kv)))
  · intro tagS kvs ih _ kvs' hk
    cases hk
    unfold _encode_call
    rw [ih, pre_nil]
  · intro tagS c kvs hc h; exact absurd h hc
  · intro tagS s _ kvs hk; cases hk
  · intro tagS c s hc b _ h; exact absurd h hc
  · intro tagS c s hc a _ h; exact absurd h hc
  · intro tagS b _ kvs hk; cases hk
  · intro tagS c b hc h; exact absurd h hc
  · intro tagS c _ kvs hk; cases hk
  · intro data; unfold _encode_for encodeItems; simp [embed, ERes.pre]
  · intro kv rest e he h3 data
    exact for_cons si data kv rest h3 (by intro b hb; rw [he] at hb; cases hb)
  · intro kv rest value _ e _ h3 h2 data
    exact for_cons si data kv rest h3 (fun _ _ => h2)
  · intro kv rest value _ value' _ h3 h2 data
    exact for_cons si data kv rest h3 (fun _ _ => h2)
  · intro tagS v a ha data
    exact body_eq si tagS v data (by intro tag ht; rw [ha] at ht; cases ht)
  · intro tagS v tag ht hn data
    exact body_eq si tagS v data (by intro tag' ht' hn'; rw [ht] at ht'; cases ht'; rw [hn] at hn'; cases hn')
  · intro tagS v tag ht n hn hne data
    exact body_eq si tagS v data (by
      intro tag' ht' hn'; rw [ht] at ht'; cases ht'; rw [hn] at hn'; cases hn'
      simp at hne)
  · intro tagS v tag ht n hn _ e _ h1 data
    exact body_eq si tagS v data (by intro tag' ht' _; rw [ht] at ht'; cases ht'; exact h1)
  · intro tagS v tag ht n hn _ value _ _ h1 data
    exact body_eq si tagS v data (by intro tag' ht' _; rw [ht] at ht'; cases ht'; exact h1)
  · intro tagS v tag ht n hn _ value _ l _ h1 data
    exact body_eq si tagS v data (by intro tag' ht' _; rw [ht] at ht'; cases ht'; exact h1)

/-- **`encode` translated from the source = the model's `encode`** for every tree and option -/
theorem tlv_encode (si : Option Bool) (t : List (PyStr × PyVal)) :
    TlvGen.encode si t = embed (Tlv.encode (si.getD false) t) := by
  unfold TlvGen.encode TlvGen._encode Tlv.encode
  cases si <;> simp only [Option.getD] <;> rw [encode_for_eq, pre_nil]

end Pyemv.TlvRefines
