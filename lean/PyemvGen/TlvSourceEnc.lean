import PyemvGen.TlvRefinesEnc
import PyemvProps.C10
/-! C10 restated about `TlvGen.encode`, the encoder translated from the repository's `pyemv/tlv.py` on this run
(`TlvRefines.tlv_encode`: translated encoder = hand-written Impl encoder, for every tree and option). -/
namespace Pyemv.TlvSource
open Pyemv Pyemv.Tlv Pyemv.TlvSpec Pyemv.RoundTrip Pyemv.Refine Pyemv.TlvGen Pyemv.TlvRefines

theorem encode_ok_iff (si : Option Bool) (t : List (PyStr × PyVal)) (b : Bytes) :
    TlvGen.encode si t = .ok b ↔ Tlv.encode (si.getD false) t = .ok b := by
  rw [tlv_encode]; cases Tlv.encode (si.getD false) t <;> simp [embed]

theorem encode_err_iff (si : Option Bool) (t : List (PyStr × PyVal)) (e : EErr) :
    TlvGen.encode si t = .err e ↔ Tlv.encode (si.getD false) t = .error e := by
  rw [tlv_encode]; cases Tlv.encode (si.getD false) t <;> simp [embed]

/-- the translated encoder returns bytes or raises `EncodeError`: no other exception, always terminates -/
theorem encode_never_crashes (si : Option Bool) (t : List (PyStr × PyVal)) :
    TlvGen.encode si t ≠ .crash ∧ TlvGen.encode si t ≠ .fuel := by
  rw [tlv_encode]; cases Tlv.encode (si.getD false) t <;> exact ⟨nofun, nofun⟩

/-- **C10, acceptance**: exactly the well-formed trees are encoded. -/
theorem encode_accepts_iff_wellformed (si : Option Bool) (t : List (PyStr × PyVal)) :
    (∃ b, TlvGen.encode si t = .ok b) ↔ WFTree (si.getD false) t := by
  simp only [encode_ok_iff]; exact C10.encode_accepts_iff_wellformed _ t

/-- **C10, canonical**: the output is the serialisation of a well-formed syntax tree mirroring the mapping —
tag bytes, shortest definite length, value, in mapping order. -/
theorem encode_canonical (si : Option Bool) (t : List (PyStr × PyVal)) (b : Bytes) (h : TlvGen.encode si t = .ok b)
    (hlen : si.getD false = false → b.length < 256 ^ 127) :
    ∃ items, b = printItems items ∧ Mirror (si.getD false) t items ∧ ∀ i ∈ items, WF (si.getD false) i :=
  C10.encode_canonical _ t b ((encode_ok_iff si t b).mp h) hlen

/-- **C10, refusal**: a tree that is not well-formed is refused with `EncodeError` naming the first offender in
evaluation order (a key of the tree), and no bytes are produced. -/
theorem encode_error_names_first_offender (si : Option Bool) (t : List (PyStr × PyVal)) (h : ¬ WFTree (si.getD false) t) :
    ∃ e, TlvGen.encode si t = .err e ∧ FirstOffender (si.getD false) e.tag t ∧ KeyIn e.tag t := by
  obtain ⟨e, he, hf⟩ := C10.encode_error_names_first_offender _ t h
  obtain ⟨e2, he2, hk⟩ := C10.encode_error _ t h
  rw [he] at he2; cases he2
  exact ⟨e, (encode_err_iff si t e).mpr he, hf, hk⟩

end Pyemv.TlvSource
