import PyemvGen.TlvGen
import PyemvProofs.TlvLen
/-! shared by the decoder and the encoder refinement modules -/
namespace Pyemv.TlvRefines
open Pyemv Pyemv.Tlv Pyemv.TlvGen

/-- what the hand-written `scanCont` returns for a loop outcome -/
def toScan : LoopRes → Option Nat × Nat
  | .done m => (some (m + 1), m + 1)
  | .indexErr m => (none, m)
  | .fuel => (none, 0)

end Pyemv.TlvRefines
