import PyemvGen.TlvRefinesCommon
import PyemvProofs.TlvConvert
/-! decoder half: `TlvGen.decode = Tlv.decodeC` -/
namespace Pyemv.TlvRefines
open Pyemv Pyemv.Tlv Pyemv.TlvGen


/-! ### aliasing: `dec[tag] = {}` then `_decode(…, dec[tag], …)` -/

theorem find_set_self {α} (d : DictC α) (k : Bytes) (v : NodeC α) :
    (DictC.set d k v).find? (fun p => p.1 == k) = some (k, v) := by
  unfold DictC.set
  split
  · rename_i h
    induction d with
    | nil => simp at h
    | cons x xs ih =>
      simp only [List.map_cons, List.find?_cons]
      by_cases hx : (x.1 == k) = true
      · simp [hx]
      · simp only [hx, Bool.false_eq_true, if_false]
        simp only [List.any_cons, hx, Bool.false_or] at h
        simpa [hx] using ih h
  · rename_i h
    rw [List.find?_append]
    have : d.find? (fun p => p.1 == k) = none := by
      rw [List.find?_eq_none]; intro p hp hk
      apply h; rw [List.any_eq_true]; exact ⟨p, hp, hk⟩
    simp [this]

theorem getCons_set_nil {α} (d : DictC α) (k : Bytes) : DictC.getCons (DictC.set d k (.cons [])) k = [] := by
  unfold DictC.getCons; rw [find_set_self]

theorem any_set {α} (d : DictC α) (k : Bytes) (v : NodeC α) : (DictC.set d k v).any (fun p => p.1 == k) = true := by
  have := find_set_self d k v
  rw [List.any_eq_true]
  exact ⟨(k, v), List.mem_of_find?_eq_some this, by simp⟩

theorem set_of_any {α} (d : DictC α) (k : Bytes) (w : NodeC α) (h : d.any (fun p => p.1 == k) = true) :
    DictC.set d k w = d.map (fun p => if p.1 == k then (k, w) else p) := by
  simp [DictC.set, h]

theorem set_set {α} (d : DictC α) (k : Bytes) (v w : NodeC α) : DictC.set (DictC.set d k v) k w = DictC.set d k w := by
  rw [set_of_any _ k w (any_set d k v)]
  unfold DictC.set
  split
  · rw [List.map_map]; apply List.map_congr_left; intro p _
    by_cases hp : p.1 = k
    · simp [hp]
    · simp [hp]
  · rename_i h
    rw [List.map_append]
    have : d.map (fun p => if (p.1 == k) = true then (k, w) else p) = d := by
      conv => rhs; rw [← List.map_id d]
      apply List.map_congr_left; intro p hp
      have : (p.1 == k) = false := by
        cases hpk : (p.1 == k) with
        | false => rfl
        | true => exact absurd (List.any_eq_true.mpr ⟨p, hp, hpk⟩) h
      simp [this]
    simpa using this

/-! ### the tag continuation scan -/

theorem while1_scan (data : Bytes) (ofs : Nat) : ∀ (f n : Nat), 1 ≤ f → data.length + 1 ≤ ofs + n + f →
    _decode_while1 data ofs f n ≠ .fuel ∧ toScan (_decode_while1 data ofs f n) = scanCont f data ofs n := by
  intro f
  induction f with
  | zero => intro n h; omega
  | succ f ih =>
    intro n _ hlen
    unfold _decode_while1 scanCont
    cases hb : data[ofs + n]? with
    | none => simp [toScan]
    | some b =>
      have hlt : ofs + n < data.length := by
        rcases List.getElem?_eq_some_iff.mp hb with ⟨h, _⟩; exact h
      by_cases hc : (b &&& 128 != 0) = true
      · have := ih (n + 1) (by omega) (by omega)
        simp only [hc, if_true]
        exact this
      · simp only [hc, if_false, Bool.false_eq_true]
        simp [toScan]

/-! ### `_decode` -/

macro "leaf" : tactic => `(tactic| (simp only []; split; (· (split <;> (split <;> simp_all))); (· rfl)))

/-- everything after the tag scan: parent-limit check of the tag, length field, value containment, value -/
macro "tail_tac" : tactic => `(tactic| (
  simp only [afterTag, getCons_set_nil, set_set, decide_eq_true_eq]
  split
  · first
    | rfl
    | (rename_i hgt; simp [Nat.min_eq_right (Nat.le_of_lt hgt)])   -- the tag written as `data[ofst:ofst_limit]` in the overrun branch
  · split
    · rfl
    · split
      · simp_all
      · rename_i lb hd
        simp only [hd]
        split
        · split
          · rfl
          · split
            · rfl
            · leaf
        · split
          · rfl
          · leaf))

theorem decode_loop_eq {α} (conv : Bytes → Bytes → α) (fl si : Bool) (data : Bytes) :
    ∀ (f ofs lim : Nat) (dec : DictC α) (log : Log),
      _decode conv fl si data f ofs lim dec log = decodeSeqC conv fl si data f ofs lim dec log := by
  intro f
  induction f with
  | zero => intros; rfl
  | succ f ih =>
    intro ofs lim dec log
    unfold _decode decodeSeqC
    simp only [ih]
    by_cases h1 : ofs < lim
    · simp only [h1, decide_true, if_true, not_true, if_false]
      unfold readHeader
      cases h0 : data[ofs]? with
      | none => simp
      | some b0 =>
        simp only []
        unfold scanTag
        by_cases h1f : (b0 &&& 31 == 31) = true
        · obtain ⟨hne, hs⟩ := while1_scan data ofs (data.length+1) 1 (by omega) (by omega)
          simp only [h1f, if_true]
          cases hw : _decode_while1 data ofs (data.length + 1) 1 with
          | fuel => exact absurd hw hne
          | indexErr m =>
            rw [hw] at hs; simp only [toScan] at hs
            simp only [← hs]
          | done m =>
            rw [hw] at hs; simp only [toScan] at hs
            simp only [← hs]
            tail_tac
        · simp only [h1f, Bool.false_eq_true, if_false]
          tail_tac
    · simp [h1]

/-- **`decode` translated from the source = the model's `decodeC`**, for every conversion function, option
combination (absent = `None`) and input -/
theorem tlv_decode {α} (conv : Bytes → Bytes → α) (fl si : Option Bool) (data : Bytes) :
    TlvGen.decode conv fl si data = decodeC conv (fl.getD false) (si.getD false) data := by
  unfold TlvGen.decode decodeC
  rw [decode_loop_eq]
  cases fl <;> cases si <;> rfl

/-- **the chain to the property theorems**: the decoder translated from the source, run with any conversion
function, stands in the naturality relation to the model's plain `decode` — same success or failure, same fault
kind, tag and offset, dictionaries related by mapping the conversion over the primitive values — and its call
log is the list of primitive objects of the parse.  C09, C17 and C18 are stated about `decode`, `decodeC` and
`parseItems`; this carries them to what the source says. -/
theorem tlv_decode_sim {α} (conv : Bytes → Bytes → α) (fl si : Option Bool) (data : Bytes) :
    Refine.SimRel conv (Tlv.decode (fl.getD false) (si.getD false) data) (TlvGen.decode conv fl si data) := by
  rw [tlv_decode]; exact Refine.decodeC_sim conv _ _ data

end Pyemv.TlvRefines
