import PyemvGen.CvnGen
/-!
# Per-class refinement: each class of cvn.py *as written* equals its documented profile row

`PyemvGen/CvnGen.lean` is regenerated from `/repo/pyemv/cvn.py` on every run by
`harness/translate_cvn.py`.  The theorems below say that the constructor and every method of every
class, as translated from the source, equal the generic functions of `PyemvModel/Cvn.lean` at the row of
the profile table.  A change to cvn.py that alters a class's behaviour breaks the corresponding proof.
-/
namespace Pyemv.CvnRefines
open Pyemv Pyemv.Cvn Pyemv.CvnGen

local macro "cvn_simp" : tactic =>
  `(tactic| (simp only [Cvn.new, Cvn.generateAc, Cvn.generateArpc, Cvn.commandMac,
      Cvn.encrypt, Cvn.pinChange, Cvn.skFor, Cvn.smKey, Cvn.acData, Cvn.macInput, Cvn.pinBlock, Cvn.pinHeader, zeros,
      List.replicate, List.append_nil, List.append_assoc, Bool.false_eq_true, if_false, if_true, ↓reduceIte,
      bind_assoc, pure_bind, bind_pure, bind_pure_comp, Functor.map_map, map_pure, bind_map_left, id_map']))

/-! ### VisaCVN10 -/

def P_VisaCVN10 : Profile := ⟨.a, .none, .visa, false, 1, .none, .visaAtc, true, .visa, .visOnly, .visa⟩
theorem VisaCVN10_row : profile "VisaCVN10" = some P_VisaCVN10 := rfl

theorem VisaCVN10_new (k1 k2 k3 : Bytes) (pan : StrOrBytes) (psn : Option StrOrBytes) :
    VisaCVN10.new k1 k2 k3 pan psn = Cvn.new P_VisaCVN10 k1 k2 k3 pan psn := by
  unfold VisaCVN10.new P_VisaCVN10; simp only [VisaCVN10._derive_sk_ac_none, VisaCVN10._derive_sk_sm_visa]; cvn_simp <;> (try rfl)

theorem VisaCVN10_generate_ac (self : Card) (a1 a2 a3 a4 a5 a6 a7 a8 a9 a10 tail : Bytes) (cnt : Bytes) :
    VisaCVN10.generate_ac self a1 a2 a3 a4 a5 a6 a7 a8 a9 a10 tail = Cvn.generateAc P_VisaCVN10 self ⟨a1, a2, a3, a4, a5, a6, a7, a8, a9, a10, tail, cnt⟩ := by
  unfold VisaCVN10.generate_ac P_VisaCVN10; simp only [VisaCVN10._derive_sk_ac_none, VisaCVN10._derive_sk_sm_visa]; cvn_simp <;> (try rfl)

theorem VisaCVN10_generate_arpc (self : Card) (arqc atc un rc : Bytes) (pad : Option Bytes) :
    VisaCVN10.generate_arpc self arqc rc = Cvn.generateArpc P_VisaCVN10 self arqc atc un rc none := by
  unfold VisaCVN10.generate_arpc P_VisaCVN10; simp only [VisaCVN10._derive_sk_ac_none, VisaCVN10._derive_sk_sm_visa]; cvn_simp <;> (try rfl)

theorem VisaCVN10_generate_command_mac (self : Card) (hdr arqc atc d : Bytes) :
    VisaCVN10.generate_command_mac self hdr arqc atc d = Cvn.commandMac P_VisaCVN10 self hdr arqc atc d := by
  unfold VisaCVN10.generate_command_mac P_VisaCVN10; simp only [VisaCVN10._derive_sk_ac_none, VisaCVN10._derive_sk_sm_visa]; cvn_simp <;> (try rfl)

theorem VisaCVN10_encrypt_command_data (self : Card) (d arqc atc : Bytes) :
    VisaCVN10.encrypt_command_data self d atc = Cvn.encrypt P_VisaCVN10 self d arqc atc := by
  unfold VisaCVN10.encrypt_command_data P_VisaCVN10; simp only [VisaCVN10._derive_sk_ac_none, VisaCVN10._derive_sk_sm_visa]; cvn_simp <;> (try rfl)

theorem VisaCVN10_generate_pin_change_command (self : Card) (pin : StrOrBytes) (arqc atc : Bytes) (cur : Option StrOrBytes) :
    VisaCVN10.generate_pin_change_command self pin arqc atc cur = Cvn.pinChange P_VisaCVN10 self pin arqc atc cur := by
  unfold VisaCVN10.generate_pin_change_command
  simp only [VisaCVN10_encrypt_command_data self _ arqc atc, VisaCVN10_generate_command_mac self _ arqc atc _]
  unfold P_VisaCVN10; cases cur <;> cvn_simp <;> (try rfl)

/-! ### VisaCVN18 -/

def P_VisaCVN18 : Profile := ⟨.b, .commonAtc, .emv, false, 2, .commonAtc, .visaAtc, true, .visa, .visOnly, .visa⟩
theorem VisaCVN18_row : profile "VisaCVN18" = some P_VisaCVN18 := rfl

theorem VisaCVN18_new (k1 k2 k3 : Bytes) (pan : StrOrBytes) (psn : Option StrOrBytes) :
    VisaCVN18.new k1 k2 k3 pan psn = Cvn.new P_VisaCVN18 k1 k2 k3 pan psn := by
  unfold VisaCVN18.new P_VisaCVN18; simp only [VisaCVN18._derive_sk_ac_common, VisaCVN18._derive_sk_sm_visa]; cvn_simp <;> (try rfl)

theorem VisaCVN18_generate_ac (self : Card) (a1 a2 a3 a4 a5 a6 a7 a8 a9 a10 tail : Bytes) (cnt : Bytes) :
    VisaCVN18.generate_ac self a1 a2 a3 a4 a5 a6 a7 a8 a9 a10 tail = Cvn.generateAc P_VisaCVN18 self ⟨a1, a2, a3, a4, a5, a6, a7, a8, a9, a10, tail, cnt⟩ := by
  unfold VisaCVN18.generate_ac P_VisaCVN18; simp only [VisaCVN18._derive_sk_ac_common, VisaCVN18._derive_sk_sm_visa]; cvn_simp <;> (try rfl)

theorem VisaCVN18_generate_arpc (self : Card) (arqc atc un rc : Bytes) (pad : Option Bytes) :
    VisaCVN18.generate_arpc self arqc atc rc pad = Cvn.generateArpc P_VisaCVN18 self arqc atc un rc pad := by
  unfold VisaCVN18.generate_arpc P_VisaCVN18; simp only [VisaCVN18._derive_sk_ac_common, VisaCVN18._derive_sk_sm_visa]; cvn_simp <;> (try rfl)

theorem VisaCVN18_generate_command_mac (self : Card) (hdr arqc atc d : Bytes) :
    VisaCVN18.generate_command_mac self hdr arqc atc d = Cvn.commandMac P_VisaCVN18 self hdr arqc atc d := by
  unfold VisaCVN18.generate_command_mac P_VisaCVN18; simp only [VisaCVN18._derive_sk_ac_common, VisaCVN18._derive_sk_sm_visa]; cvn_simp <;> (try rfl)

theorem VisaCVN18_encrypt_command_data (self : Card) (d arqc atc : Bytes) :
    VisaCVN18.encrypt_command_data self d atc = Cvn.encrypt P_VisaCVN18 self d arqc atc := by
  unfold VisaCVN18.encrypt_command_data P_VisaCVN18; simp only [VisaCVN18._derive_sk_ac_common, VisaCVN18._derive_sk_sm_visa]; cvn_simp <;> (try rfl)

theorem VisaCVN18_generate_pin_change_command (self : Card) (pin : StrOrBytes) (arqc atc : Bytes) (cur : Option StrOrBytes) :
    VisaCVN18.generate_pin_change_command self pin arqc atc cur = Cvn.pinChange P_VisaCVN18 self pin arqc atc cur := by
  unfold VisaCVN18.generate_pin_change_command
  simp only [VisaCVN18_encrypt_command_data self _ arqc atc, VisaCVN18_generate_command_mac self _ arqc atc _]
  unfold P_VisaCVN18; cases cur <;> cvn_simp <;> (try rfl)

/-! ### VisaCVN22 -/

def P_VisaCVN22 : Profile := ⟨.b, .commonAtc, .emv, false, 2, .commonAtc, .commonArqc, true, .visa, .iso2OrVis, .visa⟩
theorem VisaCVN22_row : profile "VisaCVN22" = some P_VisaCVN22 := rfl

theorem VisaCVN22_new (k1 k2 k3 : Bytes) (pan : StrOrBytes) (psn : Option StrOrBytes) :
    VisaCVN22.new k1 k2 k3 pan psn = Cvn.new P_VisaCVN22 k1 k2 k3 pan psn := by
  unfold VisaCVN22.new P_VisaCVN22; simp only [VisaCVN22._derive_sk_ac_common, VisaCVN22._derive_sk_sm_common]; cvn_simp <;> (try rfl)

theorem VisaCVN22_generate_ac (self : Card) (a1 a2 a3 a4 a5 a6 a7 a8 a9 a10 tail : Bytes) (cnt : Bytes) :
    VisaCVN22.generate_ac self a1 a2 a3 a4 a5 a6 a7 a8 a9 a10 tail = Cvn.generateAc P_VisaCVN22 self ⟨a1, a2, a3, a4, a5, a6, a7, a8, a9, a10, tail, cnt⟩ := by
  unfold VisaCVN22.generate_ac P_VisaCVN22; simp only [VisaCVN22._derive_sk_ac_common, VisaCVN22._derive_sk_sm_common]; cvn_simp <;> (try rfl)

theorem VisaCVN22_generate_arpc (self : Card) (arqc atc un rc : Bytes) (pad : Option Bytes) :
    VisaCVN22.generate_arpc self arqc atc rc pad = Cvn.generateArpc P_VisaCVN22 self arqc atc un rc pad := by
  unfold VisaCVN22.generate_arpc P_VisaCVN22; simp only [VisaCVN22._derive_sk_ac_common, VisaCVN22._derive_sk_sm_common]; cvn_simp <;> (try rfl)

theorem VisaCVN22_generate_command_mac (self : Card) (hdr arqc atc d : Bytes) :
    VisaCVN22.generate_command_mac self hdr arqc atc d = Cvn.commandMac P_VisaCVN22 self hdr arqc atc d := by
  unfold VisaCVN22.generate_command_mac P_VisaCVN22; simp only [VisaCVN22._derive_sk_ac_common, VisaCVN22._derive_sk_sm_common]; cvn_simp <;> (try rfl)

theorem VisaCVN22_encrypt_command_data (self : Card) (d arqc atc : Bytes) :
    VisaCVN22.encrypt_command_data self d arqc = Cvn.encrypt P_VisaCVN22 self d arqc atc := by
  unfold VisaCVN22.encrypt_command_data P_VisaCVN22; simp only [VisaCVN22._derive_sk_ac_common, VisaCVN22._derive_sk_sm_common]; cvn_simp <;> (try rfl)

theorem VisaCVN22_generate_pin_change_command (self : Card) (pin : StrOrBytes) (arqc atc : Bytes) (cur : Option StrOrBytes) :
    VisaCVN22.generate_pin_change_command self pin arqc atc cur = Cvn.pinChange P_VisaCVN22 self pin arqc atc cur := by
  unfold VisaCVN22.generate_pin_change_command
  simp only [VisaCVN22_encrypt_command_data self _ arqc atc, VisaCVN22_generate_command_mac self _ arqc atc _]
  unfold P_VisaCVN22; cases cur <;> cvn_simp <;> (try rfl)

/-! ### InteracCVN133 -/

def P_InteracCVN133 : Profile := ⟨.a, .mcAtcUn, .emv, false, 1, .mcAtcUn, .commonArqc, false, .mastercard, .iso2Only, .mc⟩
theorem InteracCVN133_row : profile "InteracCVN133" = some P_InteracCVN133 := rfl

theorem InteracCVN133_new (k1 k2 k3 : Bytes) (pan : StrOrBytes) (psn : Option StrOrBytes) :
    InteracCVN133.new k1 k2 k3 pan psn = Cvn.new P_InteracCVN133 k1 k2 k3 pan psn := by
  unfold InteracCVN133.new P_InteracCVN133; simp only [InteracCVN133._derive_sk_ac_mastercard, InteracCVN133._derive_sk_sm_common]; cvn_simp <;> (try rfl)

theorem InteracCVN133_generate_ac (self : Card) (a1 a2 a3 a4 a5 a6 a7 a8 a9 a10 tail : Bytes) (cnt : Bytes) :
    InteracCVN133.generate_ac self a1 a2 a3 a4 a5 a6 a7 a8 a9 a10 tail = Cvn.generateAc P_InteracCVN133 self ⟨a1, a2, a3, a4, a5, a6, a7, a8, a9, a10, tail, cnt⟩ := by
  unfold InteracCVN133.generate_ac P_InteracCVN133; simp only [InteracCVN133._derive_sk_ac_mastercard, InteracCVN133._derive_sk_sm_common]; cvn_simp <;> (try rfl)

theorem InteracCVN133_generate_arpc (self : Card) (arqc atc un rc : Bytes) (pad : Option Bytes) :
    InteracCVN133.generate_arpc self arqc un atc rc = Cvn.generateArpc P_InteracCVN133 self arqc atc un rc none := by
  unfold InteracCVN133.generate_arpc P_InteracCVN133; simp only [InteracCVN133._derive_sk_ac_mastercard, InteracCVN133._derive_sk_sm_common]; cvn_simp <;> (try rfl)

theorem InteracCVN133_generate_command_mac (self : Card) (hdr arqc atc d : Bytes) :
    InteracCVN133.generate_command_mac self hdr arqc d = Cvn.commandMac P_InteracCVN133 self hdr arqc atc d := by
  unfold InteracCVN133.generate_command_mac P_InteracCVN133; simp only [InteracCVN133._derive_sk_ac_mastercard, InteracCVN133._derive_sk_sm_common]; cvn_simp <;> (try rfl)

theorem InteracCVN133_encrypt_command_data (self : Card) (d arqc atc : Bytes) :
    InteracCVN133.encrypt_command_data self d arqc = Cvn.encrypt P_InteracCVN133 self d arqc atc := by
  unfold InteracCVN133.encrypt_command_data P_InteracCVN133; simp only [InteracCVN133._derive_sk_ac_mastercard, InteracCVN133._derive_sk_sm_common]; cvn_simp <;> (try rfl)

theorem InteracCVN133_generate_pin_change_command (self : Card) (pin : StrOrBytes) (arqc atc : Bytes) (cur : Option StrOrBytes) :
    InteracCVN133.generate_pin_change_command self pin arqc = Cvn.pinChange P_InteracCVN133 self pin arqc atc none := by
  unfold InteracCVN133.generate_pin_change_command
  simp only [InteracCVN133_encrypt_command_data self _ arqc atc, InteracCVN133_generate_command_mac self _ arqc atc _]
  unfold P_InteracCVN133; cases cur <;> cvn_simp <;> (try rfl)

/-! ### MasterCardCVN16 -/

def P_MasterCardCVN16 : Profile := ⟨.a, .mcAtcUn, .emv, false, 1, .none, .commonArqc, true, .mastercard, .iso2Only, .mc⟩
theorem MasterCardCVN16_row : profile "MasterCardCVN16" = some P_MasterCardCVN16 := rfl

theorem MasterCardCVN16_new (k1 k2 k3 : Bytes) (pan : StrOrBytes) (psn : Option StrOrBytes) :
    MasterCardCVN16.new k1 k2 k3 pan psn = Cvn.new P_MasterCardCVN16 k1 k2 k3 pan psn := by
  unfold MasterCardCVN16.new P_MasterCardCVN16; simp only [MasterCardCVN16._derive_sk_ac_mastercard, MasterCardCVN16._derive_sk_arpc_none, MasterCardCVN16._derive_sk_sm_common]; cvn_simp <;> (try rfl)

theorem MasterCardCVN16_generate_ac (self : Card) (a1 a2 a3 a4 a5 a6 a7 a8 a9 a10 tail : Bytes) (cnt : Bytes) :
    MasterCardCVN16.generate_ac self a1 a2 a3 a4 a5 a6 a7 a8 a9 a10 tail = Cvn.generateAc P_MasterCardCVN16 self ⟨a1, a2, a3, a4, a5, a6, a7, a8, a9, a10, tail, cnt⟩ := by
  unfold MasterCardCVN16.generate_ac P_MasterCardCVN16; simp only [MasterCardCVN16._derive_sk_ac_mastercard, MasterCardCVN16._derive_sk_arpc_none, MasterCardCVN16._derive_sk_sm_common]; cvn_simp <;> (try rfl)

theorem MasterCardCVN16_generate_arpc (self : Card) (arqc atc un rc : Bytes) (pad : Option Bytes) :
    MasterCardCVN16.generate_arpc self arqc rc = Cvn.generateArpc P_MasterCardCVN16 self arqc atc un rc none := by
  unfold MasterCardCVN16.generate_arpc P_MasterCardCVN16; simp only [MasterCardCVN16._derive_sk_ac_mastercard, MasterCardCVN16._derive_sk_arpc_none, MasterCardCVN16._derive_sk_sm_common]; cvn_simp <;> (try rfl)

theorem MasterCardCVN16_generate_command_mac (self : Card) (hdr arqc atc d : Bytes) :
    MasterCardCVN16.generate_command_mac self hdr arqc atc d = Cvn.commandMac P_MasterCardCVN16 self hdr arqc atc d := by
  unfold MasterCardCVN16.generate_command_mac P_MasterCardCVN16; simp only [MasterCardCVN16._derive_sk_ac_mastercard, MasterCardCVN16._derive_sk_arpc_none, MasterCardCVN16._derive_sk_sm_common]; cvn_simp <;> (try rfl)

theorem MasterCardCVN16_encrypt_command_data (self : Card) (d arqc atc : Bytes) :
    MasterCardCVN16.encrypt_command_data self d arqc = Cvn.encrypt P_MasterCardCVN16 self d arqc atc := by
  unfold MasterCardCVN16.encrypt_command_data P_MasterCardCVN16; simp only [MasterCardCVN16._derive_sk_ac_mastercard, MasterCardCVN16._derive_sk_arpc_none, MasterCardCVN16._derive_sk_sm_common]; cvn_simp <;> (try rfl)

theorem MasterCardCVN16_generate_pin_change_command (self : Card) (pin : StrOrBytes) (arqc atc : Bytes) (cur : Option StrOrBytes) :
    MasterCardCVN16.generate_pin_change_command self pin arqc atc = Cvn.pinChange P_MasterCardCVN16 self pin arqc atc none := by
  unfold MasterCardCVN16.generate_pin_change_command
  simp only [MasterCardCVN16_encrypt_command_data self _ arqc atc, MasterCardCVN16_generate_command_mac self _ arqc atc _]
  unfold P_MasterCardCVN16; cases cur <;> cvn_simp <;> (try rfl)

/-! ### MasterCardCVN17 -/

def P_MasterCardCVN17 : Profile := ⟨.a, .mcAtcUn, .emv, true, 1, .none, .commonArqc, true, .mastercard, .iso2Only, .mc⟩
theorem MasterCardCVN17_row : profile "MasterCardCVN17" = some P_MasterCardCVN17 := rfl

theorem MasterCardCVN17_new (k1 k2 k3 : Bytes) (pan : StrOrBytes) (psn : Option StrOrBytes) :
    MasterCardCVN17.new k1 k2 k3 pan psn = Cvn.new P_MasterCardCVN17 k1 k2 k3 pan psn := by
  unfold MasterCardCVN17.new P_MasterCardCVN17; simp only [MasterCardCVN17._derive_sk_ac_mastercard, MasterCardCVN17._derive_sk_arpc_none, MasterCardCVN17._derive_sk_sm_common]; cvn_simp <;> (try rfl)

theorem MasterCardCVN17_generate_ac (self : Card) (a1 a2 a3 a4 a5 a6 a7 a8 a9 a10 tail cnt : Bytes) :
    MasterCardCVN17.generate_ac self a1 a2 a3 a4 a5 a6 a7 a8 a9 a10 tail cnt = Cvn.generateAc P_MasterCardCVN17 self ⟨a1, a2, a3, a4, a5, a6, a7, a8, a9, a10, tail, cnt⟩ := by
  unfold MasterCardCVN17.generate_ac P_MasterCardCVN17; simp only [MasterCardCVN17._derive_sk_ac_mastercard, MasterCardCVN17._derive_sk_arpc_none, MasterCardCVN17._derive_sk_sm_common]; cvn_simp <;> (try rfl)

theorem MasterCardCVN17_generate_arpc (self : Card) (arqc atc un rc : Bytes) (pad : Option Bytes) :
    MasterCardCVN17.generate_arpc self arqc rc = Cvn.generateArpc P_MasterCardCVN17 self arqc atc un rc none := by
  unfold MasterCardCVN17.generate_arpc P_MasterCardCVN17; simp only [MasterCardCVN17._derive_sk_ac_mastercard, MasterCardCVN17._derive_sk_arpc_none, MasterCardCVN17._derive_sk_sm_common]; cvn_simp <;> (try rfl)

theorem MasterCardCVN17_generate_command_mac (self : Card) (hdr arqc atc d : Bytes) :
    MasterCardCVN17.generate_command_mac self hdr arqc atc d = Cvn.commandMac P_MasterCardCVN17 self hdr arqc atc d := by
  unfold MasterCardCVN17.generate_command_mac P_MasterCardCVN17; simp only [MasterCardCVN17._derive_sk_ac_mastercard, MasterCardCVN17._derive_sk_arpc_none, MasterCardCVN17._derive_sk_sm_common]; cvn_simp <;> (try rfl)

theorem MasterCardCVN17_encrypt_command_data (self : Card) (d arqc atc : Bytes) :
    MasterCardCVN17.encrypt_command_data self d arqc = Cvn.encrypt P_MasterCardCVN17 self d arqc atc := by
  unfold MasterCardCVN17.encrypt_command_data P_MasterCardCVN17; simp only [MasterCardCVN17._derive_sk_ac_mastercard, MasterCardCVN17._derive_sk_arpc_none, MasterCardCVN17._derive_sk_sm_common]; cvn_simp <;> (try rfl)

theorem MasterCardCVN17_generate_pin_change_command (self : Card) (pin : StrOrBytes) (arqc atc : Bytes) (cur : Option StrOrBytes) :
    MasterCardCVN17.generate_pin_change_command self pin arqc atc = Cvn.pinChange P_MasterCardCVN17 self pin arqc atc none := by
  unfold MasterCardCVN17.generate_pin_change_command
  simp only [MasterCardCVN17_encrypt_command_data self _ arqc atc, MasterCardCVN17_generate_command_mac self _ arqc atc _]
  unfold P_MasterCardCVN17; cases cur <;> cvn_simp <;> (try rfl)

/-! ### MasterCardCVN20 -/

def P_MasterCardCVN20 : Profile := ⟨.a, .commonAtc, .emv, false, 1, .commonAtc, .commonArqc, true, .mastercard, .iso2Only, .mc⟩
theorem MasterCardCVN20_row : profile "MasterCardCVN20" = some P_MasterCardCVN20 := rfl

theorem MasterCardCVN20_new (k1 k2 k3 : Bytes) (pan : StrOrBytes) (psn : Option StrOrBytes) :
    MasterCardCVN20.new k1 k2 k3 pan psn = Cvn.new P_MasterCardCVN20 k1 k2 k3 pan psn := by
  unfold MasterCardCVN20.new P_MasterCardCVN20; simp only [MasterCardCVN20._derive_sk_ac_common, MasterCardCVN20._derive_sk_sm_common]; cvn_simp <;> (try rfl)

theorem MasterCardCVN20_generate_ac (self : Card) (a1 a2 a3 a4 a5 a6 a7 a8 a9 a10 tail : Bytes) (cnt : Bytes) :
    MasterCardCVN20.generate_ac self a1 a2 a3 a4 a5 a6 a7 a8 a9 a10 tail = Cvn.generateAc P_MasterCardCVN20 self ⟨a1, a2, a3, a4, a5, a6, a7, a8, a9, a10, tail, cnt⟩ := by
  unfold MasterCardCVN20.generate_ac P_MasterCardCVN20; simp only [MasterCardCVN20._derive_sk_ac_common, MasterCardCVN20._derive_sk_sm_common]; cvn_simp <;> (try rfl)

theorem MasterCardCVN20_generate_arpc (self : Card) (arqc atc un rc : Bytes) (pad : Option Bytes) :
    MasterCardCVN20.generate_arpc self arqc atc rc = Cvn.generateArpc P_MasterCardCVN20 self arqc atc un rc none := by
  unfold MasterCardCVN20.generate_arpc P_MasterCardCVN20; simp only [MasterCardCVN20._derive_sk_ac_common, MasterCardCVN20._derive_sk_sm_common]; cvn_simp <;> (try rfl)

theorem MasterCardCVN20_generate_command_mac (self : Card) (hdr arqc atc d : Bytes) :
    MasterCardCVN20.generate_command_mac self hdr arqc atc d = Cvn.commandMac P_MasterCardCVN20 self hdr arqc atc d := by
  unfold MasterCardCVN20.generate_command_mac P_MasterCardCVN20; simp only [MasterCardCVN20._derive_sk_ac_common, MasterCardCVN20._derive_sk_sm_common]; cvn_simp <;> (try rfl)

theorem MasterCardCVN20_encrypt_command_data (self : Card) (d arqc atc : Bytes) :
    MasterCardCVN20.encrypt_command_data self d arqc = Cvn.encrypt P_MasterCardCVN20 self d arqc atc := by
  unfold MasterCardCVN20.encrypt_command_data P_MasterCardCVN20; simp only [MasterCardCVN20._derive_sk_ac_common, MasterCardCVN20._derive_sk_sm_common]; cvn_simp <;> (try rfl)

theorem MasterCardCVN20_generate_pin_change_command (self : Card) (pin : StrOrBytes) (arqc atc : Bytes) (cur : Option StrOrBytes) :
    MasterCardCVN20.generate_pin_change_command self pin arqc atc = Cvn.pinChange P_MasterCardCVN20 self pin arqc atc none := by
  unfold MasterCardCVN20.generate_pin_change_command
  simp only [MasterCardCVN20_encrypt_command_data self _ arqc atc, MasterCardCVN20_generate_command_mac self _ arqc atc _]
  unfold P_MasterCardCVN20; cases cur <;> cvn_simp <;> (try rfl)

/-! ### MasterCardCVN21 -/

def P_MasterCardCVN21 : Profile := ⟨.a, .commonAtc, .emv, true, 1, .commonAtc, .commonArqc, true, .mastercard, .iso2Only, .mc⟩
theorem MasterCardCVN21_row : profile "MasterCardCVN21" = some P_MasterCardCVN21 := rfl

theorem MasterCardCVN21_new (k1 k2 k3 : Bytes) (pan : StrOrBytes) (psn : Option StrOrBytes) :
    MasterCardCVN21.new k1 k2 k3 pan psn = Cvn.new P_MasterCardCVN21 k1 k2 k3 pan psn := by
  unfold MasterCardCVN21.new P_MasterCardCVN21; simp only [MasterCardCVN21._derive_sk_ac_common, MasterCardCVN21._derive_sk_sm_common]; cvn_simp <;> (try rfl)

theorem MasterCardCVN21_generate_ac (self : Card) (a1 a2 a3 a4 a5 a6 a7 a8 a9 a10 tail cnt : Bytes) :
    MasterCardCVN21.generate_ac self a1 a2 a3 a4 a5 a6 a7 a8 a9 a10 tail cnt = Cvn.generateAc P_MasterCardCVN21 self ⟨a1, a2, a3, a4, a5, a6, a7, a8, a9, a10, tail, cnt⟩ := by
  unfold MasterCardCVN21.generate_ac P_MasterCardCVN21; simp only [MasterCardCVN21._derive_sk_ac_common, MasterCardCVN21._derive_sk_sm_common]; cvn_simp <;> (try rfl)

theorem MasterCardCVN21_generate_arpc (self : Card) (arqc atc un rc : Bytes) (pad : Option Bytes) :
    MasterCardCVN21.generate_arpc self arqc atc rc = Cvn.generateArpc P_MasterCardCVN21 self arqc atc un rc none := by
  unfold MasterCardCVN21.generate_arpc P_MasterCardCVN21; simp only [MasterCardCVN21._derive_sk_ac_common, MasterCardCVN21._derive_sk_sm_common]; cvn_simp <;> (try rfl)

theorem MasterCardCVN21_generate_command_mac (self : Card) (hdr arqc atc d : Bytes) :
    MasterCardCVN21.generate_command_mac self hdr arqc atc d = Cvn.commandMac P_MasterCardCVN21 self hdr arqc atc d := by
  unfold MasterCardCVN21.generate_command_mac P_MasterCardCVN21; simp only [MasterCardCVN21._derive_sk_ac_common, MasterCardCVN21._derive_sk_sm_common]; cvn_simp <;> (try rfl)

theorem MasterCardCVN21_encrypt_command_data (self : Card) (d arqc atc : Bytes) :
    MasterCardCVN21.encrypt_command_data self d arqc = Cvn.encrypt P_MasterCardCVN21 self d arqc atc := by
  unfold MasterCardCVN21.encrypt_command_data P_MasterCardCVN21; simp only [MasterCardCVN21._derive_sk_ac_common, MasterCardCVN21._derive_sk_sm_common]; cvn_simp <;> (try rfl)

theorem MasterCardCVN21_generate_pin_change_command (self : Card) (pin : StrOrBytes) (arqc atc : Bytes) (cur : Option StrOrBytes) :
    MasterCardCVN21.generate_pin_change_command self pin arqc atc = Cvn.pinChange P_MasterCardCVN21 self pin arqc atc none := by
  unfold MasterCardCVN21.generate_pin_change_command
  simp only [MasterCardCVN21_encrypt_command_data self _ arqc atc, MasterCardCVN21_generate_command_mac self _ arqc atc _]
  unfold P_MasterCardCVN21; cases cur <;> cvn_simp <;> (try rfl)

end Pyemv.CvnRefines
