import PyemvGen.TlvRefinesDec
import PyemvProps.C09
import PyemvProps.C17
import PyemvProps.C18
/-! C09 / C17 / C18 (decoder half) restated about `TlvGen.decode`, the decoder translated from the repository's
`pyemv/tlv.py` on this run, for every conversion function and every option combination (absent option = `None`).
Each statement is the property theorem about the hand-written decoder carried across
`TlvRefines.tlv_decode` (translated decoder = converting Impl decoder) and `Refine.decodeC_sim` (naturality). -/
namespace Pyemv.TlvSource
open Pyemv Pyemv.Tlv Pyemv.TlvSpec Pyemv.Refine Pyemv.TlvGen

private theorem sim {α} (conv : Bytes → Bytes → α) (fl si : Option Bool) (data : Bytes) :
    SimRel conv (Tlv.decode (fl.getD false) (si.getD false) data) (TlvGen.decode conv fl si data) :=
  TlvRefines.tlv_decode_sim conv fl si data

/-- **C09, total**: the translated decoder returns a tree at exactly `len(data)` or raises `DecodeError` —
for every byte string, option combination and conversion function. -/
theorem decode_total {α} (conv : Bytes → Bytes → α) (fl si : Option Bool) (data : Bytes) :
    (∃ d log, TlvGen.decode conv fl si data = .ok data.length d log) ∨
    (∃ e d log, TlvGen.decode conv fl si data = .err e d log) := by
  have h := sim conv fl si data
  rcases C09.decode_total (fl.getD false) (si.getD false) data with ⟨d, hd⟩ | ⟨e, d, hd⟩
  · rw [hd] at h
    cases hg : TlvGen.decode conv fl si data with
    | ok o d' log => rw [hg] at h; obtain ⟨ho, _⟩ := h; subst ho; exact .inl ⟨d', log, rfl⟩
    | err _ _ _ => rw [hg] at h; exact h.elim
    | crash => rw [hg] at h; exact h.elim
    | fuel => rw [hg] at h; exact h.elim
  · rw [hd] at h
    cases hg : TlvGen.decode conv fl si data with
    | ok _ _ _ => rw [hg] at h; exact h.elim
    | err e' d' log => exact .inr ⟨e', d', log, rfl⟩
    | crash => rw [hg] at h; exact h.elim
    | fuel => rw [hg] at h; exact h.elim

/-- **C09, never another exception, always terminates**. -/
theorem decode_never_crashes {α} (conv : Bytes → Bytes → α) (fl si : Option Bool) (data : Bytes) :
    TlvGen.decode conv fl si data ≠ .crash ∧ TlvGen.decode conv fl si data ≠ .fuel := by
  rcases decode_total conv fl si data with ⟨d, l, h⟩ | ⟨e, d, l, h⟩ <;> rw [h] <;> exact ⟨nofun, nofun⟩

/-- **C09, the tree is the one the BER-TLV grammar defines** (mapped through the conversion function). -/
theorem decode_ok_iff {α} (conv : Bytes → Bytes → α) (fl si : Option Bool) (data : Bytes) (d' : DictC α) :
    (∃ o log, TlvGen.decode conv fl si data = .ok o d' log) ↔
      ∃ items, parseItems (si.getD false) 0 data = .ok items ∧
        d' = mapDict conv (absInto (fl.getD false) [] items) := by
  have h := sim conv fl si data
  constructor
  · rintro ⟨o, log, hg⟩
    rw [hg] at h
    cases hd : Tlv.decode (fl.getD false) (si.getD false) data with
    | ok o2 d =>
      rw [hd] at h; obtain ⟨_, hdd⟩ := h
      obtain ⟨items, hp, hi⟩ := (C09.decode_ok_iff (fl.getD false) (si.getD false) data d).mp ⟨o2, hd⟩
      exact ⟨items, hp, by rw [hdd, hi]⟩
    | err _ _ => rw [hd] at h; exact h.elim
    | crash _ => rw [hd] at h; exact h.elim
    | fuel => rw [hd] at h; exact h.elim
  · rintro ⟨items, hp, hi⟩
    obtain ⟨o2, hd⟩ := (C09.decode_ok_iff (fl.getD false) (si.getD false) data _).mpr ⟨items, hp, rfl⟩
    rw [hd] at h
    cases hg : TlvGen.decode conv fl si data with
    | ok o d2 log => rw [hg] at h; obtain ⟨_, hdd⟩ := h; exact ⟨o, log, by rw [hdd, hi]⟩
    | err _ _ _ => rw [hg] at h; exact h.elim
    | crash => rw [hg] at h; exact h.elim
    | fuel => rw [hg] at h; exact h.elim

/-- **C17**: a `DecodeError` of the translated decoder carries the grammar's fault kind and offset, the tag by the
stated relation, and the tree of everything completed before the fault (mapped through the conversion). -/
theorem decode_err_eq_spec {α} (conv : Bytes → Bytes → α) (fl si : Option Bool) (data : Bytes) (e : DErr)
    (d' : DictC α) (log : Log) (hg : TlvGen.decode conv fl si data = .err e d' log) :
    ∃ g part, parseItems (si.getD false) 0 data = .error (g, part) ∧ e.kind = g.kind ∧ e.ofs = g.ofs ∧
      d' = mapDict conv (absInto (fl.getD false) [] part) ∧ TagRel data g e := by
  have h := sim conv fl si data
  rw [hg] at h
  cases hd : Tlv.decode (fl.getD false) (si.getD false) data with
  | ok _ _ => rw [hd] at h; exact h.elim
  | crash _ => rw [hd] at h; exact h.elim
  | fuel => rw [hd] at h; exact h.elim
  | err e0 d =>
    rw [hd] at h
    obtain ⟨hk, ht, ho, hdd⟩ := h
    obtain ⟨g, part, hp, h1, h2, h3, h4⟩ := C17.decode_err_eq_spec _ _ data e0 d hd
    refine ⟨g, part, hp, hk ▸ h1, ho ▸ h2, by rw [hdd, h3], ?_⟩
    unfold TagRel at h4 ⊢
    rw [← ht, ← ho]; exact h4

/-- **C18, convert**: the conversion function is called exactly once per primitive object, in input order, never on
a template (the call log of the translated decoder is the list of primitives of the parse). -/
theorem convert_calls {α} (conv : Bytes → Bytes → α) (fl si : Option Bool) (x : Bytes) :
    match TlvGen.decode conv fl si x, parseItems (si.getD false) 0 x with
    | .ok o _ log, .ok items => o = x.length ∧ log = prims items
    | .err _ _ log, .error (_, part) => log = prims part
    | _, _ => False := by
  rw [TlvRefines.tlv_decode]; exact C18.convert_calls conv _ _ x

/-- **C18, flatten**: the flattened result of the translated decoder is the map of all primitive objects in input
order, last occurrence winning (mapped through the conversion). -/
theorem flat_eq_prims {α} (conv : Bytes → Bytes → α) (si : Option Bool) (x : Bytes) (o : Nat) (d' : DictC α) (log : Log)
    (hg : TlvGen.decode conv (some true) si x = .ok o d' log) :
    ∃ items, parseItems (si.getD false) 0 x = .ok items ∧
      d' = mapDict conv ((prims items).foldl (fun (d : Dict) (p : Bytes × Bytes) => Dict.set d p.1 (.prim p.2)) []) := by
  have h := sim conv (some true) si x
  rw [hg] at h
  cases hd : Tlv.decode ((some true : Option Bool).getD false) (si.getD false) x with
  | err _ _ => rw [hd] at h; exact h.elim
  | crash _ => rw [hd] at h; exact h.elim
  | fuel => rw [hd] at h; exact h.elim
  | ok o2 d =>
    rw [hd] at h; obtain ⟨_, hdd⟩ := h
    obtain ⟨items, hp, hi⟩ := C18.flat_eq_prims (si.getD false) x o2 d hd
    exact ⟨items, hp, by rw [hdd, hi]⟩

end Pyemv.TlvSource
