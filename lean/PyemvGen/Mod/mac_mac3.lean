import PyemvGen.Mod.Common
import PyemvGen.Mod.mac_pad1
import PyemvGen.Mod.mac_pad2
namespace Pyemv.ModRefines
open Pyemv Pyemv.Gen

theorem mac_mac3 (k1 k2 d : Bytes) (pm : Int) (l : Option Nat) : Gen.mac.mac_iso9797_3 k1 k2 d pm l = mac3 k1 k2 d pm l := by
  unfold Gen.mac.mac_iso9797_3 mac3 padSelect macCore
  try simp only [bind_pure]      -- `do let v ← e; pure v` is `e` (single-exit rewrites)
  have p1n : ∀ x : Bytes, pad1 x none = pad1 x (some 8) := fun _ => rfl     -- the block size left to the callee's default
  have p2n : ∀ x : Bytes, pad2 x none = pad2 x (some 8) := fun _ => rfl
  simp only [mac_pad1, mac_pad2, p1n, p2n, zeros, List.replicate, List.length_cons, List.length_nil, bind, Except.bind, pure, Except.pure, except_match_eta]
  by_cases h1 : pm = 1
  · subst h1
    simp only [if_true]
    cases pad1 d (some 8) with
    | error e => rfl
    | ok p =>
      simp only []
      repeat (first | rfl | split)
      all_goals first | (simp_all; done) | slice_forms
  · by_cases h2 : pm = 2
    · subst h2
      simp only [show ¬ ((2 : Int) = 1) by decide, if_false, if_true]
      cases pad2 d (some 8) with
      | error e => rfl
      | ok p =>
        simp only []
        repeat (first | rfl | split)
        all_goals first | (simp_all; done) | slice_forms
    · simp [h1, h2, throw, throwThe, MonadExceptOf.throw]

end Pyemv.ModRefines
