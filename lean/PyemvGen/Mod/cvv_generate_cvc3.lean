import PyemvGen.Mod.Common
import PyemvProps.C11
import PyemvGen.Mod.mac_mac3
import PyemvGen.Mod.tools_ecb
namespace Pyemv.ModRefines
open Pyemv Pyemv.Gen

theorem cvv_generate_cvc3 (k t a u : Bytes) : Gen.cvv.generate_cvc3 k t a u = generateCvc3 k t a u := by
  unfold Gen.cvv.generate_cvc3 generateCvc3
  try simp only [bind_pure]      -- `do let v ← e; pure v` is `e` (single-exit rewrites)
  simp only [tools_ecb, mac_mac3, bind, Except.bind, pure, Except.pure, except_match_eta]
  repeat (first | rfl | split)
  all_goals first | (simp_all; done) | slice_forms

/-- **C11 about the translated source**: five decimal digits denoting the 16-bit value -/
theorem source_generate_cvc3 (k track atc un : Bytes) (hk : k.length = 16) (ha : atc.length = 2) (hu : un.length = 4) :
    Gen.cvv.generate_cvc3 k track atc un = .ok (digits5 (C11.cvc3Value k track atc un)) := by
  rw [cvv_generate_cvc3]; exact C11.cvc3_eq_spec k track atc un hk ha hu

end Pyemv.ModRefines
