import PyemvGen.Mod.Common
import PyemvGen.Mod.mac_mac3
import PyemvGen.Mod.tools_ecb
namespace Pyemv.ModRefines
open Pyemv Pyemv.Gen

theorem cvv_generate_cvc3 (k t a u : Bytes) : Gen.cvv.generate_cvc3 k t a u = generateCvc3 k t a u := by
  unfold Gen.cvv.generate_cvc3 generateCvc3
  simp only [tools_ecb, mac_mac3, bind, Except.bind, pure, Except.pure]
  repeat (first | rfl | split)
  all_goals simp_all

end Pyemv.ModRefines
