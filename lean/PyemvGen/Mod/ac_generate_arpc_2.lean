import PyemvGen.Mod.Common
import PyemvProps.C02
import PyemvGen.Mod.mac_mac3
namespace Pyemv.ModRefines
open Pyemv Pyemv.Gen

theorem ac_generate_arpc_2 (sk q csu : Bytes) (p : Option Bytes) : Gen.ac.generate_arpc_2 sk q csu p = generateArpc2 sk q csu p := by
  unfold Gen.ac.generate_arpc_2 generateArpc2
  try simp only [bind_pure]      -- `do let v ← e; pure v` is `e` (single-exit rewrites)
  simp only [mac_mac3, bind, Except.bind, pure, Except.pure, except_match_eta]
  repeat (first | rfl | split)
  all_goals first | (simp_all; done) | slice_forms

/-- **C02 (method 2) about the translated source** -/
theorem source_generate_arpc_2 (sk arqc csu : Bytes) (pad : Option Bytes) (hsk : sk.length = 16) (hq : arqc.length = 8)
    (hc : csu.length = 4) (hp : (pad.getD []).length ≤ 8) :
    Gen.ac.generate_arpc_2 sk arqc csu pad =
      .ok ((Spec.alg3 (sk.take 8) (sk.drop 8) (Spec.pad2 8 (arqc ++ csu ++ pad.getD []))).take 4) := by
  rw [ac_generate_arpc_2]; exact C02.arpc2_eq_spec sk arqc csu pad hsk hq hc hp

end Pyemv.ModRefines
