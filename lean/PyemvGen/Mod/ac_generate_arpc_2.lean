import PyemvGen.Mod.Common
import PyemvGen.Mod.mac_mac3
namespace Pyemv.ModRefines
open Pyemv Pyemv.Gen

theorem ac_generate_arpc_2 (sk q csu : Bytes) (p : Option Bytes) : Gen.ac.generate_arpc_2 sk q csu p = generateArpc2 sk q csu p := by
  unfold Gen.ac.generate_arpc_2 generateArpc2
  simp only [mac_mac3, bind, Except.bind, pure, Except.pure]
  repeat (first | rfl | split)
  all_goals simp_all

end Pyemv.ModRefines
