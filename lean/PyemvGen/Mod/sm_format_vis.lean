import PyemvGen.Mod.Common
import PyemvGen.Mod.tools_xor
namespace Pyemv.ModRefines
open Pyemv Pyemv.Gen

theorem sm_format_vis (mk : Bytes) (p : StrOrBytes) (c : Option StrOrBytes) :
    Gen.sm.format_vis_pin_block mk p c = formatVisPinBlock mk p c := by
  unfold Gen.sm.format_vis_pin_block formatVisPinBlock
  try simp only [bind_pure]      -- `do let v ← e; pure v` is `e` (single-exit rewrites)
  simp only [tools_xor, rep_flatten, zeros, bind, Except.bind, pure, Except.pure, except_match_eta]
  by_cases g1 : p.len < 4 ∨ p.len > 12
  · simp [g1, throw, throwThe, MonadExceptOf.throw]
  by_cases g2 : mk.length = 16
  · simp only [g1, g2, if_false, ne_eq, not_true_eq_false]
    cases p.text with
    | error e => rfl
    | ok pt =>
      simp only []
      cases c with
      | none => first | rfl | (simp only []; done) | (simp only []; repeat (first | rfl | split))
      | some cc =>
        simp only []
        cases cc.text with
        | error e => rfl
        | ok ct =>
          first
          | rfl
          | (simp only []; done)
          | (simp only []
             cases toBytesBE 1 pt.length with
             | error e => rfl
             | ok l =>
               cases a2bHex (pt ++ List.replicate (14 - pt.length) 'F') with
               | error e => rfl
               | ok body =>
                 simp only []
                 by_cases g3 : ct.length < 4 ∨ ct.length > 12
                 · simp [g3, throw, throwThe, MonadExceptOf.throw]
                 · simp only [g3, if_false]
                   cases a2bHex (ct ++ List.replicate (16 - ct.length) '0') <;> rfl)
  · simp [g1, g2, throw, throwThe, MonadExceptOf.throw]

end Pyemv.ModRefines
