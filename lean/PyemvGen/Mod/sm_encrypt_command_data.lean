import PyemvGen.Mod.Common
import PyemvGen.Mod.mac_pad2
import PyemvGen.Mod.tools_ecb
import PyemvGen.Mod.tools_cbc
namespace Pyemv.ModRefines
open Pyemv Pyemv.Gen

theorem sm_encrypt_command_data (sk d : Bytes) (t : EncryptionType) :
    Gen.sm.encrypt_command_data sk d t = encryptCommandData sk d t := by
  unfold Gen.sm.encrypt_command_data encryptCommandData pyMod
  simp only [mac_pad2, tools_ecb, tools_cbc, bind, Except.bind, pure, Except.pure]
  by_cases h : sk.length = 16
  · simp only [h, ne_eq, not_true_eq_false, if_false]
    cases t <;> simp [throw, throwThe, MonadExceptOf.throw] <;> repeat (first | rfl | split) <;> simp_all
  · simp [h, throw, throwThe, MonadExceptOf.throw]

end Pyemv.ModRefines
