import PyemvGen.Mod.Common
import PyemvProps.C07
import PyemvGen.Mod.mac_pad2
import PyemvGen.Mod.tools_ecb
import PyemvGen.Mod.tools_cbc
namespace Pyemv.ModRefines
open Pyemv Pyemv.Gen

theorem sm_encrypt_command_data (sk d : Bytes) (t : EncryptionType) :
    Gen.sm.encrypt_command_data sk d t = encryptCommandData sk d t := by
  unfold Gen.sm.encrypt_command_data encryptCommandData pyMod
  try simp only [bind_pure]      -- `do let v ← e; pure v` is `e` (single-exit rewrites)
  simp only [mac_pad2, tools_ecb, tools_cbc, bind, Except.bind, pure, Except.pure, except_match_eta]
  by_cases h : sk.length = 16
  · simp only [h, ne_eq, not_true_eq_false, if_false]
    cases t <;> simp [throw, throwThe, MonadExceptOf.throw] <;> (try (repeat (first | rfl | split) <;> simp_all))
    -- fall-back for rewrites that compute "needs padding" first and pad afterwards
    all_goals (cases hp : pad2 d (some 8) <;> by_cases hm : d.length % 8 = 0 <;>
      simp_all [zeros, List.replicate])
    -- … and for rewrites that re-bind the data to its padded form inside the MasterCard branch and return once, or
    -- bind the result in every branch and return it once
    all_goals first
      | omega
      | (have hpos : 0 < d.length % 8 := by omega
         simp [hpos]; done)
      | (have hz : ¬ 0 < d.length % 8 := by omega
         simp [hz]; done)
      | (simp; done)
  · simp [h, throw, throwThe, MonadExceptOf.throw]

/-- **C07 about the translated source**: each scheme enciphers its documented frame -/
theorem source_encrypt_command_data (sk d : Bytes) (hsk : sk.length = 16) :
    (d.length ≤ 255 → Gen.sm.encrypt_command_data sk d .visa = .ok (ecbUpdate (Spec.tdesE sk) (C07.visaFrame d))) ∧
    Gen.sm.encrypt_command_data sk d .emv = .ok (cbcEncUpdate (Spec.tdesE sk) (zeros 8) (C07.emvFrame d)).1 ∧
    Gen.sm.encrypt_command_data sk d .mastercard = .ok (cbcEncUpdate (Spec.tdesE sk) (zeros 8) (C07.mcFrame d)).1 := by
  simp only [sm_encrypt_command_data]
  exact ⟨fun hd => C07.enc_visa_eq sk d hsk hd, C07.enc_emv_eq sk d hsk, C07.enc_mc_eq sk d hsk⟩

end Pyemv.ModRefines
