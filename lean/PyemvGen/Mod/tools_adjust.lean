import PyemvGen.Mod.Common
import PyemvGen.Mod.tools_odd_parity
namespace Pyemv.ModRefines
open Pyemv Pyemv.Gen

theorem tools_adjust (k : Bytes) : Gen.tools.adjust_key_parity k = .ok (adjustKeyParity k) := by
  unfold Gen.tools.adjust_key_parity adjustKeyParity
  try simp only [bind_pure]      -- `do let v ← e; pure v` is `e` (single-exit rewrites)
  simp only [tools_odd_parity, pure, Except.pure, Except.ok.injEq]
  apply List.map_congr_left
  intro b _
  by_cases h : oddParity b.toNat = 0 <;> simp [h]

end Pyemv.ModRefines
