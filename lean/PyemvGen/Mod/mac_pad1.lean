import PyemvGen.Mod.Common
namespace Pyemv.ModRefines
open Pyemv Pyemv.Gen

theorem mac_pad1 (d : Bytes) (bs : Option Nat) : Gen.mac.pad_iso9797_1 d bs = pad1 d bs := by
  unfold Gen.mac.pad_iso9797_1 pad1 pyMod
  try simp only [bind_pure]      -- `do let v ← e; pure v` is `e` (single-exit rewrites)
  by_cases h : bs.getD 8 = 0
  · simp [h, bind, Except.bind]
  · simp only [h, if_false, bind, Except.bind, pure, Except.pure, rep_flatten, zeros, gt_iff_lt]
    repeat (first | rfl | split)
    all_goals first | (simp_all; done) | omega | slice_forms

end Pyemv.ModRefines
