import PyemvGen.Mod.Common
namespace Pyemv.ModRefines
open Pyemv Pyemv.Gen

theorem tools_kcv (k : Bytes) (n : Nat) : Gen.tools.key_check_digits k n = keyCheckDigits k n := by
  unfold Gen.tools.key_check_digits keyCheckDigits
  rfl

end Pyemv.ModRefines
