import PyemvGen.Mod.Common
import PyemvProps.C06
import PyemvGen.Mod.mac_mac3
namespace Pyemv.ModRefines
open Pyemv Pyemv.Gen

theorem sm_generate_command_mac (sk c : Bytes) (l : Option Nat) : Gen.sm.generate_command_mac sk c l = generateCommandMac sk c l := by
  unfold Gen.sm.generate_command_mac generateCommandMac
  try simp only [bind_pure]      -- `do let v ← e; pure v` is `e` (single-exit rewrites)
  simp only [mac_mac3, bind, Except.bind, pure, Except.pure, except_match_eta]
  repeat (first | rfl | split)
  all_goals first | (simp_all; done) | slice_forms

/-- **C06 about the translated source** -/
theorem source_generate_command_mac (sk cmd : Bytes) (len : Option Nat) (hsk : sk.length = 16) :
    Gen.sm.generate_command_mac sk cmd len =
      .ok ((Spec.alg3 (sk.take 8) (sk.drop 8) (Spec.pad2 8 cmd)).take (len.getD 8)) := by
  rw [sm_generate_command_mac]; exact C06.command_mac_eq_spec sk cmd len hsk

end Pyemv.ModRefines
