import PyemvGen.Mod.Common
import PyemvGen.Mod.mac_mac3
namespace Pyemv.ModRefines
open Pyemv Pyemv.Gen

theorem sm_generate_command_mac (sk c : Bytes) (l : Option Nat) : Gen.sm.generate_command_mac sk c l = generateCommandMac sk c l := by
  unfold Gen.sm.generate_command_mac generateCommandMac
  simp only [mac_mac3, bind, Except.bind, pure, Except.pure]
  repeat (first | rfl | split)
  all_goals simp_all

end Pyemv.ModRefines
