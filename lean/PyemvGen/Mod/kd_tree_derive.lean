import PyemvGen.Mod.Common
import PyemvGen.Mod.tools_xor
import PyemvGen.Mod.tools_ecb
namespace Pyemv.ModRefines
open Pyemv Pyemv.Gen

theorem kd_tree_derive (b : Nat) (x y : Bytes) (j : Nat) :
    Gen.kd.derive_emv2000_tree_sk.derive b x y j = treeDerive b x y j := by
  unfold Gen.kd.derive_emv2000_tree_sk.derive treeDerive pyMod
  try simp only [bind_pure]      -- `do let v ← e; pure v` is `e` (single-exit rewrites)
  simp only [tools_xor, tools_ecb, rep_flatten, zeros, bind, Except.bind, pure, Except.pure, except_match_eta]
  by_cases hb : b = 0
  · simp [hb, throw, throwThe, MonadExceptOf.throw]
  · simp only [hb, if_false]
    repeat (first | rfl | split)
    all_goals first | (simp_all; done) | slice_forms

end Pyemv.ModRefines
