import PyemvGen.Mod.Common
import PyemvGen.Mod.mac_pad1
namespace Pyemv.ModRefines
open Pyemv Pyemv.Gen

theorem mac_pad2 (d : Bytes) (bs : Option Nat) : Gen.mac.pad_iso9797_2 d bs = pad2 d bs := by
  unfold Gen.mac.pad_iso9797_2 pad2
  try simp only [bind_pure]      -- `do let v ← e; pure v` is `e` (single-exit rewrites)
  simp only [mac_pad1, bind, Except.bind, pure, Except.pure, except_match_eta]
  repeat (first | rfl | split)
  all_goals first | (simp_all; done) | omega | slice_forms

end Pyemv.ModRefines
