import PyemvGen.Mod.Common
import PyemvGen.Mod.mac_pad1
namespace Pyemv.ModRefines
open Pyemv Pyemv.Gen

theorem mac_pad2 (d : Bytes) (bs : Option Nat) : Gen.mac.pad_iso9797_2 d bs = pad2 d bs := by
  unfold Gen.mac.pad_iso9797_2 pad2
  simp only [mac_pad1, bind, Except.bind, pure, Except.pure]
  repeat (first | rfl | split)

end Pyemv.ModRefines
