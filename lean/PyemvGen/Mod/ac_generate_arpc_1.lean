import PyemvGen.Mod.Common
import PyemvProps.C02
import PyemvGen.Mod.tools_xor
import PyemvGen.Mod.tools_cbc
namespace Pyemv.ModRefines
open Pyemv Pyemv.Gen

theorem ac_generate_arpc_1 (sk q rc : Bytes) : Gen.ac.generate_arpc_1 sk q rc = generateArpc1 sk q rc := by
  unfold Gen.ac.generate_arpc_1 generateArpc1
  try simp only [bind_pure]      -- `do let v ← e; pure v` is `e` (single-exit rewrites)
  simp only [tools_xor, rep_flatten, zeros, tools_cbc, bind, Except.bind, pure, Except.pure, except_match_eta]
  repeat (first | rfl | split)
  all_goals first | (simp_all; done) | slice_forms

/-- **C02 (method 1) about the translated source** -/
theorem source_generate_arpc_1 (sk arqc rc : Bytes) (hsk : sk.length = 16) (hq : arqc.length = 8) (hrc : rc.length = 2) :
    Gen.ac.generate_arpc_1 sk arqc rc = .ok (Spec.tdesE sk (xorB arqc (rc ++ zeros 6))) := by
  rw [ac_generate_arpc_1]; exact C02.arpc1_eq_spec sk arqc rc hsk hq hrc

end Pyemv.ModRefines
