import PyemvGen.Mod.Common
import PyemvGen.Mod.tools_xor
import PyemvGen.Mod.tools_cbc
namespace Pyemv.ModRefines
open Pyemv Pyemv.Gen

theorem ac_generate_arpc_1 (sk q rc : Bytes) : Gen.ac.generate_arpc_1 sk q rc = generateArpc1 sk q rc := by
  unfold Gen.ac.generate_arpc_1 generateArpc1
  simp only [tools_xor, rep_flatten, zeros, tools_cbc, bind, Except.bind, pure, Except.pure]
  repeat (first | rfl | split)
  all_goals simp_all

end Pyemv.ModRefines
