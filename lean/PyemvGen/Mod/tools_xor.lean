import PyemvGen.Mod.Common
namespace Pyemv.ModRefines
open Pyemv Pyemv.Gen

theorem tools_xor (a b : Bytes) : Gen.tools.xor a b = .ok (Pyemv.xor a b) := by
  unfold Gen.tools.xor toBytesLE Pyemv.xor
  try simp only [bind_pure]      -- `do let v ← e; pure v` is `e` (single-exit rewrites)
  simp only [xor_fits a b, if_true, bind, Except.bind, pure, Except.pure, except_match_eta]

theorem xorBE_fits (a b : Bytes) : fromBE a ^^^ fromBE (b.take a.length) < 256 ^ a.length := by
  rw [pow256]
  apply Nat.xor_lt_two_pow
  · rw [← pow256]; exact fromBE_lt a
  · rw [← pow256]
    exact Nat.lt_of_lt_of_le (fromBE_lt _) (Nat.pow_le_pow_right (by omega) (by simp; omega))

/-- the same source as a host with `sys.byteorder == "big"` evaluates it -/
theorem tools_xor_bigendian (a b : Bytes) : Gen.tools.xor_bigendian a b = .ok (Pyemv.xorBigEndian a b) := by
  unfold Gen.tools.xor_bigendian toBytesBE Pyemv.xorBigEndian
  try simp only [bind_pure]      -- `do let v ← e; pure v` is `e` (single-exit rewrites)
  simp only [xorBE_fits a b, if_true, bind, Except.bind, pure, Except.pure, except_match_eta]

end Pyemv.ModRefines
