import PyemvGen.Mod.Common
namespace Pyemv.ModRefines
open Pyemv Pyemv.Gen

theorem tools_xor (a b : Bytes) : Gen.tools.xor a b = .ok (Pyemv.xor a b) := by
  unfold Gen.tools.xor toBytesLE Pyemv.xor
  simp only [xor_fits a b, if_true, bind, Except.bind, pure, Except.pure]

end Pyemv.ModRefines
