import PyemvGen.Mod.Common
import PyemvGen.Mod.mac_mac3
namespace Pyemv.ModRefines
open Pyemv Pyemv.Gen

theorem ac_generate_ac (sk d : Bytes) (pt : Option PaddingType) (l : Option Nat) :
    Gen.ac.generate_ac sk d pt l = generateAc sk d pt l := by
  unfold Gen.ac.generate_ac generateAc
  by_cases h : sk.length = 16
  · simp only [h, ne_eq, not_true_eq_false, if_false, mac_mac3, bind, Except.bind, pure, Except.pure]
    cases hp : pt.getD .emv <;> simp [hp, throw, throwThe, MonadExceptOf.throw] <;>
      (cases mac3 (sk.take 8) (lastN 8 sk) d _ l <;> rfl)
  · simp [h, bind, Except.bind, throw, throwThe, MonadExceptOf.throw]

end Pyemv.ModRefines
