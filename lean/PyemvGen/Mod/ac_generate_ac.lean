import PyemvGen.Mod.Common
import PyemvProps.C01
import PyemvGen.Mod.mac_mac3
namespace Pyemv.ModRefines
open Pyemv Pyemv.Gen

theorem ac_generate_ac (sk d : Bytes) (pt : Option PaddingType) (l : Option Nat) :
    Gen.ac.generate_ac sk d pt l = generateAc sk d pt l := by
  unfold Gen.ac.generate_ac generateAc
  try simp only [bind_pure]      -- `do let v ← e; pure v` is `e` (single-exit rewrites)
  by_cases h : sk.length = 16
  · simp only [h, ne_eq, not_true_eq_false, if_false, mac_mac3, bind, Except.bind, pure, Except.pure, except_match_eta]
    have hl : lastN 8 sk = sk.drop 8 := by simp [lastN, h]
    cases hp : pt.getD .emv <;> simp [hp, hl, throw, throwThe, MonadExceptOf.throw] <;>
      (first
        | (cases mac3 (sk.take 8) (lastN 8 sk) d _ l <;> rfl)
        | (cases mac3 (sk.take 8) (sk.drop 8) d _ l <;> rfl)
        | (simp only [slice_zero, slice_to_end sk 8 16 (by omega)]; cases mac3 (sk.take 8) (sk.drop 8) d _ l <;> rfl))
  · simp [h, bind, Except.bind, throw, throwThe, MonadExceptOf.throw]

/-- **C01 about the translated source**: the application cryptogram computed by `ac.generate_ac` as it stands in
the repository is the leftmost bytes of ISO 9797-1 Algorithm 3 over the padded data. -/
theorem source_generate_ac (sk data : Bytes) (pt : Option PaddingType) (len : Option Nat)
    (hsk : sk.length = 16) (hpt : pt ≠ some .other) :
    Gen.ac.generate_ac sk data pt len =
      .ok ((Spec.alg3 (sk.take 8) (sk.drop 8) (Spec.padFor (pt.getD .emv) data)).take (len.getD 8)) := by
  rw [ac_generate_ac]; exact C01.generate_ac_eq_spec sk data pt len hsk hpt

end Pyemv.ModRefines
