import PyemvGen.Mod.Common
namespace Pyemv.ModRefines
open Pyemv Pyemv.Gen

theorem sm_format_iso2 (p : StrOrBytes) : Gen.sm.format_iso9564_2_pin_block p = formatIso2PinBlock p := by
  unfold Gen.sm.format_iso9564_2_pin_block formatIso2PinBlock
  try simp only [bind_pure]      -- `do let v ← e; pure v` is `e` (single-exit rewrites)
  simp only [rep_flatten, bind, Except.bind, pure, Except.pure, except_match_eta]
  repeat (first | rfl | split)
  all_goals first | (simp_all; done) | slice_forms

end Pyemv.ModRefines
