import PyemvGen.Mod.Common
import PyemvProps.C04
import PyemvGen.Mod.tools_ecb
import PyemvGen.Mod.tools_adjust
namespace Pyemv.ModRefines
open Pyemv Pyemv.Gen

theorem kd_derive_common_sk (mk r : Bytes) : Gen.kd.derive_common_sk mk r = deriveCommonSk mk r := by
  unfold Gen.kd.derive_common_sk deriveCommonSk
  try simp only [bind_pure]      -- `do let v ← e; pure v` is `e` (single-exit rewrites)
  simp only [tools_ecb, tools_adjust, bind, Except.bind, pure, Except.pure, except_match_eta]
  repeat (first | rfl | split)
  all_goals first | (simp_all; done) | slice_forms

/-- **C04 (common session key) about the translated source** -/
theorem source_derive_common_sk (mk r : Bytes) (hmk : mk.length = 16) (hr : r.length = 8) :
    Gen.kd.derive_common_sk mk r = .ok (adjustKeyParity (Spec.tdesE mk (r.set 2 0xF0) ++ Spec.tdesE mk (r.set 2 0x0F))) := by
  rw [kd_derive_common_sk]; exact C04.common_sk_eq_spec mk r hmk hr

end Pyemv.ModRefines
