import PyemvGen.Mod.Common
import PyemvGen.Mod.tools_ecb
import PyemvGen.Mod.tools_adjust
namespace Pyemv.ModRefines
open Pyemv Pyemv.Gen

theorem kd_derive_common_sk (mk r : Bytes) : Gen.kd.derive_common_sk mk r = deriveCommonSk mk r := by
  unfold Gen.kd.derive_common_sk deriveCommonSk
  simp only [tools_ecb, tools_adjust, bind, Except.bind, pure, Except.pure]
  repeat (first | rfl | split)
  all_goals simp_all

end Pyemv.ModRefines
