import PyemvGen.Mod.Common
namespace Pyemv.ModRefines
open Pyemv Pyemv.Gen

theorem tools_cbc (k iv d : Bytes) : Gen.tools.encrypt_tdes_cbc k iv d = encryptTdesCbc k iv d := by
  unfold Gen.tools.encrypt_tdes_cbc encryptTdesCbc
  simp only [bind, Except.bind, pure, Except.pure]
  repeat (first | rfl | split)

end Pyemv.ModRefines
