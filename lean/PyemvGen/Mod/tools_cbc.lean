import PyemvGen.Mod.Common
namespace Pyemv.ModRefines
open Pyemv Pyemv.Gen

theorem tools_cbc (k iv d : Bytes) : Gen.tools.encrypt_tdes_cbc k iv d = encryptTdesCbc k iv d := by
  unfold Gen.tools.encrypt_tdes_cbc encryptTdesCbc
  simp only [bind, Except.bind, pure, Except.pure, except_match_eta]
  repeat (first | rfl | split)
  all_goals first | (simp_all; done) | omega | slice_forms

end Pyemv.ModRefines
