import PyemvGen.Mod.Common
import PyemvGen.Mod.kd_tree_walk
import PyemvGen.Mod.kd_tree_derive
import PyemvGen.Mod.tools_xor
import PyemvGen.Mod.tools_adjust
namespace Pyemv.ModRefines
open Pyemv Pyemv.Gen

theorem kd_tree_sk (mk atc : Bytes) (h b : Nat) (iv : Bytes) :
    Gen.kd.derive_emv2000_tree_sk mk atc h b iv = deriveEmv2000TreeSk mk atc h b iv := by
  unfold Gen.kd.derive_emv2000_tree_sk deriveEmv2000TreeSk pyDiv
  simp only [kd_tree_walk, kd_tree_derive, tools_xor, tools_adjust, bind, Except.bind, pure, Except.pure]
  by_cases h1 : mk.length = 16 <;> by_cases h2 : atc.length = 2 <;> by_cases h3 : iv.length = 16 <;>
    by_cases hg : b ^ h ≤ 65535 <;> by_cases hb : b = 0 <;>
    simp [h1, h2, h3, hg, hb, throw, throwThe, MonadExceptOf.throw]
  all_goals (repeat (first | rfl | split))
  all_goals simp_all

end Pyemv.ModRefines
