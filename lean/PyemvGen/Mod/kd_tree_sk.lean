import PyemvGen.Mod.Common
import PyemvProps.C05
import PyemvGen.Mod.kd_tree_walk
import PyemvGen.Mod.kd_tree_derive
import PyemvGen.Mod.tools_xor
import PyemvGen.Mod.tools_adjust
namespace Pyemv.ModRefines
open Pyemv Pyemv.Gen

theorem kd_tree_sk (mk atc : Bytes) (h b : Nat) (iv : Bytes) :
    Gen.kd.derive_emv2000_tree_sk mk atc h b iv = deriveEmv2000TreeSk mk atc h b iv := by
  unfold Gen.kd.derive_emv2000_tree_sk deriveEmv2000TreeSk pyDiv
  try simp only [bind_pure]      -- `do let v ← e; pure v` is `e` (single-exit rewrites)
  simp only [kd_tree_walk, kd_tree_derive, tools_xor, tools_adjust, bind, Except.bind, pure, Except.pure, except_match_eta]
  -- a tree without branches or without levels has at most one key: an explicit "must be positive" guard in front of
  -- the gate refuses nothing the gate does not refuse
  have hz : b = 0 → b ^ h ≤ 65535 := fun e => by subst e; cases h <;> simp
  have hh0 : h = 0 → b ^ h ≤ 65535 := fun e => by subst e; simp
  by_cases h1 : mk.length = 16 <;> by_cases h2 : atc.length = 2 <;> by_cases h3 : iv.length = 16 <;>
    by_cases hg : b ^ h ≤ 65535 <;> by_cases hb : b = 0 <;> by_cases hh : h = 0 <;>
    simp [h1, h2, h3, hg, hb, hh, throw, throwThe, MonadExceptOf.throw]
  all_goals (repeat (first | rfl | split))
  all_goals first | (simp_all; done) | (exfalso; first | exact hg (hz hb) | exact hg (hh0 hh) | omega) | slice_forms

/-- **C05 about the translated source**: accepted parameters give the Annex A1.3 tree key, and exactly the
parameters with `b^H > 65535` are accepted. -/
theorem source_tree_sk (mk atc iv : Bytes) (b H : Nat) (hmk : mk.length = 16) (ha : atc.length = 2)
    (hiv : iv.length = 16) (hb : 0 < b) (hg : b ^ (H + 1) > 65535) :
    Gen.kd.derive_emv2000_tree_sk mk atc (H + 1) b iv =
      .ok (adjustKeyParity (Tree.skSpec phi b mk iv xorB H (fromBE atc))) := by
  rw [kd_tree_sk]; exact C05.tree_sk_eq_spec mk atc iv b H hmk ha hiv hb hg

theorem source_tree_gate (mk atc iv : Bytes) (b H : Nat) (hmk : mk.length = 16) (ha : atc.length = 2)
    (hiv : iv.length = 16) (hb : 0 < b) :
    (∃ k, Gen.kd.derive_emv2000_tree_sk mk atc (H + 1) b iv = .ok k) ↔ b ^ (H + 1) > 65535 := by
  rw [kd_tree_sk]; exact C05.gate_iff mk atc iv b H hmk ha hiv hb

end Pyemv.ModRefines
