import PyemvGen.Mod.Common
import PyemvGen.Mod.kd_derive_icc_mk_a
import PyemvGen.Mod.tools_xor
import PyemvGen.Mod.tools_ecb
import PyemvGen.Mod.tools_adjust
namespace Pyemv.ModRefines
open Pyemv Pyemv.Gen

theorem kd_derive_icc_mk_b (k : Bytes) (pan : StrOrBytes) (psn : Option StrOrBytes) :
    Gen.kd.derive_icc_mk_b k pan psn = deriveIccMkB k pan psn := by
  unfold Gen.kd.derive_icc_mk_b deriveIccMkB keyFromData psnTextR bcdPanPsn selectDigits pyMod
  try simp only [bind_pure]      -- `do let v ← e; pure v` is `e` (single-exit rewrites)
  simp only [kd_derive_icc_mk_a, tools_xor, rep_flatten, tools_ecb, tools_adjust, bind, Except.bind, pure, Except.pure, except_match_eta]
  by_cases h : pan.len ≤ 16
  · simp only [h, if_true]
    repeat (first | rfl | split)
    all_goals first | (simp_all; done) | omega | slice_forms
  · simp only [h, if_false]
    cases (psn.getD (.str ['0', '0'])).text with
    | error e => rfl
    | ok ps =>
      cases pan.text with
      | error e => rfl
      | ok pt =>
        simp only []
        have hm : (pt.length % 2 ≠ 0) ↔ (pt.length % 2 = 1) := by omega
        by_cases hodd : pt.length % 2 = 1
        · simp only [hodd, show ¬ (2 : Nat) = 0 by omega, if_false, if_true, ne_eq, Nat.one_ne_zero, not_false_eq_true,
            List.cons_append, List.nil_append, List.singleton_append]
          cases a2bHex ('0' :: (pt ++ ps)) with
          | error e => rfl
          | ok hashed =>
            simp only []
            by_cases hl : ((sha1Hex hashed).filter isDec |>.take 16).length < 16
            · simp only [hl, if_true]
              repeat (first | rfl | split)
              all_goals first | (simp_all; done) | slice_forms
            · simp only [hl, if_false]
              repeat (first | rfl | split)
              all_goals first | (simp_all; done) | slice_forms
        · have h0 : pt.length % 2 = 0 := by omega
          simp only [h0, show ¬ (2 : Nat) = 0 by omega, if_false, ne_eq, not_true_eq_false, Nat.zero_ne_one]
          cases a2bHex (pt ++ ps) with
          | error e => rfl
          | ok hashed =>
            simp only []
            by_cases hl : ((sha1Hex hashed).filter isDec |>.take 16).length < 16
            · simp only [hl, if_true]
              repeat (first | rfl | split)
              all_goals first | (simp_all; done) | slice_forms
            · simp only [hl, if_false]
              repeat (first | rfl | split)
              all_goals first | (simp_all; done) | slice_forms

end Pyemv.ModRefines
