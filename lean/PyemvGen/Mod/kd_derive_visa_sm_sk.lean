import PyemvGen.Mod.Common
import PyemvProps.C04
import PyemvGen.Mod.tools_xor
import PyemvGen.Mod.tools_adjust
namespace Pyemv.ModRefines
open Pyemv Pyemv.Gen

theorem kd_derive_visa_sm_sk (mk atc : Bytes) : Gen.kd.derive_visa_sm_sk mk atc = deriveVisaSmSk mk atc := by
  unfold Gen.kd.derive_visa_sm_sk deriveVisaSmSk
  try simp only [bind_pure]      -- `do let v ← e; pure v` is `e` (single-exit rewrites)
  simp only [tools_xor, rep_flatten, zeros, tools_adjust, bind, Except.bind, pure, Except.pure, except_match_eta]
  repeat (first | rfl | split)
  all_goals first | (simp_all; done) | slice_forms

/-- **C04 (Visa session key) about the translated source** -/
theorem source_derive_visa_sm_sk (mk atc : Bytes) (hmk : mk.length = 16) (ha : atc.length = 2) :
    Gen.kd.derive_visa_sm_sk mk atc = .ok (adjustKeyParity (C04.visaFormula mk atc)) := by
  rw [kd_derive_visa_sm_sk]; exact C04.visa_sk_eq_spec mk atc hmk ha

end Pyemv.ModRefines
