import PyemvGen.Mod.Common
import PyemvGen.Mod.tools_xor
import PyemvGen.Mod.tools_adjust
namespace Pyemv.ModRefines
open Pyemv Pyemv.Gen

theorem kd_derive_visa_sm_sk (mk atc : Bytes) : Gen.kd.derive_visa_sm_sk mk atc = deriveVisaSmSk mk atc := by
  unfold Gen.kd.derive_visa_sm_sk deriveVisaSmSk
  simp only [tools_xor, rep_flatten, zeros, tools_adjust, bind, Except.bind, pure, Except.pure]
  repeat (first | rfl | split)
  all_goals simp_all

end Pyemv.ModRefines
