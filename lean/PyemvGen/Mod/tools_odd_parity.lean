import PyemvGen.Mod.Common
namespace Pyemv.ModRefines
open Pyemv Pyemv.Gen

theorem tools_odd_parity (n : Nat) : Gen.tools.odd_parity n = oddParity n := rfl

end Pyemv.ModRefines
