import PyemvGen.ModGen
import PyemvProofs.Tdes
/-! helper lemmas shared by the per-function refinement modules (one module per translated function, so that a
function the translator could not read — or whose proof no longer closes — takes down its own theorem and those
of its callers only) -/
namespace Pyemv.ModRefines
open Pyemv Pyemv.Gen

theorem rep_flatten {α} (n : Nat) (x : α) : (List.replicate n [x]).flatten = List.replicate n x := by
  induction n with
  | zero => rfl
  | succ n ih => simp [List.replicate_succ, ih]

theorem fromLE_lt (l : Bytes) : fromLE l < 256 ^ l.length := by
  induction l with
  | nil => simp [fromLE]
  | cons b bs ih =>
    simp only [fromLE, List.length_cons, Nat.pow_succ]
    have := b.toNat_lt
    omega

theorem pow256 (k : Nat) : (256 : Nat) ^ k = 2 ^ (8 * k) := by
  rw [show (256 : Nat) = 2 ^ 8 from rfl, ← Nat.pow_mul]

theorem xor_fits (a b : Bytes) : fromLE a ^^^ fromLE (b.take a.length) < 256 ^ a.length := by
  rw [pow256]
  apply Nat.xor_lt_two_pow
  · rw [← pow256]; exact fromLE_lt a
  · rw [← pow256]
    exact Nat.lt_of_lt_of_le (fromLE_lt _) (Nat.pow_le_pow_right (by omega) (by simp; omega))

/-- `do let v ← x; pure v` is `x` (what a single-exit rewrite — bind a local in every branch, return it once — unfolds to) -/
@[simp] theorem except_match_eta {ε α : Type} (x : Except ε α) :
    (match x with | .error e => Except.error e | .ok v => Except.ok v) = x := by cases x <;> rfl

/-! Slice forms that agree once a length guard has been passed (`x[0:8]`, `x[8:16]`, `x[8:]`, `x[-8:]` on a 16-byte
`x`): used as a fall-back by the refinement proofs, so that a rewrite of one form into another does not break them. -/

theorem slice_zero {α} (l : List α) (n : Nat) : slice l 0 n = l.take n := by simp [slice]

theorem slice_to_end {α} (l : List α) (a b : Nat) (h : l.length ≤ b) : slice l a b = l.drop a := by
  unfold slice
  apply List.take_of_length_le
  simp; omega

theorem lastN_eq_drop {α} (l : List α) (n k : Nat) (h : l.length = k) : lastN n l = l.drop (k - n) := by
  simp [lastN, h]

theorem take_drop_all {α} (l : List α) (a n : Nat) (h : l.length ≤ a + n) : (l.drop a).take n = l.drop a := by
  apply List.take_of_length_le
  simp; omega

/-- closes `f (… slice form …) = f (… another slice form …)` goals under the length hypotheses in the context -/
macro "slice_forms" : tactic =>
  `(tactic| (simp_all (config := { decide := true }) [slice_zero, slice_to_end, take_drop_all, lastN, zeros, List.replicate]))

end Pyemv.ModRefines
