import PyemvGen.ModGen
import PyemvProofs.Tdes
/-! helper lemmas shared by the per-function refinement modules (one module per translated function, so that a
function the translator could not read — or whose proof no longer closes — takes down its own theorem and those
of its callers only) -/
namespace Pyemv.ModRefines
open Pyemv Pyemv.Gen

theorem rep_flatten {α} (n : Nat) (x : α) : (List.replicate n [x]).flatten = List.replicate n x := by
  induction n with
  | zero => rfl
  | succ n ih => simp [List.replicate_succ, ih]

theorem fromLE_lt (l : Bytes) : fromLE l < 256 ^ l.length := by
  induction l with
  | nil => simp [fromLE]
  | cons b bs ih =>
    simp only [fromLE, List.length_cons, Nat.pow_succ]
    have := b.toNat_lt
    omega

theorem pow256 (k : Nat) : (256 : Nat) ^ k = 2 ^ (8 * k) := by
  rw [show (256 : Nat) = 2 ^ 8 from rfl, ← Nat.pow_mul]

theorem xor_fits (a b : Bytes) : fromLE a ^^^ fromLE (b.take a.length) < 256 ^ a.length := by
  rw [pow256]
  apply Nat.xor_lt_two_pow
  · rw [← pow256]; exact fromLE_lt a
  · rw [← pow256]
    exact Nat.lt_of_lt_of_le (fromLE_lt _) (Nat.pow_le_pow_right (by omega) (by simp; omega))

end Pyemv.ModRefines
