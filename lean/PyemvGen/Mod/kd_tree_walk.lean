import PyemvGen.Mod.Common
import PyemvGen.Mod.kd_tree_derive
namespace Pyemv.ModRefines
open Pyemv Pyemv.Gen

theorem kd_tree_walk (b : Nat) (mk iv : Bytes) : ∀ (h j : Nat),
    Gen.kd.derive_emv2000_tree_sk.walk b mk iv j h = treeWalk b mk iv j h := by
  intro h
  induction h with
  | zero => intro j; rfl
  | succ h ih =>
    intro j
    unfold Gen.kd.derive_emv2000_tree_sk.walk treeWalk pyDiv
    try simp only [bind_pure]      -- `do let v ← e; pure v` is `e` (single-exit rewrites)
    simp only [ih, kd_tree_derive, bind, Except.bind, pure, Except.pure, except_match_eta]
    by_cases hb : b = 0
    · simp [hb, throw, throwThe, MonadExceptOf.throw]
    · simp only [hb, if_false]
      all_goals
        cases treeWalk b mk iv (j / b) h with
        | error e => rfl
        | ok pg =>
          obtain ⟨p, gp⟩ := pg
          first
          | rfl
          | (simp only []; done)
          | (simp only []; cases treeDerive b p gp j <;> rfl)

end Pyemv.ModRefines
