import PyemvGen.Mod.Common
import PyemvGen.Mod.tools_xor
import PyemvGen.Mod.tools_ecb
import PyemvGen.Mod.tools_adjust
namespace Pyemv.ModRefines
open Pyemv Pyemv.Gen

theorem kd_derive_icc_mk_a (k : Bytes) (pan : StrOrBytes) (psn : Option StrOrBytes) :
    Gen.kd.derive_icc_mk_a k pan psn = deriveIccMkA k pan psn := by
  unfold Gen.kd.derive_icc_mk_a deriveIccMkA keyFromData psnTextR
  try simp only [bind_pure]      -- `do let v ← e; pure v` is `e` (single-exit rewrites)
  simp only [tools_xor, rep_flatten, tools_ecb, tools_adjust, bind, Except.bind, pure, Except.pure, except_match_eta]
  repeat (first | rfl | split)
  all_goals first | (simp_all; done) | slice_forms

end Pyemv.ModRefines
