import PyemvGen.Mod.Common
namespace Pyemv.ModRefines
open Pyemv Pyemv.Gen

theorem tools_ecb (k d : Bytes) : Gen.tools.encrypt_tdes_ecb k d = encryptTdesEcb k d := by
  unfold Gen.tools.encrypt_tdes_ecb encryptTdesEcb
  rfl

end Pyemv.ModRefines
