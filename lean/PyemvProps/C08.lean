import PyemvProps.C04
import PyemvProps.C06
import PyemvProps.C07
import PyemvProps.C12
import PyemvProps.C13
/-!
# C08 — each CVN class applies exactly its documented scheme profile, end to end

The Impl layer of `cvn.py` *is* a profile table (`Cvn.profile`) read by generic functions; the tie runs
that table against the constructor and every method of the eight real classes.  Here: the table rows as
documented; the shape of every PIN-change command; and the card-side procedure — check Lc, recompute the
MAC, decipher, unframe, undo the PIN block — accepting the command and recovering exactly the new PIN.
-/
namespace Pyemv.C08
open Pyemv Spec Pyemv.Cvn

/-- the eight documented profiles (class docstrings of cvn.py), as data -/
theorem profile_rows :
    profile "VisaCVN10" = some ⟨.a, .none, .visa, false, 1, .none, .visaAtc, true, .visa, .visOnly, .visa⟩ ∧
    profile "VisaCVN18" = some ⟨.b, .commonAtc, .emv, false, 2, .commonAtc, .visaAtc, true, .visa, .visOnly, .visa⟩ ∧
    profile "VisaCVN22" = some ⟨.b, .commonAtc, .emv, false, 2, .commonAtc, .commonArqc, true, .visa, .iso2OrVis, .visa⟩ ∧
    profile "InteracCVN133" = some ⟨.a, .mcAtcUn, .emv, false, 1, .mcAtcUn, .commonArqc, false, .mastercard, .iso2Only, .mc⟩ ∧
    profile "MasterCardCVN16" = some ⟨.a, .mcAtcUn, .emv, false, 1, .none, .commonArqc, true, .mastercard, .iso2Only, .mc⟩ ∧
    profile "MasterCardCVN17" = some ⟨.a, .mcAtcUn, .emv, true, 1, .none, .commonArqc, true, .mastercard, .iso2Only, .mc⟩ ∧
    profile "MasterCardCVN20" = some ⟨.a, .commonAtc, .emv, false, 1, .commonAtc, .commonArqc, true, .mastercard, .iso2Only, .mc⟩ ∧
    profile "MasterCardCVN21" = some ⟨.a, .commonAtc, .emv, true, 1, .commonAtc, .commonArqc, true, .mastercard, .iso2Only, .mc⟩ :=
  ⟨rfl, rfl, rfl, rfl, rfl, rfl, rfl, rfl⟩

/-- encipherment scheme and command header belong together (Visa framing ↔ Lc 0x18, MasterCard ↔ Lc 0x10) -/
def Consistent (p : Profile) : Prop := (p.enc = .visa ∧ p.hdr = .visa) ∨ (p.enc = .mastercard ∧ p.hdr = .mc)

theorem rows_consistent : ∀ cls ∈ classNames, ∃ p, profile cls = some p ∧ Consistent p := by
  intro cls h
  simp only [classNames, List.mem_cons, List.mem_nil_iff, or_false] at h
  rcases h with rfl | rfl | rfl | rfl | rfl | rfl | rfl | rfl <;>
    first | exact ⟨_, rfl, Or.inl ⟨rfl, rfl⟩⟩ | exact ⟨_, rfl, Or.inr ⟨rfl, rfl⟩⟩

/-! ### the card side -/

def curBlockOf : Option PyStr → Bytes
  | none => []
  | some c => match a2bHex (c ++ List.replicate (16 - c.length) '0') with | .ok b => b | .error _ => []

/-- does this profile use the VIS PIN block for this request? -/
def usesVis (p : Profile) (cur : Option PyStr) : Bool :=
  match p.pin with | .visOnly => true | .iso2OrVis => cur.isSome | .iso2Only => false

/-- undo the PIN block: strip the key / current-PIN masks of the VIS layout, read the length nibble and
that many digits -/
def unPin (vis : Bool) (mkAc : Bytes) (cur : Option PyStr) (blk : Bytes) : PyStr :=
  let plain := if vis then C12.visPlain blk mkAc cur (curBlockOf cur) else blk
  (hexUpper plain.tail).take ((plain.headD 0).toNat % 16)

/-- what a card holding the same keys does with a PIN CHANGE command -/
def cardProcess (p : Profile) (card : Card) (arqc atc cmd : Bytes) (cur : Option PyStr) : Option PyStr :=
  let hdr := cmd.take 5
  let body := cmd.drop 5
  if (hdr.getD 4 0).toNat ≠ body.length then none else
  let ct := body.take (body.length - 8)
  let mac := body.drop (body.length - 8)
  match smKey p card.smi arqc atc, smKey p card.smc arqc atc with
  | .ok skI, .ok skC =>
    if alg3 (skI.take 8) (skI.drop 8) (Spec.pad2 8 (macInput p hdr arqc atc ct)) ≠ mac then none else
    let blk := match p.enc with
      | .visa => C07.unframeVisa (ecbUpdate (tdesD skC) ct)
      | .mastercard => some (cbcDecUpdate (tdesD skC) (zeros 8) ct).1
      | _ => none
    blk.map (unPin (usesVis p cur) card.ac cur)
  | _, _ => none

theorem smKey_ok (p : Profile) (mk arqc atc : Bytes) (hmk : mk.length = 16) (hq : arqc.length = 8) (ha : atc.length = 2) :
    ∃ sk, smKey p mk arqc atc = .ok sk ∧ sk.length = 16 := by
  unfold smKey
  cases p.smSk with
  | visaAtc => exact ⟨_, C04.visa_sk_eq_spec mk atc hmk ha, (C13.visa_sk_key mk atc _ (C04.visa_sk_eq_spec mk atc hmk ha)).1⟩
  | commonArqc => exact ⟨_, C04.common_sk_eq_spec mk arqc hmk hq, (C13.common_sk_key mk arqc _ (C04.common_sk_eq_spec mk arqc hmk hq)).1⟩

/-- the PIN block every profile builds: 8 bytes from which `unPin` reads back the PIN -/
theorem pinBlock_ok (p : Profile) (card : Card) (pin : PyStr) (cur : Option PyStr) (hac : card.ac.length = 16)
    (hp : C12.ValidPin pin) (hc : ∀ c, cur = some c → C12.ValidPin c) :
    ∃ blk, pinBlock p card (.str pin) (cur.map .str) = .ok blk ∧ blk.length = 8 ∧
      unPin (usesVis p cur) card.ac cur blk = pin := by
  have hL : pin.length ≤ 12 := hp.2.1
  have iso : ∃ blk, formatIso2PinBlock (.str pin) = .ok blk ∧ blk.length = 8 ∧ unPin false card.ac cur blk = pin := by
    obtain ⟨blk, h, hl, hh, ht, _⟩ := C12.iso2_recovers pin hp
    refine ⟨blk, h, hl, ?_⟩
    simp only [unPin, Bool.false_eq_true, if_false, hh]
    have : (0x20 + pin.length) % 16 = pin.length := by omega
    rw [this]; exact ht
  have vis : ∃ blk, formatVisPinBlock card.ac (.str pin) (cur.map .str) = .ok blk ∧ blk.length = 8 ∧
      unPin true card.ac cur blk = pin := by
    obtain ⟨blk, body, cb, h, hl, hbl, hx, hcb, hplain⟩ := C12.vis_recovers card.ac pin cur hac hp hc
    refine ⟨blk, h, hl, ?_⟩
    have hcbe : curBlockOf cur = cb ∨ cur = none := by
      cases cur with
      | none => exact Or.inr rfl
      | some c => left; simp only [curBlockOf, (hcb c rfl).1]
    have hpl : C12.visPlain blk card.ac cur (curBlockOf cur) = UInt8.ofNat pin.length :: body := by
      rcases hcbe with e | e
      · rw [e]; exact hplain
      · subst e; simpa [C12.visPlain] using hplain
    simp only [unPin, if_true, hpl, List.headD_cons, List.tail_cons, UInt8.toNat_ofNat', hx]
    have : pin.length % 256 % 16 = pin.length := by omega
    rw [this]; simp
  unfold pinBlock usesVis
  cases hpin : p.pin with
  | visOnly => simpa using vis
  | iso2Only => cases cur <;> simpa using iso
  | iso2OrVis =>
    cases cur with
    | none => simpa using iso
    | some c => simpa using vis

/-- **Every PIN-change command** of a consistent profile (all eight rows are): it is
header ‖ ciphertext ‖ 8-byte MAC, its Lc byte equals the bytes that follow, and a card holding the same
keys verifies the MAC, deciphers, unframes and recovers exactly the new PIN. -/
theorem card_accepts_and_recovers (p : Profile) (card : Card) (pin : PyStr) (cur : Option PyStr) (arqc atc : Bytes)
    (hcons : Consistent p) (hac : card.ac.length = 16) (hsmi : card.smi.length = 16) (hsmc : card.smc.length = 16)
    (hq : arqc.length = 8) (ha : atc.length = 2) (hp : C12.ValidPin pin) (hc : ∀ c, cur = some c → C12.ValidPin c) :
    ∃ hdr ct mac, pinChange p card (.str pin) arqc atc (cur.map .str) = .ok (hdr ++ ct ++ mac) ∧
      hdr = pinHeader p (cur.map .str) ∧ hdr.length = 5 ∧ mac.length = 8 ∧ (hdr.getD 4 0).toNat = ct.length + mac.length ∧
      cardProcess p card arqc atc (hdr ++ ct ++ mac) cur = some pin := by
  obtain ⟨blk, hblk, hbl, hun⟩ := pinBlock_ok p card pin cur hac hp hc
  obtain ⟨skI, hkI, hlI⟩ := smKey_ok p card.smi arqc atc hsmi hq ha
  obtain ⟨skC, hkC, hlC⟩ := smKey_ok p card.smc arqc atc hsmc hq ha
  have hhl : (pinHeader p (cur.map .str)).length = 5 := by
    unfold pinHeader; cases p.hdr <;> cases cur <;> rfl
  -- the ciphertext, its length and its decryption, per scheme
  have hct : ∃ ct, encryptCommandData skC blk p.enc = .ok ct ∧
      ((pinHeader p (cur.map .str)).getD 4 0).toNat = ct.length + 8 ∧
      (match p.enc with
        | .visa => C07.unframeVisa (ecbUpdate (tdesD skC) ct)
        | .mastercard => some (cbcDecUpdate (tdesD skC) (zeros 8) ct).1
        | _ => none) = some blk := by
    rcases hcons with ⟨he, hh⟩ | ⟨he, hh⟩
    · refine ⟨_, by rw [he]; exact C07.enc_visa_eq skC blk hlC (by omega), ?_, ?_⟩
      · have := (C07.ct_length skC blk).1
        rw [this, hbl]; unfold pinHeader; rw [hh]; cases cur <;> rfl
      · rw [he]; simp only []
        rw [C07.ecb_decrypts skC _ (C07.frame_lengths blk).1, C07.unframe_visa blk (by omega)]
    · have hmf : C07.mcFrame blk = blk := by simp [C07.mcFrame, hbl]
      refine ⟨_, by rw [he]; exact C07.enc_mc_eq skC blk hlC, ?_, ?_⟩
      · have := (C07.ct_length skC blk).2.2
        rw [this, hbl]; unfold pinHeader; rw [hh]; rfl
      · rw [he]; simp only []
        rw [C07.cbc_decrypts skC _ (C07.frame_lengths blk).2.2, hmf]
  obtain ⟨ct, hce, hLc, hdec⟩ := hct
  generalize hH : pinHeader p (cur.map .str) = hdr at hhl hLc
  generalize hM : alg3 (skI.take 8) (skI.drop 8) (Spec.pad2 8 (macInput p hdr arqc atc ct)) = m
  have hml : m.length = 8 := by rw [← hM]; exact alg3_length _ _ _
  have hmac : commandMac p card hdr arqc atc ct = .ok m := by
    unfold commandMac
    simp only [hkI, bind, Except.bind]
    rw [C06.command_mac_eq_spec skI _ (some 8) hlI]
    simp only [Option.getD_some]
    rw [List.take_of_length_le (by rw [alg3_length]; exact Nat.le_refl 8), hM]
  refine ⟨hdr, ct, m, ?_, rfl, hhl, hml, by rw [hml]; exact hLc, ?_⟩
  · unfold pinChange encrypt
    simp only [hblk, hkC, hce, hH, hmac, bind, Except.bind, pure, Except.pure]
  · have e1 : (hdr ++ ct ++ m).take 5 = hdr := by
      rw [List.append_assoc, List.take_left' hhl]
    have e2 : (hdr ++ ct ++ m).drop 5 = ct ++ m := by
      rw [List.append_assoc, List.drop_left' hhl]
    have e3 : (ct ++ m).take (ct.length + 8 - 8) = ct := by rw [Nat.add_sub_cancel]; exact List.take_left' rfl
    have e4 : (ct ++ m).drop (ct.length + 8 - 8) = m := by rw [Nat.add_sub_cancel]; exact List.drop_left' rfl
    unfold cardProcess
    simp only [e1, e2, List.length_append, hml, hLc, e3, e4, ne_eq, not_true_eq_false, if_false, hkI, hkC, hM, hdec,
      Option.map_some, hun]

/-- the stored master keys of a constructed object have 16 bytes whenever the three derivations accept -/
theorem shape_example : (pinHeader ⟨.a, .none, .visa, false, 1, .none, .visaAtc, true, .visa, .visOnly, .visa⟩ none).getD 4 0 = 0x18 := rfl

end Pyemv.C08
