import PyemvProofs.Mac
/-!
# C01 — the application cryptogram is the ISO 9797-1 Algorithm 3 MAC of the padded data

Property theorems only (helper lemmas live in `PyemvProofs`).  `generateAc` is the code-shaped model
of `pyemv.ac.generate_ac` that the correspondence check runs against the real code.
-/
namespace Pyemv.C01
open Pyemv Spec

/-- For every 16-byte session key, every message, the three padding selections and every requested
length: the cryptogram is Algorithm 3 over the padded message (method 2 for EMV and the default,
method 1 for Visa), truncated to its leftmost bytes. -/
theorem generate_ac_eq_spec (sk data : Bytes) (pt : Option PaddingType) (len : Option Nat)
    (hsk : sk.length = 16) (hpt : pt ≠ some .other) :
    generateAc sk data pt len =
      .ok ((alg3 (sk.take 8) (sk.drop 8) (padFor (pt.getD .emv) data)).take (len.getD 8)) := by
  unfold generateAc
  simp only [hsk, ne_eq, not_true_eq_false, if_false, bind, Except.bind, pure, Except.pure]
  have h1 : (sk.take 8).length = 8 := by simp [hsk]
  have h2 : (sk.drop 8).length = 8 := by simp [hsk]
  rw [lastN_8_of_16 sk hsk]
  rcases pt with _ | p
  · simp only [Option.getD_none]
    rw [show PaddingType.emv.value = 2 from rfl, mac3_eq_alg3 _ _ _ 2 len h1 h2 (Or.inr rfl)]
    simp [padFor]
  · cases p with
    | visa =>
      simp only [Option.getD_some]
      rw [show PaddingType.visa.value = 1 from rfl, mac3_eq_alg3 _ _ _ 1 len h1 h2 (Or.inl rfl)]
      simp [padFor]
    | emv =>
      simp only [Option.getD_some]
      rw [show PaddingType.emv.value = 2 from rfl, mac3_eq_alg3 _ _ _ 2 len h1 h2 (Or.inr rfl)]
      simp [padFor]
    | other => exact absurd rfl hpt

/-- the raw MAC helper, for 8-byte key halves -/
theorem mac3_eq_spec (k1 k2 data : Bytes) (pm : Int) (len : Option Nat)
    (h1 : k1.length = 8) (h2 : k2.length = 8) (hp : pm = 1 ∨ pm = 2) :
    mac3 k1 k2 data pm len =
      .ok ((alg3 k1 k2 (if pm = 1 then Spec.pad1 8 data else Spec.pad2 8 data)).take (len.getD 8)) :=
  mac3_eq_alg3 k1 k2 data pm len h1 h2 hp

/-- a requested length of 4..8 returns exactly the leftmost bytes of the 8-byte value -/
theorem truncation_leftmost (sk data : Bytes) (pt : Option PaddingType) (n : Nat)
    (hsk : sk.length = 16) (hpt : pt ≠ some .other) (hn : n ≤ 8) :
    ∃ full, generateAc sk data pt none = .ok full ∧ full.length = 8 ∧
      generateAc sk data pt (some n) = .ok (full.take n) ∧ (full.take n).length = n := by
  refine ⟨alg3 (sk.take 8) (sk.drop 8) (padFor (pt.getD .emv) data), ?_, alg3_length _ _ _, ?_, ?_⟩
  · rw [generate_ac_eq_spec sk data pt none hsk hpt]
    simp only [Option.getD_none]
    rw [List.take_of_length_le (by rw [alg3_length]; exact Nat.le_refl 8)]
  · rw [generate_ac_eq_spec sk data pt (some n) hsk hpt]; rfl
  · rw [List.length_take, alg3_length]; omega

/-- Visa convention (method 1): nothing added to a non-empty whole number of blocks, one zero block for
the empty message; EMV convention (method 2): always at least the 0x80 byte -/
theorem padding_conventions (d : Bytes) :
    padFor .visa [] = zeros 8 ∧ (d ≠ [] → d.length % 8 = 0 → padFor .visa d = d) ∧
    padFor .emv d = d ++ [0x80] ++ zeros (fill1 8 (d.length + 1)) ∧ fill1 8 (d.length + 1) < 8 :=
  ⟨(Spec.pad1_cases []).1 rfl, (Spec.pad1_cases d).2, rfl, Spec.fill_after_marker_lt 8 (by omega) _⟩

/-- non-vacuity: a concrete key and message meet the hypotheses -/
example : (List.replicate 16 (1 : UInt8)).length = 16 ∧ (some PaddingType.visa) ≠ some .other := by decide

end Pyemv.C01
