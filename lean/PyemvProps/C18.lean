import PyemvProofs.TlvReencode
import PyemvProofs.TlvReencode2
import PyemvProps.C10
/-!
# C18 — decoded TLV re-encodes stably; flatten and convert are views of one parse

`treeOfDict` is the tree the decoder hands to the caller (upper-case hex names, values as bytes).
-/
namespace Pyemv.C18
open Pyemv Pyemv.Tlv Pyemv.TlvSpec Pyemv.RoundTrip Pyemv.Refine

/-- the parse of a decodable input -/
theorem parse_of_decode (fl si : Bool) (x : Bytes) (o : Nat) (d : Dict) (h : decode fl si x = .ok o d) :
    ∃ items, parseItems si 0 x = .ok items ∧ d = absInto fl [] items :=
  (C09.decode_ok_iff fl si x d).mp ⟨o, h⟩

/-- **canonical input re-encodes byte for byte**: if the input parses to well-formed items with shortest
length fields and no tag repeated within a template, then encoding the decoded tree reproduces the input -/
theorem reencode_canonical (si : Bool) (x : Bytes) (items : List Item) (hp : parseItems si 0 x = .ok items)
    (hx : x = printItems items) (hwf : ∀ i ∈ items, WF si i) (hc : CanonLens si items) (hd : Distinct items) :
    ∃ d, decode false si x = .ok x.length d ∧ encode si (treeOfDict d) = .ok x := by
  obtain ⟨o, ho⟩ := (C09.decode_ok_iff false si x (absInto false [] items)).mpr ⟨items, hp, rfl⟩
  have hlen : o = x.length := by
    rcases C09.decode_total false si x with ⟨d', hd'⟩ | ⟨e, d', hd'⟩
    · rw [hd'] at ho; cases ho; rfl
    · rw [hd'] at ho; cases ho
  subst hlen
  refine ⟨_, ho, ?_⟩
  have : treeOfDict (absInto false [] items) = treeOfItems items := by
    have := absNested_distinct items hd [] (by intro p hp; cases hp)
    simpa [absInto, treeOfDict] using this
  rw [this, hx]
  exact encode_treeOfItems si items hwf hc

/-- canonical serialisations parse to themselves (so the hypotheses above are satisfiable for every
well-formed canonical CST) -/
theorem canonical_parses (si : Bool) (items : List Item) (hwf : ∀ i ∈ items, WF si i) :
    parseItems si 0 (printItems items) = .ok items :=
  parse_print si _ items 0 (Nat.le_refl _) hwf

/-- **flatten is a view of the parse**: the flattened result is the fold of all primitive objects at every
depth in input order, the last occurrence winning — a view of the *parse*, not of the nested dict -/
theorem flat_eq_prims (si : Bool) (x : Bytes) (o : Nat) (d : Dict) (h : decode true si x = .ok o d) :
    ∃ items, parseItems si 0 x = .ok items ∧ d = (prims items).foldl (fun (d : Dict) (p : Bytes × Bytes) => Dict.set d p.1 (.prim p.2)) [] := by
  obtain ⟨items, hp, hd⟩ := parse_of_decode true si x o d h
  refine ⟨items, hp, ?_⟩
  rw [hd]; simp only [absInto, if_true]
  exact absFlat_eq_prims items []

/-- **convert is applied exactly once to each primitive object's (tag, value), in input order, and never
to a template**: the call log is the list of primitives of the parse (or of its completed part) -/
theorem convert_calls {α} (conv : Bytes → Bytes → α) (fl si : Bool) (x : Bytes) :
    match decodeC conv fl si x, parseItems si 0 x with
    | .ok o _ log, .ok items => o = x.length ∧ log = prims items
    | .err _ _ log, .error (_, part) => log = prims part
    | _, _ => False := by
  have h := decodeC_log conv fl si x
  unfold LogRel at h
  split at h <;> simp_all

/-- **any converted result equals the plain result mapped through the conversion** (same outcome, same
error, dictionaries related by `mapDict conv`) -/
theorem convert_natural {α} (conv : Bytes → Bytes → α) (fl si : Bool) (x : Bytes) :
    SimRel conv (decode fl si x) (decodeC conv fl si x) := decodeC_sim conv fl si x

/-- **every decodable input re-encodes stably** (the general case, at full strength): for every byte string
`x` the decoder accepts, in either mode, encoding the decoded tree succeeds, the result decodes to the same
tree again (same keys, same order, same values), and it is no longer than `x`.  Non-minimal length fields and
repeated tags in `x` are covered: the proof goes through an invariant of decoded dictionaries
(`Tlv.Good`: distinct keys, each a valid tag whose bit 6 matches the node kind, sizes expressible in the
mode's length field) that decoding establishes (`absNested_good`, over the sound parse `parse_sound`) and
under which the canonical CST of the dictionary is well-formed, canonical and folds back to it. -/
theorem reencode (si : Bool) (x : Bytes) (o : Nat) (d : Dict) (h : decode false si x = .ok o d) :
    ∃ e, encode si (treeOfDict d) = .ok e ∧ decode false si e = .ok e.length d ∧ e.length ≤ x.length := by
  obtain ⟨items, hp, hd⟩ := parse_of_decode false si x o d h
  obtain ⟨hx, hwf⟩ := parse_sound si x.length x 0 items (Nat.le_refl _) hp
  have hd' : d = absNested [] items := by simpa [absInto] using hd
  obtain ⟨good, size⟩ := absNested_good si (printItems items).length items [] (Nat.le_refl _) hwf Good.nil
  rw [← hd', encSize_nil, Nat.zero_add, ← hx] at size
  rw [← hd'] at good
  obtain ⟨w, c, _, tr, ab⟩ := good_items si d good
  have henc : encode si (treeOfDict d) = .ok (printItems (itemsOfDict si d)) := by
    rw [← tr]; exact encode_treeOfItems si _ w c
  have hback : absNested [] (itemsOfDict si d) = d := by
    have := ab [] (by intro p hp'; cases hp')
    simpa using this
  have hp2 : parseItems si 0 (printItems (itemsOfDict si d)) = .ok (itemsOfDict si d) :=
    parse_print si _ _ 0 (Nat.le_refl _) w
  obtain ⟨o', ho'⟩ := (C09.decode_ok_iff false si (printItems (itemsOfDict si d)) d).mpr
    ⟨itemsOfDict si d, hp2, by simp [absInto, hback]⟩
  have hlen : o' = (printItems (itemsOfDict si d)).length := by
    rcases C09.decode_total false si (printItems (itemsOfDict si d)) with ⟨d', hd''⟩ | ⟨e, d', hd''⟩
    · rw [hd''] at ho'; cases ho'; rfl
    · rw [hd''] at ho'; cases ho'
  subst hlen
  exact ⟨_, henc, ho', size⟩

/-- non-vacuity: an input with a padded length field and a repeated tag decodes, and its tree re-encodes to
a shorter canonical string -/
example : decode false false [0x9C, 0x81, 0x01, 0x07, 0x9C, 0x01, 0x08] = .ok 7 [([0x9C], .prim [0x08])] ∧
    encode false (treeOfDict [([0x9C], Node.prim [0x08])]) = .ok [0x9C, 0x01, 0x08] := by
  constructor <;> rfl

/-- the encoder side of the same fact, for trees that do not come from the decoder: whatever the encoder
accepts decodes to the fold of its mirror CST. -/
theorem encoded_decodes_to_mirror (si : Bool) (t : List (PyStr × PyVal)) (b : Bytes) (h : encode si t = .ok b)
    (hlen : si = false → b.length < 256 ^ 127) :
    ∃ items, Mirror si t items ∧ decode false si b = .ok b.length (absInto false [] items) := by
  obtain ⟨items, e, m, w⟩ := encodeItems_ok si t b h hlen
  refine ⟨items, m, ?_⟩
  have hp : parseItems si 0 b = .ok items := by rw [e]; exact parse_print si _ items 0 (Nat.le_refl _) w
  obtain ⟨o, ho⟩ := (C09.decode_ok_iff false si b (absInto false [] items)).mpr ⟨items, hp, rfl⟩
  rcases C09.decode_total false si b with ⟨d, hd⟩ | ⟨e', d, hd⟩
  · rw [hd] at ho; cases ho; exact hd
  · rw [hd] at ho; cases ho

example : prims [.cons [0xE0] [3] [.prim [0x9C] [1] [7]], .prim [0x9A] [0] []] = [([0x9C], [7]), ([0x9A], [])] := by
  simp [prims]

end Pyemv.C18
