import PyemvProofs.TlvReencode
import PyemvProps.C10
/-!
# C18 — decoded TLV re-encodes stably; flatten and convert are views of one parse

`treeOfDict` is the tree the decoder hands to the caller (upper-case hex names, values as bytes).
-/
namespace Pyemv.C18
open Pyemv Pyemv.Tlv Pyemv.TlvSpec Pyemv.RoundTrip Pyemv.Refine

/-- the parse of a decodable input -/
theorem parse_of_decode (fl si : Bool) (x : Bytes) (o : Nat) (d : Dict) (h : decode fl si x = .ok o d) :
    ∃ items, parseItems si 0 x = .ok items ∧ d = absInto fl [] items :=
  (C09.decode_ok_iff fl si x d).mp ⟨o, h⟩

/-- **canonical input re-encodes byte for byte**: if the input parses to well-formed items with shortest
length fields and no tag repeated within a template, then encoding the decoded tree reproduces the input -/
theorem reencode_canonical (si : Bool) (x : Bytes) (items : List Item) (hp : parseItems si 0 x = .ok items)
    (hx : x = printItems items) (hwf : ∀ i ∈ items, WF si i) (hc : CanonLens si items) (hd : Distinct items) :
    ∃ d, decode false si x = .ok x.length d ∧ encode si (treeOfDict d) = .ok x := by
  obtain ⟨o, ho⟩ := (C09.decode_ok_iff false si x (absInto false [] items)).mpr ⟨items, hp, rfl⟩
  have hlen : o = x.length := by
    rcases C09.decode_total false si x with ⟨d', hd'⟩ | ⟨e, d', hd'⟩
    · rw [hd'] at ho; cases ho; rfl
    · rw [hd'] at ho; cases ho
  subst hlen
  refine ⟨_, ho, ?_⟩
  have : treeOfDict (absInto false [] items) = treeOfItems items := by
    have := absNested_distinct items hd [] (by intro p hp; cases hp)
    simpa [absInto, treeOfDict] using this
  rw [this, hx]
  exact encode_treeOfItems si items hwf hc

/-- canonical serialisations parse to themselves (so the hypotheses above are satisfiable for every
well-formed canonical CST) -/
theorem canonical_parses (si : Bool) (items : List Item) (hwf : ∀ i ∈ items, WF si i) :
    parseItems si 0 (printItems items) = .ok items :=
  parse_print si _ items 0 (Nat.le_refl _) hwf

/-- **flatten is a view of the parse**: the flattened result is the fold of all primitive objects at every
depth in input order, the last occurrence winning — a view of the *parse*, not of the nested dict -/
theorem flat_eq_prims (si : Bool) (x : Bytes) (o : Nat) (d : Dict) (h : decode true si x = .ok o d) :
    ∃ items, parseItems si 0 x = .ok items ∧ d = (prims items).foldl (fun (d : Dict) (p : Bytes × Bytes) => Dict.set d p.1 (.prim p.2)) [] := by
  obtain ⟨items, hp, hd⟩ := parse_of_decode true si x o d h
  refine ⟨items, hp, ?_⟩
  rw [hd]; simp only [absInto, if_true]
  exact absFlat_eq_prims items []

/-- **convert is applied exactly once to each primitive object's (tag, value), in input order, and never
to a template**: the call log is the list of primitives of the parse (or of its completed part) -/
theorem convert_calls {α} (conv : Bytes → Bytes → α) (fl si : Bool) (x : Bytes) :
    match decodeC conv fl si x, parseItems si 0 x with
    | .ok o _ log, .ok items => o = x.length ∧ log = prims items
    | .err _ _ log, .error (_, part) => log = prims part
    | _, _ => False := by
  have h := decodeC_log conv fl si x
  unfold LogRel at h
  split at h <;> simp_all

/-- **any converted result equals the plain result mapped through the conversion** (same outcome, same
error, dictionaries related by `mapDict conv`) -/
theorem convert_natural {α} (conv : Bytes → Bytes → α) (fl si : Bool) (x : Bytes) :
    SimRel conv (decode fl si x) (decodeC conv fl si x) := decodeC_sim conv fl si x

/-- re-encoding, general case — **partial**.  Full statement (kept visible, not proved here): for every
decodable `x`, `encode si (treeOfDict (decode si x))` succeeds, decodes to the same tree again and is no
longer than `x`.  Proved: the canonical case above (`reencode_canonical`) and, for every tree the encoder
accepts, the round trip of C10.  The general case needs an invariant of decoded dictionaries (every key a
valid tag whose bit 6 matches the node kind, simple-mode lengths ≤ 255 after de-duplication) that is only
tied differentially: the harness checks the three equations on the real code for every decodable input of
the C09 enumeration and generators. -/
theorem reencode_partial (si : Bool) (t : List (PyStr × PyVal)) (b : Bytes) (h : encode si t = .ok b)
    (hlen : si = false → b.length < 256 ^ 127) :
    ∃ items, Mirror si t items ∧ decode false si b = .ok b.length (absInto false [] items) := by
  obtain ⟨items, e, m, w⟩ := encodeItems_ok si t b h hlen
  refine ⟨items, m, ?_⟩
  have hp : parseItems si 0 b = .ok items := by rw [e]; exact parse_print si _ items 0 (Nat.le_refl _) w
  obtain ⟨o, ho⟩ := (C09.decode_ok_iff false si b (absInto false [] items)).mpr ⟨items, hp, rfl⟩
  rcases C09.decode_total false si b with ⟨d, hd⟩ | ⟨e', d, hd⟩
  · rw [hd] at ho; cases ho; exact hd
  · rw [hd] at ho; cases ho

example : prims [.cons [0xE0] [3] [.prim [0x9C] [1] [7]], .prim [0x9A] [0] []] = [([0x9C], [7]), ([0x9A], [])] := by
  simp [prims]

end Pyemv.C18
