import PyemvProps.C09
/-! # C17 — a decode error pinpoints the fault and returns what was decoded before it -/
namespace Pyemv.C17
open Pyemv Pyemv.Tlv Pyemv.TlvSpec Pyemv.Refine

/-- Whenever decoding fails, the grammar fails too, and the error carries the grammar's fault kind and
offset (start of the tag / of the length bytes / of the value that does not fit in its parent), the
partial tree is the fold (nested or flat) of the items completed or opened before the fault, and the
tag is related to the bytes at the fault as `TagRel` states. -/
theorem decode_err_eq_spec (fl si : Bool) (data : Bytes) (e : DErr) (d : Dict)
    (h : decode fl si data = .err e d) :
    ∃ g part, parseItems si 0 data = .error (g, part) ∧ e.kind = g.kind ∧ e.ofs = g.ofs ∧
      d = absInto fl [] part ∧ TagRel data g e := by
  have hr := Refine.decode_refines fl si data
  rw [h] at hr
  cases hp : parseItems si 0 data with
  | ok items => rw [hp] at hr; exact absurd hr (by simp [Refines])
  | error gp =>
    obtain ⟨g, part⟩ := gp
    rw [hp] at hr
    exact ⟨g, part, rfl, hr.1, hr.2.1, hr.2.2.1, hr.2.2.2⟩

/-- for length and value faults the complete tag is reported; for tag faults the reported name extends
the part of the tag lying inside the parent and is read from the input at the offset -/
theorem err_tag (fl si : Bool) (data : Bytes) (e : DErr) (d : Dict) (h : decode fl si data = .err e d) :
    ∃ g part, parseItems si 0 data = .error (g, part) ∧
      (e.kind = .tag → g.tagRegion <+: e.tag ∧ e.tag <+: data.drop e.ofs) ∧
      (e.kind ≠ .tag → e.tag = g.tagRegion) := by
  obtain ⟨g, part, hp, hk, _, _, hrel⟩ := decode_err_eq_spec fl si data e d h
  refine ⟨g, part, hp, ?_, ?_⟩
  · intro hkt
    unfold TagRel at hrel
    rw [← hk, hkt] at hrel
    exact hrel
  · intro hkt
    unfold TagRel at hrel
    rw [← hk] at hrel
    cases hek : e.kind with
    | tag => exact absurd hek hkt
    | len n => rw [hek] at hrel; exact hrel
    | val n => rw [hek] at hrel; exact hrel

example : ∃ e d, decode false false [0xE0, 0x01, 0x9F, 0x82] = .err e d ∧ e.ofs = 2 := ⟨_, _, rfl, rfl⟩

end Pyemv.C17
