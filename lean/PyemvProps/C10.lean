import PyemvProofs.TlvOffender
import PyemvProofs.TlvEncode
import PyemvProps.C09
/-!
# C10 — TLV encoding round-trips and is canonical

`Tlv.encode` is the code-shaped model of `pyemv.tlv.encode`.  `WFTree` is the well-formedness predicate
of the property; `Mirror` relates a tree to the concrete syntax tree the encoder must write (tag bytes
parsed from the names, *shortest definite lengths* `berLen`, values as bytes, mapping order).
Assumption (DESIGN.md §8.2): the encoded output is shorter than 256^127 bytes, so that the number of
length bytes fits the seven bits of the `0x80+k` byte.
-/
namespace Pyemv.C10
open Pyemv Pyemv.Tlv Pyemv.TlvSpec Pyemv.RoundTrip Pyemv.Refine

/-- exactly the well-formed trees are accepted -/
theorem encode_accepts_iff_wellformed (si : Bool) (t : List (PyStr × PyVal)) :
    (∃ b, encode si t = .ok b) ↔ WFTree si t :=
  ⟨fun ⟨b, h⟩ => ok_wf si t b h, wf_accepts si t⟩

/-- **canonical form**: the output is the serialisation of the mirrored CST — each tag's bytes, the
shortest definite length, the value, in mapping order -/
theorem encode_canonical (si : Bool) (t : List (PyStr × PyVal)) (b : Bytes) (h : encode si t = .ok b)
    (hlen : si = false → b.length < 256 ^ 127) : ∃ items, b = printItems items ∧ Mirror si t items ∧ ∀ i ∈ items, WF si i :=
  encodeItems_ok si t b h hlen

/-- the length the encoder writes: one byte up to 127, otherwise `0x80 + k` and the `k`-byte minimal
big-endian length (`256^(k-1) ≤ n < 256^k`); in simple mode always one byte, anything above 255 refused -/
theorem length_field_shortest (n : Nat) (hn : 128 ≤ n) (hbig : n < 256 ^ 127) :
    lenField false n = some (berLen false n) ∧ berLen false n = UInt8.ofNat (0x80 + byteLen n) :: toBE (byteLen n) n ∧
    256 ^ (byteLen n - 1) ≤ n ∧ n < 256 ^ byteLen n ∧ (∀ m, m < 128 → berLen false m = [UInt8.ofNat m]) ∧
    (∀ m, lenField true m = none ↔ m > 255) := by
  have hs : ∃ l, lenField false n = some l := lenField_some false n (by intro h; cases h)
  obtain ⟨l, hl⟩ := hs
  have hc := lenField_canonical false n l (fun _ => hbig) hl
  obtain ⟨a, b⟩ := byteLen_spec n (by omega)
  refine ⟨by rw [hl, hc], ?_, a, b, ?_, ?_⟩
  · have : ¬ n < 128 := by omega
    simp [berLen, this]
  · intro m hm; simp [berLen, hm]
  · intro m; rw [lenField_none_iff]; simp

/-- **round trip**: the encoder's output decodes (same mode) to the tree with tag names as tag bytes and
values as bytes — the nested fold of the mirrored CST, last occurrence winning when two names denote the
same tag; and the flattened view likewise -/
theorem roundtrip (fl si : Bool) (t : List (PyStr × PyVal)) (b : Bytes) (h : encode si t = .ok b)
    (hlen : si = false → b.length < 256 ^ 127) :
    ∃ items, Mirror si t items ∧ decode fl si b = .ok b.length (absInto fl [] items) := by
  obtain ⟨items, e, m, w⟩ := encode_canonical si t b h hlen
  refine ⟨items, m, ?_⟩
  have hp : parseItems si 0 b = .ok items := by
    rw [e]; exact parse_print si _ items 0 (Nat.le_refl _) w
  obtain ⟨o, ho⟩ := (C09.decode_ok_iff fl si b (absInto fl [] items)).mpr ⟨items, hp, rfl⟩
  rcases C09.decode_total fl si b with ⟨d, hd⟩ | ⟨e', d, hd⟩
  · rw [hd] at ho; cases ho; exact hd
  · rw [hd] at ho; cases ho

/-- a tree that is not well-formed is refused with an error naming one of its tags; an error outcome
carries no bytes by construction (`Except`) -/
theorem encode_error (si : Bool) (t : List (PyStr × PyVal)) (h : ¬ WFTree si t) :
    ∃ e, encode si t = .error e ∧ KeyIn e.tag t := by
  cases he : encode si t with
  | ok b => exact absurd (ok_wf si t b he) h
  | error e => exact ⟨e, rfl, encodeItems_err si t e he⟩

/-- **the error names the offending tag** — the *first* one in evaluation order: the pair it names has a fault
of its own (`ItemFault`: a name that is not the hex name of exactly one tag, a value of the wrong kind for
the tag, a non-hex value string, or more than 255 value bytes in simple mode), every pair evaluated before
it — earlier in its mapping, at every enclosing level — is well-formed, and every enclosing template has a
valid constructed tag.  Conversely a tree with such an offender is never well-formed. -/
theorem encode_error_names_first_offender (si : Bool) (t : List (PyStr × PyVal)) (h : ¬ WFTree si t) :
    ∃ e, encode si t = .error e ∧ FirstOffender si e.tag t := by
  cases he : encode si t with
  | ok b => exact absurd (ok_wf si t b he) h
  | error e => exact ⟨e, rfl, encodeItems_offender si t e he⟩

theorem first_offender_is_offending (si : Bool) (k : PyStr) (t : List (PyStr × PyVal)) (h : FirstOffender si k t) :
    ¬ WFTree si t := offender_not_wf h

/-- non-vacuity: the second of two bad pairs is not the one named -/
example : FirstOffender false ['G', 'G'] [(['9', 'C'], .bytes [1]), (['G', 'G'], .bytes []), (['9'], .other)] :=
  FirstOffender.later (WFTree.bytes (t := [0x9C]) rfl rfl (by intro h; cases h) WFTree.nil)
    (FirstOffender.here (ItemFault.name rfl))

/-- non-vacuity: a concrete mixed-case, nested tree is well-formed and encodes to the documented bytes -/
example : ∃ b, encode false [(['9', 'c'], .bytes [1]), (['E', '0'], .dict [(['5', 'F', '2', 'A'], .str ['0', '2', '0', '8'])])]
    = .ok b ∧ b = [0x9C, 0x01, 0x01, 0xE0, 0x05, 0x5F, 0x2A, 0x02, 0x02, 0x08] := ⟨_, rfl, rfl⟩

end Pyemv.C10
