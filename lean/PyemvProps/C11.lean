import PyemvProofs.Tdes
import PyemvProofs.Decimal
/-! # C11 — CVC3 is the specified five-digit dynamic code (for the repaired `generate_cvc3`) -/
namespace Pyemv.C11
open Pyemv Spec

/-- the 16-bit CVC3 value: last two bytes of TDES(IV ‖ UN ‖ ATC), IV = last two bytes of the
method-2-padded Algorithm 3 MAC of the track template -/
def cvc3Value (k track atc un : Bytes) : Nat :=
  fromBE (lastN 2 (tdesE k (lastN 2 (alg3 (k.take 8) (k.drop 8) (Spec.pad2 8 track)) ++ un ++ atc)))

theorem cvc3Value_lt (k track atc un : Bytes) : cvc3Value k track atc un < 65536 := by
  unfold cvc3Value
  have := fromBE_lt (lastN 2 (tdesE k (lastN 2 (alg3 (k.take 8) (k.drop 8) (Spec.pad2 8 track)) ++ un ++ atc)))
  have hl : (lastN 2 (tdesE k (lastN 2 (alg3 (k.take 8) (k.drop 8) (Spec.pad2 8 track)) ++ un ++ atc))).length = 2 := by
    simp [lastN, tdesE_length]
  rw [hl] at this; exact this

/-- for every 16-byte key, track template of any length, 2-byte ATC and 4-byte UN: exactly the five
decimal digits of that value, leading zeros included -/
theorem cvc3_eq_spec (k track atc un : Bytes) (hk : k.length = 16) (ha : atc.length = 2) (hu : un.length = 4) :
    generateCvc3 k track atc un = .ok (digits5 (cvc3Value k track atc un)) := by
  unfold generateCvc3
  simp only [hk, ha, hu, ne_eq, not_true_eq_false, if_false, bind, Except.bind, pure, Except.pure]
  rw [lastN_8_of_16 k hk, mac3_eq_alg3 _ _ _ 2 none (by simp [hk]) (by simp [hk]) (Or.inr rfl)]
  simp only [Option.getD_none, show ((2 : Int) = 1) = False by decide, if_false]
  rw [List.take_of_length_le (by rw [alg3_length]; exact Nat.le_refl 8)]
  have hl : (lastN 2 (alg3 (k.take 8) (k.drop 8) (Spec.pad2 8 track)) ++ un ++ atc).length = 8 := by
    simp [lastN, alg3_length, ha, hu]
  rw [encryptTdesEcb_16 k _ hk, ecbUpdate_one _ _ hl]
  show Except.ok (zfill 5 (pyStr (cvc3Value k track atc un))) = _
  rw [zfill5_pyStr _ (Nat.lt_trans (cvc3Value_lt k track atc un) (by decide))]

theorem cvc3_length_5 (v : Nat) : (digits5 v).length = 5 := rfl

theorem cvc3_all_digits (v : Nat) : ∀ c ∈ digits5 v, c.isDigit = true := by
  intro c hc
  simp only [digits5, List.mem_cons, List.mem_nil_iff, or_false] at hc
  rcases hc with rfl | rfl | rfl | rfl | rfl <;> exact (decDigit_facts _).2

/-- the string denotes the 16-bit value -/
theorem cvc3_value (k track atc un : Bytes) : decValue (digits5 (cvc3Value k track atc un)) = cvc3Value k track atc un :=
  decValue_digits5 _ (Nat.lt_trans (cvc3Value_lt k track atc un) (by decide))

/-- its `n` last characters are the `n` least significant decimal digits, so they can always be
compared with the `n` digits carried in the track data (`n ≤ 5`) -/
theorem last_n_digits (v : Nat) :
    lastN 1 (digits5 v) = [decDigit v] ∧
    lastN 2 (digits5 v) = [decDigit (v % 100 / 10), decDigit (v % 100)] ∧
    lastN 3 (digits5 v) = [decDigit (v % 1000 / 100), decDigit (v % 1000 / 10), decDigit (v % 1000)] ∧
    lastN 4 (digits5 v) = [decDigit (v % 10000 / 1000), decDigit (v % 10000 / 100), decDigit (v % 10000 / 10), decDigit (v % 10000)] := by
  have e : ∀ a b : Nat, a % 10 = b % 10 → decDigit a = decDigit b := by
    intro a b h; simp [decDigit, h]
  refine ⟨rfl, ?_, ?_, ?_⟩
  · simp only [lastN, digits5, List.length_cons, List.length_nil, List.drop_succ_cons, List.drop_zero]
    rw [e (v / 10) (v % 100 / 10) (by omega), e v (v % 100) (by omega)]
  · simp only [lastN, digits5, List.length_cons, List.length_nil, List.drop_succ_cons, List.drop_zero]
    rw [e (v / 100) (v % 1000 / 100) (by omega), e (v / 10) (v % 1000 / 10) (by omega), e v (v % 1000) (by omega)]
  · simp only [lastN, digits5, List.length_cons, List.length_nil, List.drop_succ_cons, List.drop_zero]
    rw [e (v / 1000) (v % 10000 / 1000) (by omega), e (v / 100) (v % 10000 / 100) (by omega),
      e (v / 10) (v % 10000 / 10) (by omega), e v (v % 10000) (by omega)]

/-- the pinned, pre-repair rendering `str(int(…))` produced fewer than five characters for small values
(witness: value 6531, the input recorded in DESIGN.md §8.1) -/
theorem cvc3_old_short : ∃ v, v < 65536 ∧ (cvc3RenderOld v).length < 5 := ⟨6531, by decide, by decide⟩

example : digits5 804 = ['0', '0', '8', '0', '4'] := by decide

end Pyemv.C11
