import PyemvProofs.Tdes
/-! # C07 — enciphered script data decrypts back to exactly the original data -/
namespace Pyemv.C07
open Pyemv Spec

/-! ### the documented plaintext frames and their inverses -/

/-- Visa: one length byte, the data, then method-2 padding -/
def visaFrame (d : Bytes) : Bytes := Spec.pad2 8 (UInt8.ofNat d.length :: d)
/-- EMV: the data with method-2 padding always applied -/
def emvFrame (d : Bytes) : Bytes := Spec.pad2 8 d
/-- MasterCard: method-2 padded only when the length is not a multiple of 8 -/
def mcFrame (d : Bytes) : Bytes := if d.length % 8 > 0 then Spec.pad2 8 d else d

def unframeVisa (f : Bytes) : Option Bytes :=
  match Spec.unpad2 f with
  | some (l :: d) => if l.toNat = d.length then some d else none
  | _ => none
def unframeEmv (f : Bytes) : Option Bytes := Spec.unpad2 f
/-- the receiver has to know whether the data was block aligned -/
def unframeMc (aligned : Bool) (f : Bytes) : Option Bytes := if aligned then some f else Spec.unpad2 f

theorem toBytesBE_1 (n : Nat) (h : n < 256) : toBytesBE 1 n = .ok [UInt8.ofNat n] := by
  unfold toBytesBE
  simp [h, toBE, Nat.mod_eq_of_lt h]

/-- Visa = TDES-ECB over the Visa frame (data of up to 255 bytes, what one length byte can express) -/
theorem enc_visa_eq (sk d : Bytes) (hsk : sk.length = 16) (hd : d.length ≤ 255) :
    encryptCommandData sk d .visa = .ok (ecbUpdate (tdesE sk) (visaFrame d)) := by
  unfold encryptCommandData
  simp only [hsk, ne_eq, not_true_eq_false, if_false, bind, Except.bind, toBytesBE_1 d.length (by omega),
    pad2_eq_spec 8 (by omega), encryptTdesEcb_16 sk _ hsk]
  rfl

/-- EMV = TDES-CBC with zero IV over the EMV frame -/
theorem enc_emv_eq (sk d : Bytes) (hsk : sk.length = 16) :
    encryptCommandData sk d .emv = .ok (cbcEncUpdate (tdesE sk) (zeros 8) (emvFrame d)).1 := by
  unfold encryptCommandData
  simp only [hsk, ne_eq, not_true_eq_false, if_false, bind, Except.bind, pad2_eq_spec 8 (by omega)]
  rw [encryptTdesCbc_16 sk _ _ hsk (zeros_length 8)]
  rfl

/-- MasterCard = TDES-CBC with zero IV over the MasterCard frame -/
theorem enc_mc_eq (sk d : Bytes) (hsk : sk.length = 16) :
    encryptCommandData sk d .mastercard = .ok (cbcEncUpdate (tdesE sk) (zeros 8) (mcFrame d)).1 := by
  unfold encryptCommandData mcFrame
  simp only [hsk, ne_eq, not_true_eq_false, if_false, bind, Except.bind]
  split
  · simp only [pad2_eq_spec 8 (by omega)]
    rw [encryptTdesCbc_16 sk _ _ hsk (zeros_length 8)]
  · rw [encryptTdesCbc_16 sk _ _ hsk (zeros_length 8)]

/-- an unknown scheme is refused with TypeError (after the key length gate) -/
theorem unknown_scheme_typeerror (sk d : Bytes) (hsk : sk.length = 16) :
    encryptCommandData sk d .other = .error .typeError := by
  unfold encryptCommandData
  simp [hsk, bind, Except.bind, throw, throwThe, MonadExceptOf.throw]

/-! ### decryption with the same key gives back the frame -/

theorem frame_lengths (d : Bytes) :
    (visaFrame d).length % 8 = 0 ∧ (emvFrame d).length % 8 = 0 ∧ (mcFrame d).length % 8 = 0 := by
  refine ⟨(Spec.pad2_length 8 (by omega) _).1, (Spec.pad2_length 8 (by omega) _).1, ?_⟩
  unfold mcFrame; split
  · exact (Spec.pad2_length 8 (by omega) _).1
  · omega

theorem ecb_decrypts (sk f : Bytes) (h : f.length % 8 = 0) :
    ecbUpdate (tdesD sk) (ecbUpdate (tdesE sk) f) = f :=
  ecbDec_ecb (fun b hb => tdesD_tdesE sk b hb) (tdesE_length sk) (f.length / 8) f (by omega)

theorem cbc_decrypts (sk f : Bytes) (h : f.length % 8 = 0) :
    (cbcDecUpdate (tdesD sk) (zeros 8) (cbcEncUpdate (tdesE sk) (zeros 8) f).1).1 = f :=
  cbcDec_cbcEnc (fun b hb => tdesD_tdesE sk b hb) (tdesE_length sk) (f.length / 8) (zeros 8) f (by simp [zeros]) (by omega)

/-! ### the data is recovered from the frame -/

theorem unframe_visa (d : Bytes) (hd : d.length ≤ 255) : unframeVisa (visaFrame d) = some d := by
  unfold unframeVisa visaFrame
  rw [Spec.unpad2_pad2]
  simp [UInt8.toNat_ofNat', Nat.mod_eq_of_lt (show d.length < 256 by omega)]

theorem unframe_emv (d : Bytes) : unframeEmv (emvFrame d) = some d := Spec.unpad2_pad2 8 d

/-- MasterCard, partial: recoverable when the receiver knows whether the data was block aligned (as a
card does for a fixed-format 8-byte PIN block) -/
theorem unframe_mc_partial (d : Bytes) : unframeMc (d.length % 8 == 0) (mcFrame d) = some d := by
  unfold unframeMc mcFrame
  by_cases h : d.length % 8 = 0
  · simp [h]
  · have : d.length % 8 > 0 := by omega
    simp [h, this, Spec.unpad2_pad2]

/-- MasterCard, negative: "recovered unambiguously" is false of the scheme as documented — two different
data strings have the same frame, hence the same ciphertext under every key (known finding, DESIGN §8.3) -/
theorem mc_frame_not_injective : ∃ d₁ d₂ : Bytes, d₁ ≠ d₂ ∧ mcFrame d₁ = mcFrame d₂ :=
  ⟨[1, 2, 3, 4, 5, 6, 7], [1, 2, 3, 4, 5, 6, 7, 0x80], by decide, by decide⟩

theorem mc_same_ciphertext (sk : Bytes) (hsk : sk.length = 16) :
    encryptCommandData sk [1, 2, 3, 4, 5, 6, 7] .mastercard = encryptCommandData sk [1, 2, 3, 4, 5, 6, 7, 0x80] .mastercard := by
  rw [enc_mc_eq sk _ hsk, enc_mc_eq sk _ hsk]
  have : mcFrame [1, 2, 3, 4, 5, 6, 7] = mcFrame [1, 2, 3, 4, 5, 6, 7, 0x80] := by decide
  rw [this]

/-- the ciphertext length is the smallest multiple of 8 that holds the frame -/
theorem ct_length (sk d : Bytes) :
    (ecbUpdate (tdesE sk) (visaFrame d)).length = 8 * ((d.length + 2 + 7) / 8) ∧
    (cbcEncUpdate (tdesE sk) (zeros 8) (emvFrame d)).1.length = 8 * ((d.length + 1 + 7) / 8) ∧
    (cbcEncUpdate (tdesE sk) (zeros 8) (mcFrame d)).1.length = 8 * ((d.length + 7) / 8) := by
  have hv : (visaFrame d).length = 8 * ((d.length + 2 + 7) / 8) := by
    have := (Spec.pad2_length 8 (by omega) (UInt8.ofNat d.length :: d)).1
    have hlt := Spec.fill_after_marker_lt 8 (by omega) (UInt8.ofNat d.length :: d).length
    simp only [visaFrame, Spec.pad2, zeros, List.length_append, List.length_cons, List.length_nil, List.length_replicate] at this hlt ⊢
    omega
  have he : (emvFrame d).length = 8 * ((d.length + 1 + 7) / 8) := by
    have := (Spec.pad2_length 8 (by omega) d).1
    have hlt := Spec.fill_after_marker_lt 8 (by omega) d.length
    simp only [emvFrame, Spec.pad2, zeros, List.length_append, List.length_cons, List.length_nil, List.length_replicate] at this hlt ⊢
    omega
  have hm : (mcFrame d).length = 8 * ((d.length + 7) / 8) := by
    unfold mcFrame; split
    · have := (Spec.pad2_length 8 (by omega) d).1
      have hlt := Spec.fill_after_marker_lt 8 (by omega) d.length
      simp only [Spec.pad2, zeros, List.length_append, List.length_cons, List.length_nil, List.length_replicate] at this hlt ⊢
      omega
    · omega
  exact ⟨by rw [ecbUpdate_length (tdesE_length sk) _ _ hv], by rw [cbcEncUpdate_length (tdesE_length sk) _ _ _ he],
    by rw [cbcEncUpdate_length (tdesE_length sk) _ _ _ hm]⟩

example : unframeVisa (visaFrame [0xAA, 0x80, 0x00]) = some [0xAA, 0x80, 0x00] := unframe_visa _ (by decide)

end Pyemv.C07
