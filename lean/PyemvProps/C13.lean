import PyemvProofs.Parity
import PyemvProps.C03
import PyemvProps.C05
import PyemvModel.Cvn
/-! # C13 — every derived key is a 16-byte odd-parity DES key, equal up to parity bits -/
namespace Pyemv.C13
open Pyemv Spec

/-- adjustment: odd parity in every byte, same length -/
theorem adjust_gives_odd_parity (k : Bytes) : (adjustKeyParity k).length = k.length ∧ OddBytes (adjustKeyParity k) :=
  ⟨adjust_length k, adjust_odd k⟩

/-- adjustment changes nothing but the least significant bit of a byte -/
theorem adjust_only_lsb (k : Bytes) (i : Nat) (hi : i < k.length) :
    (adjustKeyParity k)[i]'(by rw [adjust_length]; exact hi) = k[i] ∨
    (adjustKeyParity k)[i]'(by rw [adjust_length]; exact hi) = k[i] ^^^ 1 := Pyemv.adjust_only_lsb k i hi

theorem adjust_idempotent (k : Bytes) : adjustKeyParity (adjustKeyParity k) = adjustKeyParity k := Pyemv.adjust_idempotent k

/-- adjustment never alters what the key encrypts to: the TDES context, hence every ECB/CBC result, is
identical (PC-1 selects no parity bit), for 8-, 16- and 24-byte keys -/
theorem adjust_preserves_encryption (k iv d : Bytes) :
    tdesKeys (adjustKeyParity k) = tdesKeys k ∧ encryptTdesEcb (adjustKeyParity k) d = encryptTdesEcb k d ∧
    encryptTdesCbc (adjustKeyParity k) iv d = encryptTdesCbc k iv d := ⟨tdesKeys_adjust k, ecb_adjust k d, cbc_adjust k iv d⟩

theorem ecbUpdate_16 (f : Bytes → Bytes) (hf : ∀ b, (f b).length = 8) (d : Bytes) (hd : d.length = 16) :
    (ecbUpdate f d).length = 16 := ecbUpdate_length hf 2 d (by omega)

/-- whatever `encryptTdesEcb` returns on 16 bytes of input has 16 bytes (8-, 16- or 24-byte key) -/
theorem ecb16_length (key d c : Bytes) (hd : d.length = 16) (h : encryptTdesEcb key d = .ok c) : c.length = 16 := by
  unfold encryptTdesEcb at h
  cases hk : tdesKeys key with
  | error e => simp [hk, bind, Except.bind] at h
  | ok ks =>
    simp only [hk, bind, Except.bind, pure, Except.pure, Except.ok.injEq] at h
    rw [← h]; exact ecbUpdate_16 _ (encBlock_length ks) d hd

theorem common_sk_key (mk r k : Bytes) (h : deriveCommonSk mk r = .ok k) : OddParityKey k := by
  unfold deriveCommonSk at h
  by_cases h1 : mk.length = 16 <;> by_cases h2 : r.length = 8 <;>
    simp only [h1, h2, ne_eq, not_true_eq_false, not_false_eq_true, if_true, if_false, bind, Except.bind, pure, Except.pure, throw, throwThe, MonadExceptOf.throw] at h
  all_goals try (cases h; done)
  cases he : encryptTdesEcb mk (r.set 2 0xF0 ++ r.set 2 0x0F) with
  | error e => simp [he] at h
  | ok c =>
    simp only [he, Except.ok.injEq] at h
    rw [← h]
    exact adjust_key c (ecb16_length mk _ c (by simp [h2]) he)

theorem visa_sk_key (mk atc k : Bytes) (h : deriveVisaSmSk mk atc = .ok k) : OddParityKey k := by
  unfold deriveVisaSmSk at h
  by_cases h1 : mk.length = 16 <;> by_cases h2 : atc.length = 2 <;>
    simp only [h1, h2, ne_eq, not_true_eq_false, not_false_eq_true, if_true, if_false, bind, Except.bind, pure, Except.pure, throw, throwThe, MonadExceptOf.throw] at h
  all_goals try (cases h; done)
  simp only [Except.ok.injEq] at h
  rw [← h]
  exact adjust_key _ (by simp [xor_length, zeros, h2])

theorem a2bHex_length : ∀ (n : Nat) (s : PyStr) (b : Bytes), s.length ≤ n → a2bHex s = .ok b → 2 * b.length = s.length := by
  intro n
  induction n with
  | zero => intro s b hs h; have : s = [] := List.eq_nil_of_length_eq_zero (by omega); subst this; simp [a2bHex] at h; subst h; rfl
  | succ n ih =>
    intro s b hs h
    match s, h with
    | [], h => simp [a2bHex] at h; subst h; rfl
    | [_], h => simp [a2bHex] at h
    | x :: y :: rest, h =>
      simp only [a2bHex] at h
      cases hx : hexVal x with
      | none => simp [hx] at h
      | some a =>
        cases hy : hexVal y with
        | none => simp [hx, hy] at h
        | some c =>
          cases hr : a2bHex rest with
          | error e => simp [hx, hy, hr, bind, Except.bind] at h
          | ok r =>
            simp only [hx, hy, hr, bind, Except.bind, pure, Except.pure, Except.ok.injEq] at h
            subst h
            have := ih rest r (by simp at hs; omega) hr
            simp; omega

theorem keyFromData_key (issMk dataA k : Bytes) (hd : dataA.length = 8) (h : keyFromData issMk dataA = .ok k) :
    OddParityKey k := by
  unfold keyFromData at h
  cases he : encryptTdesEcb issMk (dataA ++ xor dataA (List.replicate dataA.length 0xFF)) with
  | error e => simp [he, bind, Except.bind] at h
  | ok c =>
    simp only [he, bind, Except.bind, pure, Except.pure, Except.ok.injEq] at h
    rw [← h]
    exact adjust_key c (ecb16_length issMk _ c (by simp [xor_length, hd]) he)

/-- option A: whatever is returned is a 16-byte odd-parity key (any issuer key size the cipher accepts,
any PAN/PSN text the packing accepts) -/
theorem mk_a_key (issMk : Bytes) (pan : StrOrBytes) (psn : Option StrOrBytes) (k : Bytes)
    (h : deriveIccMkA issMk pan psn = .ok k) : OddParityKey k := by
  unfold deriveIccMkA at h
  cases h1 : psnTextR psn with
  | error e => simp [h1, bind, Except.bind] at h
  | ok ps =>
    cases h2 : pan.text with
    | error e => simp [h1, h2, bind, Except.bind] at h
    | ok pt =>
      cases h3 : a2bHex (zfill 16 (lastN 16 (pt ++ ps))) with
      | error e => simp [h1, h2, h3, bind, Except.bind] at h
      | ok dataA =>
        simp only [h1, h2, h3, bind, Except.bind] at h
        have hl := a2bHex_length _ _ dataA (Nat.le_refl _) h3
        rw [C03.zfill16_length _ (C03.lastN_length_le 16 _)] at hl
        exact keyFromData_key issMk dataA k (by omega) h

/-- option B: likewise -/
theorem mk_b_key (issMk : Bytes) (pan : StrOrBytes) (psn : Option StrOrBytes) (k : Bytes)
    (h : deriveIccMkB issMk pan psn = .ok k) : OddParityKey k := by
  unfold deriveIccMkB at h
  split at h
  · exact mk_a_key issMk pan psn k h
  · cases h1 : psnTextR psn with
    | error e => simp [h1, bind, Except.bind] at h
    | ok ps =>
      cases h2 : pan.text with
      | error e => simp [h1, h2, bind, Except.bind] at h
      | ok pt =>
        cases h3 : bcdPanPsn pt ps with
        | error e => simp [h1, h2, h3, bind, Except.bind] at h
        | ok hashed =>
          cases h4 : a2bHex (selectDigits (sha1Hex hashed)) with
          | error e => simp [h1, h2, h3, h4, bind, Except.bind] at h
          | ok dataA =>
            simp only [h1, h2, h3, h4, bind, Except.bind] at h
            have hl := a2bHex_length _ _ dataA (Nat.le_refl _) h4
            have hdl : 16 ≤ (sha1Hex hashed).length := by
              unfold sha1Hex; rw [C03.hexLower_length, Sha1.sha1_length]; omega
            have hf := (C03.decimalise16_facts (sha1Hex hashed) (by unfold sha1Hex; exact C03.hexLower_chars _) hdl).1
            rw [C03.code_selection_eq, hf] at hl
            exact keyFromData_key issMk dataA k (by omega) h

theorem IK_length (b : Nat) (mk iv : Bytes) (hmk : mk.length = 16) : ∀ i j, (Tree.IK phi b mk iv i j).length = 16 := by
  intro i j
  cases i with
  | zero => exact hmk
  | succ i => unfold Tree.IK Tree.derive; exact phi_length _ _ _

/-- the tree session key: whatever is returned is a 16-byte odd-parity key -/
theorem tree_sk_key (mk atc iv : Bytes) (h b : Nat) (k : Bytes) (hk : deriveEmv2000TreeSk mk atc h b iv = .ok k) :
    OddParityKey k := by
  have hrej : (mk.length ≠ 16 ∨ atc.length ≠ 2 ∨ iv.length ≠ 16) → deriveEmv2000TreeSk mk atc h b iv = .error .valueError := by
    intro hbad
    unfold deriveEmv2000TreeSk
    by_cases a1 : mk.length = 16 <;> by_cases a2 : atc.length = 2 <;> by_cases a3 : iv.length = 16 <;>
      simp_all [bind, Except.bind, throw, throwThe, MonadExceptOf.throw]
  by_cases hbad : mk.length ≠ 16 ∨ atc.length ≠ 2 ∨ iv.length ≠ 16
  · rw [hrej hbad] at hk; cases hk
  have h1 : mk.length = 16 := by apply Classical.byContradiction; intro c; exact hbad (Or.inl c)
  have h2 : atc.length = 2 := by apply Classical.byContradiction; intro c; exact hbad (Or.inr (Or.inl c))
  have h3 : iv.length = 16 := by apply Classical.byContradiction; intro c; exact hbad (Or.inr (Or.inr c))
  by_cases hg : b ^ h ≤ 65535
  · rw [C05.gate_rejects mk atc iv b h h1 h2 h3 hg] at hk; cases hk
  · have hb : 0 < b := by
      apply Nat.pos_of_ne_zero; intro hb0; subst hb0
      cases h with
      | zero => simp at hg
      | succ n => simp at hg
    cases h with
    | zero => simp at hg
    | succ H =>
      rw [C05.tree_sk_eq_spec mk atc iv b H h1 h2 h3 hb (by omega)] at hk
      cases hk
      apply adjust_key
      unfold Tree.skSpec
      have l1 := IK_length b mk iv h1 (H + 1) (fromBE atc)
      have l2 : (Tree.GP phi b mk iv H (fromBE atc)).length = 16 := by
        unfold Tree.GP; cases H with
        | zero => exact h3
        | succ H' => exact IK_length b mk iv h1 _ _
      rw [xorB_length _ _ (by rw [l1, l2]), l1]

/-- the three keys stored on every cryptogram-version object are 16-byte odd-parity keys -/
theorem ctor_keys (p : Cvn.Profile) (k1 k2 k3 : Bytes) (pan : StrOrBytes) (psn : Option StrOrBytes) (card : Cvn.Card)
    (h : Cvn.new p k1 k2 k3 pan psn = .ok card) :
    OddParityKey card.ac ∧ OddParityKey card.smi ∧ OddParityKey card.smc := by
  unfold Cvn.new at h
  have key : ∀ (der : Bytes → StrOrBytes → Option StrOrBytes → R Bytes),
      (∀ a b c k, der a b c = .ok k → OddParityKey k) →
      (do let a ← der k1 pan (some (Cvn.psnOr00 psn)); let i ← der k2 pan (some (Cvn.psnOr00 psn));
          let c ← der k3 pan (some (Cvn.psnOr00 psn)); pure (⟨a, i, c⟩ : Cvn.Card)) = .ok card →
      OddParityKey card.ac ∧ OddParityKey card.smi ∧ OddParityKey card.smc := by
    intro der hder hh
    cases ha : der k1 pan (some (Cvn.psnOr00 psn)) with
    | error e => simp [ha, bind, Except.bind] at hh
    | ok a =>
      cases hi : der k2 pan (some (Cvn.psnOr00 psn)) with
      | error e => simp [ha, hi, bind, Except.bind] at hh
      | ok i =>
        cases hc : der k3 pan (some (Cvn.psnOr00 psn)) with
        | error e => simp [ha, hi, hc, bind, Except.bind] at hh
        | ok c =>
          simp only [ha, hi, hc, bind, Except.bind, pure, Except.pure, Except.ok.injEq] at hh
          subst hh
          exact ⟨hder _ _ _ _ ha, hder _ _ _ _ hi, hder _ _ _ _ hc⟩
  cases hm : p.mkOpt with
  | a => rw [hm] at h; exact key deriveIccMkA (fun a b c k => mk_a_key a b c k) h
  | b => rw [hm] at h; exact key deriveIccMkB (fun a b c k => mk_b_key a b c k) h

example : OddParityKey (adjustKeyParity (List.replicate 16 0xFF)) := adjust_key _ (by simp)
example : adjustKeyParity [0xFF, 0x00, 0xFE] = [0xFE, 0x01, 0xFE] := by decide

end Pyemv.C13
