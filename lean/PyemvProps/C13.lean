import PyemvProofs.Parity
/-! # C13 — every derived key is a 16-byte odd-parity DES key, equal up to parity bits -/
namespace Pyemv.C13
open Pyemv Spec

/-- adjustment: odd parity in every byte, same length -/
theorem adjust_gives_odd_parity (k : Bytes) : (adjustKeyParity k).length = k.length ∧ OddBytes (adjustKeyParity k) :=
  ⟨adjust_length k, adjust_odd k⟩

/-- adjustment changes nothing but the least significant bit of a byte -/
theorem adjust_only_lsb (k : Bytes) (i : Nat) (hi : i < k.length) :
    (adjustKeyParity k)[i]'(by rw [adjust_length]; exact hi) = k[i] ∨
    (adjustKeyParity k)[i]'(by rw [adjust_length]; exact hi) = k[i] ^^^ 1 := Pyemv.adjust_only_lsb k i hi

theorem adjust_idempotent (k : Bytes) : adjustKeyParity (adjustKeyParity k) = adjustKeyParity k := Pyemv.adjust_idempotent k

/-- adjustment never alters what the key encrypts to: the TDES context, hence every ECB/CBC result, is
identical (PC-1 selects no parity bit), for 8-, 16- and 24-byte keys -/
theorem adjust_preserves_encryption (k iv d : Bytes) :
    tdesKeys (adjustKeyParity k) = tdesKeys k ∧ encryptTdesEcb (adjustKeyParity k) d = encryptTdesEcb k d ∧
    encryptTdesCbc (adjustKeyParity k) iv d = encryptTdesCbc k iv d := ⟨tdesKeys_adjust k, ecb_adjust k d, cbc_adjust k iv d⟩

theorem ecbUpdate_16 (f : Bytes → Bytes) (hf : ∀ b, (f b).length = 8) (d : Bytes) (hd : d.length = 16) :
    (ecbUpdate f d).length = 16 := ecbUpdate_length hf 2 d (by omega)

/-- whatever `encryptTdesEcb` returns on 16 bytes of input has 16 bytes (8-, 16- or 24-byte key) -/
theorem ecb16_length (key d c : Bytes) (hd : d.length = 16) (h : encryptTdesEcb key d = .ok c) : c.length = 16 := by
  unfold encryptTdesEcb at h
  cases hk : tdesKeys key with
  | error e => simp [hk, bind, Except.bind] at h
  | ok ks =>
    simp only [hk, bind, Except.bind, pure, Except.pure, Except.ok.injEq] at h
    rw [← h]; exact ecbUpdate_16 _ (encBlock_length ks) d hd

theorem common_sk_key (mk r k : Bytes) (h : deriveCommonSk mk r = .ok k) : OddParityKey k := by
  unfold deriveCommonSk at h
  by_cases h1 : mk.length = 16 <;> by_cases h2 : r.length = 8 <;>
    simp only [h1, h2, ne_eq, not_true_eq_false, not_false_eq_true, if_true, if_false, bind, Except.bind, pure, Except.pure, throw, throwThe, MonadExceptOf.throw] at h
  all_goals try (cases h; done)
  cases he : encryptTdesEcb mk (r.set 2 0xF0 ++ r.set 2 0x0F) with
  | error e => simp [he] at h
  | ok c =>
    simp only [he, Except.ok.injEq] at h
    rw [← h]
    exact adjust_key c (ecb16_length mk _ c (by simp [h2]) he)

theorem visa_sk_key (mk atc k : Bytes) (h : deriveVisaSmSk mk atc = .ok k) : OddParityKey k := by
  unfold deriveVisaSmSk at h
  by_cases h1 : mk.length = 16 <;> by_cases h2 : atc.length = 2 <;>
    simp only [h1, h2, ne_eq, not_true_eq_false, not_false_eq_true, if_true, if_false, bind, Except.bind, pure, Except.pure, throw, throwThe, MonadExceptOf.throw] at h
  all_goals try (cases h; done)
  simp only [Except.ok.injEq] at h
  rw [← h]
  exact adjust_key _ (by simp [xor_length, zeros, h2])

example : OddParityKey (adjustKeyParity (List.replicate 16 0xFF)) := adjust_key _ (by simp)
example : adjustKeyParity [0xFF, 0x00, 0xFE] = [0xFE, 0x01, 0xFE] := by decide

end Pyemv.C13
