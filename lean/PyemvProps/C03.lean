import PyemvProofs.Hex
import PyemvProofs.Parity
/-!
# C03 — ICC master keys are derived per EMV Book 2 Annex A1.4 options A and B

BCD packing is stated through its inverse rendering: `Y` is *the* 8-byte string whose hex digits are the
16 decimal digits in question (`hexUpper Y = digits`).
-/
namespace Pyemv.C03
open Pyemv Spec

/-- a 2-digit PAN sequence number, or absent (meaning "00") -/
def ValidPsn : Option PyStr → Prop
  | none => True
  | some s => s.length = 2 ∧ IsDigits s

def psnText (psn : Option PyStr) : PyStr := psn.getD ['0', '0']

theorem psnText_digits (psn : Option PyStr) (h : ValidPsn psn) : IsDigits (psnText psn) ∧ (psnText psn).length = 2 := by
  cases psn with
  | none => exact ⟨by intro c hc; simp [psnText] at hc; rcases hc with rfl | rfl <;> decide, rfl⟩
  | some s => exact ⟨h.2, h.1⟩

/-- bytewise complement -/
def complement (y : Bytes) : Bytes := y.map (· ^^^ 0xFF)

theorem xor_FF (y : Bytes) : xor y (List.replicate y.length 0xFF) = complement y := by
  rw [xor_eq_xorB _ _ (by simp)]
  unfold xorB complement
  induction y with
  | nil => rfl
  | cons b bs ih => simp only [List.length_cons, List.replicate_succ, List.zipWith_cons_cons, List.map_cons, ih]

theorem isDigits_append {s t : PyStr} (hs : IsDigits s) (ht : IsDigits t) : IsDigits (s ++ t) := by
  intro c hc; rcases List.mem_append.mp hc with h | h
  · exact hs c h
  · exact ht c h

theorem isDigits_lastN {s : PyStr} (n : Nat) (h : IsDigits s) : IsDigits (lastN n s) :=
  fun c hc => h c (List.mem_of_mem_drop hc)

theorem isDigits_zfill {s : PyStr} (n : Nat) (h : IsDigits s) : IsDigits (zfill n s) := by
  intro c hc
  simp only [zfill, List.mem_append] at hc
  rcases hc with h0 | h1
  · rw [List.eq_of_mem_replicate h0]; decide
  · exact h c h1

theorem zfill16_length (s : PyStr) (h : s.length ≤ 16) : (zfill 16 s).length = 16 := by
  simp [zfill]; omega

theorem lastN_length_le {α} (n : Nat) (l : List α) : (lastN n l).length ≤ n := by
  simp [lastN]; omega

/-- the final step shared by both options: TDES(Y) ‖ TDES(NOT Y) with odd parity forced -/
def keyFromY (issMk y : Bytes) : Bytes := adjustKeyParity (tdesE issMk y ++ tdesE issMk (complement y))

theorem finish (issMk y : Bytes) (hk : issMk.length = 16) (hy : y.length = 8) :
    keyFromData issMk y = .ok (keyFromY issMk y) := by
  have hc : (complement y).length = 8 := by simp [complement, hy]
  unfold keyFromData
  simp only [xor_FF, bind, Except.bind]
  rw [ecb_two_blocks issMk y _ hk hy hc]
  rfl

/-- **Option A**: `Y` = the 16 rightmost digits of PAN ‖ PSN, zero-filled on the left, packed as BCD;
key = TDES(Y) ‖ TDES(NOT Y), odd parity forced -/
theorem mk_a_eq_spec (issMk : Bytes) (pan : PyStr) (psn : Option PyStr) (hk : issMk.length = 16)
    (hp : IsDigits pan) (hs : ValidPsn psn) :
    ∃ y, y.length = 8 ∧ hexUpper y = zfill 16 (lastN 16 (pan ++ psnText psn)) ∧
      deriveIccMkA issMk (.str pan) (psn.map .str) = .ok (keyFromY issMk y) := by
  obtain ⟨hd, _⟩ := psnText_digits psn hs
  have hdig : IsDigits (zfill 16 (lastN 16 (pan ++ psnText psn))) := isDigits_zfill 16 (isDigits_lastN 16 (isDigits_append hp hd))
  obtain ⟨y, he, hl, hx⟩ := a2bHex_upperHex 8 _ (zfill16_length _ (lastN_length_le 16 _)) hdig.upperHex
  refine ⟨y, hl, hx, ?_⟩
  have ht : psnTextR (psn.map StrOrBytes.str) = .ok (psnText psn) := by
    cases psn <;> rfl
  have hpt : (StrOrBytes.str pan).text = .ok pan := rfl
  unfold deriveIccMkA
  simp only [ht, hpt, bind, Except.bind, he]
  exact finish issMk y hk hl

/-- Option B equals option A for PANs of up to 16 digits -/
theorem mk_b_eq_a_of_le_16 (issMk : Bytes) (pan : StrOrBytes) (psn : Option StrOrBytes) (h : pan.len ≤ 16) :
    deriveIccMkB issMk pan psn = deriveIccMkA issMk pan psn := by
  unfold deriveIccMkB; simp [h]

/-! ### decimalisation of the SHA-1 digest -/

def lowerHexChars : List Char := "0123456789abcdef".toList

theorem lowerHex_table : ∀ n : Fin 16, hexDigitLower n.val ∈ lowerHexChars := by decide

theorem lowerHex_class : ∀ c ∈ lowerHexChars, (isDec c = true ∧ isLet c = false ∧ c ∈ digitChars) ∨
    (isDec c = false ∧ isLet c = true ∧ Char.ofNat (c.toNat - 97 + 48) ∈ digitChars) := by decide

theorem hexLower_chars (bs : Bytes) : ∀ c ∈ hexLower bs, c ∈ lowerHexChars := by
  intro c hc
  simp only [hexLower, List.mem_flatMap] at hc
  obtain ⟨b, _, hb⟩ := hc
  simp only [List.mem_cons, List.mem_nil_iff, or_false] at hb
  rcases hb with rfl | rfl
  · exact lowerHex_table ⟨b.toNat / 16, by have := b.toNat_lt; omega⟩
  · exact lowerHex_table ⟨b.toNat % 16, by omega⟩

theorem hexLower_length (bs : Bytes) : (hexLower bs).length = 2 * bs.length := by
  induction bs with
  | nil => rfl
  | cons x xs ih => simp only [hexLower, List.flatMap_cons, List.length_append, List.length_cons, List.length_nil] at ih ⊢; omega

/-- every character of a lower-case hex string is a decimal or one of a..f, never both -/
theorem filter_partition (s : PyStr) (h : ∀ c ∈ s, c ∈ lowerHexChars) :
    (s.filter isDec).length + (s.filter isLet).length = s.length := by
  induction s with
  | nil => rfl
  | cons c cs ih =>
    have := ih (fun x hx => h x (by simp [hx]))
    rcases lowerHex_class c (h c (by simp)) with ⟨a, b, _⟩ | ⟨a, b, _⟩ <;> simp [List.filter_cons, a, b] <;> omega

/-- the 16 digits of option B: the decimal digits of the digest in order, topped up when fewer than 16
exist with the letters in order mapped a..f → 0..5 -/
def decimalise16 (digest : PyStr) : PyStr := ((digest.filter isDec) ++ decimalise (digest.filter isLet)).take 16

theorem decimalise_digits (s : PyStr) (h : ∀ c ∈ s, c ∈ lowerHexChars) : IsDigits (decimalise (s.filter isLet)) := by
  intro c hc
  simp only [decimalise, List.mem_map, List.mem_filter] at hc
  obtain ⟨x, ⟨hx, hl⟩, rfl⟩ := hc
  rcases lowerHex_class x (h x hx) with ⟨_, b, _⟩ | ⟨_, _, d⟩
  · rw [hl] at b; cases b
  · exact d

theorem filter_dec_digits (s : PyStr) (h : ∀ c ∈ s, c ∈ lowerHexChars) : IsDigits (s.filter isDec) := by
  intro c hc
  simp only [List.mem_filter] at hc
  rcases lowerHex_class c (h c hc.1) with ⟨_, _, d⟩ | ⟨a, _, _⟩
  · exact d
  · rw [hc.2] at a; cases a

theorem decimalise16_facts (digest : PyStr) (h : ∀ c ∈ digest, c ∈ lowerHexChars) (hl : 16 ≤ digest.length) :
    (decimalise16 digest).length = 16 ∧ IsDigits (decimalise16 digest) := by
  have hp := filter_partition digest h
  constructor
  · simp only [decimalise16, List.length_take, List.length_append, decimalise, List.length_map]; omega
  · intro c hc
    have := List.mem_of_mem_take hc
    rcases List.mem_append.mp this with a | a
    · exact filter_dec_digits digest h c a
    · exact decimalise_digits digest h c a

/-- the code's two-step selection is the one-line spec -/
theorem code_selection_eq (digest : PyStr) : selectDigits digest = decimalise16 digest := by
  simp only [decimalise16, selectDigits]
  by_cases h : (digest.filter isDec).length < 16
  · have h1 : (digest.filter isDec).take 16 = digest.filter isDec := List.take_of_length_le (by omega)
    simp only [h1, h, if_true]
    rw [List.take_append, List.take_of_length_le (by omega : (digest.filter isDec).length ≤ 16)]
    simp [decimalise, List.map_take]
  · have : ¬ ((digest.filter isDec).take 16).length < 16 := by simp; omega
    simp only [this, if_false]
    rw [List.take_append]
    have : 16 - (digest.filter isDec).length = 0 := by omega
    simp [this]

/-- what is hashed: PAN ‖ PSN as BCD, left-padded with one zero nibble to whole bytes -/
def evenPad (s : PyStr) : PyStr := if s.length % 2 = 1 then '0' :: s else s

/-- **Option B** for PANs longer than 16 digits: `Y` = the first 16 decimal digits of SHA-1 over
PAN ‖ PSN (as BCD, left-padded to whole bytes), topped up from the letters -/
theorem mk_b_eq_spec_of_gt_16 (issMk : Bytes) (pan : PyStr) (psn : Option PyStr) (hk : issMk.length = 16)
    (hp : IsDigits pan) (hs : ValidPsn psn) (hlen : 16 < pan.length) :
    ∃ hashed y, hexUpper hashed = evenPad (pan ++ psnText psn) ∧ y.length = 8 ∧
      hexUpper y = decimalise16 (sha1Hex hashed) ∧
      deriveIccMkB issMk (.str pan) (psn.map .str) = .ok (keyFromY issMk y) := by
  obtain ⟨hd, hl2⟩ := psnText_digits psn hs
  have hall : IsDigits (pan ++ psnText psn) := isDigits_append hp hd
  have hev : IsUpperHex (evenPad (pan ++ psnText psn)) := by
    unfold evenPad; split
    · intro c hc; rcases List.mem_cons.mp hc with rfl | h
      · decide
      · exact hall.upperHex c h
    · exact hall.upperHex
  have hevl : (evenPad (pan ++ psnText psn)).length = 2 * ((evenPad (pan ++ psnText psn)).length / 2) := by
    unfold evenPad; split <;> simp only [List.length_cons, List.length_append] at * <;> omega
  obtain ⟨hashed, he, _, hx⟩ := a2bHex_upperHex _ _ hevl hev
  have hdig := hexLower_chars (Sha1.sha1 hashed)
  have hdl : 16 ≤ (sha1Hex hashed).length := by
    unfold sha1Hex; rw [hexLower_length, Sha1.sha1_length]; omega
  obtain ⟨l16, d16⟩ := decimalise16_facts (sha1Hex hashed) hdig hdl
  obtain ⟨y, hey, hyl, hyx⟩ := a2bHex_upperHex 8 _ l16 d16.upperHex
  refine ⟨hashed, y, hx, hyl, hyx, ?_⟩
  have ht : psnTextR (psn.map StrOrBytes.str) = .ok (psnText psn) := by
    cases psn <;> rfl
  have hpt : (StrOrBytes.str pan).text = .ok pan := rfl
  have hnot : ¬ (StrOrBytes.str pan).len ≤ 16 := by simp [StrOrBytes.len]; omega
  have hpp : bcdPanPsn pan (psnText psn) = .ok hashed := by
    unfold bcdPanPsn
    have hodd : (pan ++ psnText psn).length % 2 = pan.length % 2 := by simp [hl2]
    unfold evenPad at he
    rw [hodd] at he
    split
    · rename_i h; simp only [h, if_true] at he; exact he
    · rename_i h; simp only [h, if_false] at he; exact he
  unfold deriveIccMkB
  simp only [hnot, if_false, ht, hpt, bind, Except.bind, hpp, code_selection_eq, hey]
  exact finish issMk y hk hyl

example : decimalise ['a', 'f', 'c'] = ['0', '5', '2'] := by decide
example : decimalise16 ("e0e1aa5d".toList ++ List.replicate 32 '7') = "0157777777777777".toList := by decide

end Pyemv.C03
