import PyemvProofs.Hex
import PyemvModel.Cvn
/-!
# C16 — text and byte forms of PAN, PSN and PIN give identical results

`SameText a b`: two arguments that have the same `len()` and decode to the same text.  A digit string
and its ASCII bytes are such a pair; every function that takes a PAN, PSN, PIN or current PIN is shown
to depend on the argument only through those two observations.
-/
namespace Pyemv.C16
open Pyemv

def SameText (a b : StrOrBytes) : Prop := a.len = b.len ∧ a.text = b.text

/-- a string of decimal digits and the ASCII bytes of the same digits -/
theorem sameText_of_digits (s : PyStr) (h : IsDigits s) : SameText (.str s) (.bytes (asciiBytes s)) :=
  ⟨by simp [StrOrBytes.len, asciiBytes_length], by rw [text_bytes_of_digits s h]; rfl⟩

theorem sameText_refl (a : StrOrBytes) : SameText a a := ⟨rfl, rfl⟩
theorem sameText_symm {a b : StrOrBytes} (h : SameText a b) : SameText b a := ⟨h.1.symm, h.2.symm⟩

def SameTextOpt : Option StrOrBytes → Option StrOrBytes → Prop
  | none, none => True
  | some a, some b => SameText a b
  | _, _ => False

theorem iso2_forms (a b : StrOrBytes) (h : SameText a b) : formatIso2PinBlock a = formatIso2PinBlock b := by
  unfold formatIso2PinBlock; rw [h.1, h.2]

theorem vis_forms (mk : Bytes) (a b : StrOrBytes) (c d : Option StrOrBytes) (h : SameText a b) (hc : SameTextOpt c d) :
    formatVisPinBlock mk a c = formatVisPinBlock mk b d := by
  unfold formatVisPinBlock
  rw [h.1, h.2]
  match c, d, hc with
  | none, none, _ => rfl
  | some x, some y, hxy => simp only [hxy.2]

theorem psnTextR_forms (c d : Option StrOrBytes) (hc : SameTextOpt c d) : psnTextR c = psnTextR d := by
  match c, d, hc with
  | none, none, _ => rfl
  | some x, some y, hxy => simp only [psnTextR, Option.getD_some, hxy.2]

theorem mk_a_forms (k : Bytes) (a b : StrOrBytes) (c d : Option StrOrBytes) (h : SameText a b) (hc : SameTextOpt c d) :
    deriveIccMkA k a c = deriveIccMkA k b d := by
  unfold deriveIccMkA
  rw [h.2, psnTextR_forms c d hc]

theorem mk_b_forms (k : Bytes) (a b : StrOrBytes) (c d : Option StrOrBytes) (h : SameText a b) (hc : SameTextOpt c d) :
    deriveIccMkB k a c = deriveIccMkB k b d := by
  unfold deriveIccMkB
  rw [h.1, h.2, mk_a_forms k a b c d h hc, psnTextR_forms c d hc]

/-- the constructor default: an absent *or empty* PSN means "00", in either form -/
theorem psnOr00_forms (s : PyStr) (h : IsDigits s) :
    SameText (Cvn.psnOr00 (some (.str s))) (Cvn.psnOr00 (some (.bytes (asciiBytes s)))) := by
  unfold Cvn.psnOr00 StrOrBytes.truthy
  cases s with
  | nil => exact sameText_refl _
  | cons c cs => simpa [asciiBytes] using sameText_of_digits (c :: cs) h

theorem ctor_forms (p : Cvn.Profile) (k1 k2 k3 : Bytes) (a b : StrOrBytes) (c d : Option StrOrBytes)
    (h : SameText a b) (hc : SameText (Cvn.psnOr00 c) (Cvn.psnOr00 d)) :
    Cvn.new p k1 k2 k3 a c = Cvn.new p k1 k2 k3 b d := by
  unfold Cvn.new
  cases p.mkOpt with
  | a => simp only [mk_a_forms _ a b _ _ h (show SameTextOpt (some _) (some _) from hc)]
  | b => simp only [mk_b_forms _ a b _ _ h (show SameTextOpt (some _) (some _) from hc)]

/-- all eight constructors, every str/bytes assignment to (pan, psn), including absent and empty PSN -/
theorem ctor_forms_digits (p : Cvn.Profile) (k1 k2 k3 : Bytes) (pan : PyStr) (psn : Option PyStr)
    (hp : IsDigits pan) (hs : ∀ s, psn = some s → IsDigits s) :
    let r := Cvn.new p k1 k2 k3 (.str pan) (psn.map .str)
    Cvn.new p k1 k2 k3 (.bytes (asciiBytes pan)) (psn.map .str) = r ∧
    Cvn.new p k1 k2 k3 (.str pan) (psn.map fun s => .bytes (asciiBytes s)) = r ∧
    Cvn.new p k1 k2 k3 (.bytes (asciiBytes pan)) (psn.map fun s => .bytes (asciiBytes s)) = r := by
  intro r
  have hpan := sameText_of_digits pan hp
  have hpsn : SameText (Cvn.psnOr00 (psn.map .str)) (Cvn.psnOr00 (psn.map fun s => .bytes (asciiBytes s))) := by
    cases psn with
    | none => exact sameText_refl _
    | some s => exact psnOr00_forms s (hs s rfl)
  exact ⟨(ctor_forms p k1 k2 k3 _ _ _ _ hpan (sameText_refl _)).symm,
    (ctor_forms p k1 k2 k3 _ _ _ _ (sameText_refl _) hpsn).symm,
    (ctor_forms p k1 k2 k3 _ _ _ _ hpan hpsn).symm⟩

theorem pin_block_forms (p : Cvn.Profile) (card : Cvn.Card) (a b : StrOrBytes) (c d : Option StrOrBytes)
    (h : SameText a b) (hc : SameTextOpt c d) : Cvn.pinBlock p card a c = Cvn.pinBlock p card b d := by
  unfold Cvn.pinBlock
  match c, d, hc with
  | none, none, _ =>
    cases p.pin <;> simp only [iso2_forms a b h, vis_forms card.ac a b none none h trivial]
  | some x, some y, hxy =>
    cases p.pin <;> simp only [iso2_forms a b h, vis_forms card.ac a b (some x) (some y) h hxy]

/-- every PIN-change method, every str/bytes assignment to (pin, current pin) -/
theorem pin_change_forms (p : Cvn.Profile) (card : Cvn.Card) (a b : StrOrBytes) (c d : Option StrOrBytes)
    (arqc atc : Bytes) (h : SameText a b) (hc : SameTextOpt c d) :
    Cvn.pinChange p card a arqc atc c = Cvn.pinChange p card b arqc atc d := by
  unfold Cvn.pinChange
  rw [pin_block_forms p card a b c d h hc]
  have : Cvn.pinHeader p c = Cvn.pinHeader p d := by
    unfold Cvn.pinHeader
    match c, d, hc with
    | none, none, _ => rfl
    | some x, some y, _ => cases p.hdr <;> rfl
  rw [this]

example : SameText (.str ['1', '2']) (.bytes [0x31, 0x32]) := ⟨rfl, rfl⟩

end Pyemv.C16
