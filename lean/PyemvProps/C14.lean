import PyemvModel
/-!
# C14 — results depend only on the call's arguments: no hidden state, no mutation

The API as a state machine.  State = the set of live cryptogram-version objects, each holding the three
ICC master keys computed by its constructor; there is no module state.  `step` executes one call.
The theorems say that every output is a pure function of (constructor arguments, call arguments),
whatever history precedes it, and that no method changes a stored key.

These are *easy* because the model is pure by construction: the content of C14 lies in the tie — the
harness replays call histories (in order, permuted, from concurrent threads, with argument snapshots)
against the real code and compares every result with `outOf`, the model's value for that call alone.
Thread interleavings and hidden interpreter state cannot be exhibited in Lean (labelled partial).
-/
namespace Pyemv.C14
open Pyemv

/-- module-level functions of the public API -/
inductive FnCall where
  | generateAc (sk d : Bytes) (pt : Option PaddingType) (l : Option Nat)
  | arpc1 (sk arqc rc : Bytes)
  | arpc2 (sk arqc csu : Bytes) (pad : Option Bytes)
  | mkA (k : Bytes) (pan : StrOrBytes) (psn : Option StrOrBytes)
  | mkB (k : Bytes) (pan : StrOrBytes) (psn : Option StrOrBytes)
  | commonSk (mk r : Bytes)
  | visaSk (mk atc : Bytes)
  | treeSk (mk atc : Bytes) (h b : Nat) (iv : Bytes)
  | commandMac (sk c : Bytes) (l : Option Nat)
  | encrypt (sk d : Bytes) (t : EncryptionType)
  | visPin (mk : Bytes) (p : StrOrBytes) (c : Option StrOrBytes)
  | iso2Pin (p : StrOrBytes)
  | cvc3 (k t atc un : Bytes)
  | mac3 (k1 k2 d : Bytes) (pm : Int) (l : Option Nat)
  | ecb (k d : Bytes)
  | cbc (k iv d : Bytes)
  | decode (fl si : Bool) (d : Bytes)
  | encode (si : Bool) (t : List (PyStr × Tlv.PyVal))

inductive Out where
  | bytes (r : R Bytes)
  | text (r : R PyStr)
  | dec (r : Tlv.Res)
  | enc (r : Except Tlv.EErr Bytes)
  | card (r : R Cvn.Card)
  | noObject

def FnCall.eval : FnCall → Out
  | .generateAc sk d pt l => .bytes (Pyemv.generateAc sk d pt l)
  | .arpc1 sk q rc => .bytes (generateArpc1 sk q rc)
  | .arpc2 sk q csu p => .bytes (generateArpc2 sk q csu p)
  | .mkA k pan psn => .bytes (deriveIccMkA k pan psn)
  | .mkB k pan psn => .bytes (deriveIccMkB k pan psn)
  | .commonSk mk r => .bytes (deriveCommonSk mk r)
  | .visaSk mk a => .bytes (deriveVisaSmSk mk a)
  | .treeSk mk a h b iv => .bytes (deriveEmv2000TreeSk mk a h b iv)
  | .commandMac sk c l => .bytes (generateCommandMac sk c l)
  | .encrypt sk d t => .bytes (encryptCommandData sk d t)
  | .visPin mk p c => .bytes (formatVisPinBlock mk p c)
  | .iso2Pin p => .bytes (formatIso2PinBlock p)
  | .cvc3 k t a u => .text (generateCvc3 k t a u)
  | .mac3 k1 k2 d pm l => .bytes (Pyemv.mac3 k1 k2 d pm l)
  | .ecb k d => .bytes (encryptTdesEcb k d)
  | .cbc k iv d => .bytes (encryptTdesCbc k iv d)
  | .decode fl si d => .dec (Tlv.decode fl si d)
  | .encode si t => .enc (Tlv.encode si t)

/-- methods of a cryptogram-version object -/
inductive Method where
  | generateAc (a : Cvn.AcArgs)
  | generateArpc (arqc atc un x : Bytes) (pad : Option Bytes)
  | commandMac (hdr arqc atc d : Bytes)
  | encrypt (d arqc atc : Bytes)
  | pinChange (pin : StrOrBytes) (arqc atc : Bytes) (cur : Option StrOrBytes)
  | readKeys

def Method.eval (p : Cvn.Profile) (c : Cvn.Card) : Method → Out
  | .generateAc a => .bytes (Cvn.generateAc p c a)
  | .generateArpc q atc un x pad => .bytes (Cvn.generateArpc p c q atc un x pad)
  | .commandMac h q atc d => .bytes (Cvn.commandMac p c h q atc d)
  | .encrypt d q atc => .bytes (Cvn.encrypt p c d q atc)
  | .pinChange pin q atc cur => .bytes (Cvn.pinChange p c pin q atc cur)
  | .readKeys => .bytes (.ok (c.ac ++ c.smi ++ c.smc))

structure CtorArgs where
  profile : Cvn.Profile
  kAc : Bytes
  kSmi : Bytes
  kSmc : Bytes
  pan : StrOrBytes
  psn : Option StrOrBytes

def CtorArgs.build (a : CtorArgs) : R Cvn.Card := Cvn.new a.profile a.kAc a.kSmi a.kSmc a.pan a.psn

inductive Op where
  | fn (c : FnCall)
  | new (id : Nat) (a : CtorArgs)
  | method (id : Nat) (m : Method)

/-- the only state kept between calls: live objects, each with its profile and three stored keys -/
abbrev State := List (Nat × Cvn.Profile × Cvn.Card)

def lookup (s : State) (id : Nat) : Option (Cvn.Profile × Cvn.Card) := (s.find? (·.1 == id)).map (·.2)

def step (s : State) : Op → State × Out
  | .fn c => (s, c.eval)
  | .new id a =>
    match a.build with
    | .ok card => ((id, a.profile, card) :: s.filter (·.1 != id), .card (.ok card))
    | .error e => (s, .card (.error e))
  | .method id m =>
    match lookup s id with
    | some (p, c) => (s, m.eval p c)
    | none => (s, .noObject)

def run (s : State) : List Op → State × List Out
  | [] => (s, [])
  | op :: ops => let r := step s op; let rest := run r.1 ops; (rest.1, r.2 :: rest.2)

/-- a function result is the same whatever calls were made before: it is `eval` of its arguments -/
theorem fn_result_independent_of_history (s : State) (hist : List Op) (c : FnCall) :
    (step (run s hist).1 (.fn c)).2 = c.eval := rfl

/-- … and leaves the state as it was -/
theorem fn_preserves_state (s : State) (c : FnCall) : (step s (.fn c)).1 = s := rfl

/-- no method changes the stored keys of any object -/
theorem method_preserves_state (s : State) (id : Nat) (m : Method) : (step s (.method id m)).1 = s := by
  simp only [step]; split <;> rfl

theorem method_out (s : State) (id : Nat) (m : Method) :
    (step s (.method id m)).2 = match lookup s id with | some (p, c) => m.eval p c | none => .noObject := by
  simp only [step]; split <;> rfl

def createsId (id : Nat) : Op → Bool
  | .new id' _ => id' == id
  | _ => false

theorem lookup_step (s : State) (op : Op) (id : Nat) (h : createsId id op = false) :
    lookup (step s op).1 id = lookup s id := by
  cases op with
  | fn c => rfl
  | method i m => rw [method_preserves_state]
  | new i a =>
    simp only [createsId] at h
    simp only [step]
    cases a.build with
    | error e => rfl
    | ok card =>
      have hne : (i == id) = false := h
      simp only [lookup, List.find?_cons, hne]
      congr 1
      rw [List.find?_filter]
      congr 1
      funext x
      by_cases hx : x.1 == id
      · have : (x.1 != i) = true := by
          have e1 : x.1 = id := by simpa using hx
          have e2 : ¬ i = id := by simpa using hne
          simp [e1]; exact fun h => e2 h.symm
        simp [hx, this]
      · simp [hx]

theorem lookup_run (s : State) (ops : List Op) (id : Nat) (h : ∀ op ∈ ops, createsId id op = false) :
    lookup (run s ops).1 id = lookup s id := by
  induction ops generalizing s with
  | nil => rfl
  | cons op ops ih =>
    simp only [run]
    rw [ih _ (fun o ho => h o (by simp [ho])), lookup_step s op id (h op (by simp))]

/-- a method result is a pure function of (constructor arguments, call arguments): after constructing
object `id` and *any* history that does not re-create that id — calls for other cards, keys, ATCs,
repeated calls — the method returns `eval` on the card built from the constructor arguments alone -/
theorem method_result_pure (s : State) (id : Nat) (a : CtorArgs) (card : Cvn.Card) (hist : List Op) (m : Method)
    (hb : a.build = .ok card) (hh : ∀ op ∈ hist, createsId id op = false) :
    (step (run (step s (.new id a)).1 hist).1 (.method id m)).2 = m.eval a.profile card := by
  have h0 : lookup (step s (.new id a)).1 id = some (a.profile, card) := by
    simp [step, hb, lookup]
  have h1 := lookup_run (step s (.new id a)).1 hist id hh
  rw [method_out, h1, h0]

/-- the outputs of a whole history are obtained call by call from the state each call sees -/
theorem history_outputs (s : State) (ops : List Op) :
    (run s ops).2.length = ops.length := by
  induction ops generalizing s with
  | nil => rfl
  | cons op ops ih => simp [run, ih]

/-- repeating a call returns the same value -/
theorem repeat_same (s : State) (c : FnCall) : (run s [.fn c, .fn c]).2 = [c.eval, c.eval] := rfl

example : (step [] (.fn (.iso2Pin (.str ['1', '2', '3', '4'])))).2 = (FnCall.iso2Pin (.str ['1', '2', '3', '4'])).eval := rfl

end Pyemv.C14
