import PyemvProofs.Tdes
import PyemvProofs.Par
/-! # C19 — padding, XOR, check-value and TDES helpers meet their stated contracts -/
namespace Pyemv.C19
open Pyemv Spec

/-- method 1: the data followed by the fewest zero bytes that make the length a positive multiple of
the block size (with minimality), for every block size ≥ 1 and every data string -/
theorem pad1_spec (bs : Nat) (hbs : 1 ≤ bs) (d : Bytes) :
    ∃ n, pad1 d (some bs) = .ok (d ++ zeros n) ∧ (d.length + n) % bs = 0 ∧ 0 < d.length + n ∧
      ∀ m, m < n → ¬ ((d.length + m) % bs = 0 ∧ 0 < d.length + m) := by
  obtain ⟨h1, h2, h3, h4⟩ := Spec.pad1_contract bs hbs d
  exact ⟨fill1 bs d.length, by rw [pad1_eq_spec bs hbs, h1], h2, h3, h4⟩

/-- method 2: the data, one 0x80 byte, then the fewest zero bytes to a multiple; the data is always
recoverable, also when it ends in 0x80 or 0x00 bytes itself -/
theorem pad2_spec (bs : Nat) (hbs : 1 ≤ bs) (d : Bytes) :
    ∃ n, pad2 d (some bs) = .ok (d ++ [0x80] ++ zeros n) ∧ n < bs ∧ (d.length + 1 + n) % bs = 0 ∧
      Spec.unpad2 (d ++ [0x80] ++ zeros n) = some d := by
  refine ⟨fill1 bs (d.length + 1), by rw [pad2_eq_spec bs hbs]; rfl, Spec.fill_after_marker_lt bs hbs _, ?_,
    Spec.unpad2_pad2 bs d⟩
  have := (Spec.pad2_length bs hbs d).1
  simp only [Spec.pad2, zeros, List.length_append, List.length_replicate, List.length_cons, List.length_nil] at this
  omega

theorem pad_default_block_size (d : Bytes) : pad1 d none = pad1 d (some 8) ∧ pad2 d none = pad2 d (some 8) := ⟨rfl, rfl⟩

/-- XOR of two equal-length strings (computed through big integers) is the byte-wise exclusive-or -/
theorem xor_eq_zipWith (a b : Bytes) (h : a.length = b.length) : xor a b = List.zipWith (· ^^^ ·) a b :=
  Pyemv.xor_eq_zipWith a b h

/-- … on a host of either byte order: read with `sys.byteorder == "big"` the same computation gives the same bytes -/
theorem xor_bigendian_host (a b : Bytes) (h : a.length = b.length) :
    xorBigEndian a b = List.zipWith (· ^^^ ·) a b ∧ xorBigEndian a b = xor a b :=
  ⟨xorBigEndian_eq_zipWith a b h, xor_host_independent a b h⟩

theorem xor_same_length (a b : Bytes) : (xor a b).length = a.length := xor_length a b

theorem xor_self_inverse (a b : Bytes) (h : a.length = b.length) : xor (xor a b) b = a := by
  rw [xor_eq_xorB a b h, xor_eq_xorB _ b (by rw [xorB_length a b h, h]), xorB_cancel a b h]

/-- the bit-parity helper returns the XOR of the 32 low bits of any natural number … -/
theorem odd_parity_eq (v : Nat) : oddParity v = if par 32 v then 1 else 0 := oddParity_eq v

/-- … which for an integer below 2^32 is the XOR of all its bits (any number of bit positions ≥ 32) -/
theorem odd_parity_all_bits (v : Nat) (hv : v < 2 ^ 32) (m : Nat) : oddParity v = if par (32 + m) v then 1 else 0 := by
  rw [oddParity_eq, par_bits_above v 32 hv m]

/-- key check digits are the first bytes of the TDES encryption of eight zero bytes -/
theorem kcv_eq_spec (K : Bytes) (n : Nat) (hK : K.length = 16) :
    keyCheckDigits K n = .ok ((tdesE K (zeros 8)).take n) := by
  unfold keyCheckDigits
  simp only [tdesKeys_16 K hK, encBlock_16, bind, Except.bind, pure, Except.pure]
  rw [ecbUpdate_one _ _ (by simp [zeros])]

/-- the ECB helper is block-wise TDES on whole-block input, inverted by decryption, for 8/16/24-byte keys -/
theorem ecb_roundtrip (key d : Bytes) (ks : Ks) (n : Nat) (hk : tdesKeys key = .ok ks) (hd : d.length = 8 * n) :
    ∃ c, encryptTdesEcb key d = .ok c ∧ c.length = 8 * n ∧ ecbUpdate (decBlock ks) c = d := by
  refine ⟨ecbUpdate (encBlock ks) d, by simp [encryptTdesEcb, hk, bind, Except.bind, pure, Except.pure],
    ecbUpdate_length (encBlock_length ks) n d hd, tdes_ecb_roundtrip ks n d hd⟩

/-- the CBC helper chains from the IV and is inverted by CBC decryption, for any 8-byte IV -/
theorem cbc_roundtrip (key iv d : Bytes) (ks : Ks) (n : Nat) (hk : tdesKeys key = .ok ks) (hiv : iv.length = 8)
    (hd : d.length = 8 * n) :
    ∃ c, encryptTdesCbc key iv d = .ok c ∧ c.length = 8 * n ∧ (cbcDecUpdate (decBlock ks) iv c).1 = d := by
  refine ⟨(cbcEncUpdate (encBlock ks) iv d).1, by simp [encryptTdesCbc, hk, hiv, bind, Except.bind, pure, Except.pure],
    cbcEncUpdate_length (encBlock_length ks) n iv d hd, tdes_cbc_roundtrip ks n iv d hiv hd⟩

/-- keying as `cryptography` does it: exactly 8, 16 or 24 bytes are accepted -/
theorem tdesKeys_accepts_iff (key : Bytes) : (∃ ks, tdesKeys key = .ok ks) ↔ key.length = 8 ∨ key.length = 16 ∨ key.length = 24 := by
  unfold tdesKeys
  constructor
  · rintro ⟨ks, h⟩
    split at h
    · exact Or.inl ‹_›
    · split at h
      · exact Or.inr (Or.inl ‹_›)
      · split at h
        · exact Or.inr (Or.inr ‹_›)
        · cases h
  · rintro (h | h | h) <;> simp [h]

/-- two whole blocks under a 16-byte key: ECB is `T K B₁ ‖ T K B₂` -/
theorem ecb_two_blocks (K a b : Bytes) (hK : K.length = 16) (ha : a.length = 8) (hb : b.length = 8) :
    encryptTdesEcb K (a ++ b) = .ok (tdesE K a ++ tdesE K b) := Pyemv.ecb_two_blocks K a b hK ha hb

/-- the model's DES is the FIPS 46-3 DES on a published vector -/
theorem des_known_answer : Des.enc 0x133457799BBCDFF1 0x0123456789ABCDEF = 0x85E813540F0AB405 := by decide +kernel

example : ∃ ks, tdesKeys (List.replicate 24 (5 : UInt8)) = .ok ks := (tdesKeys_accepts_iff _).mpr (by decide)
example : pad2 [1, 2, 0x80] (some 4) = .ok [1, 2, 0x80, 0x80] := rfl

end Pyemv.C19
