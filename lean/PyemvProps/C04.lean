import PyemvProofs.Parity
/-! # C04 — common and Visa session keys follow their derivation formulas -/
namespace Pyemv.C04
open Pyemv Spec

theorem set_length8 (r : Bytes) (h : r.length = 8) (x : UInt8) : (r.set 2 x).length = 8 := by simp [h]

/-- the common session key is TDES(R with its third byte replaced by F0) ‖ TDES(R with its third byte
replaced by 0F), parity-adjusted -/
theorem common_sk_eq_spec (mk r : Bytes) (hmk : mk.length = 16) (hr : r.length = 8) :
    deriveCommonSk mk r = .ok (adjustKeyParity (tdesE mk (r.set 2 0xF0) ++ tdesE mk (r.set 2 0x0F))) := by
  unfold deriveCommonSk
  simp only [hmk, hr, ne_eq, not_true_eq_false, if_false, bind, Except.bind, pure, Except.pure]
  rw [ecb_two_blocks mk _ _ hmk (set_length8 r hr _) (set_length8 r hr _)]

/-- … so it does not depend on the third byte of R -/
theorem common_sk_ignores_byte2 (mk r : Bytes) (x : UInt8) : deriveCommonSk mk (r.set 2 x) = deriveCommonSk mk r := by
  unfold deriveCommonSk
  simp only [List.length_set, List.set_set]

/-- … and, before the parity bits are forced, it determines every other byte of R: two diversifiers
that differ outside the third byte give different TDES outputs (the cipher is a permutation).
"Depends on every byte" *after* parity adjustment is a statement about DES's avalanche behaviour and is
not claimed. -/
theorem common_sk_preparity_injective (mk r r' : Bytes) (hr : r.length = 8) (hr' : r'.length = 8)
    (h : tdesE mk (r.set 2 0xF0) = tdesE mk (r'.set 2 0xF0)) : r.set 2 0xF0 = r'.set 2 0xF0 := by
  have := congrArg (tdesD mk) h
  rwa [tdesD_tdesE mk _ (set_length8 r hr _), tdesD_tdesE mk _ (set_length8 r' hr' _)] at this

/-- the Visa formula: master key with the ATC XORed into the last two bytes of the left half and the
complemented ATC into the last two bytes of the right half -/
def visaFormula (mk atc : Bytes) : Bytes :=
  mk.take 6 ++ xorB (slice mk 6 8) atc ++ slice mk 8 14 ++ xorB (slice mk 14 16) (atc.map (· ^^^ 0xFF))

theorem visa_sk_eq_spec (mk atc : Bytes) (hmk : mk.length = 16) (ha : atc.length = 2) :
    deriveVisaSmSk mk atc = .ok (adjustKeyParity (visaFormula mk atc)) := by
  unfold deriveVisaSmSk
  simp only [hmk, ha, ne_eq, not_true_eq_false, if_false, bind, Except.bind, pure, Except.pure]
  have e1 : xor atc [0xFF, 0xFF] = xorB atc [0xFF, 0xFF] := xor_eq_xorB _ _ (by simp [ha])
  have l1 : (xorB atc [0xFF, 0xFF]).length = 2 := by rw [xorB_length _ _ (by simp [ha]), ha]
  rw [e1, xor_eq_xorB _ (mk.take 8) (by simp [zeros, ha, hmk]), xor_eq_xorB _ (mk.drop 8) (by simp [zeros, l1, hmk])]
  match mk, hmk, atc, ha with
  | [m0, m1, m2, m3, m4, m5, m6, m7, m8, m9, m10, m11, m12, m13, m14, m15], _, [a0, a1], _ =>
    simp [visaFormula, xorB, zeros, slice, UInt8.xor_comm]

example : visaFormula (List.replicate 16 0) [0x12, 0x34] = [0,0,0,0,0,0,0x12,0x34, 0,0,0,0,0,0,0xED,0xCB] := by decide

end Pyemv.C04
