import PyemvProps.C01
import PyemvProps.C02
import PyemvProps.C04
import PyemvProps.C05
import PyemvProps.C06
import PyemvProps.C07
import PyemvProps.C11
import PyemvProps.C12
/-!
# C15 — wrong-sized keys and fields are always refused, never silently used

For every public function: any wrongly sized key or field gives `ValueError` (for *every* length, the
length being a universally quantified natural number), an unknown selector gives `TypeError`, and every
correctly sized input is accepted (the `…_eq_spec` theorems of the other properties exhibit the value).
-/
namespace Pyemv.C15
open Pyemv Spec

local macro "guards" : tactic =>
  `(tactic| simp_all [bind, Except.bind, throw, throwThe, MonadExceptOf.throw, pure, Except.pure])

theorem generate_ac_rejects (sk d : Bytes) (pt : Option PaddingType) (l : Option Nat) (h : sk.length ≠ 16) :
    generateAc sk d pt l = .error .valueError := by unfold generateAc; guards

theorem generate_ac_other_padding_typeerror (sk d : Bytes) (l : Option Nat) (h : sk.length = 16) :
    generateAc sk d (some .other) l = .error .typeError := by unfold generateAc; guards

theorem generate_ac_accepts (sk d : Bytes) (pt : Option PaddingType) (l : Option Nat) (h : sk.length = 16)
    (hpt : pt ≠ some .other) : ∃ v, generateAc sk d pt l = .ok v := ⟨_, C01.generate_ac_eq_spec sk d pt l h hpt⟩

theorem mac3_bad_method_valueerror (k1 k2 d : Bytes) (pm : Int) (l : Option Nat) (h : pm ≠ 1 ∧ pm ≠ 2) :
    mac3 k1 k2 d pm l = .error .valueError := by unfold mac3 padSelect; guards

theorem arpc1_rejects (sk arqc rc : Bytes) (h : sk.length ≠ 16 ∨ arqc.length ≠ 8 ∨ rc.length ≠ 2) :
    generateArpc1 sk arqc rc = .error .valueError := by
  unfold generateArpc1
  by_cases h1 : sk.length = 16 <;> by_cases h2 : arqc.length = 8 <;> by_cases h3 : rc.length = 2 <;> guards

theorem arpc1_accepts (sk arqc rc : Bytes) (h1 : sk.length = 16) (h2 : arqc.length = 8) (h3 : rc.length = 2) :
    ∃ v, generateArpc1 sk arqc rc = .ok v := ⟨_, C02.arpc1_eq_spec sk arqc rc h1 h2 h3⟩

theorem arpc2_rejects (sk arqc csu : Bytes) (pad : Option Bytes)
    (h : sk.length ≠ 16 ∨ arqc.length ≠ 8 ∨ csu.length ≠ 4 ∨ (pad.getD []).length > 8) :
    generateArpc2 sk arqc csu pad = .error .valueError := by
  unfold generateArpc2
  by_cases h1 : sk.length = 16 <;> by_cases h2 : arqc.length = 8 <;> by_cases h3 : csu.length = 4 <;>
    by_cases h4 : (pad.getD []).length > 8 <;> guards

theorem arpc2_accepts (sk arqc csu : Bytes) (pad : Option Bytes) (h1 : sk.length = 16) (h2 : arqc.length = 8)
    (h3 : csu.length = 4) (h4 : (pad.getD []).length ≤ 8) : ∃ v, generateArpc2 sk arqc csu pad = .ok v :=
  ⟨_, C02.arpc2_eq_spec sk arqc csu pad h1 h2 h3 h4⟩

theorem common_sk_rejects (mk r : Bytes) (h : mk.length ≠ 16 ∨ r.length ≠ 8) :
    deriveCommonSk mk r = .error .valueError := by
  unfold deriveCommonSk
  by_cases h1 : mk.length = 16 <;> by_cases h2 : r.length = 8 <;> guards

theorem common_sk_accepts (mk r : Bytes) (h1 : mk.length = 16) (h2 : r.length = 8) : ∃ v, deriveCommonSk mk r = .ok v :=
  ⟨_, C04.common_sk_eq_spec mk r h1 h2⟩

theorem visa_sk_rejects (mk atc : Bytes) (h : mk.length ≠ 16 ∨ atc.length ≠ 2) :
    deriveVisaSmSk mk atc = .error .valueError := by
  unfold deriveVisaSmSk
  by_cases h1 : mk.length = 16 <;> by_cases h2 : atc.length = 2 <;> guards

theorem visa_sk_accepts (mk atc : Bytes) (h1 : mk.length = 16) (h2 : atc.length = 2) : ∃ v, deriveVisaSmSk mk atc = .ok v :=
  ⟨_, C04.visa_sk_eq_spec mk atc h1 h2⟩

theorem tree_sk_rejects (mk atc iv : Bytes) (hgt b : Nat) (h : mk.length ≠ 16 ∨ atc.length ≠ 2 ∨ iv.length ≠ 16) :
    deriveEmv2000TreeSk mk atc hgt b iv = .error .valueError := by
  unfold deriveEmv2000TreeSk
  by_cases h1 : mk.length = 16 <;> by_cases h2 : atc.length = 2 <;> by_cases h3 : iv.length = 16 <;> guards

theorem tree_sk_accepts (mk atc iv : Bytes) (b H : Nat) (h1 : mk.length = 16) (h2 : atc.length = 2) (h3 : iv.length = 16)
    (hb : 0 < b) (hg : b ^ (H + 1) > 65535) : ∃ v, deriveEmv2000TreeSk mk atc (H + 1) b iv = .ok v :=
  ⟨_, C05.tree_sk_eq_spec mk atc iv b H h1 h2 h3 hb hg⟩

theorem command_mac_rejects (sk c : Bytes) (l : Option Nat) (h : sk.length ≠ 16) :
    generateCommandMac sk c l = .error .valueError := by unfold generateCommandMac; guards

theorem command_mac_accepts (sk c : Bytes) (l : Option Nat) (h : sk.length = 16) : ∃ v, generateCommandMac sk c l = .ok v :=
  ⟨_, C06.command_mac_eq_spec sk c l h⟩

theorem encrypt_rejects (sk d : Bytes) (t : EncryptionType) (h : sk.length ≠ 16) :
    encryptCommandData sk d t = .error .valueError := by unfold encryptCommandData; guards

theorem encrypt_other_scheme_typeerror (sk d : Bytes) (h : sk.length = 16) :
    encryptCommandData sk d .other = .error .typeError := C07.unknown_scheme_typeerror sk d h

theorem encrypt_accepts (sk d : Bytes) (h : sk.length = 16) (hd : d.length ≤ 255) :
    (∃ v, encryptCommandData sk d .visa = .ok v) ∧ (∃ v, encryptCommandData sk d .mastercard = .ok v) ∧
    (∃ v, encryptCommandData sk d .emv = .ok v) :=
  ⟨⟨_, C07.enc_visa_eq sk d h hd⟩, ⟨_, C07.enc_mc_eq sk d h⟩, ⟨_, C07.enc_emv_eq sk d h⟩⟩

theorem cvc3_rejects (k t atc un : Bytes) (h : k.length ≠ 16 ∨ atc.length ≠ 2 ∨ un.length ≠ 4) :
    generateCvc3 k t atc un = .error .valueError := by
  unfold generateCvc3
  by_cases h1 : k.length = 16 <;> by_cases h2 : atc.length = 2 <;> by_cases h3 : un.length = 4 <;> guards

theorem cvc3_accepts (k t atc un : Bytes) (h1 : k.length = 16) (h2 : atc.length = 2) (h3 : un.length = 4) :
    ∃ v, generateCvc3 k t atc un = .ok v := ⟨_, C11.cvc3_eq_spec k t atc un h1 h2 h3⟩

theorem pin_rejects (p : StrOrBytes) (mk : Bytes) (cur : Option StrOrBytes) (h : p.len < 4 ∨ p.len > 12) :
    formatIso2PinBlock p = .error .valueError ∧ formatVisPinBlock mk p cur = .error .valueError :=
  C12.pin_length_guard p mk cur h

theorem vis_pin_key_rejects (p : StrOrBytes) (mk : Bytes) (cur : Option StrOrBytes) (h : mk.length ≠ 16) :
    formatVisPinBlock mk p cur = .error .valueError := by
  unfold formatVisPinBlock
  by_cases h1 : p.len < 4 ∨ p.len > 12 <;> guards

theorem text_len (c : StrOrBytes) (t : PyStr) (h : c.text = .ok t) : t.length = c.len := by
  cases c with
  | str s => simp [StrOrBytes.text] at h; subst h; rfl
  | bytes b =>
    simp only [StrOrBytes.text] at h
    split at h
    · simp at h; subst h; simp [StrOrBytes.len]
    · cases h

/-- a supplied current PIN of any length outside 4..12 (the empty one included) is never accepted -/
theorem vis_current_pin_rejects (p c : StrOrBytes) (mk : Bytes) (h : c.len < 4 ∨ c.len > 12) :
    ∀ v, formatVisPinBlock mk p (some c) ≠ .ok v := by
  intro v hv
  unfold formatVisPinBlock at hv
  by_cases h1 : p.len < 4 ∨ p.len > 12
  · guards
  by_cases h2 : mk.length = 16
  · cases hp : p.text with
    | error e => guards
    | ok pt =>
      cases hc : c.text with
      | error e => guards
      | ok ct =>
        have hl := text_len c ct hc
        cases hb : toBytesBE 1 pt.length with
        | error e => guards
        | ok lb =>
          cases ha : a2bHex (pt ++ List.replicate (14 - pt.length) 'F') with
          | error e => guards
          | ok body =>
            have : ct.length < 4 ∨ ct.length > 12 := by omega
            guards
  · guards

theorem pin_accepts (p : PyStr) (mk : Bytes) (hp : C12.ValidPin p) (hmk : mk.length = 16) :
    (∃ v, formatIso2PinBlock (.str p) = .ok v) ∧ (∃ v, formatVisPinBlock mk (.str p) none = .ok v) := by
  obtain ⟨b, h, _⟩ := C12.iso2_recovers p hp
  obtain ⟨blk, _, _, hv, _⟩ := C12.vis_recovers mk p none hmk hp (by intro c h; cases h)
  exact ⟨⟨b, h⟩, ⟨blk, hv⟩⟩

example : (List.replicate 17 (0 : UInt8)).length ≠ 16 := by decide

end Pyemv.C15
