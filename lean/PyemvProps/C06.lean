import PyemvProofs.Tdes
/-! # C06 — the issuer-script MAC is the method-2-padded Algorithm 3 MAC -/
namespace Pyemv.C06
open Pyemv Spec

theorem command_mac_eq_spec (sk cmd : Bytes) (len : Option Nat) (hsk : sk.length = 16) :
    generateCommandMac sk cmd len =
      .ok ((alg3 (sk.take 8) (sk.drop 8) (Spec.pad2 8 cmd)).take (len.getD 8)) := by
  unfold generateCommandMac
  simp only [hsk, ne_eq, not_true_eq_false, if_false, bind, Except.bind]
  rw [lastN_8_of_16 sk hsk, mac3_eq_alg3 _ _ _ 2 len (by simp [hsk]) (by simp [hsk]) (Or.inr rfl)]
  simp

/-- method 2 always adds at least one byte: a whole extra block when the command is block aligned -/
theorem pad2_adds_at_least_one (cmd : Bytes) :
    (Spec.pad2 8 cmd).length > cmd.length ∧ (Spec.pad2 8 cmd).length % 8 = 0 ∧
    (cmd.length % 8 = 0 → (Spec.pad2 8 cmd).length = cmd.length + 8) := by
  refine ⟨by simp [Spec.pad2], (Spec.pad2_length 8 (by omega) cmd).1, ?_⟩
  intro h
  have h1 : (cmd.length + 1) % 8 = 1 := by omega
  simp [Spec.pad2, zeros, fill1, h1]

/-- a card that recomputes the MAC from the same key and command bytes accepts it -/
def cardVerifies (sk cmd mac : Bytes) : Bool :=
  (alg3 (sk.take 8) (sk.drop 8) (Spec.pad2 8 cmd)).take mac.length == mac

theorem card_accepts (sk cmd : Bytes) (len : Option Nat) (hsk : sk.length = 16) (hlen : len.getD 8 ≤ 8) :
    ∃ m, generateCommandMac sk cmd len = .ok m ∧ m.length = len.getD 8 ∧ cardVerifies sk cmd m = true := by
  refine ⟨_, command_mac_eq_spec sk cmd len hsk, ?_, ?_⟩
  · rw [List.length_take, alg3_length]; omega
  · unfold cardVerifies
    have : ((alg3 (sk.take 8) (sk.drop 8) (Spec.pad2 8 cmd)).take (len.getD 8)).length = len.getD 8 := by
      rw [List.length_take, alg3_length]; omega
    rw [this]; simp

example : (List.replicate 16 (3 : UInt8)).length = 16 := by decide

end Pyemv.C06
