import PyemvProofs.Hex
import PyemvProofs.Tdes
/-! # C12 — PIN blocks follow ISO 9564 format 2 and the VIS layout; the PIN is recoverable -/
namespace Pyemv.C12
open Pyemv Spec

/-- a PIN of 4 to 12 decimal digits -/
def ValidPin (p : PyStr) : Prop := 4 ≤ p.length ∧ p.length ≤ 12 ∧ IsDigits p

theorem fill_even (p : PyStr) (h : p.length ≤ 12) : (p ++ List.replicate (14 - p.length) 'F').length = 2 * 7 := by
  simp; omega

theorem toBytesBE_1 (n : Nat) (h : n < 256) : toBytesBE 1 n = .ok [UInt8.ofNat n] := by
  unfold toBytesBE; simp [h, toBE, Nat.mod_eq_of_lt h]

/-- ISO format 2: the byte `2L`, the PIN digits, then `F` digits to 8 bytes.  Stated through the
inverse rendering: the hex string of the seven body bytes *is* `digits ‖ F…F`. -/
theorem iso2_eq_spec (p : PyStr) (hp : ValidPin p) :
    ∃ body, formatIso2PinBlock (.str p) = .ok (UInt8.ofNat (0x20 + p.length) :: body) ∧ body.length = 7 ∧
      hexUpper body = p ++ List.replicate (14 - p.length) 'F' := by
  obtain ⟨h4, h12, hd⟩ := hp
  obtain ⟨body, he, hl, hx⟩ := a2bHex_upperHex 7 _ (fill_even p h12) (hd.upperHex.append (isUpperHex_replicate_F _))
  refine ⟨body, ?_, hl, hx⟩
  unfold formatIso2PinBlock
  have g : ¬ (p.length < 4 ∨ p.length > 12) := by omega
  simp only [StrOrBytes.len, g, if_false, StrOrBytes.text, bind, Except.bind, pure, Except.pure,
    toBytesBE_1 (p.length + 32) (by omega), he]
  rw [Nat.add_comm]; rfl

/-- the ISO-2 block has 8 bytes, its first byte carries the length, and reading `L` hex digits of the
body gives back exactly the PIN -/
theorem iso2_recovers (p : PyStr) (hp : ValidPin p) :
    ∃ blk, formatIso2PinBlock (.str p) = .ok blk ∧ blk.length = 8 ∧
      (blk.headD 0).toNat = 0x20 + p.length ∧ (hexUpper blk.tail).take p.length = p ∧
      (hexUpper blk.tail).drop p.length = List.replicate (14 - p.length) 'F' := by
  obtain ⟨body, he, hl, hx⟩ := iso2_eq_spec p hp
  refine ⟨_, he, by simp [hl], ?_, ?_, ?_⟩
  · simp only [List.headD_cons, UInt8.toNat_ofNat']
    exact Nat.mod_eq_of_lt (by have := hp.2.1; omega)
  · simp [hx]
  · simp [hx]

/-- the VIS block before the key/current-PIN masks: the byte `0L`, the digits and `F` fill -/
def visPlain (blk mkAc : Bytes) (cur : Option PyStr) (curBlock : Bytes) : Bytes :=
  match cur with
  | none => xorB blk (zeros 4 ++ slice mkAc 4 8)
  | some _ => xorB (xorB blk curBlock) (zeros 4 ++ slice mkAc 4 8)

/-- VIS layout: `(0L ‖ digits ‖ F…)` XOR `(0000 ‖ MK_AC[4:8])`, and when a current PIN is supplied, further
XOR `current digits ‖ 0…` — so undoing those XORs yields back the length and exactly the PIN digits. -/
theorem vis_recovers (mkAc : Bytes) (p : PyStr) (cur : Option PyStr) (hmk : mkAc.length = 16) (hp : ValidPin p)
    (hc : ∀ c, cur = some c → ValidPin c) :
    ∃ blk body curBlock, formatVisPinBlock mkAc (.str p) (cur.map .str) = .ok blk ∧ blk.length = 8 ∧
      body.length = 7 ∧ hexUpper body = p ++ List.replicate (14 - p.length) 'F' ∧
      (∀ c, cur = some c → a2bHex (c ++ List.replicate (16 - c.length) '0') = .ok curBlock ∧
        hexUpper curBlock = c ++ List.replicate (16 - c.length) '0') ∧
      visPlain blk mkAc cur curBlock = UInt8.ofNat p.length :: body := by
  obtain ⟨h4, h12, hd⟩ := hp
  obtain ⟨body, he, hl, hx⟩ := a2bHex_upperHex 7 _ (fill_even p h12) (hd.upperHex.append (isUpperHex_replicate_F _))
  have g : ¬ (p.length < 4 ∨ p.length > 12) := by omega
  have hA : (zeros 4 ++ slice mkAc 4 8).length = 8 := by simp [zeros, slice, hmk]
  have hB : (UInt8.ofNat p.length :: body).length = 8 := by simp [hl]
  have hx1 : xor (zeros 4 ++ slice mkAc 4 8) (UInt8.ofNat p.length :: body) = xorB (UInt8.ofNat p.length :: body) (zeros 4 ++ slice mkAc 4 8) := by
    rw [xor_eq_xorB _ _ (by rw [hA, hB]), xorB_comm]
  cases cur with
  | none =>
    refine ⟨xorB (UInt8.ofNat p.length :: body) (zeros 4 ++ slice mkAc 4 8), body, [], ?_, ?_, hl, hx, ?_, ?_⟩
    · unfold formatVisPinBlock
      simp only [StrOrBytes.len, g, if_false, hmk, ne_eq, not_true_eq_false, StrOrBytes.text, Option.map_none, bind,
        Except.bind, pure, Except.pure, toBytesBE_1 p.length (by omega), he, List.singleton_append, hx1]
    · rw [xorB_length _ _ (by rw [hA, hB]), hB]
    · intro c h; cases h
    · simp only [visPlain]; exact xorB_cancel _ _ (by rw [hA, hB])
  | some c =>
    obtain ⟨c4, c12, cd⟩ := hc c rfl
    have ce : (c ++ List.replicate (16 - c.length) '0').length = 2 * 8 := by simp; omega
    obtain ⟨cb, hce, hcl, hcx⟩ := a2bHex_upperHex 8 _ ce (cd.upperHex.append (isUpperHex_replicate_0 _))
    have gc : ¬ (c.length < 4 ∨ c.length > 12) := by omega
    have hP : (xorB (UInt8.ofNat p.length :: body) (zeros 4 ++ slice mkAc 4 8)).length = 8 := by
      rw [xorB_length _ _ (by rw [hA, hB]), hB]
    refine ⟨xorB (xorB (UInt8.ofNat p.length :: body) (zeros 4 ++ slice mkAc 4 8)) cb, body, cb, ?_, ?_, hl, hx, ?_, ?_⟩
    · unfold formatVisPinBlock
      simp only [StrOrBytes.len, g, if_false, hmk, ne_eq, not_true_eq_false, StrOrBytes.text, Option.map_some, bind,
        Except.bind, pure, Except.pure, toBytesBE_1 p.length (by omega), he, List.singleton_append, hx1, gc, hce]
      rw [xor_eq_xorB _ _ (by rw [hP, hcl])]
    · rw [xorB_length _ _ (by rw [hP, hcl]), hP]
    · intro c' h; cases h; exact ⟨hce, hcx⟩
    · simp only [visPlain]
      rw [xorB_cancel _ cb (by rw [hP, hcl]), xorB_cancel _ _ (by rw [hA, hB])]

/-- PINs shorter than 4 or longer than 12 digits are refused -/
theorem pin_length_guard (p : StrOrBytes) (mk : Bytes) (cur : Option StrOrBytes) (h : p.len < 4 ∨ p.len > 12) :
    formatIso2PinBlock p = .error .valueError ∧ formatVisPinBlock mk p cur = .error .valueError := by
  unfold formatIso2PinBlock formatVisPinBlock
  simp [h, bind, Except.bind, throw, throwThe, MonadExceptOf.throw]

example : ValidPin ['1', '2', '3', '4', '5'] := ⟨by decide, by decide, by intro c hc; simp at hc; rcases hc with rfl | rfl | rfl | rfl | rfl <;> decide⟩
example : formatIso2PinBlock (.str ['1', '2', '3', '4', '5']) = .ok [0x25, 0x12, 0x34, 0x5F, 0xFF, 0xFF, 0xFF, 0xFF] := rfl

end Pyemv.C12
