import PyemvProofs.TlvRoundTrip
/-!
# C09 — TLV decoding is total and follows the BER-TLV rules

`Tlv.decode` is the code-shaped model of `pyemv.tlv.decode` (offsets, parent limits, the tag scan that
runs past the limit, the state-threaded dict); `TlvSpec.parseItems` is the structural grammar of
EMV Book 3 Annex B.  The correspondence check runs `Tlv.decode` against the real decoder.
-/
namespace Pyemv.C09
open Pyemv Pyemv.Tlv Pyemv.TlvSpec Pyemv.Refine

/-- **Totality**: for every byte string and every flatten/simple combination the decoder terminates
(the fuel `len + 1` never runs out) with a tree at exactly `len(data)` or with a `DecodeError` —
never another exception (`crash` stands for an escaping `IndexError`). -/
theorem decode_total (fl si : Bool) (data : Bytes) :
    (∃ d, decode fl si data = .ok data.length d) ∨ (∃ e d, decode fl si data = .err e d) :=
  Tlv.decode_total fl si data

theorem decode_never_crashes (fl si : Bool) (data : Bytes) :
    (∀ d, decode fl si data ≠ .crash d) ∧ decode fl si data ≠ .fuel := by
  rcases decode_total fl si data with ⟨d, h⟩ | ⟨e, d, h⟩ <;> rw [h] <;> exact ⟨fun _ => by simp, by simp⟩

/-- **Conformance**: the decoder computes exactly what the grammar defines: the same tree on success
(nested or flattened view of the concrete syntax tree, last occurrence winning); on failure the same
fault kind, offset and partial tree, and a tag related as C17 states. -/
theorem decode_refines (fl si : Bool) (data : Bytes) :
    Refines fl data data.length [] (decode fl si data) (parseItems si 0 data) :=
  Refine.decode_refines fl si data

/-- success of the decoder = success of the grammar, with the tree being the fold of the CST -/
theorem decode_ok_iff (fl si : Bool) (data : Bytes) (d : Dict) :
    (∃ o, decode fl si data = .ok o d) ↔ ∃ items, parseItems si 0 data = .ok items ∧ d = absInto fl [] items := by
  have h := decode_refines fl si data
  constructor
  · rintro ⟨o, ho⟩
    rw [ho] at h
    cases hp : parseItems si 0 data with
    | ok items => rw [hp] at h; exact ⟨items, rfl, h.2⟩
    | error e => rw [hp] at h; exact absurd h (by simp [Refines])
  · rintro ⟨items, hp, hd⟩
    rw [hp] at h
    cases hdec : decode fl si data with
    | ok o d' => rw [hdec] at h; exact ⟨o, by rw [h.2, hd]⟩
    | err e d' => rw [hdec] at h; exact absurd h (by simp [Refines])
    | crash d' => rw [hdec] at h; exact absurd h (by simp [Refines])
    | fuel => rw [hdec] at h; exact absurd h (by simp [Refines])

/-- a repeated tag keeps the last occurrence (dict assignment replaces in place) -/
theorem repeated_tag_keeps_last (d : Dict) (k : Bytes) (v w : Node) :
    ((d.set k v).set k w) = d.set k w := by
  unfold Dict.set
  by_cases h : d.any (fun p => p.1 == k)
  · have h2 : (d.map (fun p => if p.1 == k then (k, v) else p)).any (fun p => p.1 == k) = true := by
      simp only [List.any_map, List.any_eq_true] at h ⊢
      obtain ⟨x, hx, hk⟩ := h
      exact ⟨x, hx, by simp [Function.comp, hk]⟩
    simp only [h, if_true, h2, List.map_map]
    congr 1
    funext p
    simp only [Function.comp]
    by_cases hp : p.1 == k <;> simp [hp]
  · have hf : d.any (fun p => p.1 == k) = false := Bool.eq_false_iff.mpr h
    simp only [hf, Bool.false_eq_true, if_false, List.any_append, List.any_cons, List.any_nil, beq_self_eq_true,
      Bool.or_false, Bool.or_true, if_true, List.map_append, List.map_cons, List.map_nil]
    congr 1
    rw [List.map_congr_left (g := id)]
    · simp
    · intro p hp
      have : (p.1 == k) = false := by
        rw [List.any_eq_false] at hf
        simpa using hf p hp
      simp [this]

/-- non-vacuity: a concrete input decodes to a concrete tree through the model -/
example : ∃ d, decode false false [0x9C, 0x01, 0x01, 0xE0, 0x03, 0x9A, 0x01, 0x02] = .ok 8 d := ⟨_, rfl⟩

end Pyemv.C09
