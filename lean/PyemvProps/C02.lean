import PyemvProofs.Tdes
/-! # C02 — ARPC methods 1 and 2 follow EMV Book 2 §8.2 -/
namespace Pyemv.C02
open Pyemv Spec

/-- Method 1: the Triple-DES encryption of the ARQC XORed with the response code left-aligned in eight
bytes (response code, then six zero bytes). -/
theorem arpc1_eq_spec (sk arqc rc : Bytes) (hsk : sk.length = 16) (hq : arqc.length = 8) (hrc : rc.length = 2) :
    generateArpc1 sk arqc rc = .ok (tdesE sk (xorB arqc (rc ++ zeros 6))) := by
  unfold generateArpc1
  simp only [hsk, hq, hrc, ne_eq, not_true_eq_false, if_false, bind, Except.bind]
  have hl : (rc ++ zeros 6).length = arqc.length := by simp [zeros, hrc, hq]
  rw [xor_eq_xorB _ _ hl, encryptTdesCbc_16 sk _ _ hsk (by simp [zeros]),
    cbc_one_block_zero_iv _ _ (by rw [xorB_length _ _ hl]; simp [zeros, hrc]), xorB_comm]

/-- Method 2: the leftmost 4 bytes of the Algorithm 3 MAC, with method 2 padding, over
ARQC ‖ CSU ‖ proprietary data (absent means empty). -/
theorem arpc2_eq_spec (sk arqc csu : Bytes) (pad : Option Bytes) (hsk : sk.length = 16) (hq : arqc.length = 8)
    (hc : csu.length = 4) (hp : (pad.getD []).length ≤ 8) :
    generateArpc2 sk arqc csu pad =
      .ok ((alg3 (sk.take 8) (sk.drop 8) (Spec.pad2 8 (arqc ++ csu ++ pad.getD []))).take 4) := by
  unfold generateArpc2
  have : ¬ (pad.getD []).length > 8 := by omega
  simp only [hsk, hq, hc, this, ne_eq, not_true_eq_false, if_false, bind, Except.bind]
  rw [lastN_8_of_16 sk hsk, mac3_eq_alg3 _ _ _ 2 (some 4) (by simp [hsk]) (by simp [hsk]) (Or.inr rfl)]
  simp

theorem arpc2_none_eq_empty (sk arqc csu : Bytes) : generateArpc2 sk arqc csu none = generateArpc2 sk arqc csu (some []) := rfl

/-- the response is 8 bytes (method 1) / 4 bytes (method 2) -/
theorem arpc_lengths (sk arqc rc : Bytes) : (tdesE sk (xorB arqc (rc ++ zeros 6))).length = 8 ∧
    ∀ p, ((alg3 (sk.take 8) (sk.drop 8) p).take 4).length = 4 := by
  refine ⟨tdesE_length _ _, fun p => ?_⟩
  rw [List.length_take, alg3_length]; rfl

example : (List.replicate 16 (7 : UInt8)).length = 16 ∧ ((some [1, 2, 3] : Option Bytes).getD []).length ≤ 8 := by decide

end Pyemv.C02
