import PyemvProofs.Tree
/-!
# C05 — EMV2000-tree session keys follow Annex A1.3; the gate; uniqueness per ATC

`Tree.IK` is the two-index recurrence of EMV 4.1 Book 2 A1.3.1 over the map Φ (`phi`); `Tree.skSpec` is
`IK(H, atc) ⊕ GP`.  The code's `walk` returning (parent, grandparent) is shown to compute it.
-/
namespace Pyemv.C05
open Pyemv Spec

theorem fromBE_atc_lt (atc : Bytes) (h : atc.length = 2) : fromBE atc < 65536 := by
  have := fromBE_lt atc; rw [h] at this; exact this

/-- For every 16-byte master key and IV, 2-byte ATC, branch factor `b ≥ 1` and height `H+1 ≥ 1` that
pass the gate: the session key is the tree derivation of A1.3.1 (final intermediate key XOR its
grandparent), parity-adjusted. -/
theorem tree_sk_eq_spec (mk atc iv : Bytes) (b H : Nat) (hmk : mk.length = 16) (ha : atc.length = 2)
    (hiv : iv.length = 16) (hb : 0 < b) (hg : b ^ (H + 1) > 65535) :
    deriveEmv2000TreeSk mk atc (H + 1) b iv =
      .ok (adjustKeyParity (Tree.skSpec phi b mk iv xorB H (fromBE atc))) := by
  have hlt := fromBE_atc_lt atc ha
  have hj : fromBE atc < 256 ^ 8 := Nat.lt_of_lt_of_le hlt (by decide)
  have hj2 : fromBE atc / b < 256 ^ 8 := Nat.lt_of_le_of_lt (Nat.div_le_self _ _) hj
  obtain ⟨e, l1, l2⟩ := treeWalk_eq b mk iv hb hmk hiv H (fromBE atc / b) hj2
  have hb0 : ¬ b = 0 := by omega
  have hng : ¬ b ^ (H + 1) ≤ 65535 := by omega
  unfold deriveEmv2000TreeSk
  simp only [hmk, ha, hiv, hng, hb0, ne_eq, not_true_eq_false, if_false, Nat.add_sub_cancel, e, bind, Except.bind,
    pure, Except.pure]
  rw [treeDerive_eq b _ _ _ hb l1 l2 (Nat.lt_of_le_of_lt (Nat.mod_le _ _) hj)]
  simp only []
  rw [xor_eq_xorB _ _ (by rw [phi_length, l2]), ← Tree.skImpl_eq_skSpec]
  rfl

/-- **The gate**: with well-sized key, ATC and IV, parameters are accepted exactly when `b^H` exceeds
65535 (`b ≥ 1`, `H ≥ 1`). -/
theorem gate_iff (mk atc iv : Bytes) (b H : Nat) (hmk : mk.length = 16) (ha : atc.length = 2)
    (hiv : iv.length = 16) (hb : 0 < b) :
    (∃ k, deriveEmv2000TreeSk mk atc (H + 1) b iv = .ok k) ↔ b ^ (H + 1) > 65535 := by
  constructor
  · rintro ⟨k, hk⟩
    apply Nat.lt_of_not_le
    intro hle
    unfold deriveEmv2000TreeSk at hk
    simp [hmk, ha, hiv, hle, bind, Except.bind, throw, throwThe, MonadExceptOf.throw] at hk
  · intro hg; exact ⟨_, tree_sk_eq_spec mk atc iv b H hmk ha hiv hb hg⟩

/-- rejected parameters raise ValueError -/
theorem gate_rejects (mk atc iv : Bytes) (b h : Nat) (hmk : mk.length = 16) (ha : atc.length = 2)
    (hiv : iv.length = 16) (hsmall : b ^ h ≤ 65535) :
    deriveEmv2000TreeSk mk atc h b iv = .error .valueError := by
  unfold deriveEmv2000TreeSk
  simp [hmk, ha, hiv, hsmall, bind, Except.bind, throw, throwThe, MonadExceptOf.throw]

/-- accepted ⇔ every ATC 0..65535 follows its own path of base-`b` digits through the tree -/
theorem gate_iff_paths_distinct (b H : Nat) (hb : 0 < b) :
    b ^ H > 65535 ↔ ∀ a₁ a₂, a₁ ≤ 65535 → a₂ ≤ 65535 → Tree.digitsRev b H a₁ = Tree.digitsRev b H a₂ → a₁ = a₂ :=
  Tree.gate_iff_injective b H hb

/-- the key at a node depends on the ATC only through its `H` low-order base-`b` digits -/
theorem sk_depends_on_digits (mk iv : Bytes) (b H a : Nat) (hb : 0 < b) :
    Tree.skSpec phi b mk iv xorB H a = Tree.skSpec phi b mk iv xorB H (a % b ^ (H + 1)) := by
  unfold Tree.skSpec
  rw [(Tree.IK_mod phi b mk iv hb H a).2, Tree.GP_mod phi b mk iv hb H a]

/-- **why the gate must be strict** (the defect repaired by the `fix:` commit): whenever `b^H ≤ 65535`,
ATC 0 and ATC `b^H` are two different valid ATCs with the same session key under every key and IV. -/
theorem collision_of_small_tree (mk iv : Bytes) (b H : Nat) (hb : 0 < b) (hsmall : b ^ (H + 1) ≤ 65535) :
    (0 : Nat) ≠ b ^ (H + 1) ∧ b ^ (H + 1) ≤ 65535 ∧
      Tree.skSpec phi b mk iv xorB H 0 = Tree.skSpec phi b mk iv xorB H (b ^ (H + 1)) :=
  Tree.collision_of_small_tree phi b mk iv xorB hb H hsmall

/-- the pinned, pre-repair gate accepted `(65535, 1)` although it is such a small tree -/
theorem old_gate_accepted_a_colliding_tree : treeGateOld 65535 1 = false ∧ (65535 : Nat) ^ 1 ≤ 65535 := by decide

/-- **uniqueness — partial.**  Full statement (kept visible, *not* proved): for accepted parameters
`a₁ ≠ a₂ → sk a₁ ≠ sk a₂`.  Beyond the path level this says that a 65,536-leaf TDES tree has no
accidental collision after the 16 parity bits are discarded — a statement about the concrete cipher
that no proof over block-cipher laws can give.  What is proved: the gate accepts exactly the parameters
for which distinct ATCs follow distinct derivation paths (`gate_iff_paths_distinct`), and rejects exactly
those for which a collision provably exists (`collision_of_small_tree`).  The correspondence check
additionally enumerates all 65,536 ATCs on the real code and tests pairwise distinctness. -/
theorem uniqueness_partial (b H : Nat) (hb : 0 < b) (hg : b ^ H > 65535) (a₁ a₂ : Nat) (h1 : a₁ ≤ 65535)
    (h2 : a₂ ≤ 65535) (hne : a₁ ≠ a₂) : Tree.digitsRev b H a₁ ≠ Tree.digitsRev b H a₂ :=
  fun hd => hne ((gate_iff_paths_distinct b H hb).mp hg a₁ a₂ h1 h2 hd)

example : (4 : Nat) ^ (7 + 1) > 65535 ∧ (2 : Nat) ^ (15 + 1) > 65535 ∧ ¬ ((65535 : Nat) ^ 1 > 65535) := by decide

end Pyemv.C05
