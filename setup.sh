#!/bin/sh
# Build the Lean project (model, specs, proofs, property theorems, native driver) from the files on disk. Offline.
HERE="$(cd "$(dirname "$0")" && pwd)"
cd "$HERE/lean" || exit 2
lake build 2>&1 | tail -5
/venv/bin/python "$HERE/harness/translate_cvn.py" "${PYEMV_REPO:-/repo}" "$HERE/lean/PyemvGen/CvnGen.lean" && \
/venv/bin/python "$HERE/harness/translate_py.py" "${PYEMV_REPO:-/repo}" "$HERE/lean/PyemvGen/ModGen.lean" && \
/venv/bin/python "$HERE/harness/translate_tlv.py" "${PYEMV_REPO:-/repo}" "$HERE/lean/PyemvGen/TlvGen.lean" && lake build PyemvGen PyemvGen.TlvSourceBoth PyemvGen.CvnSource $(ls PyemvGen/Src/*.lean | sed 's/\.lean$//; s#/#.#g') 2>&1 | tail -2
test -x .lake/build/bin/pyemv-model || { echo "setup: driver not built"; exit 2; }
/venv/bin/python -c "import cryptography" || { echo "setup: /venv/bin/python lacks cryptography"; exit 2; }
echo "setup ok"
