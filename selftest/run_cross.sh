#!/bin/sh
# selftest/run_cross.sh <dir-with-<id>/patch.diff>: every seeded change against EVERY property's quick check.
# Prints, per change, which properties give a concrete replay (C), which only a broken proof / translation (p),
# and which stay silent (.) — the last two columns are what precision and recall across properties look like.
HERE="$(cd "$(dirname "$0")/.." && pwd)"
SRC="$(cd "${1:-$HERE/seeded}" && pwd)"
WT="${VERIF_WT:-/tmp/verif-cross-wt-$$}"
git -C /repo worktree remove --force $WT 2>/dev/null
git -C /repo worktree add -q --detach $WT HEAD || exit 2
for d in "$SRC"/*/; do
  id=$(basename "$d")
  [ -f "$d/patch.diff" ] || continue
  git -C $WT checkout -q -- . && git -C $WT apply "$d/patch.diff" || { echo "$id: patch does not apply"; continue; }
  row=""
  for p in C01 C02 C03 C04 C05 C06 C07 C08 C09 C10 C11 C12 C13 C14 C15 C16 C17 C18 C19; do
    out=$(cd "$HERE" && PYEMV_REPO=$WT ./check "$p" --seed "${VERIF_SEED:-1}" 2>&1)
    if echo "$out" | grep "^VIOLATION" | grep -qv "no-failing-input-found"; then row="$row $p:C"
    elif echo "$out" | grep -q "^VIOLATION"; then row="$row $p:p"
    elif echo "$out" | grep -q "INFRA"; then row="$row $p:INFRA"
    fi
  done
  echo "$id [$(cat "$d/property.txt" 2>/dev/null | tr -d '\n')]$row"
done
git -C /repo worktree remove --force $WT
