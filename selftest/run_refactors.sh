#!/bin/sh
# selftest/run_refactors.sh <dir-with-<id>/patch.diff> : behaviour-preserving changes against the quick checks of the
# properties anchored in the files they touch.  Expected: silent, or `p` (translation / proof only, no failing input);
# a `C` (concrete replay) on a behaviour-preserving change would be a false alarm of the correspondence leg.
HERE="$(cd "$(dirname "$0")/.." && pwd)"
SRC="$(cd "$1" && pwd)"
WT="${VERIF_WT:-/tmp/verif-refac-wt-$$}"
git -C /repo worktree add -q --detach $WT HEAD || exit 2
for d in "$SRC"/*/; do
  id=$(basename "$d")
  [ -f "$d/patch.diff" ] || continue
  git -C $WT checkout -q -- . && git -C $WT apply "$d/patch.diff" || { echo "$id: patch does not apply"; continue; }
  files=$(grep '^+++ b/pyemv/' "$d/patch.diff" | sed 's#+++ b/pyemv/##; s#\.py##' | tr '\n' ' ')
  props=""
  for f in $files; do
    case $f in
      tools) props="$props C19 C13 C03 C04 C07";;
      mac) props="$props C01 C06 C19 C11 C02";;
      ac) props="$props C01 C02 C15";;
      kd) props="$props C03 C04 C05 C13 C16";;
      sm) props="$props C06 C07 C12 C15 C16";;
      cvv) props="$props C11 C15";;
      tlv) props="$props C09 C10 C17 C18";;
      cvn) props="$props C08 C14 C16 C13";;
      __init__) props="$props C01 C08 C09 C10";;
    esac
  done
  [ -n "$props" ] || props="C01 C03 C08 C09 C10 C12"
  row=""
  for p in $(echo $props | tr ' ' '\n' | sort -u); do
    out=$(cd "$HERE" && PYEMV_REPO=$WT ./check "$p" --seed "${VERIF_SEED:-1}" 2>&1)
    if echo "$out" | grep "^VIOLATION" | grep -qv "no-failing-input-found"; then row="$row $p:C"
    elif echo "$out" | grep -q "^VIOLATION"; then row="$row $p:p"
    elif echo "$out" | grep -q "INFRA"; then row="$row $p:INFRA"
    else row="$row $p:."
    fi
  done
  echo "$id [$files]$row"
done
git -C /repo worktree remove --force $WT
