#!/bin/sh
# For every seeded change: does the *translation leg alone* notice it? (translator refuses the construct,
# or a refinement proof no longer closes).  Restores the generated files for /repo afterwards.
HERE="$(cd "$(dirname "$0")/.." && pwd)"
WT=/tmp/verif-selftest-wt2
git -C /repo worktree remove --force $WT 2>/dev/null
git -C /repo worktree add -q --detach $WT HEAD || exit 2
for d in "$HERE"/seeded/${1:-*}/; do
  id=$(basename "$d")
  git -C $WT checkout -q -- . && git -C $WT apply "$d/patch.diff" || { echo "$id: patch does not apply"; continue; }
  res=""
  for pair in "translate_py.py ModGen.lean PyemvGen.ModRefines" "translate_cvn.py CvnGen.lean PyemvGen.CvnRefines" "translate_tlv.py TlvGen.lean PyemvGen.TlvRefines"; do
    set -- $pair
    out=$(/venv/bin/python "$HERE/harness/$1" $WT "$HERE/lean/PyemvGen/$2" 2>&1)
    if [ $? -ne 0 ]; then res="$res $3:translator-refuses($(echo "$out" | tail -1 | cut -c1-70))"; continue; fi
    (cd "$HERE/lean" && lake build $3 >/dev/null 2>&1) && res="$res $3:proved" || res="$res $3:PROOF-BREAKS"
  done
  echo "$id$res"
done
git -C /repo worktree remove --force $WT
/venv/bin/python "$HERE/harness/translate_py.py" /repo "$HERE/lean/PyemvGen/ModGen.lean" >/dev/null
/venv/bin/python "$HERE/harness/translate_cvn.py" /repo "$HERE/lean/PyemvGen/CvnGen.lean" >/dev/null
/venv/bin/python "$HERE/harness/translate_tlv.py" /repo "$HERE/lean/PyemvGen/TlvGen.lean" >/dev/null
(cd "$HERE/lean" && lake build PyemvGen >/dev/null 2>&1)
