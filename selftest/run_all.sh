#!/bin/sh
# run every registered quick (or thorough) check with a given seed; prints one line per property
HERE="$(cd "$(dirname "$0")/.." && pwd)"; cd "$HERE"
TIER="${1:-quick}"
for p in C01 C02 C03 C04 C05 C06 C07 C08 C09 C10 C11 C12 C13 C14 C15 C16 C17 C18 C19; do
  out=$(./check $p --tier $TIER 2>&1); rc=$?
  echo "rc=$rc $(echo "$out" | grep -c '^VIOLATION') viol | $(echo "$out" | tail -1)"
done
