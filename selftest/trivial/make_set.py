import re, subprocess, os, pathlib
out = pathlib.Path('/tmp/triv/set'); out.mkdir(exist_ok=True)
def save(name, note):
    d = out/name; d.mkdir(exist_ok=True)
    subprocess.run(['git','add','-A'])
    diff = subprocess.run(['git','diff','--cached'],capture_output=True,text=True).stdout
    assert diff.strip(), name
    (d/'patch.diff').write_text(diff); (d/'notes.md').write_text(note+'\n')
    subprocess.run(['git','reset','-q','--hard'])
def edit(path, f):
    s = open(path).read(); t = f(s); assert s != t, path; open(path,'w').write(t)
MODS=['ac','kd','mac','sm','cvv','tlv','tools','cvn']
# T01
edit('pyemv/__init__.py', lambda s: s.replace('__version__ = "1.5.0"','__version__ = "1.5.1"'))
edit('CHANGELOG.rst', lambda s: "1.5.1 - unreleased\n------------------\n- maintenance\n\n"+s)
save('T01','version bump and changelog entry')
# T02
edit('pyemv/tools.py', lambda s: s.replace('    "encrypt_tdes_ecb",\n]','    "encrypt_tdes_ecb",\n    "decrypt_tdes_ecb",\n]') + '''

def decrypt_tdes_ecb(key: bytes, data: bytes) -> bytes:
    r"""Decrypt data using Triple DES ECB algorithm."""
    cipher = _Cipher(_algorithms.TripleDES(key), _modes.ECB(), backend=_default_backend())
    return cipher.decryptor().update(data)
''')
save('T02','new public helper decrypt_tdes_ecb appended to tools.py')
# T03
for m in MODS:
    edit(f'pyemv/{m}.py', lambda s: re.sub(r'\n(def |class )', r'\n# maintained: see CONTRIBUTING\n\1', s, count=3))
save('T03','comments before definitions in every module')
# T04
edit('pyemv/ac.py', lambda s: s.replace('First and second AC Generation using 8-byte block chiper','First and second AC generation using 8-byte block cipher',1))
edit('pyemv/kd.py', lambda s: s.replace('ICC Master Key Derivation','ICC master key derivation',1))
edit('pyemv/tlv.py', lambda s: s.replace('Decode TLV data','Decode BER-TLV data',1))
save('T04','docstring wording')
# T05
edit('pyemv/ac.py', lambda s: s.replace('Session Key must be a double length DES key','Session key must be 16 bytes long'))
save('T05','error message wording in ac.py')
# T06 from __future__ in every module right before first import line
def fut(s):
    m = re.search(r'^(import |from )', s, re.M)
    return s[:m.start()] + 'from __future__ import annotations\n\n' + s[m.start():]
for m in MODS: edit(f'pyemv/{m}.py', fut)
save('T06','from __future__ import annotations in every module')
# T07 Optional[X] -> X | None with __future__
def opt(s):
    s = fut(s)
    return re.sub(r'_typing\.Optional\[([A-Za-z_\.]+)\]', r'\1 | None', s)
for m in ['ac','kd','sm','mac']: edit(f'pyemv/{m}.py', opt)
save('T07','Optional[X] spelled X | None (with __future__ annotations)')
# T08 a new exception class + constant in tlv.py, unused
edit('pyemv/tlv.py', lambda s: s.replace('\nclass DecodeError', '\nMAX_TAG_BYTES = 4  # informational\n\n\nclass DecodeError',1))
save('T08','informational module-level constant in tlv.py')
# T09 new unrelated function in kd.py
edit('pyemv/kd.py', lambda s: s + '''

def derive_icc_mk(iss_mk: bytes, pan, psn=None, method: str = "A") -> bytes:
    r"""Convenience dispatcher over :func:`derive_icc_mk_a` and :func:`derive_icc_mk_b`."""
    if method == "A":
        return derive_icc_mk_a(iss_mk, pan, psn)
    if method == "B":
        return derive_icc_mk_b(iss_mk, pan, psn)
    raise ValueError("method must be 'A' or 'B'")
''')
save('T09','new convenience dispatcher function appended to kd.py')
# T10 logging import unused + logger in sm.py
edit('pyemv/sm.py', lambda s: re.sub(r'^(import typing as _typing\n)', r'import logging as _logging\n\1', s, count=1, flags=re.M).replace('\nclass EncryptionType', '\n_LOG = _logging.getLogger(__name__)\n\n\nclass EncryptionType',1))
save('T10','module logger defined (unused) in sm.py')
# T11 new subclass in cvn.py appended
edit('pyemv/cvn.py', lambda s: s + '''

class VisaCVN10Legacy(VisaCVN10):
    r"""Alias kept for callers that used the pre-1.0 class name."""
''')
save('T11','alias subclass appended to cvn.py')
# T12 tests-only change
edit('tests/test_mac.py', lambda s: s + '\n\ndef test_xor_identity():\n    from pyemv import tools\n    assert tools.xor(b"\\x00\\x01", b"\\x00\\x00") == b"\\x00\\x01"\n')
save('T12','a new unit test only')
# T13 README/pyproject only
edit('README.rst', lambda s: s + '\nMaintenance note.\n')
save('T13','README only')
# T14 black-style reformat: split a long call over lines in mac.py / tools.py
edit('pyemv/tools.py', lambda s: s.replace('int_var = int.from_bytes(data, _sys.byteorder)', 'int_var = int.from_bytes(\n        data, _sys.byteorder\n    )'))
save('T14','a call split over lines (formatter)')
# T15 typing: annotate return types / parameters differently
edit('pyemv/tools.py', lambda s: s.replace('def xor(data: bytes, key: bytes) -> bytes:', 'def xor(data: _typing.Union[bytes, bytearray], key: _typing.Union[bytes, bytearray]) -> bytes:'))
save('T15','wider type annotation on tools.xor')
# T16 py.typed/setup.cfg metadata
edit('setup.cfg', lambda s: s + '\n# metadata touched\n')
save('T16','setup.cfg comment')
# T17 blank lines / trailing whitespace
for m in MODS: edit(f'pyemv/{m}.py', lambda s: s.rstrip('\n') + '\n\n')
save('T17','trailing blank line in every module')
# T18 __all__ added to kd.py
edit('pyemv/kd.py', lambda s: re.sub(r'^(from pyemv import tools as _tools\n)', r'\1\n__all__ = [\n    "derive_icc_mk_a",\n    "derive_icc_mk_b",\n    "derive_common_sk",\n    "derive_visa_sm_sk",\n    "derive_emv2000_tree_sk",\n]\n', s, count=1, flags=re.M))
save('T18','__all__ added to kd.py')
print(sorted(os.listdir(out)))
