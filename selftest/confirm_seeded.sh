#!/bin/sh
# confirm each incoming seeded change: applies cleanly, suite passes with it, demo fails with it and passes without
IN="${1:-/verif/seeded_incoming}"; OUT="${2:-/verif/seeded}"
WT=/tmp/verif-confirm-wt
git -C /repo worktree remove --force $WT 2>/dev/null
git -C /repo worktree add -q --detach $WT HEAD || exit 2
mkdir -p "$OUT"
for d in "$IN"/*/; do
  id=$(basename "$d")
  git -C $WT checkout -q -- . ; rm -rf $WT/out; mkdir -p $WT/out/X; cp "$d"/demo.py $WT/out/X/
  (cd $WT && PYTHONPATH=. /venv/bin/python out/X/demo.py >/dev/null 2>&1); clean=$?
  git -C $WT apply "$d/patch.diff" || { echo "$id: does not apply"; continue; }
  tests=$(cd $WT && /venv/bin/python -m pytest -q -p no:cacheprovider 2>&1 | tail -1)
  (cd $WT && PYTHONPATH=. /venv/bin/python out/X/demo.py >/dev/null 2>&1); mut=$?
  echo "$id clean_demo_exit=$clean mutated_demo_exit=$mut tests='$tests'"
  case "$tests" in *"231 passed"*) ok=1;; *) ok=0;; esac
  if [ $clean -eq 0 ] && [ $mut -ne 0 ] && [ $ok -eq 1 ]; then
    mkdir -p "$OUT/$id"; cp "$d"/patch.diff "$d"/demo.py "$d"/notes.md "$OUT/$id/" 2>/dev/null
    echo "{\"confirmed\": true, \"clean_demo_exit\": $clean, \"mutated_demo_exit\": $mut, \"tests\": \"$tests\"}" > "$OUT/$id/confirm.json"
  fi
done
git -C /repo worktree remove --force $WT
