#!/bin/sh
# selftest/run_seeded.sh [dir-with-<id>/...]: run each seeded change against the quick check of its property.
# Uses a scratch worktree of /repo (never /repo itself) through PYEMV_REPO; removes it afterwards.
HERE="$(cd "$(dirname "$0")/.." && pwd)"
SRC="$(cd "${1:-$HERE/seeded}" && pwd)"
WT="${VERIF_WT:-/tmp/verif-selftest-wt-$$}"
git -C /repo worktree remove --force $WT 2>/dev/null
git -C /repo worktree add -q --detach $WT HEAD || exit 2
for d in "$SRC"/*/; do
  id=$(basename "$d"); prop=$(echo "$id" | cut -c1-3)
  [ -f "$d/patch.diff" ] || continue
  git -C $WT checkout -q -- . && git -C $WT apply "$d/patch.diff" || { echo "$id: patch does not apply"; continue; }
  out=$(cd "$HERE" && PYEMV_REPO=$WT ./check "$prop" --seed "${VERIF_SEED:-1}" 2>&1)
  if echo "$out" | grep "^VIOLATION" | grep -qv "no-failing-input-found"; then res=CAUGHT; else res=MISSED; fi
  echo "$id $res $(echo "$out" | tail -1)"
done
git -C /repo worktree remove --force $WT
