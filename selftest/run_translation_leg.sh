#!/bin/sh
# selftest/run_translation_leg.sh <dir-with-<id>/patch.diff>: what the translation leg alone says about each change
# (which functions the translators refuse and why, which refinement modules no longer build). Restores afterwards.
HERE="$(cd "$(dirname "$0")/.." && pwd)"
SRC="$(cd "$1" && pwd)"
WT="${VERIF_WT:-/tmp/verif-tl-wt-$$}"
git -C /repo worktree add -q --detach $WT HEAD || exit 2
G="$HERE/lean/PyemvGen"
for d in "$SRC"/*/; do
  id=$(basename "$d")
  git -C $WT checkout -q -- . && git -C $WT apply "$d/patch.diff" || { echo "$id: patch does not apply"; continue; }
  /venv/bin/python "$HERE/harness/translate_py.py" $WT "$G/ModGen.lean" >/dev/null 2>&1; a=$?
  /venv/bin/python "$HERE/harness/translate_cvn.py" $WT "$G/CvnGen.lean" >/tmp/tl_cvn.$$ 2>&1; b=$?
  /venv/bin/python "$HERE/harness/translate_tlv.py" $WT "$G/TlvGen.lean" >/dev/null 2>&1; c=$?
  res="refused: $(cat $G/ModGen.lean.failures.json 2>/dev/null | tr -d '\n' | cut -c1-400) $(cat $G/TlvGen.lean.failures.json 2>/dev/null | tr -d '\n' | cut -c1-300)"
  [ $b -ne 0 ] && res="$res cvn:$(tail -1 /tmp/tl_cvn.$$ | cut -c1-200)"
  bad=""
  for m in $(ls "$G/Mod" | sed 's/\.lean$//' | grep -v Common) ; do
    (cd "$HERE/lean" && lake build PyemvGen.Mod.$m >/dev/null 2>&1) || bad="$bad $m"
  done
  [ $b -eq 0 ] && { (cd "$HERE/lean" && lake build PyemvGen.CvnRefines >/dev/null 2>&1) || bad="$bad CvnRefines"; }
  (cd "$HERE/lean" && lake build PyemvGen.TlvRefinesDec >/dev/null 2>&1) || bad="$bad TlvRefinesDec"
  (cd "$HERE/lean" && lake build PyemvGen.TlvRefinesEnc >/dev/null 2>&1) || bad="$bad TlvRefinesEnc"
  echo "$id | $res | not built:$bad"
done
rm -f /tmp/tl_cvn.$$
git -C /repo worktree remove --force $WT
/venv/bin/python "$HERE/harness/translate_py.py" /repo "$G/ModGen.lean" >/dev/null
/venv/bin/python "$HERE/harness/translate_cvn.py" /repo "$G/CvnGen.lean" >/dev/null
/venv/bin/python "$HERE/harness/translate_tlv.py" /repo "$G/TlvGen.lean" >/dev/null
(cd "$HERE/lean" && lake build PyemvGen >/dev/null 2>&1)
