"""Core of the correspondence harness: imports the real pyemv from the repository under test, talks to
the Lean model driver over the line protocol, canonicalises results, compares under per-property
projections, shrinks, writes replays and evidence.  Standard library only."""
import collections
import hashlib
import json
import os
import random
import subprocess
import sys
import time
import warnings

warnings.simplefilter("ignore")
os.environ.setdefault("PYTHONDONTWRITEBYTECODE", "1")
sys.dont_write_bytecode = True

HERE = os.path.dirname(os.path.abspath(__file__))
ROOT = os.path.dirname(HERE)
LEAN = os.path.join(ROOT, "lean")
DRIVER = os.path.join(LEAN, ".lake", "build", "bin", "pyemv-model")
REPO = os.environ.get("PYEMV_REPO", "/repo")
NPROC = max(2, min(16, os.cpu_count() or 2))

sys.path.insert(0, REPO)
import pyemv  # noqa: E402
from pyemv import ac, cvn, cvv, kd, mac, sm, tlv, tools  # noqa: E402

if not os.path.abspath(pyemv.__file__).startswith(os.path.abspath(REPO) + os.sep):
    print(f"INFRA: pyemv imported from {pyemv.__file__}, not from {REPO}", file=sys.stderr)
    sys.exit(2)


class Infra(Exception):
    """machinery failure: never a verdict (exit 2)"""


# ------------------------------------------------------------------------------------------------
# encoding of arguments

def hx(b):
    return bytes(b).hex() if len(b) else "."


def opt(b):
    return "-" if b is None else hx(b)


def optn(n):
    return "-" if n is None else str(n)


def S(s):
    """a text argument: hex of its UTF-8 encoding"""
    return hx(s.encode("utf-8"))


def SB(x):
    """str-or-bytes argument"""
    if x is None:
        return "-"
    if isinstance(x, str):
        return "s:" + hx(x.encode("utf-8"))
    return "b:" + hx(bytes(x))


def show_leaf(v):
    """a decoded value is a `bytes` object of its own; anything else (a bytearray, a view of the input buffer)
    is rendered with its type, which the model never produces"""
    h = bytes(v).hex().upper()
    return h if type(v) is bytes else f"<{type(v).__name__}>{h}"


def show_tree(d):
    return "{" + ",".join(k + ":" + (show_tree(v) if hasattr(v, "items") else show_leaf(v))
                          for k, v in d.items()) + "}"


def tree_tokens(t):
    """preorder token list of a tree literal for tlv.encode"""
    out = []

    def val(v):
        import collections.abc
        if isinstance(v, collections.abc.Mapping):
            out.append("D"); out.append(str(len(v)))
            for k, x in v.items():
                out.append(S(k)); val(x)
        elif isinstance(v, bytearray):
            out.append("A"); out.append(hx(v))
        elif isinstance(v, bytes):
            out.append("B"); out.append(hx(v))
        elif isinstance(v, str):
            out.append("S"); out.append(S(v))
        else:
            out.append("O")
    val(t)
    return " ".join(out)


# ------------------------------------------------------------------------------------------------
# canonical rendering of what the real code did

EXC_ORDER = None


def exc_name(e):
    if isinstance(e, tlv.DecodeError):
        return "DecodeError"
    if isinstance(e, tlv.EncodeError):
        return "EncodeError"
    for cls, name in ((ZeroDivisionError, "ZeroDivisionError"), (OverflowError, "OverflowError"),
                      (IndexError, "IndexError"), (RecursionError, "RecursionError"),
                      (ValueError, "ValueError"), (TypeError, "TypeError")):
        if isinstance(e, cls):
            return name
    return type(e).__name__


def decode_err_fields(e):
    m = e.msg if isinstance(getattr(e, "msg", None), str) else ""
    if m.startswith("Tag malformed"):
        k = "T"
    elif m.startswith("Tag length"):
        k = "L" + "".join(ch for ch in m.split("expecting", 1)[-1] if ch.isdigit())
    elif m.startswith("Tag value"):
        k = "V" + "".join(ch for ch in m.split("expecting", 1)[-1] if ch.isdigit())
    else:
        k = "?"
    tag = e.tag if isinstance(e.tag, str) and e.tag else "."
    part = show_tree(e.tlv) if isinstance(e.tlv, dict) else "?"
    return f"{k} {tag} {e.offset} {part}"


def canon(f):
    """run a thunk against the real code and render the outcome as the driver would"""
    try:
        r = f()
    except tlv.DecodeError as e:
        return "err DecodeError " + decode_err_fields(e) + (" " + e.log if hasattr(e, "log") else "")
    except tlv.EncodeError as e:
        t = e.tag
        return "err EncodeError " + (S(t) if isinstance(t, str) else "?")
    except Exception as e:  # noqa: BLE001
        n = exc_name(e)
        if n in ("ValueError", "TypeError", "OverflowError", "ZeroDivisionError"):
            return "err " + n
        return "uncaught " + n
    if isinstance(r, tuple) and len(r) == 2 and isinstance(r[0], dict):      # (tree, convert log)
        return "tree " + show_tree(r[0]) + " " + r[1]
    if isinstance(r, dict):
        return "tree " + show_tree(r)
    if isinstance(r, str):
        return "okstr " + r
    if isinstance(r, bool):
        return "okstr " + str(int(r))
    if isinstance(r, int):
        return "okstr " + str(r)
    if isinstance(r, (bytes, bytearray)):
        return "ok " + hx(r)
    if isinstance(r, memoryview):                         # e.g. aligned data handed back unchanged by the padding helpers
        return "ok " + hx(r.tobytes())
    return "other " + type(r).__name__


# projections: what part of an answer a property compares
def proj_full(a):
    return a


def proj_class(a):
    """ok vs the exception class"""
    w = a.split()
    if w[0] in ("ok", "okstr", "tree"):
        return "ok"
    return " ".join(w[:2])


def proj_c09(a):
    """tree, or DecodeError, or another exception class"""
    w = a.split()
    if w[0] == "tree":
        return a
    return " ".join(w[:2])


def proj_c17(a):
    """offset and partial tree of a decode error (tag handled by relation); trees in full"""
    w = a.split()
    if w[:2] == ["err", "DecodeError"] and len(w) >= 6:
        return f"err DecodeError ofs={w[4]} tree={w[5]}"
    return a


def proj_nokind(a):
    """decode error without the message-derived kind"""
    w = a.split()
    if w[:2] == ["err", "DecodeError"] and len(w) >= 6:
        return " ".join(w[:2] + w[3:])
    return a


PROJ = {"full": proj_full, "class": proj_class, "c09": proj_c09, "c17": proj_c17, "nokind": proj_nokind}


# ------------------------------------------------------------------------------------------------
# the Lean model

def run_model(lines, nproc=None):
    """pipe protocol lines through `nproc` driver processes; returns answers in order"""
    if not lines:
        return []
    if not os.path.exists(DRIVER):
        raise Infra(f"model driver not built: {DRIVER}")
    if nproc is None:
        nproc = max(1, min(NPROC, (len(lines) + 199) // 200))
    nproc = max(1, min(nproc, len(lines)))
    chunks = [[] for _ in range(nproc)]
    for i, ln in enumerate(lines):
        chunks[i % nproc].append(f"{i} {ln}")
    procs = []
    for ch in chunks:
        p = subprocess.Popen([DRIVER], stdin=subprocess.PIPE, stdout=subprocess.PIPE, stderr=subprocess.PIPE)
        procs.append((p, ("\n".join(ch) + "\n").encode()))
    # feed all first via threads to avoid pipe deadlock
    import threading
    outs = [None] * len(procs)

    def work(k):
        p, data = procs[k]
        outs[k] = p.communicate(data)

    ths = [threading.Thread(target=work, args=(k,)) for k in range(len(procs))]
    for t in ths:
        t.start()
    for t in ths:
        t.join()
    res = [None] * len(lines)
    for k, (p, _) in enumerate(procs):
        so, se = outs[k]
        if p.returncode != 0:
            raise Infra(f"model driver exited with {p.returncode}: {se.decode(errors='replace')[-400:]}")
        for row in so.decode().split("\n"):
            if not row:
                continue
            n, _, ans = row.partition(" ")
            res[int(n)] = ans
    if any(r is None for r in res):
        missing = [i for i, r in enumerate(res) if r is None][:3]
        raise Infra(f"model driver gave no answer for lines {missing}: {[lines[i][:120] for i in missing]}")
    bad = [i for i, r in enumerate(res) if r.startswith("bad-")]
    if bad:
        raise Infra(f"model driver rejected protocol line: {lines[bad[0]][:200]} -> {res[bad[0]]}")
    return res


# ------------------------------------------------------------------------------------------------
# what the properties speak about

def _hexlen(h):
    if h in (".", "-"):
        return 0
    if h.startswith("rep:"):
        x, n = h[4:].split("*")
        return (len(x) // 2) * int(n)
    return len(h) // 2


def _sb_digits(tok):
    """a str-or-bytes argument that is absent or consists of ASCII decimal digits only"""
    if tok == "-":
        return True
    try:
        raw = bytes.fromhex(tok[2:]) if tok[2:] not in ("", ".") else b""
    except ValueError:
        return False
    return all(0x30 <= c <= 0x39 for c in raw)


def outside_domain(line):
    """True when *no* property says what this call must do: inputs the statements exclude (a block size below 1, a
    requested MAC length outside 4..8, XOR operands of different lengths, the parity helper above 2**32, TDES helper
    data that is not whole blocks or keys / IVs of no TDES size, Visa-scheme data above 255 bytes, PAN / PSN / PIN
    text that is not decimal digits, a PSN that is not two digits, issuer keys of another size than 16 in the master
    key derivation, tree parameters below 1).  There the code may refuse (ValueError / TypeError) where the model does
    something else without any property being touched; see Ctx.run_cases."""
    try:
        w = line.split(); op, a = w[0], w[1:]
        if op == "tools.xor":
            return _hexlen(a[0]) != _hexlen(a[1])
        if op == "tools.odd_parity":
            return not (0 <= int(a[0]) < 2 ** 32)
        if op == "tools.kcv":
            return _hexlen(a[0]) not in (8, 16, 24)
        if op == "tools.ecb":
            return _hexlen(a[0]) not in (8, 16, 24) or _hexlen(a[1]) % 8 != 0
        if op == "tools.cbc":
            return _hexlen(a[0]) not in (8, 16, 24) or _hexlen(a[1]) != 8 or _hexlen(a[2]) % 8 != 0
        if op in ("mac.pad1", "mac.pad2"):
            return a[1] != "-" and int(a[1]) < 1
        if op == "mac.mac3":
            return _hexlen(a[0]) != 8 or _hexlen(a[1]) != 8 or (a[4] != "-" and not 4 <= int(a[4]) <= 8)
        if op == "ac.generate_ac":
            return a[3] != "-" and not 4 <= int(a[3]) <= 8
        if op == "sm.command_mac":
            return a[2] != "-" and not 4 <= int(a[2]) <= 8
        if op in ("kd.mk_a", "kd.mk_b"):
            return _hexlen(a[0]) != 16 or not _sb_digits(a[1]) or a[1] == "-" or _hexlen(a[1][2:]) == 0 or not _sb_digits(a[2]) \
                or (a[2] != "-" and _hexlen(a[2][2:]) != 2)
        if op == "kd.tree_sk":
            return int(a[2]) < 1 or int(a[3]) < 1
        if op == "sm.encrypt":
            return a[2] == "VISA" and _hexlen(a[1]) > 255
        if op == "sm.vis_pin":
            return not _sb_digits(a[1]) or not _sb_digits(a[2])
        if op == "sm.iso2_pin":
            return not _sb_digits(a[0])
        if op == "cvn":
            cls, m, r = a[0], a[6], a[7:]
            if any(_hexlen(k) != 16 for k in a[1:4]) or not _sb_digits(a[4]) or a[4] == "-" or _hexlen(a[4][2:]) == 0 or not _sb_digits(a[5]) \
                    or (a[5] != "-" and _hexlen(a[5][2:]) not in (0, 2)):
                return True
            if m == "enc" and cls.startswith("Visa") and _hexlen(r[0]) > 255:
                return True
            if m == "pin" and (not _sb_digits(r[0]) or not _sb_digits(r[3])):
                return True
            return False
    except Exception:  # noqa: BLE001  (a line this reader does not understand is judged as before)
        return False
    return False


# ------------------------------------------------------------------------------------------------
# cases and the run context

class Case:
    __slots__ = ("line", "call", "gen", "proj", "nontrivial", "note", "meta", "outside")

    def __init__(self, line, call, gen, proj="full", nontrivial=True, note=None, meta=None):
        self.line = line; self.call = call; self.gen = gen; self.proj = proj
        self.nontrivial = nontrivial; self.note = note; self.meta = meta
        self.outside = False          # set by a generator whose *objects* (not the line) leave every property's domain


class Ctx:
    """one check run of one property"""

    def __init__(self, pid, tier, seed):
        self.pid = pid; self.tier = tier; self.seed = seed
        self.t0 = time.time()
        self.rng = random.Random(f"{pid}/{seed}")
        self.evaluations = 0
        self.distinct = set()
        self.dist = collections.Counter()
        self.outcomes = collections.Counter()
        self.samples = []
        self.violations = []          # dicts
        self.notes = []
        self.known_hits = []
        self.exhaustive_dims = []
        self.assumptions = []
        self.relational = collections.Counter()
        self.outside_cases = 0        # cases no property speaks about (compared all the same; a refusal there is no violation)
        self.outside_refusals = 0
        self.replayable = []          # (line, proj, model answer) of agreeing cases, for the shared-object session
        self.replay_per_op = collections.Counter()
        self.extra = {}

    def sub(self, name):
        return random.Random(f"{self.pid}/{self.seed}/{name}")

    @property
    def thorough(self):
        return self.tier == "thorough"

    def n(self, quick, thorough):
        """case count for the tier; in the thorough tier generated-stream counts (>= 100) are multiplied by
        VERIF_THOROUGH_SCALE (default 5), grid parameters (small numbers) are left alone"""
        if getattr(self, "boost", False) and not self.thorough:
            # directed search after a broken proof obligation: the generated streams at the thorough tier's counts;
            # enumeration bounds and grid parameters (small numbers) stay as they are
            return max(quick, thorough) if thorough >= 100 else quick
        if not self.thorough:
            return quick
        if thorough >= 100:
            return thorough * int(os.environ.get("VERIF_THOROUGH_SCALE", "5") or 5)
        return thorough

    # ---- differential comparison model vs code
    def run_cases(self, cases, label=None):
        if not cases:
            return
        got = []
        import gens as _gens
        pr = self.sub(f"poison/{len(cases)}/{self.evaluations}")
        for c in cases:
            if pr.random() < 0.03 and len(c.line) < 4000:
                # now and then the poisoning sequence under the call's own keys runs immediately before the call
                try:
                    _gens.poison_line(c.line, pr)
                except Exception:  # noqa: BLE001
                    pass
            got.append(canon(c.call))
        want = run_model([c.line for c in cases])
        for c, g, w in zip(cases, got, want):
            self.evaluations += 1
            self.dist[c.gen] += 1
            pj = PROJ[c.proj]
            pg, pw = pj(g), pj(w)
            self.outcomes[c.line.split()[0] + ":" + proj_class(g)] += 1
            if c.nontrivial:
                self.distinct.add(hashlib.sha1(c.line.encode()).digest()[:10])
            if len(self.samples) < 6 and self.rng.random() < 0.02 or (len(self.samples) < 2):
                self.samples.append({"op": c.line[:300], "model": w[:200], "pyemv": g[:200]})
            outside = c.outside or outside_domain(c.line)
            if outside:
                self.outside_cases += 1
            if pg == pw and not outside:
                wl = c.line.split(None, 8)
                opk = wl[0] + (" " + wl[7] if wl[0] == "cvn" and len(wl) > 7 else "")
                # every operation keeps its share of replayable cases (the sessions sample from these), whatever stream came first
                if self.replay_per_op[opk] < 200 or (len(self.replayable) < 1500 or (self.evaluations % 17 == 0 and len(self.replayable) < 9000)):
                    self.replay_per_op[opk] += 1
                    self.replayable.append((c.line, c.proj, w))
            if pg != pw and outside and g.split()[:2] in (["err", "ValueError"], ["err", "TypeError"]):
                # no property says what this call must do, and it is refused: nothing is violated, whatever the model does
                self.outside_refusals += 1
                if len(self.notes) < 40:
                    self.notes.append(f"outside every property's domain, refused where the model answers otherwise: {c.line[:100]} -> {g[:40]} (model {w[:40]})")
                continue
            if pg != pw:
                if c.proj == "c17" and tag_only_ok(c, g, w):
                    self.notes.append(f"tag rendering differs within the stated relation: {c.line[:80]}")
                    continue
                self.violations.append({"kind": "disagreement", "op": c.line, "gen": c.gen, "proj": c.proj,
                                        "model": w, "pyemv": g, "call": c.call})
            elif c.proj in ("c17", "full") and proj_nokind(g) != proj_nokind(w):
                pass

    # ---- relational predicate on the real code
    def check(self, name, ok, detail, replay=None):
        self.relational[name] += 1
        self.evaluations += 1
        if not ok:
            self.violations.append({"kind": "predicate", "predicate": name, "detail": detail, "op": replay or detail})

    def guard(self, name, detail):
        """context manager: an exception escaping a relational block is a failed predicate, not a crash"""
        ctx = self

        class _G:
            def __enter__(self_):
                return self_

            def __exit__(self_, et, ev, tb):
                if et is not None and issubclass(et, Exception):
                    ctx.check(name, False, f"{detail}: raised {et.__name__}: {str(ev)[:120]}")
                    return True
                return False
        return _G()

    def wall(self):
        return time.time() - self.t0


def tag_only_ok(case, g, w):
    """C17: answers differ; accept iff only the tag differs and the reported tag is within the relation
    'a non-empty prefix of the input at the offset, comparable with the model's tag'"""
    gw, ww = g.split(), w.split()
    if gw[:2] != ["err", "DecodeError"] or ww[:2] != ["err", "DecodeError"] or len(gw) < 6 or len(ww) < 6:
        return False
    if gw[4:] != ww[4:]:
        return False
    if not ww[2].startswith("T"):
        return False
    data = case.meta["data"].hex().upper() if case.meta and "data" in case.meta else None
    p, m = gw[3], ww[3]
    if p == "." or data is None:
        return False
    ofs = int(gw[4])
    return data[2 * ofs:].startswith(p) and (p.startswith(m) or m.startswith(p))
