"""Field values as real EMV traffic carries them (sizes and layouts from EMV Book 3 / the schemes' public IAD and track
formats) — the counterpart of uniformly random contents: BCD amounts and dates, small counters, bit-field results that
are mostly zero, issuer application data in the Visa and MasterCard layouts zero-filled to the field size, status
updates such as `00820000` / `80000000`, script command headers with consistent `Lc`, command data that the caller has
already padded or that is a PIN block, track 2 equivalent data in BCD with `D` separator and `F` fill (bare or wrapped
in tag 57 / 9F6B), track 1 in ASCII with mixed-case names.  Every function takes the run's PRNG; nothing here is a
verdict — the values only feed the differential comparison."""


def bcd(digits):
    if len(digits) % 2:
        digits = digits + "F"
    return bytes.fromhex(digits)


def digits(R, n):
    return "".join(R.choice("0123456789") for _ in range(n))


def amount(R):
    c = R.random()
    if c < .25:
        return bytes(6)
    if c < .6:
        return bcd("%012d" % R.choice([100, 1000, 2500, 8000, 9999, 10000, 80000, 123456, 800000, R.randrange(10 ** 6)]))
    if c < .8:
        return bcd("%012d" % (8 * 10 ** R.randrange(0, 11)))      # 80, 800, … : a leading 0x80 somewhere in the field
    return bcd(digits(R, 12))


def country(R):
    return bytes.fromhex(R.choice(["0840", "0978", "0826", "0124", "0036", "0392", "0643", "0000"]))


def tvr(R):
    return bytes(5) if R.random() < .5 else bytes(R.choice([0, 0x80, 0x40, 0x08, 0x04]) if R.random() < .6 else 0 for _ in range(5))


def date(R):
    return bcd("%02d%02d%02d" % (R.randrange(20, 35), R.randrange(1, 13), R.randrange(1, 29)))


def txn_type(R):
    return bytes.fromhex(R.choice(["00", "01", "09", "20", "30"]))


def aip(R):
    return bytes.fromhex(R.choice(["3800", "1800", "5C00", "7C00", "1980", "0000", "8000"]))


def atc(R):
    c = R.random()
    if c < .5:
        return R.randrange(1, 300).to_bytes(2, "big")
    if c < .7:
        return R.choice([b"\x00\x00", b"\x00\x01", b"\x00\xff", b"\x01\x00", b"\xff\xff", b"\x7f\xff", b"\x80\x00"])
    return R.randbytes(2)


def iad(R, size=None):
    """issuer application data / CVR as handed to generate_ac"""
    c = R.random()
    if c < .45:                                             # Visa: 06 DKI CVN CVR(4) [len IDD…]
        v = bytes([0x06, R.choice([1, 1, 2, 0x10]), R.choice([0x0A, 0x12, 0x16, 0x11]), 0x03, R.choice([0xA0, 0x80, 0x20, 0x00]),
                   R.choice([0xB8, 0x00, 0x40, 0x08]), 0x00])
        if R.random() < .5:
            k = R.choice([0, 0, 1, 4, 8, 15])
            v += bytes([k]) + R.randbytes(k)
    elif c < .75:                                           # MasterCard: KDI CVN CVR(6) DAC(2) counters
        v = bytes([R.choice([0, 1, 2]), R.choice([0x10, 0x11, 0x14, 0x15])]) + bytes([R.choice([0xA0, 0x80, 0x22]), R.choice([0, 0x40]), 0x03, 0x22, 0, 0]) \
            + R.randbytes(2) + bytes(8)
    else:
        v = R.randbytes(R.choice([4, 6, 7, 8]))
    n = size if size is not None else R.choice([len(v), len(v), 8, 16, 18, 32])
    if n > len(v) and R.random() < .8:
        v = v + bytes(n - len(v))                           # zero-filled to the field size
    return v[:n] if n < len(v) and R.random() < .3 else v


def counters(R):
    return R.choice([bytes(8), bytes(16), R.randbytes(8), b"\x00\x00\x00\x00\x00\x00\x00\xff", b"\xff" * 8])


def csu(R):
    return bytes.fromhex(R.choice(["00820000", "80000000", "00000000", "00120000", "03820000", "80820000"])) if R.random() < .8 else R.randbytes(4)


def prop_auth(R):
    c = R.random()
    if c < .3:
        return None
    if c < .6:
        return bytes(R.randrange(0, 9))
    if c < .8:
        return b"\x80" + bytes(R.randrange(0, 8))
    return R.randbytes(R.randrange(0, 9))


def arpc_rc(R):
    return R.choice([b"00", b"05", b"51", b"\x00\x10", b"\x00\x12", b"\x00\x00", b"Y1", b"Z3"])


SCRIPT_HEADERS = ["8424000", "841E000", "8418000", "8416000", "04DA9F5", "84DA9F5", "84E2000", "8424000", "8482000"]


def script_header(R, lc=None):
    h = bytes.fromhex(R.choice(["84240000", "84240001", "84240002", "841E0000", "84180000", "84160000", "04DA9F58", "84DA9F59", "84E20000", "04DC010C"]))
    if lc is None:
        lc = R.choice([0x04, 0x05, 0x06, 0x07, 0x08, 0x08, 0x09, 0x0A, 0x10, 0x18, R.randrange(256)])
    return h + bytes([lc])


def pin_block(R):
    n = R.randrange(4, 13)
    return bytes([0x20 + n]) + bcd(digits(R, n) + "F" * (14 - n))


def command_data(R):
    """what follows the header of a script command before MAC / encipherment"""
    c = R.random()
    if c < .2:
        return b""
    if c < .4:
        return pin_block(R)
    if c < .65:                                             # data the caller already padded to a block boundary
        d = R.randbytes(R.randrange(0, 24))
        d += b"\x80"
        return d + bytes(-len(d) % 8)
    if c < .8:                                              # packed numeric fields: zeros with an 8 in them
        return amount(R) + amount(R) + (b"" if R.random() < .5 else amount(R)[:R.randrange(1, 6)])
    return R.randbytes(R.randrange(1, 40))


def script_command(R):
    d = command_data(R)
    if R.random() < .5:
        return script_header(R, (len(d) + 8) & 0xFF if R.random() < .7 else len(d) & 0xFF) + d
    return script_header(R) + (d if R.random() < .5 else b"")


def pan(R, n=None, prefix=None):
    n = n or R.choice([12, 13, 14, 15, 16, 16, 16, 17, 18, 19, 19])
    p = prefix if prefix is not None else R.choice(["4", "5", "51", "55", "57", "5710", "5711", "5712", "62", "67", "9F6B", "34", "37", "6011"])
    p = "".join(ch for ch in p if ch.isdigit())[:n]
    body = p + digits(R, n - len(p))
    return body[:-1] + luhn_digit(body[:-1]) if R.random() < .8 and n > 1 else body


def luhn_digit(body):
    t = 0
    for i, ch in enumerate(reversed(body)):
        d = int(ch)
        if i % 2 == 0:
            d = d * 2 - 9 if d > 4 else d * 2
        t += d
    return str(-t % 10)


def luhn_pan(R, n):
    """an n-digit PAN with a valid check digit and a plausible issuer prefix"""
    if n < 2:
        return digits(R, n)
    p = R.choice(["4", "51", "52", "55", "2221", "34", "37", "6011", "62", "67", "50", "56", "57", "58", "9"])[: n - 1]
    body = p + digits(R, n - 1 - len(p))
    return body + luhn_digit(body)


PSNS = ["00", "01", "02", "07", "45", "99"]


def card_number(R, n):
    """n digits as hosts and files carry a PAN: check digit valid; zero-filled on the left to the field size; or a PAN
    followed by a three-digit sequence number"""
    c = R.random()
    if c < .6 or n < 14:
        return luhn_pan(R, n)
    if c < .8:
        k = R.choice([x for x in (13, 14, 15, 16) if x < n] or [n])
        return "0" * (n - k) + luhn_pan(R, k)
    k = n - 3
    return luhn_pan(R, k) + "0" + R.choice(PSNS)


def track2_bcd(R, wrap=None):
    """track 2 equivalent data: PAN D YYMM SVC discretionary, F-filled to whole bytes; optionally inside tag 57 / 9F6B"""
    p = pan(R)
    t = p + "D" + "%02d%02d" % (R.randrange(24, 35), R.randrange(1, 13)) + R.choice(["201", "101", "221", "601"]) + digits(R, R.randrange(0, 14))
    v = bcd(t)
    if wrap is None:
        wrap = R.choice([None, None, None, "57", "9F6B"])
    if wrap and len(v) < 128:
        return bytes.fromhex(wrap) + bytes([len(v)]) + v
    return v


def track1_ascii(R):
    names = ["KENOBI/OBIWAN", "Kenobi/Obiwan", "DOE/JOHN MR", "doe/jane", "O'NEIL/Pat", "MUELLER/H.-J", "VALUED CARDHOLDER", "Smith/A"]
    s = "B" + pan(R) + "^" + R.choice(names) + "^" + "%02d%02d" % (R.randrange(24, 35), R.randrange(1, 13)) + R.choice(["201", "101"]) + digits(R, R.randrange(4, 20))
    return s.encode()


def track_template(R):
    c = R.random()
    if c < .55:
        return track2_bcd(R)
    if c < .8:
        return track1_ascii(R)
    return bcd(pan(R)) + R.randbytes(R.randrange(0, 8))


def tlv_shaped(R, maxlen=60):
    """a byte string that happens to be one well-formed primitive TLV object (one-byte length)"""
    tag = bytes.fromhex(R.choice(["57", "5A", "9F6B", "9F10", "9F26", "82", "95", "9A", "5F2A", "9F02", "C0", "DF01"]))
    n = R.randrange(0, max(1, maxlen - len(tag) - 1))
    return tag + bytes([n]) + R.randbytes(n)


def ac_fields(R):
    """the ten leading arguments of generate_ac (amount, other amount, country, TVR, currency, date, type, UN, AIP, ATC)"""
    return [amount(R), amount(R) if R.random() < .3 else bytes(6), country(R), tvr(R), country(R), date(R), txn_type(R), R.randbytes(4), aip(R), atc(R)]


def message(R):
    """a cryptogram / MAC input assembled from such fields"""
    c = R.random()
    if c < .35:
        return b"".join(ac_fields(R)) + iad(R)
    if c < .6:
        return script_command(R)
    if c < .75:
        return command_data(R)
    if c < .9:
        return track_template(R)
    return tlv_shaped(R)
