"""Re-execute one protocol line against the real pyemv (used by --replay and by the shrinker)."""
from core import (canon, ac, cvn, cvv, kd, mac, sm, tlv, tools)
import gens
import hashlib


def _unhex0(s):
    if s.startswith("rep:"):
        h, n = s[4:].split("*")
        return bytes.fromhex(h) * int(n)
    return b"" if s == "." else bytes.fromhex(s)


def unhex(s):
    """a byte-string argument of a call; `shared_objects` swaps this for pooled bytearray objects"""
    return _unhex0(s)


def optb(s):
    return None if s == "-" else unhex(s)


def optn(s):
    return None if s == "-" else int(s)


def text(s):
    return _unhex0(s).decode("utf-8")


def sb(s):
    if s == "-":
        return None
    return text(s[2:]) if s.startswith("s:") else _unhex0(s[2:])


def parse_tree(toks):
    def val(i):
        t = toks[i]
        if t == "B": return _unhex0(toks[i + 1]), i + 2
        if t == "A": return bytearray(_unhex0(toks[i + 1])), i + 2
        if t == "S": return text(toks[i + 1]), i + 2
        if t == "O": return 5, i + 1
        if t == "D":
            n = int(toks[i + 1]); i += 2; d = {}
            for _ in range(n):
                k = text(toks[i]); v, i = val(i + 1); d[k] = v
            return d, i
        raise ValueError(t)
    v, _ = val(0)
    return v


_cur_op = ""
_pos = 0
_live = None          # cryptogram-version objects kept alive across calls (rewritten_buffers session)


def thunk(line):
    global _cur_op, _pos
    w = line.split()
    op, a = w[0], w[1:]
    _cur_op = op + ((" " + a[0] + " " + a[6]) if op == "cvn" and len(a) > 6 else "")
    _pos = 0
    PT = dict(gens.PT); ET = dict(gens.ET)
    if op == "tools.xor": return lambda: tools.xor(unhex(a[0]), unhex(a[1]))
    if op == "tools.odd_parity": return lambda: tools.odd_parity(int(a[0]))
    if op == "tools.adjust_key_parity": return lambda: tools.adjust_key_parity(unhex(a[0]))
    if op == "tools.kcv": return lambda: tools.key_check_digits(unhex(a[0]), int(a[1]))
    if op == "tools.ecb": return lambda: tools.encrypt_tdes_ecb(unhex(a[0]), unhex(a[1]))
    if op == "tools.cbc": return lambda: tools.encrypt_tdes_cbc(unhex(a[0]), unhex(a[1]), unhex(a[2]))
    if op == "mac.pad1": return lambda: mac.pad_iso9797_1(unhex(a[0]), optn(a[1]))
    if op == "mac.pad2": return lambda: mac.pad_iso9797_2(unhex(a[0]), optn(a[1]))
    if op == "mac.mac3": return lambda: mac.mac_iso9797_3(unhex(a[0]), unhex(a[1]), unhex(a[2]), int(a[3]), optn(a[4]))
    if op == "ac.generate_ac": return lambda: ac.generate_ac(unhex(a[0]), unhex(a[1]), PT.get(a[2], 1), optn(a[3]))
    if op == "ac.arpc1": return lambda: ac.generate_arpc_1(unhex(a[0]), unhex(a[1]), unhex(a[2]))
    if op == "ac.arpc2": return lambda: ac.generate_arpc_2(unhex(a[0]), unhex(a[1]), unhex(a[2]), optb(a[3]))
    if op == "kd.mk_a": return lambda: kd.derive_icc_mk_a(unhex(a[0]), sb(a[1]), sb(a[2]))
    if op == "kd.mk_b": return lambda: kd.derive_icc_mk_b(unhex(a[0]), sb(a[1]), sb(a[2]))
    if op == "kd.common_sk": return lambda: kd.derive_common_sk(unhex(a[0]), unhex(a[1]))
    if op == "kd.visa_sk": return lambda: kd.derive_visa_sm_sk(unhex(a[0]), unhex(a[1]))
    if op == "kd.tree_sk": return lambda: kd.derive_emv2000_tree_sk(unhex(a[0]), unhex(a[1]), int(a[2]), int(a[3]), unhex(a[4]))
    if op == "sm.command_mac": return lambda: sm.generate_command_mac(unhex(a[0]), unhex(a[1]), optn(a[2]))
    if op == "sm.encrypt": return lambda: sm.encrypt_command_data(unhex(a[0]), unhex(a[1]), ET.get(a[2], 1))
    if op == "sm.vis_pin": return lambda: sm.format_vis_pin_block(unhex(a[0]), sb(a[1]), sb(a[2]))
    if op == "sm.iso2_pin": return lambda: sm.format_iso9564_2_pin_block(sb(a[0]))
    if op == "cvv.cvc3": return lambda: cvv.generate_cvc3(unhex(a[0]), unhex(a[1]), unhex(a[2]), unhex(a[3]))
    if op == "py.fromhex": return lambda: bytes.fromhex(text(a[0]))
    if op == "py.sha1": return lambda: hashlib.sha1(unhex(a[0])).digest()
    if op == "tlv.decode":
        fl = a[1] if a[1] != "-" else ""
        c = gens.op_decode(unhex(a[0]), "f" in fl, "s" in fl, conv="c" in fl)
        return c.call
    if op == "tlv.encode":
        t = gens.top_level_form(parse_tree(a[1:]))     # the same Mapping class the generator chose for this content
        return lambda: tlv.encode(t, simple=(a[0] == "s"))
    if op == "cvn":
        cls = a[0]
        def mk():
            if _live is not None:
                key = (cls,) + tuple(a[1:6])
                if key not in _live:
                    _live[key] = getattr(cvn, cls)(_unhex0(a[1]), _unhex0(a[2]), _unhex0(a[3]), sb(a[4]), sb(a[5]))
                return _live[key]
            return getattr(cvn, cls)(unhex(a[1]), unhex(a[2]), unhex(a[3]), sb(a[4]), sb(a[5]))
        m, r = a[6], a[7:]
        if m == "keys": return lambda: (lambda o: o.icc_mk_ac + o.icc_mk_smi + o.icc_mk_smc)(mk())
        if m == "ac":
            f = [unhex(x) for x in r[:10]]; tail = unhex(r[10]); cnt = unhex(r[11])
            if cls in ("MasterCardCVN17", "MasterCardCVN21"): return lambda: mk().generate_ac(*f, tail, cnt)
            return lambda: mk().generate_ac(*f, tail)
        if m == "arpc":
            q, atc, un, x, p = unhex(r[0]), unhex(r[1]), unhex(r[2]), unhex(r[3]), optb(r[4])
            if cls in ("VisaCVN10", "MasterCardCVN16", "MasterCardCVN17"): return lambda: mk().generate_arpc(q, x)
            if cls in ("VisaCVN18", "VisaCVN22"): return lambda: mk().generate_arpc(q, atc, x, p)
            if cls == "InteracCVN133": return lambda: mk().generate_arpc(q, un, atc, x)
            return lambda: mk().generate_arpc(q, atc, x)
        if m == "mac":
            h, q, atc, d = (unhex(x) for x in r)
            if cls == "InteracCVN133": return lambda: mk().generate_command_mac(h, q, d)
            return lambda: mk().generate_command_mac(h, q, atc, d)
        if m == "enc":
            d, q, atc = (unhex(x) for x in r)
            if cls in ("VisaCVN10", "VisaCVN18"): return lambda: mk().encrypt_command_data(d, atc)
            return lambda: mk().encrypt_command_data(d, q)
        if m == "pin":
            pin, q, atc, cur = sb(r[0]), unhex(r[1]), unhex(r[2]), sb(r[3])
            if cls.startswith("Visa"): return lambda: mk().generate_pin_change_command(pin, q, atc, cur)
            if cls == "InteracCVN133": return lambda: mk().generate_pin_change_command(pin, q)
            return lambda: mk().generate_pin_change_command(pin, q, atc)
    raise ValueError("cannot re-execute: " + line[:80])


def py_answer(line):
    return canon(thunk(line))


class shared_objects:
    """Within the block every byte-string argument of a re-executed call is a `bytearray` taken from a pool keyed
    by content: equal values are the *same object*, across calls, and the caller never rewrites them.  A callee
    that updates an argument in place, or keeps a reference to one, changes what later calls see."""

    def __init__(self, limit=65536):
        self.pool = {}; self.limit = limit

    def __enter__(self):
        global unhex
        self._old = unhex

        def pooled(s):
            b = _unhex0(s)
            if len(b) > self.limit:
                return b
            o = self.pool.get(b)
            if o is None:
                o = self.pool[b] = bytearray(b)
            return o
        unhex = pooled
        return self

    def __exit__(self, *a):
        global unhex
        unhex = self._old

    def modified(self):
        return [(k, bytes(o)) for k, o in self.pool.items() if bytes(o) != k]


class view_objects:
    """Within the block every byte-string argument of a re-executed call is a read-only `memoryview` of its bytes
    (a zero-copy slice of a receive buffer is what callers hand over)."""

    def __enter__(self):
        global unhex
        self._old = unhex
        unhex = lambda s: memoryview(_unhex0(s))
        return self

    def __exit__(self, *a):
        global unhex
        unhex = self._old


class rewritten_buffers:
    """Within the block every byte-string argument travels in ONE bytearray per (operation, argument position),
    overwritten in place with the new content before each call, and cryptogram-version objects are kept alive and
    reused for equal constructor arguments.  A callee that remembers an argument *object* (a cache keyed by
    identity, a stored reference) then compares the buffer with itself or reads what a later call wrote."""

    def __enter__(self):
        global unhex, _live
        self._old = unhex
        self.bufs = {}
        _live = {}

        def rewritten(s):
            global _pos
            b = _unhex0(s)
            if len(b) > 65536:
                return b
            _pos += 1
            key = (_cur_op, _pos)
            buf = self.bufs.get(key)
            if buf is None:
                buf = self.bufs[key] = bytearray(b)
            else:
                buf[:] = b
            return buf
        unhex = rewritten
        return self

    def __exit__(self, *a):
        global unhex, _live
        unhex = self._old
        _live = None
