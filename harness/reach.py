"""Measured line reach of the real code (DESIGN.md §5.5): which lines of /repo/pyemv's function bodies the
check's generated calls executed.  Uses sys.monitoring (each location reports once, then disables itself)."""
import inspect
import os
import sys

_hits = set()
_root = None
_TOOL = 1          # sys.monitoring.COVERAGE_ID


def start(repo):
    global _root
    _root = os.path.join(os.path.abspath(repo), "pyemv") + os.sep
    mon = getattr(sys, "monitoring", None)
    if mon is None:
        return False
    try:
        mon.use_tool_id(_TOOL, "verif-reach")
    except ValueError:
        return False

    def on_line(code, line):
        if code.co_filename.startswith(_root):
            _hits.add((code.co_filename, line))
        return mon.DISABLE
    mon.register_callback(_TOOL, mon.events.LINE, on_line)
    mon.set_events(_TOOL, mon.events.LINE)
    return True


def _body_lines(path):
    """line numbers of function bodies (module and class level code runs at import, before monitoring starts)"""
    out = set()

    def walk(code, is_fn):
        if is_fn:
            for _, _, ln in code.co_lines():
                if ln is not None and ln != code.co_firstlineno:
                    out.add(ln)
        for c in code.co_consts:
            if inspect.iscode(c):
                walk(c, bool(c.co_flags & inspect.CO_OPTIMIZED))
    walk(compile(open(path).read(), path, "exec"), False)
    return out


def _functions(path):
    """(first line, last line) of every function body in the file"""
    out = []

    def walk(code, is_fn):
        if is_fn:
            lines = [ln for _, _, ln in code.co_lines() if ln is not None]
            out.append((code.co_firstlineno, max(lines)))
        for c in code.co_consts:
            if inspect.iscode(c):
                walk(c, bool(c.co_flags & inspect.CO_OPTIMIZED))
    walk(compile(open(path).read(), path, "exec"), False)
    return out


def anchor_lines(where_strings):
    """{file: set(lines)} named by the `where` strings of a property's anchors: `pyemv/x.py:a-b, c-d` ranges, and
    single line numbers, which stand for the function they lie in"""
    import re
    want = {}
    for w in where_strings:
        parts = re.split(r"(pyemv/\w+\.py)", w)
        for i in range(1, len(parts), 2):
            f = os.path.basename(parts[i]); text = parts[i + 1] if i + 1 < len(parts) else ""
            path = os.path.join(_root, f)
            if not os.path.exists(path):
                continue
            fns = _functions(path)
            acc = want.setdefault(f, set())
            for a, b in re.findall(r"(?<![\w.])(\d+)(?:-(\d+))?(?![\w.])", text):
                a = int(a)
                if b:
                    acc.update(range(a, int(b) + 1))
                else:
                    inside = [(lo, hi) for lo, hi in fns if lo <= a <= hi or lo <= a + 1 <= hi]
                    if inside:
                        lo, hi = min(inside, key=lambda r: r[1] - r[0])
                        acc.update(range(lo, hi + 1))
                    else:
                        acc.add(a)
            if not re.search(r"\d", text):                 # a whole-file anchor
                for lo, hi in fns:
                    acc.update(range(lo, hi + 1))
    return want


def anchor_report(where_strings):
    """reach inside the anchored line ranges only"""
    want = anchor_lines(where_strings)
    total = 0; done = 0; missed = []
    for f, lines in sorted(want.items()):
        p = os.path.join(_root, f)
        body = _body_lines(p) & lines
        hit = {ln for (fn, ln) in _hits if fn == p} & body
        total += len(body); done += len(hit)
        missed += [f"{f}:{ln}" for ln in sorted(body - hit)]
    return {"anchored_function_body_lines": total, "executed": done, "not_executed": missed[:60], "not_executed_count": len(missed)}


def report(files=None):
    mon = getattr(sys, "monitoring", None)
    if mon is not None:
        try:
            mon.set_events(_TOOL, 0)
            mon.free_tool_id(_TOOL)
        except ValueError:
            pass
    res = {}
    if _root is None:
        return res
    for f in sorted(os.listdir(_root)):
        if not f.endswith(".py") or f == "__init__.py":
            continue
        p = os.path.join(_root, f)
        body = _body_lines(p)
        hit = {ln for (fn, ln) in _hits if fn == p} & body
        if files is not None and f not in files and not hit:
            continue
        missed = sorted(body - hit)
        res[f] = {"function_body_lines": len(body), "executed": len(hit), "not_executed": missed[:40],
                  "not_executed_count": len(missed)}
    return res
