"""modeprobe.py: answer protocol lines from stdin with the real pyemv (one answer per line).  Run by the checks in
child interpreters started with other flags (-O, -OO, -bb …): the library must behave the same there."""
import sys
import os
if os.environ.get("VERIF_BYTEORDER"):                      # simulate the other host byte order for code that reads
    sys.byteorder = os.environ["VERIF_BYTEORDER"]          # sys.byteorder at call time (tools.xor does)
sys.path.insert(0, os.path.dirname(os.path.abspath(__file__)))
import pyexec  # noqa: E402
import warnings  # noqa: E402

if sys.flags.bytes_warning >= 2:                          # the harness silences warnings on import; -bb must stay an error
    warnings.simplefilter("error", BytesWarning)

def selector_probe():
    """every foreign selector object / padding value against the three selector-taking functions: the class of the
    exception that comes out (C15: TypeError for padding and encipherment types, ValueError for MAC padding methods)"""
    import gens
    from core import ac, sm, mac
    out = []
    k = bytes(range(16))
    for i, obj in enumerate(gens.NON_MEMBERS):
        for name, call, member in (("generate_ac", lambda: ac.generate_ac(k, b"data", obj), isinstance(obj, ac.PaddingType)),
                                   ("encrypt_command_data", lambda: sm.encrypt_command_data(k, b"data", obj), isinstance(obj, sm.EncryptionType))):
            if member:
                continue
            try:
                call(); r = "returned"
            except BaseException as e:  # noqa: BLE001
                r = type(e).__name__
            out.append(f"{name}[{i}:{type(obj).__name__}]={r}")
    for i, obj in enumerate(gens.BAD_PADDINGS):
        try:
            mac.mac_iso9797_3(k[:8], k[8:], b"data", obj); r = "returned"
        except BaseException as e:  # noqa: BLE001
            r = type(e).__name__
        out.append(f"mac_iso9797_3[{i}:{type(obj).__name__}]={r}")
    return " ".join(out)


for line in sys.stdin:
    line = line.rstrip("\n")
    if not line:
        continue
    if line == "@selectors":
        print(selector_probe())
        continue
    try:
        print(pyexec.py_answer(line), flush=False)
    except BaseException as e:  # noqa: BLE001
        print(f"uncaught {type(e).__name__}")
