"""modeprobe.py: answer protocol lines from stdin with the real pyemv (one answer per line).  Run by the checks in
child interpreters started with other flags (-O, -OO, -bb …): the library must behave the same there."""
import sys
import os
if os.environ.get("VERIF_BYTEORDER"):                      # simulate the other host byte order for code that reads
    sys.byteorder = os.environ["VERIF_BYTEORDER"]          # sys.byteorder at call time (tools.xor does)
sys.path.insert(0, os.path.dirname(os.path.abspath(__file__)))
import pyexec  # noqa: E402
import warnings  # noqa: E402

if sys.flags.bytes_warning >= 2:                          # the harness silences warnings on import; -bb must stay an error
    warnings.simplefilter("error", BytesWarning)

for line in sys.stdin:
    line = line.rstrip("\n")
    if not line:
        continue
    try:
        print(pyexec.py_answer(line), flush=False)
    except BaseException as e:  # noqa: BLE001
        print(f"uncaught {type(e).__name__}")
