"""./check <Cnn> [--tier quick|thorough] [--seed N] [--replay FILE]"""
import argparse
import fcntl
import hashlib
import json
import os
import re
import subprocess
import sys
import time
import traceback

import core
from core import Ctx, Infra, LEAN, ROOT, PROJ, run_model

STD_AXIOMS = {"propext", "Classical.choice", "Quot.sound"}
FORBIDDEN = re.compile(r"\b(sorry|admit|native_decide|bv_decide|implemented_by)\b|^\s*axiom\s|\bunsafe\s|maxHeartbeats\s+0\b")


def sh(cmd, cwd=None, timeout=3600):
    return subprocess.run(cmd, cwd=cwd, stdout=subprocess.PIPE, stderr=subprocess.STDOUT, text=True, timeout=timeout)


# properties anchored in functions that the source-to-Lean translators cover
# direct callees among the translated functions (names of the refinement theorems in lean/PyemvGen/ModRefines.lean)
DEPS = {
    "mac_mac3": ["mac_pad1", "mac_pad2"],
    "ac_generate_ac": ["mac_mac3"], "ac_generate_arpc_1": ["tools_xor", "tools_cbc"], "ac_generate_arpc_2": ["mac_mac3"],
    "kd_derive_icc_mk_a": ["tools_xor", "tools_ecb", "tools_adjust"], "kd_derive_icc_mk_b": ["kd_derive_icc_mk_a", "tools_xor", "tools_ecb", "tools_adjust"],
    "kd_derive_common_sk": ["tools_ecb", "tools_adjust"], "kd_derive_visa_sm_sk": ["tools_xor", "tools_adjust"],
    "kd_tree_sk": ["kd_tree_walk", "kd_tree_derive", "tools_xor", "tools_adjust"], "kd_tree_walk": ["kd_tree_derive"], "kd_tree_derive": ["tools_xor", "tools_ecb"],
    "sm_generate_command_mac": ["mac_mac3"], "sm_encrypt_command_data": ["mac_pad2", "tools_ecb", "tools_cbc"], "sm_format_vis": ["tools_xor"],
    "cvv_generate_cvc3": ["mac_mac3", "tools_ecb"], "tools_adjust": ["tools_odd_parity"],
}
ALL_MOD = ["ac_generate_ac", "ac_generate_arpc_1", "ac_generate_arpc_2", "kd_derive_icc_mk_a", "kd_derive_icc_mk_b", "kd_derive_common_sk",
           "kd_derive_visa_sm_sk", "kd_tree_sk", "sm_generate_command_mac", "sm_encrypt_command_data", "sm_format_vis", "sm_format_iso2",
           "cvv_generate_cvc3", "mac_mac3", "tools_kcv"]


def _closure(names):
    out = []
    todo = list(names)
    while todo:
        n = todo.pop(0)
        if n not in out:
            out.append(n)
            todo += DEPS.get(n, [])
    return out


# properties anchored in functions that the source-to-Lean translators cover: the anchored functions and everything
# they call (a change in a callee changes what the anchored function computes)
MOD_FUNCS = {pid: _closure(v) for pid, v in {
    "C01": ["ac_generate_ac"],
    "C02": ["ac_generate_arpc_1", "ac_generate_arpc_2"],
    "C03": ["kd_derive_icc_mk_a", "kd_derive_icc_mk_b"],
    "C04": ["kd_derive_common_sk", "kd_derive_visa_sm_sk"],
    "C05": ["kd_tree_sk"],
    "C06": ["sm_generate_command_mac"],
    "C07": ["sm_encrypt_command_data"],
    "C08": [n for n in ALL_MOD if n not in ("cvv_generate_cvc3", "kd_tree_sk", "tools_kcv")],
    "C11": ["cvv_generate_cvc3"],
    "C12": ["sm_format_vis", "sm_format_iso2"],
    "C13": ["tools_adjust", "kd_derive_icc_mk_a", "kd_derive_icc_mk_b", "kd_derive_common_sk", "kd_derive_visa_sm_sk", "kd_tree_sk"],
    "C14": ALL_MOD,
    "C15": [n for n in ALL_MOD if n != "tools_kcv"],
    "C16": ["kd_derive_icc_mk_a", "kd_derive_icc_mk_b", "sm_format_vis", "sm_format_iso2"],
    "C19": ["mac_pad1", "mac_pad2", "tools_xor", "tools_odd_parity", "tools_kcv", "tools_cbc", "tools_ecb"],
}.items()}


# properties anchored in pyemv/tlv.py: the translated decoder / encoder and their refinement theorems
TLV_FUNCS = {
    "C09": ["tlv_decode", "decode_loop_eq", "tlv_decode_sim"],
    "C17": ["tlv_decode", "decode_loop_eq", "tlv_decode_sim"],
    "C10": ["tlv_encode", "encode_for_eq"],
    "C18": ["tlv_decode", "decode_loop_eq", "tlv_decode_sim", "tlv_encode", "encode_for_eq"],
    "C14": ["tlv_decode", "tlv_encode"],
}


# property theorems restated about the translated decoder / encoder (lean/PyemvGen/TlvSource{Dec,Enc,Both}.lean)
TLV_SRC = {
    "C09": {"Dec": ["decode_total", "decode_never_crashes", "decode_ok_iff"]},
    "C17": {"Dec": ["decode_err_eq_spec"]},
    "C10": {"Enc": ["encode_never_crashes", "encode_accepts_iff_wellformed", "encode_canonical", "encode_error_names_first_offender"]},
    "C18": {"Dec": ["convert_calls", "flat_eq_prims"], "Both": ["roundtrip", "reencode"]},
}
TLV_SRC_NEEDS = {"Dec": ["decode"], "Enc": ["encode"], "Both": ["decode", "encode"]}
TLV_SRC_MOD = {n: part for v in TLV_SRC.values() for part, ns in v.items() for n in ns}


# properties whose statements reach the cryptogram-version classes
CVN_PIDS = {"C08", "C13", "C14", "C15", "C16"}
CVN_CLASSES = ["VisaCVN10", "VisaCVN18", "VisaCVN22", "InteracCVN133", "MasterCardCVN16", "MasterCardCVN17", "MasterCardCVN20", "MasterCardCVN21"]
# property theorems restated about the translated classes (lean/PyemvGen/CvnSource.lean, written by lean/mk_cvn_source.py)
CVN_SRC = {"C08": ["_card_accepts_and_recovers"], "C13": ["_ctor_keys"], "C16": ["_forms", "_pin_change_forms"]}


# corollaries that restate a property theorem about the definition translated from the source (module → names)
SOURCE_THMS = {
    "ac_generate_ac": ["source_generate_ac"], "ac_generate_arpc_1": ["source_generate_arpc_1"], "ac_generate_arpc_2": ["source_generate_arpc_2"],
    "kd_derive_common_sk": ["source_derive_common_sk"], "kd_derive_visa_sm_sk": ["source_derive_visa_sm_sk"],
    "kd_tree_sk": ["source_tree_sk", "source_tree_gate"], "sm_generate_command_mac": ["source_generate_command_mac"],
    "sm_encrypt_command_data": ["source_encrypt_command_data"], "cvv_generate_cvc3": ["source_generate_cvc3"],
}
SOURCE_OF = {"C01": ["ac_generate_ac"], "C02": ["ac_generate_arpc_1", "ac_generate_arpc_2"], "C04": ["kd_derive_common_sk", "kd_derive_visa_sm_sk"],
             "C05": ["kd_tree_sk"], "C06": ["sm_generate_command_mac"], "C07": ["sm_encrypt_command_data"], "C11": ["cvv_generate_cvc3"]}
SOURCE_MODULE = {t: m for m, ts in SOURCE_THMS.items() for t in ts}


def src_index(pid=None):
    """property theorems restated about the translated definitions (lean/PyemvGen/Src, written by lean/mk_source.py):
    [{module, uses: [refinement theorems], theorem}]"""
    try:
        idx = json.load(open(os.path.join(LEAN, "PyemvGen", "Src", "index.json")))
    except Exception:  # noqa: BLE001
        return []
    return idx.get(pid, []) if pid else [e for v in idx.values() for e in v]


SRC_BY_THM = {e["theorem"]: e for e in src_index()}


def gen_obligations(pid):
    out = ["Pyemv.ModRefines." + n for n in MOD_FUNCS.get(pid, [])]
    out += ["Pyemv.ModRefines." + t for m in SOURCE_OF.get(pid, []) for t in SOURCE_THMS[m]]
    out += [e["theorem"] for e in src_index(pid)]
    out += ["Pyemv.TlvRefines." + n for n in TLV_FUNCS.get(pid, [])]
    out += ["Pyemv.TlvSource." + n for ns in TLV_SRC.get(pid, {}).values() for n in ns]
    if pid in CVN_PIDS:
        gen = json.load(open(os.path.join(LEAN, "obligations.json"))).get("C08_gen", [])
        out += gen if pid == "C08" else [n for n in gen if n.endswith("_new") or n.endswith("_row")]
        out += ["Pyemv.CvnSource." + c + s for c in CVN_CLASSES for s in CVN_SRC.get(pid, [])]
    return out


PY2THM = {
    "tools.xor": ["tools_xor"], "tools.odd_parity": ["tools_odd_parity"], "tools.adjust_key_parity": ["tools_adjust"],
    "tools.key_check_digits": ["tools_kcv"], "tools.encrypt_tdes_cbc": ["tools_cbc"], "tools.encrypt_tdes_ecb": ["tools_ecb"],
    "mac.pad_iso9797_1": ["mac_pad1"], "mac.pad_iso9797_2": ["mac_pad2"], "mac.mac_iso9797_3": ["mac_mac3"],
    "ac.generate_ac": ["ac_generate_ac"], "ac.generate_arpc_1": ["ac_generate_arpc_1"], "ac.generate_arpc_2": ["ac_generate_arpc_2"],
    "kd.derive_icc_mk_a": ["kd_derive_icc_mk_a"], "kd.derive_icc_mk_b": ["kd_derive_icc_mk_b"], "kd.derive_common_sk": ["kd_derive_common_sk"],
    "kd.derive_visa_sm_sk": ["kd_derive_visa_sm_sk"], "kd.derive_emv2000_tree_sk": ["kd_tree_sk", "kd_tree_walk", "kd_tree_derive"],
    "sm.generate_command_mac": ["sm_generate_command_mac"], "sm.encrypt_command_data": ["sm_encrypt_command_data"],
    "sm.format_vis_pin_block": ["sm_format_vis"], "sm.format_iso9564_2_pin_block": ["sm_format_iso2"], "cvv.generate_cvc3": ["cvv_generate_cvc3"],
}


def build_each(targets):
    """names of the Lean modules among `targets` that do not build (one combined build; singly only on failure)"""
    g = sh(["lake", "build"] + targets, cwd=LEAN)
    if g.returncode == 0:
        return {}, ""
    bad = {}
    for t in targets:
        r = sh(["lake", "build", t], cwd=LEAN)
        if r.returncode != 0:
            errs = [ln for ln in r.stdout.split("\n") if ln.startswith("error:")][:3]
            bad[t] = " | ".join(errs)[:500]
    return bad, g.stdout


def mod_job(pid, problems):
    """translated straight-line functions: regenerate, then build the refinement module of every function the
    property depends on (the anchored ones and their callees) — and of no other"""
    want = MOD_FUNCS[pid]
    out = os.path.join(LEAN, "PyemvGen", "ModGen.lean")
    t = sh([sys.executable, os.path.join(core.HERE, "translate_py.py"), core.REPO, out])
    fails = {}
    try:
        fails = json.load(open(out + ".failures.json"))
    except Exception:  # noqa: BLE001
        if t.returncode != 0:
            problems.append(("ModRefines", "translator (translate_py.py) crashed: " + t.stdout.strip()[-300:]))
            return
    refused = {}
    for pyname, msg in fails.items():
        for thm in PY2THM.get(pyname, []):
            refused[thm] = f"{pyname}: {msg}"
    bad, _ = build_each(["PyemvGen.Mod." + n for n in want])
    for n in want:
        if n in refused:
            problems.append(("ModRefines." + n, f"translator (translate_py.py): unsupported construct in {refused[n]}"))
        elif ("PyemvGen.Mod." + n) in bad:
            callee = [d for d in _closure([n])[1:] if d in refused or ("PyemvGen.Mod." + d) in bad]
            why = (f"it calls {', '.join(callee)}, which is no longer translated / proved" if callee
                   else "the refinement proof no longer closes: " + bad["PyemvGen.Mod." + n])
            problems.append(("ModRefines." + n, f"ModRefines.{n}: the definition translated from the current source is no longer proved equal to the model — {why}"))
    # the property's theorems restated about the translated definitions: built where every refinement they use stands
    down = {tag.split(".", 1)[1] for tag, _ in problems if tag.startswith("ModRefines.")}
    srcmods = sorted({e["module"] for e in src_index(pid) if not (set(e["uses"]) & down)})
    bad, _ = build_each(["PyemvGen.Src." + m for m in srcmods])
    for m in srcmods:
        if ("PyemvGen.Src." + m) in bad:
            problems.append(("Src." + m, f"Src.{m}: the property theorems restated about the translated definitions no longer check: " + bad["PyemvGen.Src." + m]))


TLV_HALF = {"tlv_decode": "decode", "decode_loop_eq": "decode", "tlv_decode_sim": "decode", "tlv_encode": "encode", "encode_for_eq": "encode"}
TLV_MODULE = {"decode": "PyemvGen.TlvRefinesDec", "encode": "PyemvGen.TlvRefinesEnc"}


def tlv_job(pid, problems):
    """tlv.py: the decoder half and the encoder half are translated and proved separately; a property is told
    only about the half it is anchored in"""
    halves = sorted({TLV_HALF[n] for n in TLV_FUNCS[pid]})
    out = os.path.join(LEAN, "PyemvGen", "TlvGen.lean")
    t = sh([sys.executable, os.path.join(core.HERE, "translate_tlv.py"), core.REPO, out])
    try:
        fails = json.load(open(out + ".failures.json"))
    except Exception:  # noqa: BLE001
        problems.append(("TlvRefines", "translator (translate_tlv.py) crashed: " + t.stdout.strip()[-300:]))
        return
    bad, _ = build_each([TLV_MODULE[h] for h in halves])
    for h in halves:
        names = [n for n in TLV_FUNCS[pid] if TLV_HALF[n] == h]
        if h in fails:
            for n in names:
                problems.append(("TlvRefines." + n, f"translator (translate_tlv.py): unsupported construct in the {h}r: {fails[h]}"))
        elif TLV_MODULE[h] in bad:
            for n in names:
                problems.append(("TlvRefines." + n, f"TlvRefines.{n}: the {h}r translated from the current source is no longer proved equal "
                                                    f"to the model: {bad[TLV_MODULE[h]]}"))
    # the property's theorems restated about the translated decoder / encoder, where the halves they rest on stand
    down = {h for h in halves if h in fails or TLV_MODULE[h] in bad}
    for part, names in TLV_SRC.get(pid, {}).items():
        if set(TLV_SRC_NEEDS[part]) & down:
            for n in names:
                problems.append(("TlvSource." + n, None))        # rests on a half already reported
            continue
        b2, _ = build_each(["PyemvGen.TlvSource" + part])
        if b2:
            for n in names:
                problems.append(("TlvSource." + n, f"TlvSource.{n}: the property theorem restated about the translated code no longer checks: "
                                                   + list(b2.values())[0]))


def lake_build(pid):
    """(ok, log, gen_problems). Serialised by a file lock so that checks started in parallel do not race.
    For the properties anchored in translated functions the Lean definitions are first regenerated from the
    repository's current source by the translators, then the refinement proofs (generated definition =
    hand-written Impl model; generated class = profile row) are built against them."""
    os.makedirs(os.path.join(LEAN, ".lake"), exist_ok=True)
    problems = []
    with open(os.path.join(LEAN, ".lake", "verif.lock"), "w") as lk:
        fcntl.flock(lk, fcntl.LOCK_EX)
        r = sh(["lake", "build"], cwd=LEAN)
        if r.returncode != 0:
            return False, r.stdout, problems
        jobs = []
        if pid in MOD_FUNCS:
            mod_job(pid, problems)
        if pid in CVN_PIDS:
            jobs.append(("translate_cvn.py", "CvnGen.lean", "PyemvGen.CvnRefines", "CvnRefines"))
        if pid in TLV_FUNCS:
            tlv_job(pid, problems)
        for script, out, target, tag in jobs:
            t = sh([sys.executable, os.path.join(core.HERE, script), core.REPO, os.path.join(LEAN, "PyemvGen", out)])
            if t.returncode != 0:
                problems.append((tag, "translator (" + script + "): " + t.stdout.strip()[-300:]))
                continue
            g = sh(["lake", "build", target], cwd=LEAN)
            if g.returncode != 0:
                errs = [ln for ln in g.stdout.split("\n") if ln.startswith("error:")][:4]
                problems.append((tag, f"{tag}: the definitions translated from the current source are no longer proved "
                                      "equal to the model: " + " | ".join(errs)[:900]))
            elif tag == "CvnRefines" and pid in CVN_SRC:
                g = sh(["lake", "build", "PyemvGen.CvnSource"], cwd=LEAN)
                if g.returncode != 0:
                    errs = [ln for ln in g.stdout.split("\n") if ln.startswith("error:")][:4]
                    problems.append(("CvnSource", "CvnSource: the property theorems restated about the translated classes no longer check: "
                                     + " | ".join(errs)[:900]))
        return True, r.stdout, problems
def strip_comments(src):
    src = re.sub(r"/-.*?-/", lambda m: "\n" * m.group(0).count("\n"), src, flags=re.S)
    return re.sub(r"--.*", "", src)


def grep_forbidden():
    hits = []
    for d, _, fs in os.walk(LEAN):
        if ".lake" in d:
            continue
        for f in fs:
            if f.endswith(".lean"):
                p = os.path.join(d, f)
                for i, ln in enumerate(strip_comments(open(p).read()).split("\n"), 1):
                    if FORBIDDEN.search(ln):
                        hits.append(f"{os.path.relpath(p, LEAN)}:{i}: {ln.strip()[:100]}")
    return hits


def obligations(pid, gen=True):
    reg = json.load(open(os.path.join(LEAN, "obligations.json")))
    return reg.get(pid, []) + (gen_obligations(pid) if gen else [])


def is_broken(name, broken):
    last = name.split(".")[-1]
    if ".CvnSource." in name:
        return "CvnRefines" in broken or "CvnSource" in broken
    if name in SRC_BY_THM:
        e = SRC_BY_THM[name]
        return ("Src." + e["module"]) in broken or any(("ModRefines." + u) in broken for u in e["uses"])
    if last in SOURCE_MODULE and ("ModRefines." + SOURCE_MODULE[last]) in broken:
        return True
    return any(("." + b + ".") in name or name.endswith("." + b) for b in broken)


def audit(pid, workdir, broken=()):
    """#print axioms for every theorem registered for the property. Returns (names, discharged, problems).
    `broken` lists the generated-refinement modules that did not build (their theorems count as not discharged)."""
    names = obligations(pid, gen=True)
    if not names:
        return [], [], [f"no theorem registered for {pid}"]
    printable = [n for n in names if not is_broken(n, broken)]
    imports = "import PyemvProps\n"
    for m in sorted({SRC_BY_THM[n]["module"] for n in printable if n in SRC_BY_THM}):
        imports += "import PyemvGen.Src." + m + "\n"
    for n in printable:
        if ".ModRefines." in n:
            last = n.split(".")[-1]
            imports += "import PyemvGen.Mod." + SOURCE_MODULE.get(last, last) + "\n"
    if any(".CvnRefines." in n for n in printable):
        imports += "import PyemvGen.CvnRefines\n"
    if any(".CvnSource." in n for n in printable):
        imports += "import PyemvGen.CvnSource\n"
    for h in sorted({TLV_HALF[n.split(".")[-1]] for n in printable if ".TlvRefines." in n}):
        imports += "import " + TLV_MODULE[h] + "\n"
    for part in sorted({TLV_SRC_MOD[n.split(".")[-1]] for n in printable if ".TlvSource." in n}):
        imports += "import PyemvGen.TlvSource" + part + "\n"
    path = os.path.join(workdir, f"Audit_{pid}.lean")
    with open(path, "w") as f:
        f.write(imports + "".join(f"#print axioms {n}\n" for n in printable))
    r = sh(["lake", "env", "lean", path], cwd=LEAN)
    out = r.stdout
    problems = []; ok = []
    found = {}
    for m in re.finditer(r"'([^']+)' depends on axioms: \[([^\]]*)\]", out, flags=re.S):
        found[m.group(1)] = {a.strip() for a in m.group(2).replace("\n", " ").split(",") if a.strip()}
    for m in re.finditer(r"'([^']+)' does not depend on any axioms", out):
        found[m.group(1)] = set()
    for n in names:
        if n not in printable:
            continue                                     # its module did not build; reported by the translation job
        if n not in found:
            problems.append(f"theorem {n} does not check (missing or erroneous): {out.strip()[-300:]}")
        elif not found[n] <= STD_AXIOMS:
            problems.append(f"theorem {n} depends on non-standard axioms {sorted(found[n] - STD_AXIOMS)}")
        else:
            ok.append(n)
    return names, ok, problems


# -------------------------------------------------------------------------------------------------
# known findings

def load_findings(pid):
    known = []
    p = os.path.join(ROOT, "KNOWN_FINDINGS.txt")
    if os.path.exists(p):
        for ln in open(p):
            ln = ln.strip()
            if ln.startswith("known:") and f"property={pid} " in ln:
                m = re.search(r"id=(\S+)", ln)
                known.append({"id": m.group(1) if m else "?", "line": ln})
    return known


def probe_findings(ctx, known):
    """re-probe every listed finding of this property on the current tree; returns KNOWN-FINDING lines"""
    lines = []
    from core import sm, tlv
    for k in known:
        if k["id"] == "recursion-depth":
            import props_c
            r = ctx.extra.get("probe:deep nesting") or props_c.nested_probe(ctx)
            if r and r["exception"] == "RecursionError" and r["min_depth"] >= 900:
                lines.append(f"KNOWN-FINDING: property={ctx.pid} tlv.decode raises RecursionError (neither a tree nor DecodeError) for "
                             f"well-formed templates nested >= {r['min_depth']} deep ({r['input_bytes']} bytes; interpreter recursion limit {r['recursion_limit']})")
            elif r:
                ctx.violations.append({"kind": "predicate", "predicate": "decode is total",
                                       "detail": f"deep nesting probe outside the recorded finding: {r}", "op": f"nested E0 templates depth {r['min_depth']}"})
            ctx.extra["probe:deep nesting"] = r
        elif k["id"] == "mastercard-not-injective":
            key = bytes(range(16)); d = bytes(range(1, 8))
            a = sm.encrypt_command_data(key, d, sm.EncryptionType.MASTERCARD)
            b = sm.encrypt_command_data(key, d + b"\x80", sm.EncryptionType.MASTERCARD)
            ctx.extra["probe:mastercard framing"] = {"D": d.hex(), "same_ciphertext_as_D||80": a == b}
            if a == b:
                lines.append(f"KNOWN-FINDING: property={ctx.pid} MasterCard framing is not injective: data {d.hex()} and {d.hex()}80 "
                             "encipher to the same ciphertext (inherent in 'pad only when not a multiple of 8'; recoverable only when the receiver knows the alignment)")
    return lines


# -------------------------------------------------------------------------------------------------
# shrinking and replays

def still_disagrees(line, proj):
    import pyexec
    try:
        g = pyexec.py_answer(line)
        w = run_model([line], 1)[0]
    except Exception:  # noqa: BLE001
        return False, None, None
    return PROJ[proj](g) != PROJ[proj](w), g, w


def shrink_line(line, proj, budget=120):
    """delta-debug the hex arguments of a protocol line while the disagreement persists"""
    ok, g, w = still_disagrees(line, proj)
    if not ok:
        return line, None, None                          # needs its history (state) to reproduce
    toks = line.split()
    if toks[0] in ("tlv.encode",):
        return line, g, w
    tries = 0
    changed = True
    while changed and tries < budget:
        changed = False
        for i in range(1, len(toks)):
            t = toks[i]
            pre = ""
            if t[:2] in ("s:", "b:"):
                pre, t = t[:2], t[2:]
            if not re.fullmatch(r"(?:[0-9a-fA-F]{2})+", t) or len(t) <= 2:
                continue
            for cand in (t[: len(t) // 4 * 2], t[len(t) // 4 * 2:], t[:-2], t[2:], "00" * (len(t) // 2)):
                if cand == t or tries >= budget:
                    continue
                tries += 1
                new = toks[:i] + [pre + (cand or ".")] + toks[i + 1:]
                if pre and not cand:
                    continue
                ok2, g2, w2 = still_disagrees(" ".join(new), proj)
                if ok2:
                    toks = new; g, w = g2, w2; changed = True
                    break
    return " ".join(toks), g, w


def write_replay(ctx, v, extra=None):
    os.makedirs(os.path.join(ROOT, "replays"), exist_ok=True)
    body = {"property": ctx.pid, "tier": ctx.tier, "seed": ctx.seed, "kind": v["kind"]}
    for k in ("op", "gen", "proj", "model", "pyemv", "predicate", "detail", "history", "theorem", "note", "shared_objects", "rewritten_buffers", "interleave"):
        if k in v and v[k] is not None:
            body[k] = v[k]
    if extra:
        body.update(extra)
    body["theorems"] = obligations(ctx.pid)
    body["replay_cmd"] = f"./check {ctx.pid} --replay <this file>"
    h = hashlib.sha1(json.dumps(body, sort_keys=True, default=str).encode()).hexdigest()[:12]
    path = os.path.join(ROOT, "replays", f"{ctx.pid}-{h}.json")
    with open(path, "w") as f:
        json.dump(body, f, indent=1, default=str)
    return path


def do_replay(pid, path):
    import pyexec
    r = json.load(open(path))
    print(f"replay of {path}: property {r.get('property')} kind {r.get('kind')}")
    if r.get("kind") == "interleave" and r.get("interleave"):
        import interleave
        bad = interleave.replay(r["interleave"], PROJ)
        print("reproduced" if bad else "not reproduced on the current tree")
        return 1 if bad else 0
    lines = r.get("history") or ([r["op"]] if r.get("kind") == "disagreement" else [])
    if r.get("kind") == "disagreement" and lines:
        proj = r.get("proj", "full")
        want = run_model(lines, 1)
        bad = 0
        import contextlib
        scope = (pyexec.shared_objects() if r.get("shared_objects") else pyexec.rewritten_buffers() if r.get("rewritten_buffers")
                 else contextlib.nullcontext())
        with scope:
            for ln, w in zip(lines, want):
                try:
                    g = pyexec.py_answer(ln)
                except Exception as e:  # noqa: BLE001
                    g = f"cannot re-execute ({e})"
                diff = PROJ[proj](g) != PROJ[proj](w)
                if diff or ln == lines[-1]:
                    print(f"  op    : {ln[:400]}\n  model : {w[:300]}\n  pyemv : {g[:300]}\n  {'DISAGREE' if diff else 'agree'}")
                bad += diff
        print("reproduced" if bad else "not reproduced on the current tree")
        return 1 if bad else 0
    print("  " + str(r.get("predicate") or r.get("theorem")) + ": " + str(r.get("detail"))[:600])
    print("  (predicate replays are re-run by the check itself with the recorded seed: "
          f"./check {r.get('property')} --tier {r.get('tier')} --seed {r.get('seed')})")
    return 0


# -------------------------------------------------------------------------------------------------

def shared_object_session(ctx):
    """Re-run a sample of the property's own (agreeing) cases, in order, with every byte-string argument a pooled
    bytearray object that is shared between calls and never rewritten; the answers must still be the model's and
    no pooled object may have changed.  Catches in-place updates of, and retained references to, caller-held
    buffers for every public function at once."""
    import pyexec
    keep = []
    cap = 6000 if ctx.thorough else 700
    # contiguous runs (neighbouring cases share keys and buffers) rather than isolated picks, and every operation with
    # its share: the cases are grouped by operation (in generation order), each group is cut into runs of 25, and the
    # runs are dealt out round-robin until the cap is reached; the sample is then put back in generation order
    groups = {}
    for i, x in enumerate(ctx.replayable):
        wl = x[0].split(None, 8)
        groups.setdefault(wl[0] + (" " + wl[7] if wl[0] == "cvn" and len(wl) > 7 else ""), []).append(i)
    runs = {k: [v[j:j + 25] for j in range(0, len(v), 25)] for k, v in groups.items()}
    for k in runs:                                         # spread over the group, not only its beginning
        r = runs[k]; runs[k] = r[::2] + r[1::2]
    picked = []
    while len(picked) < cap // 2 and any(runs.values()):
        for k in sorted(runs):
            if runs[k] and len(picked) < cap // 2:
                picked += runs[k].pop(0)
    # the other half: runs of neighbouring cases across all operations (one object's constructor and methods, one key's
    # derivations stay together), spread over the whole store
    stride = max(1, len(ctx.replayable) // max(1, cap // 2))
    picked += [i for i in range(len(ctx.replayable)) if (i // 25) % stride == 0][:cap // 2]
    sample = [ctx.replayable[i] for i in sorted(set(picked))][:cap]
    for line, proj, want in sample:
        if len(line) > 20000:
            continue
        try:
            g = pyexec.py_answer(line)
        except Exception:  # noqa: BLE001
            continue
        if PROJ[proj](g) == PROJ[proj](want):           # the line alone reproduces the case (no custom call)
            keep.append((line, proj, want))
    ctx.keep = keep
    n = 0
    with pyexec.shared_objects() as sh:
        for i, (line, proj, want) in enumerate(keep):
            try:
                g = pyexec.py_answer(line)
            except Exception as e:  # noqa: BLE001
                g = f"uncaught {type(e).__name__}"
            n += 1
            if PROJ[proj](g) != PROJ[proj](want):
                ctx.violations.append({"kind": "disagreement", "op": line, "gen": "shared-object session", "proj": proj,
                                       "model": want, "pyemv": g, "history": [k[0] for k in keep[: i + 1]], "shared_objects": True,
                                       "note": "arguments are pooled bytearray objects shared between the calls of the history"})
                break
        mod = sh.modified()
    for before, after in mod[:3]:
        ctx.violations.append({"kind": "predicate", "predicate": "arguments not modified (shared-object session)",
                               "detail": f"a bytearray argument holding {before.hex()[:80]} was left holding {after.hex()[:80]}",
                               "op": "shared-object session"})
    ctx.relational["shared-object session: same answers, arguments untouched"] += n
    ctx.evaluations += n
    ctx.extra["shared_object_session"] = {"calls": n, "distinct_objects": len(sh.pool)}
    # the same calls with read-only buffer views as arguments: the model's answer, or a refusal by TypeError
    # (a parameter that takes no buffer object) — never another exception class, never another value
    m = 0; refused = 0
    with pyexec.view_objects():
        for line, proj, want in keep[:: max(1, len(keep) // 400)]:
            try:
                g = pyexec.py_answer(line)
            except Exception as e:  # noqa: BLE001
                g = f"uncaught {type(e).__name__}"
            m += 1
            if g.startswith("err TypeError"):
                refused += 1
                continue
            if PROJ[proj](g) != PROJ[proj](want):
                ctx.violations.append({"kind": "predicate", "predicate": "arguments as read-only buffer views: same answer or TypeError",
                                       "detail": f"{line[:300]} with memoryview arguments -> {g[:200]}, bytes arguments -> {want[:200]}",
                                       "op": line})
                break
    # the same calls with one buffer per (operation, argument position) overwritten in place between calls, on
    # cryptogram-version objects that stay alive: a callee that remembers an argument object is now wrong
    q = 0
    with pyexec.rewritten_buffers() as rb:
        for i, (line, proj, want) in enumerate(keep):
            try:
                g = pyexec.py_answer(line)
            except Exception as e:  # noqa: BLE001
                g = f"uncaught {type(e).__name__}"
            q += 1
            if PROJ[proj](g) != PROJ[proj](want):
                ctx.violations.append({"kind": "disagreement", "op": line, "gen": "rewritten-buffer session", "proj": proj,
                                       "model": want, "pyemv": g, "history": [k[0] for k in keep[: i + 1]], "rewritten_buffers": True,
                                       "note": "each byte-string argument travels in one bytearray per (operation, position), overwritten "
                                               "in place before every call; class objects are reused"})
                break
    ctx.relational["rewritten-buffer session: same answers"] += q
    ctx.evaluations += q
    ctx.extra["rewritten_buffer_session"] = {"calls": q, "buffers": len(rb.bufs)}
    ctx.relational["buffer-view arguments: same answer or TypeError"] += m
    ctx.evaluations += m
    ctx.extra["buffer_view_session"] = {"calls": m, "refused_with_TypeError": refused}


def interleave_session(ctx):
    """preemption at line boundaries by a complete call in a second thread, and calls cut short by an exception at a
    line, over the run's own reproducible cases (harness/interleave.py)"""
    import interleave
    keep = getattr(ctx, "keep", None)
    if not keep:
        return
    budget = float(os.environ.get("VERIF_INTERLEAVE_S", "0") or 0) or (60.0 if ctx.thorough else 25.0 if getattr(ctx, "boost", False) else 10.0)
    deep = ctx.thorough or getattr(ctx, "boost", False)
    interleave.session(ctx, keep, PROJ, budget * (0.6 if deep else 1.0), 40 if ctx.thorough else 14)
    if deep and not ctx.violations:
        # switch points inside a line as well (two stores written in one statement)
        interleave.session(ctx, keep, PROJ, budget * 0.4, 60 if ctx.thorough else 24, event="INSTRUCTION")


INTERPRETER_MODES = [["-O"], ["-OO"], ["-bb"], ["byteorder=big"], ["-X", "dev", "-W", "default"], ["-I"], ["-X", "utf8=0"]]


def interpreter_modes(ctx):
    """The same calls in child interpreters started with other flags: asserts stripped (-O, -OO), bytes/str
    comparison an error (-bb), development mode, isolated mode.  A sample of the run's own agreeing cases is
    answered there and compared with the model's answers."""
    import pyexec
    keep = []
    for line, proj, want in ctx.replayable[:: max(1, len(ctx.replayable) // (400 if ctx.thorough else 180))]:
        if len(line) > 8000:
            continue
        try:
            g = pyexec.py_answer(line)
        except Exception:  # noqa: BLE001
            continue
        if PROJ[proj](g) == PROJ[proj](want):
            keep.append((line, proj, want))
    if ctx.pid == "C19":
        # `tools.xor` with operands of different lengths: the one place where the host's byte order shows; the
        # big-endian child below is compared with the model's big-endian reading on these
        have = {k[0] for k in keep}
        extra = [r for r in ctx.replayable if r[0].startswith("tools.xor ") and len(r[0].split()) == 3
                 and len(r[0].split()[1]) != len(r[0].split()[2]) and len(r[0]) < 8000 and r[0] not in have]
        keep += extra[:: max(1, len(extra) // 80)]
    if not keep:
        return
    # every text argument also in its other form (str <-> bytes), right after the original, in the same process
    twins = []
    for line, proj, want in keep:
        toks = line.split()
        if any(t[:2] in ("s:", "b:") and len(t) > 2 for t in toks):
            twins.append((" ".join(("b:" + t[2:]) if t[:2] == "s:" and len(t) > 2 else ("s:" + t[2:]) if t[:2] == "b:" and len(t) > 2 else t
                                   for t in toks), proj))
    twins = twins[:200]
    twin_want = dict(zip([t[0] for t in twins], run_model([t[0] for t in twins], 1))) if twins else {}
    tw = dict(twins)
    both = []
    for line, proj, want in keep:
        both.append((line, proj, want))
        toks = line.split()
        tl = " ".join(("b:" + t[2:]) if t[:2] == "s:" and len(t) > 2 else ("s:" + t[2:]) if t[:2] == "b:" and len(t) > 2 else t for t in toks)
        if tl != line and tl in twin_want:
            both.append((tl, tw[tl], twin_want[tl]))
    keep = both
    text = "\n".join(k[0] for k in keep) + "\n"
    selectors = ctx.pid == "C15"                       # the property that speaks about how selectors are refused
    if selectors:
        text += "@selectors\n"
    env = dict(os.environ, PYEMV_REPO=core.REPO)
    env.pop("PYTHONOPTIMIZE", None)
    n = 0
    modes = INTERPRETER_MODES if ctx.thorough else INTERPRETER_MODES[:4]
    for flags in modes:
        env2 = dict(env); pyflags = flags; txt = text; kp = keep
        if flags == ["byteorder=big"]:
            # a host of the other byte order, simulated: sys.byteorder is what the library consults. `tools.xor` with
            # operands of different lengths is byte-order dependent on the pinned code as well: there the expected answer
            # is the model's big-endian reading of the same source (`xorBigEndian`, op `tools.xor_be`).
            env2["VERIF_BYTEORDER"] = "big"; pyflags = []
            uneq = [k[0] for k in keep if k[0].startswith("tools.xor ") and len(k[0].split()) == 3 and len(k[0].split()[1]) != len(k[0].split()[2])]
            be_want = dict(zip(uneq, run_model(["tools.xor_be " + ln.split(" ", 1)[1] for ln in uneq], 1))) if uneq else {}
            kp = [(k[0], k[1], be_want.get(k[0], k[2])) for k in keep]
            txt = "\n".join(k[0] for k in kp) + "\n"
            if not kp:
                continue
        r = subprocess.run([sys.executable] + pyflags + [os.path.join(core.HERE, "modeprobe.py")], input=txt, env=env2,
                           stdout=subprocess.PIPE, stderr=subprocess.PIPE, text=True, timeout=600)
        out = r.stdout.split("\n")
        if r.returncode != 0 or len(out) < len(kp):
            ctx.violations.append({"kind": "predicate", "predicate": "the library runs under interpreter flags " + " ".join(flags),
                                   "detail": f"child interpreter exited {r.returncode} after {len(out) - 1} of {len(kp)} answers: {r.stderr.strip()[-300:]}",
                                   "op": "interpreter mode " + " ".join(flags)})
            continue
        if selectors and flags != ["byteorder=big"] and len(out) > len(kp):
            for item in out[len(kp)].split():
                what, _, cls = item.partition("=")
                want_cls = "ValueError" if what.startswith("mac_iso9797_3") else "TypeError"
                n += 1
                if cls != want_cls:
                    ctx.violations.append({"kind": "predicate", "predicate": "unknown selectors are refused with TypeError, MAC padding methods other than 1 or 2 with ValueError (interpreter flags " + " ".join(flags) + ")",
                                           "detail": f"python {' '.join(flags)}: {what} -> {cls}, expected {want_cls} (index into gens.NON_MEMBERS / gens.BAD_PADDINGS)",
                                           "op": what})
                    break
        for (line, proj, want), g in zip(kp, out):
            n += 1
            if PROJ[proj](g) != PROJ[proj](want):
                ctx.violations.append({"kind": "predicate", "predicate": "same answers under interpreter flags " + " ".join(flags),
                                       "detail": f"python {' '.join(flags)}: {line[:300]} -> {g[:200]}, expected {want[:200]}",
                                       "op": line, "note": "reproduce: echo '<op>' | PYEMV_REPO=/repo " + ("VERIF_BYTEORDER=big /venv/bin/python" if flags == ["byteorder=big"] else "/venv/bin/python " + " ".join(flags)) + " harness/modeprobe.py"})
                break
    ctx.relational["interpreter modes: same answers"] += n
    ctx.evaluations += n
    ctx.extra["interpreter_modes"] = {"modes": [" ".join(m) for m in modes], "calls_per_mode": len(keep)}


def anchor_files(pid):
    """basenames of the source files the property is anchored in (properties.jsonl)"""
    try:
        for ln in open(os.path.join(core.HERE, "..", "properties.jsonl")):
            p = json.loads(ln)
            if p["id"] == pid:
                return {os.path.basename(f) for f in p["anchors"]["files"]}
    except Exception:  # noqa: BLE001
        pass
    return None


def anchor_where(pid):
    try:
        for ln in open(os.path.join(core.HERE, "..", "properties.jsonl")):
            p = json.loads(ln)
            if p["id"] == pid:
                return [m["where"] for m in p["anchors"]["mechanism"]]
    except Exception:  # noqa: BLE001
        pass
    return []


def prop_fn(pid):
    import props_a, props_b, props_c, props_d
    for m in (props_a, props_b, props_c, props_d):
        if hasattr(m, pid):
            return getattr(m, pid)
    raise Infra(f"no check for {pid}")


LEVEL_RULE = ("cases are protocol operations generated from the seeded generators or enumerated grids; a case is "
              "counted as distinct by the hash of its canonical operation line, and as non-trivial when it is not "
              "one of the deliberately malformed (out-of-domain) inputs")


def main():
    ap = argparse.ArgumentParser()
    ap.add_argument("pid")
    ap.add_argument("--tier", default=os.environ.get("VERIF_TIER", "quick"))
    ap.add_argument("--seed", type=int, default=int(os.environ.get("VERIF_SEED", "1") or 1))
    ap.add_argument("--replay")
    a = ap.parse_args()
    pid = a.pid
    tier = "thorough" if a.tier == "thorough" else "quick"
    if a.replay:
        sys.exit(do_replay(pid, a.replay))
    ctx = Ctx(pid, tier, a.seed)
    work = os.path.join(ROOT, ".work", f"{pid}-{os.getpid()}")
    os.makedirs(work, exist_ok=True)
    proof_problems = []
    names, discharged = [], []
    try:
        t = time.time()
        ok, log, gen_problems = lake_build(pid)
        if not ok:
            proof_problems.append("lake build failed: " + log.strip()[-600:])
        proof_problems += [msg for _, msg in gen_problems if msg]
        hits = grep_forbidden()
        if hits:
            proof_problems.append("forbidden construct in Lean sources: " + "; ".join(hits[:5]))
        if ok:
            broken = [tag for tag, _ in gen_problems]
            names, discharged, probs = audit(pid, work, broken=broken)
            probs = [p for p in probs if not any(("." + b + ".") in p or ("." + b + " ") in p or p.endswith("." + b) for b in broken)]
            proof_problems += probs
            if tier == "thorough":
                with open(os.path.join(LEAN, ".lake", "verif.lock"), "w") as lk:
                    fcntl.flock(lk, fcntl.LOCK_EX)
                    kat = sh(["lake", "build", "PyemvKat"], cwd=LEAN, timeout=3000)
                ctx.extra["known_answers"] = {"target": "PyemvKat (13 documented / published vectors evaluated in the kernel) + PyemvProps.KnownAnswers (16, default build)",
                                              "exit": kat.returncode}
                if kat.returncode != 0:
                    proof_problems.append("known answers (PyemvKat) no longer evaluate to the documented values: " + kat.stdout.strip()[-400:])
                mods = sorted({"PyemvProps." + pid}
                              | {"PyemvGen.Src." + e["module"] for e in src_index(pid) if not is_broken(e["theorem"], broken)}
                              | {"PyemvGen.Mod." + n for n in MOD_FUNCS.get(pid, []) if ("ModRefines." + n) not in broken}
                              | ({"PyemvGen.CvnRefines", "PyemvGen.CvnSource"} if pid in CVN_PIDS and "CvnRefines" not in broken and "CvnSource" not in broken else set())
                              | {TLV_MODULE[TLV_HALF[n]] for n in TLV_FUNCS.get(pid, []) if ("TlvRefines." + n) not in broken}
                              | {"PyemvGen.TlvSource" + part for part, ns in TLV_SRC.get(pid, {}).items()
                                 if not any(("TlvSource." + n) in broken for n in ns)})
                r = sh(["lake", "env", "leanchecker"] + mods, cwd=LEAN, timeout=3000)
                ctx.extra["leanchecker"] = {"modules": mods, "exit": r.returncode, "tail": r.stdout.strip()[-200:]}
                if r.returncode != 0:
                    proof_problems.append("leanchecker rejected " + ",".join(mods) + ": " + r.stdout.strip()[-300:])
        ctx.extra["lean_s"] = round(time.time() - t, 1)
        if not os.path.exists(core.DRIVER):
            raise Infra("model driver missing after build")
        fn = prop_fn(pid)
        # change-directed search aid: constants of the current source that the snapshot of the pinned tree lacks
        import hints, gens
        try:
            h = hints.Hints(hints.harvest(core.REPO))
        except Exception:  # noqa: BLE001
            h = None
        gens.HINTS = h if h else None
        if h:
            ctx.extra["change_directed_hints"] = h.summary()
        import reach
        reach_on = reach.start(core.REPO)
        try:
            try:
                t_a = time.time(); fn(ctx)
                t_b = time.time(); shared_object_session(ctx)
                t_i = time.time(); interleave_session(ctx)
                t_c = time.time(); interpreter_modes(ctx)
                ctx.extra["phase_s"] = {"property_cases": round(t_b - t_a, 1), "shared_object_session": round(t_i - t_b, 1),
                                        "interleave_session": round(t_c - t_i, 1), "interpreter_modes": round(time.time() - t_c, 1)}
                if tier == "thorough" and not ctx.violations:
                    # further independent streams under other seeds while the property is cheap (generated cases only
                    # differ; the enumerations are seed-independent and are what makes the expensive properties expensive)
                    extra_seeds = []
                    while (t_b - t_a) * (len(extra_seeds) + 1) < 150 and len(extra_seeds) < 3 and not ctx.violations:
                        s2 = a.seed + 104729 * (len(extra_seeds) + 1)
                        ctx3 = Ctx(pid, tier, s2)
                        fn(ctx3); shared_object_session(ctx3)
                        ctx.violations += ctx3.violations
                        ctx.evaluations += ctx3.evaluations
                        ctx.distinct |= ctx3.distinct
                        for k, v in ctx3.relational.items():
                            ctx.relational[k] += v
                        for k, v in ctx3.dist.items():
                            ctx.dist[k] += v
                        extra_seeds.append(s2)
                    ctx.extra["further_seeds"] = extra_seeds
                if proof_problems and not ctx.violations and tier == "quick":
                    # a proof obligation or the translation no longer checks and the quick search found no failing
                    # input: spend the thorough tier's case counts, under another seed, before giving up
                    ctx2 = Ctx(pid, tier, a.seed + 7919); ctx2.boost = True
                    t2 = time.time()
                    fn(ctx2); shared_object_session(ctx2); interleave_session(ctx2); interpreter_modes(ctx2)
                    ctx.violations += ctx2.violations
                    ctx.evaluations += ctx2.evaluations
                    ctx.distinct |= ctx2.distinct
                    ctx.extra["directed_search"] = {"reason": "proof obligation / translation broken, no failing input at quick counts",
                                                    "seed": a.seed + 7919, "evaluations": ctx2.evaluations, "violations": len(ctx2.violations),
                                                    "wall_s": round(time.time() - t2, 1)}
            finally:
                if reach_on:
                    ctx.extra["anchor_reach"] = reach.anchor_report(anchor_where(pid))
                    ctx.extra["line_reach"] = reach.report(anchor_files(pid))
        except Infra:
            raise
        except Exception as e:  # noqa: BLE001
            tb = traceback.extract_tb(e.__traceback__)
            inrepo = [f for f in tb if os.path.abspath(f.filename).startswith(os.path.abspath(core.REPO) + os.sep)]
            if not inrepo:
                raise
            # the real code raised where the property says it returns: a failed predicate, not a crash
            ours = [f for f in tb if f.filename.startswith(core.HERE)]
            where = f"{os.path.basename(ours[-1].filename)}:{ours[-1].lineno} `{ours[-1].line}`" if ours else "?"
            ctx.violations.append({"kind": "predicate", "predicate": "the call returns a value (no exception) on an in-domain input",
                                   "detail": f"{type(e).__name__}: {str(e)[:200]} raised in {inrepo[-1].filename}:{inrepo[-1].lineno} "
                                             f"while evaluating {where}", "op": where})
        known = load_findings(pid)
        kf_lines = probe_findings(ctx, known)
    except Infra as e:
        print(f"INFRA: {e}", file=sys.stderr)
        sys.exit(2)
    except Exception:  # noqa: BLE001
        traceback.print_exc()
        print("INFRA: harness error", file=sys.stderr)
        sys.exit(2)
    finally:
        subprocess.run(["rm", "-rf", work])

    out_lines = []
    # violations: shrink, write replays
    seen = set()
    reported = 0
    for v in ctx.violations:
        if reported >= 5:
            break
        key = (v.get("predicate"), v.get("gen"), v.get("op", "")[:40]) if v["kind"] == "predicate" else (v["op"].split()[0], v.get("gen"))
        if key in seen:
            continue
        seen.add(key)
        if v["kind"] == "disagreement" and "history" not in v:
            small, g, w = shrink_line(v["op"], v.get("proj", "full"))
            if g is not None:
                v = dict(v, op=small, pyemv=g, model=w, note="minimised")
            else:
                v = dict(v, note="does not reproduce as a single fresh call: depends on earlier calls in the same process; "
                                 "re-run the check with the recorded seed")
        v.pop("call", None)
        path = write_replay(ctx, v)
        out_lines.append(f"VIOLATION property={pid} replay={os.path.relpath(path, ROOT)}")
        reported += 1
    if proof_problems and not ctx.violations:
        v = {"kind": "proof", "theorem": "; ".join(proof_problems)[:1500],
             "detail": "the Lean side no longer checks; the correspondence and the relational predicates were run "
                       f"against pyemv ({ctx.evaluations} evaluations) and found no failing input"}
        path = write_replay(ctx, v)
        out_lines.append(f"VIOLATION property={pid} replay={os.path.relpath(path, ROOT)} no-failing-input-found")
    nviol = len(out_lines)

    # evidence
    ev = {
        "property_id": pid, "tier": tier, "seed": a.seed, "level": "proof",
        "coverage": {
            "obligations": len(names), "discharged": len(discharged),
            "theorems": names,
            "checker_cmd": "cd lean && lake build && lake env lean <generated #print axioms file> (thorough: + lake env leanchecker PyemvProps." + pid + ")",
            "trusted_base": ["Lean 4.33.0 kernel", "axioms propext, Classical.choice, Quot.sound only (audited by #print axioms on every run)",
                             "hand-written Impl model tied to /repo's current source on this run by (1) the source-to-Lean translators "
                             "(harness/translate_*.py, trusted) whose output is proved equal to the model by the *Refines theorems listed above, "
                             "and (2) the differential correspondence recorded below",
                             "Lean compiler/runtime executing the model; the Python harness and canonicaliser",
                             "OpenSSL TDES, hashlib.sha1 and CPython builtins are modelled, not verified"],
            "proof_problems": proof_problems,
            "evaluations": ctx.evaluations, "distinct_nontrivial": len(ctx.distinct),
            "rule": LEVEL_RULE, "samples": ctx.samples[:6] or [{"note": "relational checks only"}],
            "exhaustive": bool(ctx.exhaustive_dims), "exhaustive_dimensions": ctx.exhaustive_dims,
            "generator_distribution": dict(ctx.dist.most_common(40)),
            "outcome_distribution": dict(ctx.outcomes.most_common(40)),
            "relational_checks": dict(ctx.relational),
            "known_findings_reproduced": kf_lines,
            "notes": ctx.notes[:20],
            "outside_every_property": {"cases": ctx.outside_cases, "refused_where_the_model_answers_otherwise": ctx.outside_refusals,
                                       "rule": "a call no property speaks about (core.outside_domain) is still compared with the model, but a refusal "
                                               "by ValueError / TypeError there is never a violation and such calls are not replayed in the sessions"},
        },
        "assumptions": ["tools.xor consults sys.byteorder: both readings are modelled (Gen.tools.xor / xor_bigendian), equal on equal-length operands (C19.xor_bigendian_host); the differential tie runs on this little-endian host, the big-endian reading against a child with sys.byteorder rebound", "nesting depth / tree height below the interpreter recursion limit",
                        "convert callables are total and do not mutate their arguments"] + ctx.assumptions,
        "wall_s": round(ctx.wall(), 2), "violations": nviol,
    }
    if "traces_validated_against_impl" in ctx.extra:
        ev["coverage"]["traces_validated_against_impl"] = ctx.extra["traces_validated_against_impl"]
    ev["coverage"].update({k: v for k, v in ctx.extra.items() if k not in ev["coverage"]})
    os.makedirs(os.path.join(ROOT, "evidence"), exist_ok=True)
    with open(os.path.join(ROOT, "evidence", f"{pid}.json"), "w") as f:
        json.dump(ev, f, indent=1, default=str)

    for ln in kf_lines:
        print(ln)
    for ln in out_lines:
        print(ln)
    print(f"{pid} {tier} seed={a.seed}: theorems {len(discharged)}/{len(names)} checked, {ctx.evaluations} evaluations, "
          f"{len(ctx.distinct)} distinct non-trivial, {sum(ctx.relational.values())} relational checks, "
          f"{nviol} violation(s), {ctx.wall():.1f}s")
    sys.exit(1 if nviol else 0)


if __name__ == "__main__":
    main()
