"""Property checks C14 (histories), C15 (guards), C16 (str/bytes), C19 (helpers)."""
import copy
import threading

from core import Case, hx, ac, cvn, cvv, kd, mac, sm, tlv, tools, canon, run_model, PROJ, proj_class
from gens import *  # noqa: F401,F403
import gens
import props_b
from props_a import enum_digest, BH_ACCEPT
from props_b import CardPool, cvn_scenario, CLS, cvn_case


def history(ctx, g, pool, n):
    """a call history over a few cards/keys that repeats non-key arguments under different keys and
    vice versa; every element is a Case whose thunk can be re-run"""
    R = g.R
    h = []
    keys = [g.fresh_key() for _ in range(3)]
    atcs = [R.randbytes(2) for _ in range(3)] + [b"\x00\x08", b"\x04\x00", b"\x2a\xbc", b"\x80\x01"]
    msgs = [g.fresh_msg(40) for _ in range(3)]
    ivs = [bytes(16), R.randbytes(16)]
    shapes = [(4, 8), (2, 16), (16, 4), (3, 11)]
    tl = [gens.print_cst(gens.gen_cst(R, 2, False)) for _ in range(2)]
    trees = [gens.gen_tree(R, 2, False) for _ in range(2)]
    for _ in range(n):
        k = R.choice(keys); c = R.randrange(16)
        if c == 0:
            b, H = R.choice(shapes); h.append(op_tree_sk(k, R.choice(atcs), H, b, R.choice(ivs), gen="tree_sk"))
        elif c == 1:
            h.append(op_common_sk(k, (R.choice(atcs) + bytes(6)), ba=R.random() < .5, gen="common_sk"))
        elif c == 2:
            h.append(op_visa_sk(k, R.choice(atcs), gen="visa_sk"))
        elif c == 3:
            h.append(op_generate_ac(k, R.choice(msgs), R.choice(["EMV", "VISA", "-"]), R.choice([None, 4, 5, 8]), gen="generate_ac"))
        elif c == 4:
            h.append(op_arpc1(k, R.choice(msgs)[:8].ljust(8, b"\0"), R.choice([b"\x00\x00", b"\x30\x30", b"\x00\x05"]), gen="arpc1"))
        elif c == 5:
            h.append(op_arpc2(k, R.choice(msgs)[:8].ljust(8, b"\1"), b"\x00\x01\x02\x03", R.choice([None, b"", b"\x01\x02"]), gen="arpc2"))
        elif c == 6:
            h.append(op_command_mac(k, R.choice(msgs), R.choice([None, 4, 8]), gen="command_mac"))
        elif c == 7:
            h.append(op_encrypt(k, R.choice(msgs), R.choice(["VISA", "MASTERCARD", "EMV"]), gen="encrypt"))
        elif c == 8:
            h.append(op_cvc3(k, R.choice(msgs), R.choice(atcs), b"\x00\x00\x08\x99", gen="cvc3"))
        elif c == 9:
            h.append(op_mk(R.choice("ab"), k, R.choice(["1234567890123456", "12345678901234567", "123456789012345678"]), R.choice([None, "01"]), gen="mk"))
        elif c == 10:
            h.append(op_cbc(k, R.choice([bytes(8), b"\x00\x05" + bytes(6), R.randbytes(8)]), R.choice(msgs), gen="cbc"))
        elif c == 11:
            h.append(op_ecb(k, R.choice(msgs), gen="ecb"))
        elif c == 12:
            h.append(op_decode(R.choice(tl), R.random() < .5, False, as_bytearray=R.random() < .5, gen="decode"))
        elif c == 13:
            h.append(op_encode(R.choice(trees), False, gen="encode"))
        elif c == 14:
            h.append(op_mac3(k[:8], k[8:], R.choice(msgs), R.choice([1, 2]), None, gen="mac3"))
        else:
            h.append(cvn_scenario(pool, g, bad=0.0))
    return h


def C14(ctx):
    g = G(ctx.sub("g")); R = g.R
    pool = CardPool(g)
    nh = ctx.n(60, 600)
    nthreads = ctx.n(8, 16)
    total = 0
    for hi in range(nh):
        h = history(ctx, g, pool, R.randrange(20, 120))
        lines = [c.line for c in h]
        want = run_model(lines)
        first = [canon(c.call) for c in h]                          # program order
        for c, a, w in zip(h, first, want):
            ctx.evaluations += 1
            ctx.dist["history:" + c.gen] += 1
            ctx.distinct.add(c.line[:200])
            if PROJ[c.proj](a) != PROJ[c.proj](w):
                ctx.violations.append({"kind": "disagreement", "op": c.line, "gen": "history (in order) " + c.gen, "proj": c.proj,
                                       "model": w, "pyemv": a, "call": c.call, "history": lines[: lines.index(c.line) + 1]})
        # the same calls permuted, and repeated
        idx = list(range(len(h))); R.shuffle(idx)
        for i in idx:
            a = canon(h[i].call)
            ctx.evaluations += 1
            if a != first[i]:
                ctx.violations.append({"kind": "predicate", "predicate": "same call, same result in another order",
                                       "detail": f"{h[i].line}: first {first[i]} then {a}", "op": h[i].line,
                                       "history": lines + [lines[j] for j in idx[: idx.index(i) + 1]]})
        # the same multiset from several threads at once
        if hi % 3 == 0:
            res = [None] * len(h)
            barrier = threading.Barrier(nthreads)

            def worker(t):
                barrier.wait()
                for i in range(t, len(h), nthreads):
                    res[i] = canon(h[i].call)
            ths = [threading.Thread(target=worker, args=(t,)) for t in range(nthreads)]
            for t in ths: t.start()
            for t in ths: t.join()
            for i, a in enumerate(res):
                ctx.evaluations += 1
                if a != first[i]:
                    ctx.violations.append({"kind": "predicate", "predicate": f"same result from {nthreads} concurrent threads",
                                           "detail": f"{h[i].line}: sequential {first[i]} concurrent {a}", "op": h[i].line})
        total += len(h)
        if len(ctx.violations) > 10:
            break
    ctx.extra["histories"] = nh; ctx.extra["calls_in_histories"] = total; ctx.extra["threads"] = nthreads
    ctx.extra["traces_validated_against_impl"] = nh
    # the same six ATC||UN bytes cut at every position, one live object (a cache keyed on their concatenation)
    sp_cases = []
    for c in ("InteracCVN133", "MasterCardCVN16", "MasterCardCVN17"):
        for _ in range(ctx.n(6, 40)):
            s = pool.spec(c); six = R.randbytes(6)
            fixed = [R.randbytes(6), R.randbytes(6), R.randbytes(2), R.randbytes(5), R.randbytes(2), R.randbytes(3), R.randbytes(1)]
            t82 = R.randbytes(2); tail = R.randbytes(8); cnt = R.randbytes(8)
            cuts = list(range(0, 7)); R.shuffle(cuts)
            for cut in cuts + [2]:
                sp_cases.append(cvn_case(pool, s, "ac", (fixed + [six[cut:], t82, six[:cut]], tail, cnt), "cvn ATC||UN cut at every position"))
    ctx.run_cases(sp_cases)
    from props_b import cold_start
    cold_start(ctx, ctx.n(3, 20))
    # one mutable buffer reused across calls, rewritten in place in between (a memo holding a reference to it)
    rb_cases = []
    for _ in range(ctx.n(30, 300)):
        k = g.key(); base = R.randbytes(8)
        conts = [bytes([0, i]) + base[2:] for i in range(0x1C, 0x22)] + [R.randbytes(8) for _ in range(2)]
        rb_cases += reused_buffer_cases(conts, lambda c, k=k: f"kd.common_sk {hx(k)} {hx(c)}",
                                        lambda buf, k=k: kd.derive_common_sk(k, buf), "reused diversifier buffer")
        r = R.randbytes(8)
        rb_cases += reused_buffer_cases([g.fresh_key() for _ in range(3)], lambda c, r=r: f"kd.common_sk {hx(c)} {hx(r)}",
                                        lambda buf, r=r: kd.derive_common_sk(buf, r), "reused key buffer")
        d = [g.fresh_msg(30) for _ in range(3)]
        rb_cases += reused_buffer_cases(d, lambda c, k=k: f"ac.generate_ac {hx(k)} {hx(c)} EMV -",
                                        lambda buf, k=k: ac.generate_ac(k, buf, ac.PaddingType.EMV), "reused data buffer")
        rb_cases += reused_buffer_cases(d, lambda c, k=k: f"sm.command_mac {hx(k)} {hx(c)} -",
                                        lambda buf, k=k: sm.generate_command_mac(k, buf), "reused data buffer")
        rb_cases += reused_buffer_cases(d, lambda c, k=k: f"sm.encrypt {hx(k)} {hx(c)} EMV",
                                        lambda buf, k=k: sm.encrypt_command_data(k, buf, sm.EncryptionType.EMV), "reused data buffer")
        rb_cases += reused_buffer_cases([g.fresh_key() for _ in range(3)], lambda c, d=d: f"sm.command_mac {hx(c)} {hx(d[0])} -",
                                        lambda buf, d=d: sm.generate_command_mac(buf, d[0]), "reused key buffer")
    rb_cases += props_b.atc_buffer_cases(R, pool)
    ctx.run_cases(rb_cases)
    # no call modifies its arguments or an object's stored keys
    for _ in range(ctx.n(3000, 30000)):
        fn, args = _mutable_call(g)
        snap = [_freeze(a) for a in args]
        try:
            fn(*args)
        except Exception:  # noqa: BLE001
            pass
        after = [_freeze(a) for a in args]
        ctx.check("arguments not modified", after == snap,
                  f"{fn.__module__}.{fn.__name__} modified an argument: before {snap!r:.300} after {after!r:.300}")
    # stored keys unchanged by methods
    for s in list(pool.specs):
        o = pool.obj(s)
        before = (o.icc_mk_ac, o.icc_mk_smi, o.icc_mk_smc)
        for _ in range(20):
            cse = cvn_scenario(pool, g, s[0], bad=0.0)
            canon(cse.call)
        fresh = getattr(cvn, s[0])(*s[1], s[2], s[3])
        ok = all(isinstance(o2, type(o)) and (o2.icc_mk_ac, o2.icc_mk_smi, o2.icc_mk_smc) == before for o2 in pool.objs.values() if o2 is o)
        ctx.check("stored keys unchanged by method calls", ok and (fresh.icc_mk_ac, fresh.icc_mk_smi, fresh.icc_mk_smc) == before, f"{s[0]} keys changed")


def _freeze(x):
    """a comparable snapshot of an argument: type and content, recursively"""
    if hasattr(x, "items"):
        return ("M", type(x).__name__, tuple((k, _freeze(v)) for k, v in x.items()))
    if isinstance(x, (bytes, bytearray)):
        return (type(x).__name__, bytes(x))
    return (type(x).__name__, repr(x))


def _r(a):
    return hx(a) if isinstance(a, (bytes, bytearray)) else repr(a)[:80]


def _same_types(a, b):
    if hasattr(a, 'items'):
        return isinstance(b, dict) and list(a) == list(b) and all(_same_types(a[k], b[k]) for k in a)
    return type(a) is type(b)


def _mutable_call(g):
    R = g.R
    k = bytearray(g.key()); d = bytearray(g.fresh_msg(40)); c = R.randrange(15)
    a8 = bytearray(R.randbytes(8)); a2 = bytearray(R.randbytes(2)); a4 = bytearray(R.randbytes(4)); iv = bytearray(R.randbytes(16))
    if c == 0: return ac.generate_ac, [k, d, R.choice([ac.PaddingType.VISA, ac.PaddingType.EMV, None]), R.choice([None, 4, 8])]
    if c == 1: return ac.generate_arpc_1, [k, a8, a2]
    if c == 2: return ac.generate_arpc_2, [k, a8, a4, bytearray(R.randbytes(3))]
    if c == 3: return kd.derive_common_sk, [k, a8]
    if c == 4: return kd.derive_visa_sm_sk, [k, a2]
    if c == 5: return kd.derive_emv2000_tree_sk, [k, a2, 8, 4, iv]
    if c == 6: return sm.generate_command_mac, [k, d]
    if c == 7: return sm.encrypt_command_data, [k, d, R.choice(list(sm.EncryptionType))]
    if c == 8: return cvv.generate_cvc3, [k, d, a2, a4]
    if c == 9: return mac.pad_iso9797_1, [d, R.choice([None, 8, 16, 3])]
    if c == 10: return mac.pad_iso9797_2, [d, R.choice([None, 8, 16, 3])]
    if c == 11: return mac.mac_iso9797_3, [k[:8], k[8:], d, R.choice([1, 2])]
    if c == 12: return tools.xor, [d, k]
    if c == 13: return tools.adjust_key_parity, [k]
    if c == 14 and R.random() < .5:
        return tlv.encode, [gens.gen_tree(R, 3, False)]
    return tlv.decode, [bytearray(gens.print_cst(gens.gen_cst(R, 2, False)))]


# ---------------------------------------------------------------------------------------------

def sized_params(g, fixed=False):
    """(name, documented sizes, builder(values) -> Case) for every public function; `fixed`: the other arguments are the
    same in every call (so that calls differ in the sized arguments only)"""
    R = g.R
    if fixed:
        class _First:
            choice = staticmethod(lambda xs: xs[0])
            randbytes = staticmethod(lambda n: bytes(range(1, n + 1)))
            randrange = staticmethod(lambda a, b=None: a)
        R = _First

    def P(name, sizes, build):
        return (name, sizes, build)
    return [
        P("ac.generate_ac", [16], lambda v: op_generate_ac(v[0], g.msg(), R.choice(["EMV", "VISA", "-"]), None, proj="class")),
        P("ac.arpc1", [16, 8, 2], lambda v: op_arpc1(v[0], v[1], v[2], proj="class")),
        P("ac.arpc2", [16, 8, 4], lambda v: op_arpc2(v[0], v[1], v[2], R.choice([None, R.randbytes(R.randrange(0, 9))]), proj="class")),
        P("kd.common_sk", [16, 8], lambda v: op_common_sk(v[0], v[1], proj="class")),
        P("kd.visa_sk", [16, 2], lambda v: op_visa_sk(v[0], v[1], proj="class")),
        P("kd.tree_sk", [16, 2, 16], lambda v: op_tree_sk(v[0], v[1], *R.choice([(8, 4), (8, 4), (16, 2), (1, 65536), (1, 65536), (1, 70000), (1, 65535), (2, 255), (2, 256), (1, 1)]), v[2], proj="class")),
        P("sm.command_mac", [16], lambda v: op_command_mac(v[0], g.msg(), None, proj="class")),
        P("sm.encrypt", [16], lambda v: op_encrypt(v[0], g.msg(), R.choice(["VISA", "MASTERCARD", "EMV"]), proj="class")),
        P("sm.vis_pin", [16], lambda v: op_vis_pin(v[0], g.form(g.digits(R.randrange(4, 13))), g.form(R.choice([None, g.digits(R.randrange(4, 13))])), proj="class")),
        P("cvv.cvc3", [16, 2, 4], lambda v: op_cvc3(v[0], g.msg(), v[1], v[2], proj="class")),
    ]


def C15(ctx):
    g = G(ctx.sub("g")); R = g.R
    cases = []
    top = ctx.n(64, 512)
    nparam = 0
    for name, sizes, build in sized_params(g):
        for i in range(len(sizes)):
            nparam += 1
            for ln in range(0, top + 1):
                n = list(sizes); n[i] = ln
                c = build([R.randbytes(x) for x in n]); c.gen = f"sweep {name} param {i}"
                cases.append(c)
        # every pair of sized parameters, every combination of lengths (sizes that compensate each other)
        for i in range(len(sizes)):
            for j in range(i + 1, len(sizes)):
                for a in range(0, min(sizes[i], 8) + sizes[j] + 3):
                    for b in range(0, sizes[i] + min(sizes[j], 8) + 3):
                        if (a, b) == (sizes[i], sizes[j]) or a > 26 or b > 26:
                            continue
                        n = list(sizes); n[i] = a; n[j] = b
                        c = build([R.randbytes(x) for x in n]); c.gen = f"pairs of lengths {name}"
                        cases.append(c)
        # two wrong parameters at once
        if len(sizes) > 1:
            for _ in range(40):
                n = [R.choice([s, R.randrange(0, 40)]) for s in sizes]
                c = build([R.randbytes(x) for x in n]); c.gen = f"pairs {name}"
                cases.append(c)
    ctx.exhaustive_dims.append(f"{nparam} sized parameters of 10 public functions × every length 0..{top}")
    # the same *value* at another size, right after a valid call with it (a cache consulted before the guards)
    def resize(v):
        out = [v.lstrip(b"\x00"), b"\x00" + v, b"\x00\x00" + v, v + b"\x00", v[:-1], v[1:], v + v, bytes(len(v) + 1), bytes(max(0, len(v) - 1))]
        # other encodings of the same value: the expanded triple-length form K1||K2||K1, a half, hex text, a length prefix,
        # and the value as a BER-TLV data object (bare, long-form length, inside a template) under the usual tags
        h = len(v) // 2
        out += [v + v[:h], v[h:] + v, v[:h], v[h:], v.hex().encode(), v.hex().upper().encode(), bytes([len(v)]) + v]
        if len(v) < 128:
            for tag in ("9F36", "9F26", "9F37", "9F10", "8A", "91", "57", "C0"):
                t = bytes.fromhex(tag)
                obj = t + bytes([len(v)]) + v
                out += [obj, t + b"\x81" + bytes([len(v)]) + v]
                if len(obj) < 128:
                    out += [b"\x77" + bytes([len(obj)]) + obj, b"\x70" + bytes([len(obj) + 2]) + b"\x77" + bytes([len(obj)]) + obj]
        return [x for x in out if len(x) != len(v)]
    for name, sizes, build in sized_params(g):
        for i in range(len(sizes)):
            for base in (bytes(sizes[i]), bytes(sizes[i] - 1) + b"\x1c", R.randbytes(sizes[i])):
                fixed = [R.randbytes(n) for n in sizes]
                fixed[i] = base
                mk = build
                c0 = mk(fixed); c0.gen = f"valid call before resized {name}"; cases.append(c0)
                for v in resize(base):
                    vals = list(fixed); vals[i] = v
                    c = mk(vals); c.gen = f"same value, other size: {name} param {i}"
                    cases.append(c)
    # the same bytes, cut elsewhere: right after a valid call, its sized arguments concatenated (in every order) and
    # re-cut with the boundaries moved by up to three bytes (a key made of joined arguments forgets the boundaries)
    import itertools
    for name, sizes, build in sized_params(g, fixed=True):
        if len(sizes) < 2:
            continue
        for rep in range(2):
            vals = [R.randbytes(n) for n in sizes]
            c0 = build(vals); c0.gen = f"valid call before re-cut {name}"; cases.append(c0)
            for perm in itertools.permutations(range(len(sizes))):
                joined = b"".join(vals[i] for i in perm)
                cuts0 = list(itertools.accumulate(sizes[i] for i in perm))[:-1]
                for bi in range(len(cuts0)):
                    for d in (-3, -2, -1, 1, 2, 3):
                        cuts = list(cuts0); cuts[bi] += d
                        if cuts != sorted(cuts) or cuts[0] < 0 or cuts[-1] > len(joined):
                            continue
                        parts = [joined[a:b] for a, b in zip([0] + cuts, cuts + [len(joined)])]
                        nv = list(vals)
                        for pos, i in enumerate(perm):
                            nv[i] = parts[pos]
                        c = build(nv); c.gen = f"same bytes, boundaries moved: {name}"; cases.append(c)
    # proprietary data 0..8 accepted, above refused; PIN and current PIN lengths 0..20
    for ln in range(0, top + 1):
        cases.append(op_arpc2(g.key(), R.randbytes(8), R.randbytes(4), R.randbytes(ln), gen="sweep prop auth data", proj="class"))
    for ln in range(0, 21):
        for form in (str, bytes):
            p = g.digits(ln); p = p if form is str else p.encode()
            cases.append(op_iso2_pin(p, gen="sweep pin length", proj="class"))
            cases.append(op_vis_pin(g.key(), p, None, gen="sweep pin length", proj="class"))
            cases.append(op_vis_pin(g.key(), g.form(g.digits(6)), p, gen="sweep current pin length", proj="class"))
    # PIN text whose raw length is admissible but whose content is not all digits (blanks, newline, sign, letters)
    fill = [" ", "\n", "\t", "\r", "+", "-", "_", "a", "F", ".", "\x00", "\u00b2", "\u0663"]
    for ln in range(3, 14):
        for _ in range(ctx.n(12, 60)):
            nd = R.randrange(0, ln + 1)
            chars = list(g.digits(nd)) + [R.choice(fill[:4] if R.random() < .6 else fill) for _ in range(ln - nd)]
            if R.random() < .5:
                R.shuffle(chars)
            elif R.random() < .5:
                chars = chars[nd:] + chars[:nd]
            p = "".join(chars)
            for form in (str, bytes):
                try:
                    pf = p if form is str else p.encode("ascii")
                except UnicodeEncodeError:
                    pf = p if form is str else p.encode("utf-8")
                cases.append(op_iso2_pin(pf, gen="pin content", proj="class"))
                cases.append(op_vis_pin(g.key(), pf, None, gen="pin content", proj="class"))
                cases.append(op_vis_pin(g.key(), g.form(g.digits(6)), pf, gen="current pin content", proj="class"))
    # selectors
    for obj in gens.NON_MEMBERS + [None]:
        if obj is not None and not isinstance(obj, ac.PaddingType):
            cases.append(op_generate_ac(g.key(), g.msg(), "X", None, obj=obj, gen="selector", proj="class"))
        if not isinstance(obj, sm.EncryptionType):
            cases.append(op_encrypt(g.key(), g.msg(), "X", obj=obj, gen="selector", proj="class"))
    for obj in gens.BAD_PADDINGS:
        try:
            mac.mac_iso9797_3(R.randbytes(8), R.randbytes(8), g.msg(), obj); r = "returned"
        except Exception as e:  # noqa: BLE001
            r = type(e).__name__
        ctx.check("a MAC padding method other than 1 or 2 is refused with ValueError", r == "ValueError",
                  f"mac_iso9797_3(…, padding={obj!r}) -> {r}")
    for p in range(-8, 12):
        for _ in range(3):
            cases.append(op_mac3(R.randbytes(8), R.randbytes(8), g.msg(), p, R.choice([None, 4]), gen="mac padding method -8..11", proj="class"))
    ctx.run_cases(cases)
    # through the classes: the same refusals when a method forwards to the functions
    pool = CardPool(g)
    more = []
    for c in CLS:
        s = pool.spec(c)
        for ln in range(0, 21):
            pin = g.form(g.digits(ln))
            more.append(cvn_case(pool, s, "pin", (pin, R.randbytes(8), R.randbytes(2), None), "class pin length sweep"))
            if c.startswith("Visa"):
                more.append(cvn_case(pool, s, "pin", (g.form(g.digits(5)), R.randbytes(8), R.randbytes(2), g.form(g.digits(ln))), "class current pin length sweep"))
        for ln in (0, 1, 3, 7, 9, 16):
            more.append(cvn_case(pool, s, "mac", (R.randbytes(5), R.randbytes(ln), R.randbytes(2), b""), "class arqc length"))
            more.append(cvn_case(pool, s, "enc", (R.randbytes(8), R.randbytes(ln), R.randbytes(ln % 4)), "class arqc/atc length"))
    for m in more:
        m.proj = "class"
    ctx.run_cases(more)


def C16(ctx):
    g = G(ctx.sub("g")); R = g.R
    rare, _, _ = rare_pairs(ctx.sub("rare"), 30, letters_needed=False)

    def forms(s):
        if s is None:
            return [s]
        out = [s, s.encode()]
        c = R.random()
        if c < .15:
            out.append(gens.RawBytes(s.encode()))       # a bytes subclass instance (numpy.bytes_, HexBytes, … are)
        elif c < .3:
            out.append(gens.MaskedStr(s))
        return out
    n = 0
    for _ in range(ctx.n(1500, 15000)):
        k = g.key()
        pan = g.digits(R.choice([1, 8, 12, 13, 15, 16, 16, 17, 18, 18, 19, 19]))
        psn = R.choice([None, "00", "01", g.digits(2), g.digits(2), "", g.digits(1), "0" + g.digits(2), g.digits(3), g.digits(4)])
        if R.random() < .1:
            pan, psn = R.choice(rare)
        for fn in (kd.derive_icc_mk_a, kd.derive_icc_mk_b):
            outs = {}
            for a in forms(pan):
                for b in forms(psn):
                    outs[(type(a).__name__, type(b).__name__)] = canon(lambda: fn(k, a, b))
            n += len(outs)
            ctx.check("str and bytes forms agree", len(set(outs.values())) == 1, f"{fn.__name__}({hx(k)}, {pan!r}, {psn!r}): {outs}")
    for _ in range(ctx.n(1500, 15000)):
        k = g.key(); pin = g.digits(R.randrange(4, 13)); cur = R.choice([None, g.digits(R.randrange(4, 13)), "", pin, pin])
        outs = {(type(a).__name__,): canon(lambda: sm.format_iso9564_2_pin_block(a)) for a in forms(pin)}
        ctx.check("str and bytes forms agree", len(set(outs.values())) == 1, f"iso2 {pin!r}: {outs}")
        outs = {}
        for a in forms(pin):
            for b in forms(cur):
                outs[(type(a).__name__, type(b).__name__)] = canon(lambda: sm.format_vis_pin_block(k, a, b))
        n += len(outs) + 2
        ctx.check("str and bytes forms agree", len(set(outs.values())) == 1, f"vis {hx(k)} {pin!r} {cur!r}: {outs}")
    for _ in range(ctx.n(400, 4000)):
        c = R.choice(CLS); keys = (g.key(), g.key(), g.key())
        pan = g.digits(R.choice([12, 15, 16, 17, 18, 18, 19])); psn = R.choice([None, "", "00", "01", "07", g.digits(2), g.digits(1), "0" + g.digits(2)])
        pin = g.digits(R.randrange(4, 13)); cur = R.choice([None, g.digits(R.randrange(4, 13)), pin]) if c.startswith("Visa") else None
        arqc = R.randbytes(8); atc = R.randbytes(2)
        outs = {}
        for a in forms(pan):
            for b in forms(psn):
                def build():
                    o = getattr(cvn, c)(*keys, a, b)
                    return o.icc_mk_ac + o.icc_mk_smi + o.icc_mk_smc
                outs[("ctor", type(a).__name__, type(b).__name__)] = canon(build)
        ctx.check("str and bytes forms agree", len(set(outs.values())) == 1, f"{c}({[hx(x) for x in keys]}, {pan!r}, {psn!r}): {outs}")
        o = getattr(cvn, c)(*keys, pan, psn if psn is None or len(psn) in (0, 2) else "07")
        outs = {}
        for a in forms(pin):
            for b in forms(cur):
                if c.startswith("Visa"):
                    outs[(type(a).__name__, type(b).__name__)] = canon(lambda: o.generate_pin_change_command(a, arqc, atc, b))
                elif c == "InteracCVN133":
                    outs[(type(a).__name__,)] = canon(lambda: o.generate_pin_change_command(a, arqc))
                else:
                    outs[(type(a).__name__,)] = canon(lambda: o.generate_pin_change_command(a, arqc, atc))
        n += len(outs) + 4
        ctx.check("str and bytes forms agree", len(set(outs.values())) == 1, f"{c} pin change {pin!r} {cur!r}: {outs}")
    # refusals agree too: PINs and current PINs of inadmissible length, keys of the wrong size, in both forms
    for _ in range(ctx.n(300, 3000)):
        k = R.choice([g.key(), g.key(), g.badkey()]); pin = g.digits(R.choice([0, 1, 3, 4, 12, 13, 20])); cur = R.choice([None, g.digits(R.choice([0, 3, 4, 12, 13]))])
        outs = {(type(a).__name__,): canon(lambda: sm.format_iso9564_2_pin_block(a)) for a in forms(pin)}
        ctx.check("str and bytes forms agree", len(set(outs.values())) == 1, f"iso2 {pin!r}: {outs}")
        outs = {}
        for a in forms(pin):
            for b in forms(cur):
                outs[(type(a).__name__, type(b).__name__)] = canon(lambda: sm.format_vis_pin_block(k, a, b))
        ctx.check("str and bytes forms agree", len(set(outs.values())) == 1, f"vis {hx(k)} {pin!r} {cur!r}: {outs}")
    ctx.extra["paired_calls"] = n
    # and the model agrees with both forms (ties the agreed value to the specified one)
    cases = []
    for _ in range(ctx.n(600, 6000)):
        pan = g.digits(R.choice([12, 16, 17, 18, 19])); psn = R.choice([None, "01", g.digits(2)])
        cases.append(op_mk(R.choice("ab"), g.key(), R.choice(forms(pan)), R.choice(forms(psn)), gen="model value, mixed forms"))
        pin = g.digits(R.randrange(4, 13)); cur = R.choice([None, g.digits(R.randrange(4, 13))])
        cases.append(op_vis_pin(g.key(), R.choice(forms(pin)), R.choice(forms(cur)), gen="model value, mixed forms"))
    pool = CardPool(g)
    for _ in range(ctx.n(300, 3000)):
        s = pool.spec()
        cases.append(cvn_case(pool, s, "keys", None, "model value, constructor forms"))
    ctx.run_cases(cases)


def C19(ctx):
    g = G(ctx.sub("g")); R = g.R
    cases = []
    for bs in range(1, 33):
        for n in range(0, 4 * bs + 1):
            d = R.randbytes(n)
            if n and R.random() < .3:
                d = d[:-1] + R.choice([b"\x80", b"\x00"])
            cases.append(op_pad(1, d, bs, gen="pad: block size 1..32 × length 0..4·bs"))
            cases.append(op_pad(2, d, bs, gen="pad: block size 1..32 × length 0..4·bs"))
    # block sizes beyond the usual ones: every remainder class sampled, lengths around multiples
    for bs in [33, 48, 63, 64, 65, 72, 96, 100, 127, 128, 129, 200, 255, 256, 257, 300, 512, 1000, 1024, 4096, 65536] + [R.randrange(33, 2000) for _ in range(ctx.n(10, 60))]:
        lens = {0, 1, 2, 7, 8, bs - 65, bs - 64, bs - 63, bs - 2, bs - 1, bs, bs + 1, 2 * bs - 1, 2 * bs, 2 * bs + 1} | {R.randrange(0, 3 * bs) for _ in range(6)}
        for n in sorted(x for x in lens if x >= 0):
            d = R.randbytes(n) if n < 5000 else R.randbytes(1) * n
            cases.append(op_pad(1, d, bs, gen="pad: block sizes 33..65536"))
            cases.append(op_pad(2, d, bs, gen="pad: block sizes 33..65536"))
    for n in range(0, 40):
        cases.append(op_pad(1, R.randbytes(n), None, gen="pad default block size")); cases.append(op_pad(2, R.randbytes(n), None, gen="pad default block size"))
    cases.append(op_pad(1, b"abc", 0, gen="pad block size 0")); cases.append(op_pad(2, b"", 0, gen="pad block size 0"))
    ctx.exhaustive_dims.append("padding: block size 1..32 × data length 0..4·bs")
    for n in range(0, 65):
        for _ in range(ctx.n(4, 40)):
            a = R.randbytes(n); b = R.choice([R.randbytes(n), a, bytes(n), b"\xff" * n])
            cases.append(op_xor(a, b, gen="xor equal lengths 0..64"))
    for _ in range(ctx.n(300, 3000)):
        a = g.msg(); b = R.randbytes(R.randrange(0, 90))
        cases.append(op_xor(a, b, gen="xor unequal lengths (model validation only)"))
    for _ in range(ctx.n(2000, 20000)):
        cases.append(op_parity(R.choice([R.getrandbits(32), R.getrandbits(32), 1 << R.randrange(0, 40), (1 << R.randrange(0, 33)) - 1, R.getrandbits(40)]), gen="parity random 32-bit"))
    for _ in range(ctx.n(1500, 15000)):
        k = R.choice([g.key(), R.randbytes(8), R.randbytes(24), g.key24(), g.key24(), g.keys[5][:8]]) if R.random() < .92 else g.badkey()
        c = R.randrange(3)
        if c == 0:
            cases.append(op_kcv(k, R.choice([0, 1, 2, 3, 6, 8, 9]), gen="kcv"))
        elif c == 1:
            cases.append(op_ecb(k, g.msg(70), gen="ecb 8/16/24-byte keys"))
        else:
            iv = R.choice([bytes(8), R.randbytes(8), R.randbytes(8), b"\x00\x05" + bytes(6)]) if R.random() < .93 else R.randbytes(R.choice([0, 7, 9, 16]))
            cases.append(op_cbc(k, iv, g.msg(70), gen="cbc 8/16/24-byte keys, varying IV"))
    # check values of a key and of its single-bit / masked neighbours, one after the other
    for _ in range(ctx.n(60, 600)):
        k = R.choice([g.fresh_key(), R.randbytes(8), R.randbytes(24), g.key24(), bytes(16)])
        vs = [k, bytes(b ^ 0x80 for b in k), bytes(b ^ 1 for b in k), bytes(b & 0x7F for b in k), bytes(b | 0x80 for b in k), k]
        i = R.randrange(len(k)); vs.append(k[:i] + bytes([k[i] ^ (1 << R.randrange(8))]) + k[i + 1:])
        for v in vs:
            cases.append(op_kcv(v, R.choice([2, 3, 8]), gen="kcv of a key and its bit neighbours"))
    for n in ([65536, 65537, 70001] if not ctx.thorough else [65535, 65536, 65537, 65544, 70001, 131072, 200001]):
        cases.append(op_ecb(g.key(), R.randbytes(n), gen="beyond 64 KiB"))
        cases.append(op_cbc(g.key(), R.randbytes(8), R.randbytes(n), gen="beyond 64 KiB"))
    for _ in range(ctx.n(300, 2000)):
        s = "".join(R.choice("0123456789abcdefABCDEF" * 3 + " \t\n\r\x0b\x0c" + "gG-\xa0 ") for _ in range(R.randrange(0, 12)))
        cases.append(op_fromhex(s, gen="prelude:bytes.fromhex"))
    ctx.run_cases(cases)
    enum_digest(ctx, [("enum.parity", ())], lambda args, a: str(tools.odd_parity(a)),
                lambda args, lo, hi: f"enum.parity {lo} {hi}", lambda args, a: op_parity(a, gen="enum"), 1 << 17, 8192)
    ctx.exhaustive_dims.append("odd_parity on every integer 0..2^17")
    # contracts on the real code
    from props_a import tdes_dec, unpad2
    for _ in range(ctx.n(2000, 20000)):
        bs = R.randrange(1, 33); d = R.randbytes(R.randrange(0, 4 * bs + 1))
        if d and R.random() < .3:
            d = d[:-1] + R.choice([b"\x80", b"\x00"])
        p1 = mac.pad_iso9797_1(d, bs); p2 = mac.pad_iso9797_2(d, bs)
        ok1 = p1[:len(d)] == d and set(p1[len(d):]) <= {0} and len(p1) % bs == 0 and len(p1) > 0 and len(p1) - len(d) < bs + (len(d) == 0)
        ok1 = ok1 and (len(p1) - len(d) == ((-len(d)) % bs if len(d) else bs))
        ctx.check("pad1: fewest zeros to a positive multiple", ok1, f"pad1({hx(d)},{bs}) = {hx(p1)}")
        ok2 = p2[:len(d)] == d and p2[len(d):len(d) + 1] == b"\x80" and set(p2[len(d) + 1:]) <= {0} and len(p2) % bs == 0 and len(p2) - len(d) <= bs and unpad2(p2) == d
        ctx.check("pad2: 80 then fewest zeros; data recoverable", ok2, f"pad2({hx(d)},{bs}) = {hx(p2)}")
        n = R.randrange(0, 65); a = R.randbytes(n); b = R.randbytes(n)
        x = tools.xor(a, b)
        ctx.check("xor: byte-wise, same length, self-inverse", x == bytes(p ^ q for p, q in zip(a, b)) and tools.xor(x, b) == a, f"xor({hx(a)},{hx(b)}) = {hx(x)}")
        v = R.getrandbits(32)
        ctx.check("odd_parity = xor of the bits", tools.odd_parity(v) == bin(v).count("1") % 2, f"odd_parity({v})")
    for _ in range(ctx.n(500, 5000)):
        k = R.randbytes(R.choice([8, 16, 24])); iv = R.randbytes(8); d = R.randbytes(8 * R.randrange(0, 6))
        e = tools.encrypt_tdes_ecb(k, d); c = tools.encrypt_tdes_cbc(k, iv, d)
        ctx.check("ecb inverted by decryption", tdes_dec(k, e, "ecb") == d, f"ecb {hx(k)} {hx(d)}")
        ctx.check("cbc inverted by decryption", tdes_dec(k, c, "cbc", iv) == d, f"cbc {hx(k)} {hx(iv)} {hx(d)}")
        ctx.check("kcv = first bytes of E(0^8)", tools.key_check_digits(k, 3) == tools.encrypt_tdes_ecb(k, bytes(8))[:3], f"kcv {hx(k)}")
