"""Behaviour-preserving normalisation of a module's AST, applied before the source-to-Lean translators read it, so
that common harmless rewrites reach them in the form they already understand:

* **module-level constants** — `_NAME = <immutable constant expression>` (bytes / int / str literals, `bytes(k)`,
  `b"…" * k`, `-k`, tuples of those), bound exactly once, never declared `global`, never the target of another
  assignment anywhere in the module: every read of the name inside a function that does not bind it locally is
  replaced by the expression and the statement is dropped.  A constant of a mutable type (bytearray, list, dict,
  set) or one built by a call the list does not name is left alone (the translators then refuse the module).
* **private helper functions** — a module-level `def _name(...)` that is not recursive, has plain positional
  parameters without defaults, contains no nested definitions / loops / try / with, and returns only in its last
  statement (or never): a call that is the whole right-hand side of an assignment, the whole `return` value or a
  whole expression statement is replaced by the helper's body with parameters and locals renamed apart.  The
  helper definition is dropped when no other use of its name remains.
* **chained comparisons** `a < b <= c` with a side-effect-free middle operand → `a < b and b <= c`.
* **conditional expressions** as the whole right-hand side / return value → an `if` statement.
* **`for x in (c1, c2, …):`** over a literal tuple / list of constants, body without `break` / `continue` /
  assignment to `x` → the body once per constant, `x` replaced.
* **keyword arguments** in calls of functions defined in the six translated modules → positional, by the callee's
  signature.
* `bytes(k)` for a constant `0 <= k <= 64` → the literal of `k` zero bytes.

Everything else is left exactly as it is.  The pass is part of the translators and so of the trusted base for the
translation tie; it is deliberately conservative: when a precondition above is not met the construct is not
touched and the translator decides (usually: refuses)."""
import ast
import copy
import os

IMMUTABLE_CALLS = {"bytes"}


def _is_const_expr(e):
    if isinstance(e, ast.Constant) and isinstance(e.value, (bytes, int, str)) and not isinstance(e.value, bool):
        return True
    if isinstance(e, ast.UnaryOp) and isinstance(e.op, ast.USub) and isinstance(e.operand, ast.Constant) and isinstance(e.operand.value, int):
        return True
    if isinstance(e, ast.BinOp) and isinstance(e.op, (ast.Mult, ast.Add)) and _is_const_expr(e.left) and _is_const_expr(e.right):
        return True
    if isinstance(e, ast.Call) and isinstance(e.func, ast.Name) and e.func.id == "bytes" and len(e.args) == 1 and not e.keywords \
            and isinstance(e.args[0], ast.Constant) and isinstance(e.args[0].value, int) and 0 <= e.args[0].value <= 4096:
        return True
    if isinstance(e, ast.Tuple) and all(_is_const_expr(x) for x in e.elts):
        return True
    if _frozenset_elements(e) is not None:
        return True
    return False


def _frozenset_elements(e):
    """the elements of `frozenset("abc")` / `frozenset({"a", "b"})` / `frozenset(("a", "b"))` when all are literals"""
    if isinstance(e, ast.Call) and isinstance(e.func, ast.Name) and e.func.id == "frozenset" and len(e.args) == 1 and not e.keywords:
        a = e.args[0]
        if isinstance(a, ast.Constant) and isinstance(a.value, (str, bytes)):
            vals = [a.value[i:i + 1] for i in range(len(a.value))] if isinstance(a.value, str) else list(a.value)
            return vals
        if isinstance(a, (ast.Set, ast.List, ast.Tuple)) and all(isinstance(x, ast.Constant) and isinstance(x.value, (str, int, bytes)) for x in a.elts):
            return [x.value for x in a.elts]
    return None


def frozensets_in_membership(tree):
    """`x in frozenset("0123456789")` is `x in {"0", …, "9"}`"""
    class T(ast.NodeTransformer):
        def visit_Compare(self, n):
            self.generic_visit(n)
            if len(n.ops) == 1 and isinstance(n.ops[0], (ast.In, ast.NotIn)):
                vals = _frozenset_elements(n.comparators[0])
                if vals is not None and vals:
                    uniq = []
                    for x in vals:
                        if x not in uniq:
                            uniq.append(x)
                    n.comparators[0] = ast.copy_location(ast.Set(elts=[ast.Constant(value=x) for x in uniq]), n.comparators[0])
            return n
    return T().visit(tree)


def _bound_names(fn):
    """names bound anywhere inside a function (parameters, assignments, loops, imports, nested defs, global decls)"""
    out = set()
    a = fn.args
    for p in a.posonlyargs + a.args + a.kwonlyargs + ([a.vararg] if a.vararg else []) + ([a.kwarg] if a.kwarg else []):
        out.add(p.arg)
    for n in ast.walk(fn):
        if isinstance(n, ast.Name) and isinstance(n.ctx, (ast.Store, ast.Del)):
            out.add(n.id)
        elif isinstance(n, (ast.FunctionDef, ast.ClassDef)) and n is not fn:
            out.add(n.name)
        elif isinstance(n, (ast.Global, ast.Nonlocal)):
            out.update(n.names)
        elif isinstance(n, ast.alias):
            out.add((n.asname or n.name).split(".")[0])
        elif isinstance(n, ast.ExceptHandler) and n.name:
            out.add(n.name)
    return out


class _Subst(ast.NodeTransformer):
    def __init__(self, mapping):
        self.mapping = mapping

    def visit_Name(self, n):
        if isinstance(n.ctx, ast.Load) and n.id in self.mapping:
            return copy.deepcopy(self.mapping[n.id])
        return n


class _Rename(ast.NodeTransformer):
    def __init__(self, mapping):
        self.mapping = mapping

    def visit_Name(self, n):
        if n.id in self.mapping:
            return ast.copy_location(ast.Name(id=self.mapping[n.id], ctx=n.ctx), n)
        return n


def inline_constants(tree):
    consts = {}
    counts = {}
    for n in ast.walk(tree):
        if isinstance(n, ast.Name) and isinstance(n.ctx, (ast.Store, ast.Del)):
            counts[n.id] = counts.get(n.id, 0) + 1
        elif isinstance(n, (ast.Global, ast.Nonlocal)):
            for x in n.names:
                counts[x] = counts.get(x, 0) + 100
        elif isinstance(n, (ast.FunctionDef, ast.ClassDef)):
            counts[n.name] = counts.get(n.name, 0) + 100
        elif isinstance(n, ast.arg):
            pass
    # `NAME: Final[bytes] = <constant>` is the same binding as `NAME = <constant>` (the annotation, a pure type expression,
    # is only recorded in `__annotations__`)
    tree.body = [ast.copy_location(ast.Assign(targets=[st.target], value=st.value), st)
                 if (isinstance(st, ast.AnnAssign) and isinstance(st.target, ast.Name) and st.simple and st.value is not None
                     and _is_const_expr(st.value) and _pure_type_expr(st.annotation)) else st
                 for st in tree.body]
    for st in tree.body:
        if isinstance(st, ast.Assign) and len(st.targets) == 1 and isinstance(st.targets[0], ast.Name):
            name = st.targets[0].id
            if name.startswith("__") or counts.get(name, 0) != 1:
                continue
            if _is_const_expr(st.value):
                consts[name] = st.value
    if not consts:
        return tree
    # a constant may be written in terms of an earlier one
    for k in list(consts):
        consts[k] = _Subst({a: b for a, b in consts.items() if a != k}).visit(copy.deepcopy(consts[k]))
    for fn in [n for n in ast.walk(tree) if isinstance(n, ast.FunctionDef)]:
        local = _bound_names(fn)
        m = {k: e for k, e in consts.items() if k not in local}
        if m:
            fn.body = [_Subst(m).visit(s) for s in fn.body]
    used = {n.id for n in ast.walk(tree) if isinstance(n, ast.Name) and isinstance(n.ctx, ast.Load)}
    tree.body = [st for st in tree.body
                 if not (isinstance(st, ast.Assign) and len(st.targets) == 1 and isinstance(st.targets[0], ast.Name)
                         and st.targets[0].id in consts and st.targets[0].id not in used)]
    return tree


def fold_zero_bytes(tree):
    class T(ast.NodeTransformer):
        def visit_Call(self, n):
            self.generic_visit(n)
            if isinstance(n.func, ast.Name) and n.func.id == "bytes" and len(n.args) == 1 and not n.keywords \
                    and isinstance(n.args[0], ast.Constant) and isinstance(n.args[0].value, int) \
                    and not isinstance(n.args[0].value, bool) and 0 <= n.args[0].value <= 64:
                k = n.args[0].value
                if k <= 1:
                    return ast.copy_location(ast.Constant(value=bytes(k)), n)
                return ast.copy_location(ast.BinOp(left=ast.Constant(value=b"\x00"), op=ast.Mult(), right=ast.Constant(value=k)), n)
            return n
    return T().visit(tree)


def drop_zero_lower_bounds(tree):
    """`x[0:n]` is `x[:n]`"""
    class T(ast.NodeTransformer):
        def visit_Slice(self, n):
            self.generic_visit(n)
            if isinstance(n.lower, ast.Constant) and n.lower.value == 0 and not isinstance(n.lower.value, bool) and n.step is None:
                n.lower = None
            return n
    return T().visit(tree)


def _pure_simple(e):
    if isinstance(e, (ast.Name, ast.Constant)):
        return True
    if isinstance(e, ast.Call) and isinstance(e.func, ast.Name) and e.func.id == "len" and len(e.args) == 1 and not e.keywords:
        return _pure_simple(e.args[0])
    if isinstance(e, ast.UnaryOp) and isinstance(e.op, ast.USub):
        return _pure_simple(e.operand)
    return False


def split_chained_compares(tree):
    class T(ast.NodeTransformer):
        def visit_Compare(self, n):
            self.generic_visit(n)
            if len(n.ops) > 1 and all(_pure_simple(c) for c in n.comparators[:-1]):
                parts = []
                left = n.left
                for op, right in zip(n.ops, n.comparators):
                    parts.append(ast.Compare(left=copy.deepcopy(left), ops=[op], comparators=[copy.deepcopy(right)]))
                    left = right
                return ast.copy_location(ast.BoolOp(op=ast.And(), values=parts), n)
            return n
    return T().visit(tree)


def _map_body(stmts, f):
    """apply f to every statement list (bottom-up), returning the new list"""
    out = []
    for s in stmts:
        for field in ("body", "orelse", "finalbody"):
            if hasattr(s, field) and isinstance(getattr(s, field), list) and not isinstance(s, (ast.FunctionDef, ast.ClassDef)):
                setattr(s, field, _map_body(getattr(s, field), f))
        if isinstance(s, (ast.FunctionDef, ast.ClassDef)):
            s.body = _map_body(s.body, f)
        if isinstance(s, ast.Try):
            for h in s.handlers:
                h.body = _map_body(h.body, f)
        out.append(s)
    return f(out)


def _negate_test(t):
    if isinstance(t, ast.Compare) and len(t.ops) == 1 and isinstance(t.ops[0], (ast.Is, ast.IsNot)):
        return ast.copy_location(ast.Compare(left=t.left, ops=[ast.IsNot() if isinstance(t.ops[0], ast.Is) else ast.Is()], comparators=t.comparators), t)
    return ast.copy_location(ast.UnaryOp(op=ast.Not(), operand=t), t)


def _call_with_one_ifexp(e):
    """(call, index) when `e` is `f(a1, …, <X if C else Y>, …)` with `f` a plain (dotted) name and every other argument a
    name or a constant — then evaluating `C` before `f` and the other arguments changes nothing"""
    def dotted(x):
        return isinstance(x, ast.Name) or (isinstance(x, ast.Attribute) and dotted(x.value))
    if not (isinstance(e, ast.Call) and not e.keywords and dotted(e.func)):
        return None
    idx = [i for i, a in enumerate(e.args) if isinstance(a, ast.IfExp)]
    if len(idx) != 1 or not all(isinstance(a, (ast.Name, ast.Constant)) for i, a in enumerate(e.args) if i != idx[0]):
        return None
    return idx[0]


def ifexp_to_if(tree):
    def f(stmts):
        out = []
        for s in stmts:
            # `x = C if x is None else x` / `x = x if x is not None else C`: the self-assignment is no statement at all
            if isinstance(s, ast.Assign) and isinstance(s.value, ast.IfExp) and len(s.targets) == 1 and isinstance(s.targets[0], ast.Name) \
                    and (isinstance(s.value.orelse, ast.Name) and s.value.orelse.id == s.targets[0].id
                         or isinstance(s.value.body, ast.Name) and s.value.body.id == s.targets[0].id):
                e = s.value
                if isinstance(e.orelse, ast.Name) and e.orelse.id == s.targets[0].id:
                    out.append(ast.copy_location(ast.If(test=e.test, body=[ast.copy_location(ast.Assign(targets=[copy.deepcopy(s.targets[0])], value=e.body), s)], orelse=[]), s))
                else:
                    out.append(ast.copy_location(ast.If(test=_negate_test(e.test), body=[ast.copy_location(ast.Assign(targets=[copy.deepcopy(s.targets[0])], value=e.orelse), s)], orelse=[]), s))
                continue
            # a conditional expression as one argument of the call that is the whole right-hand side / return value
            val = s.value if isinstance(s, (ast.Assign, ast.Return)) else None
            k = _call_with_one_ifexp(val) if val is not None else None
            if k is not None and (isinstance(s, ast.Return) or (len(s.targets) == 1 and isinstance(s.targets[0], ast.Name))):
                ie = val.args[k]
                def mk(arg):
                    c = copy.deepcopy(val); c.args[k] = arg
                    return ast.copy_location(ast.Return(value=c), s) if isinstance(s, ast.Return) \
                        else ast.copy_location(ast.Assign(targets=[copy.deepcopy(s.targets[0])], value=c), s)
                out.append(ast.copy_location(ast.If(test=ie.test, body=[mk(ie.body)], orelse=[mk(ie.orelse)]), s))
                continue
            if isinstance(s, ast.Assign) and isinstance(s.value, ast.IfExp) and len(s.targets) == 1 and isinstance(s.targets[0], ast.Name):
                e = s.value
                out.append(ast.copy_location(ast.If(test=e.test,
                                                    body=[ast.copy_location(ast.Assign(targets=[copy.deepcopy(s.targets[0])], value=e.body), s)],
                                                    orelse=[ast.copy_location(ast.Assign(targets=[copy.deepcopy(s.targets[0])], value=e.orelse), s)]), s))
            elif isinstance(s, ast.Return) and isinstance(s.value, ast.IfExp):
                e = s.value
                out.append(ast.copy_location(ast.If(test=e.test, body=[ast.copy_location(ast.Return(value=e.body), s)],
                                                    orelse=[ast.copy_location(ast.Return(value=e.orelse), s)]), s))
            else:
                out.append(s)
        return out
    tree.body = _map_body(tree.body, f)
    return tree


def unroll_constant_loops(tree):
    def f(stmts):
        out = []
        for s in stmts:
            ok = (isinstance(s, ast.For) and isinstance(s.target, ast.Name) and not s.orelse
                  and isinstance(s.iter, (ast.Tuple, ast.List)) and 0 < len(s.iter.elts) <= 16
                  and all(isinstance(x, ast.Constant) and isinstance(x.value, (int, bytes, str)) for x in s.iter.elts))
            if ok:
                for n in ast.walk(ast.Module(body=s.body, type_ignores=[])):
                    if isinstance(n, (ast.Break, ast.Continue, ast.FunctionDef, ast.Lambda)):
                        ok = False
                    if isinstance(n, ast.Name) and n.id == s.target.id and isinstance(n.ctx, (ast.Store, ast.Del)):
                        ok = False
            if ok:
                for c in s.iter.elts:
                    for b in s.body:
                        out.append(_Subst({s.target.id: c}).visit(copy.deepcopy(b)))
            else:
                out.append(s)
        return out
    tree.body = _map_body(tree.body, f)
    return tree


def _static_truth(test, name, default):
    """truth value of `test` once `name` holds `default` (a str / bytes / int literal or an Enum member
    `Class.MEMBER`), when it can be decided from the syntax alone; None otherwise"""
    class Unknown(Exception):
        pass

    def ev(e):
        if isinstance(e, ast.Constant):
            return e.value
        if isinstance(e, ast.Name) and e.id == name:
            if isinstance(default, ast.Constant) and isinstance(default.value, (str, bytes, int)) and not isinstance(default.value, bool):
                return default.value
            raise Unknown()
        if isinstance(e, ast.UnaryOp) and isinstance(e.op, ast.Not):
            return not ev(e.operand)
        if isinstance(e, ast.BoolOp):
            vals = [ev(x) for x in e.values]
            return all(vals) if isinstance(e.op, ast.And) else any(vals)
        if isinstance(e, ast.Call) and isinstance(e.func, ast.Name) and not e.keywords:
            if e.func.id == "len" and len(e.args) == 1:
                x = ev(e.args[0])
                if isinstance(x, (str, bytes)):
                    return len(x)
                raise Unknown()
            if e.func.id == "isinstance" and len(e.args) == 2 and isinstance(e.args[0], ast.Name) and e.args[0].id == name \
                    and isinstance(e.args[1], ast.Name):
                cls = e.args[1].id
                if isinstance(default, ast.Constant) and cls in ("bytes", "str", "int", "bytearray"):
                    return type(default.value).__name__ == cls
                if isinstance(default, ast.Attribute) and isinstance(default.value, ast.Name) and default.value.id == cls \
                        and cls[:1].isupper():
                    return True                              # `Class.MEMBER` of an Enum class is an instance of it
                raise Unknown()
        if isinstance(e, ast.Compare) and len(e.ops) == 1:
            a, b = ev(e.left), ev(e.comparators[0])
            if isinstance(a, int) and isinstance(b, int):
                op = e.ops[0]
                return {ast.Lt: a < b, ast.LtE: a <= b, ast.Gt: a > b, ast.GtE: a >= b, ast.Eq: a == b, ast.NotEq: a != b}.get(type(op), None)
        raise Unknown()
    try:
        r = ev(test)
        return r if isinstance(r, bool) else None
    except Unknown:
        return None


def split_none_elif(tree):
    """`if X is None: X = C` followed by `elif T: …` where T is false once X holds C: the elif becomes a separate `if`
    after the default (the form the functions are written in)"""
    def f(stmts):
        out = []
        for s in stmts:
            if (isinstance(s, ast.If) and isinstance(s.test, ast.Compare) and len(s.test.ops) == 1 and isinstance(s.test.ops[0], ast.Is)
                    and isinstance(s.test.left, ast.Name) and isinstance(s.test.comparators[0], ast.Constant) and s.test.comparators[0].value is None
                    and len(s.body) == 1 and isinstance(s.body[0], ast.Assign) and len(s.body[0].targets) == 1
                    and isinstance(s.body[0].targets[0], ast.Name) and s.body[0].targets[0].id == s.test.left.id
                    and len(s.orelse) == 1 and isinstance(s.orelse[0], ast.If)
                    and _static_truth(s.orelse[0].test, s.test.left.id, s.body[0].value) is False):
                inner = s.orelse[0]
                # the else-part of the inner `if` would run for the default too: only split when there is none
                if not inner.orelse:
                    s.orelse = []
                    out += [s, inner]
                    continue
            out.append(s)
        return out
    tree.body = _map_body(tree.body, f)
    return tree


def early_returns_to_ifexp(tree, public):
    """a private helper whose body is `if T1: return A1` … `return B` (each `if` without `else`, nothing else) is the
    single `return A1 if T1 else (… else B)`"""
    for n in tree.body:
        if not (isinstance(n, ast.FunctionDef) and n.name.startswith("_") and n.name not in public and not n.decorator_list):
            continue
        doc = [s for s in n.body if isinstance(s, ast.Expr) and isinstance(s.value, ast.Constant) and isinstance(s.value.value, str)]
        body = [s for s in n.body if s not in doc]
        if len(body) < 2 or not isinstance(body[-1], ast.Return) or body[-1].value is None:
            continue
        if not all(isinstance(s, ast.If) and not s.orelse and len(s.body) == 1 and isinstance(s.body[0], ast.Return)
                   and s.body[0].value is not None for s in body[:-1]):
            continue
        e = body[-1].value
        for s in reversed(body[:-1]):
            e = ast.IfExp(test=s.test, body=s.body[0].value, orelse=e)
        n.body = doc + [ast.copy_location(ast.Return(value=e), body[-1])]
    return ast.fix_missing_locations(tree)


def inline_expression_helpers(tree, public):
    """a private helper whose body is a single `return <expr>`, called with names / constants only: the call is
    replaced by the expression wherever it stands"""
    helpers = {}
    for n in tree.body:
        if isinstance(n, ast.FunctionDef) and n.name.startswith("_") and n.name not in public and _inlinable(n):
            body = [s for s in n.body if not (isinstance(s, ast.Expr) and isinstance(s.value, ast.Constant) and isinstance(s.value.value, str))]
            if len(body) == 1 and isinstance(body[0], ast.Return) and body[0].value is not None:
                if not any(isinstance(x, (ast.NamedExpr, ast.Lambda)) for x in ast.walk(body[0].value)):
                    helpers[n.name] = (n, body[0].value)
    if not helpers:
        return tree

    class T(ast.NodeTransformer):
        def visit_Call(self, c):
            self.generic_visit(c)
            if isinstance(c.func, ast.Name) and c.func.id in helpers and not c.keywords:
                fn, e = helpers[c.func.id]
                params = [p.arg for p in fn.args.args]
                if len(c.args) == len(params) and all(isinstance(a, (ast.Name, ast.Constant)) for a in c.args):
                    return ast.copy_location(_Subst(dict(zip(params, c.args))).visit(copy.deepcopy(e)), c)
            return c
    for n in tree.body:
        if isinstance(n, ast.FunctionDef) and n.name not in helpers:
            n.body = [T().visit(s) for s in n.body]
        elif isinstance(n, ast.ClassDef):
            for m in n.body:
                if isinstance(m, ast.FunctionDef):
                    m.body = [T().visit(s) for s in m.body]
    live = {x.id for n in tree.body if not (isinstance(n, ast.FunctionDef) and n.name in helpers)
            for x in ast.walk(n) if isinstance(x, ast.Name) and isinstance(x.ctx, ast.Load)}
    tree.body = [n for n in tree.body if not (isinstance(n, ast.FunctionDef) and n.name in helpers and n.name not in live)]
    return tree


def push_call_into_branches(tree):
    """`if c1: f = g1 elif c2: f = g2 [else: raise …]` immediately followed by the only use of `f`, a call
    `x = f(args)` / `return f(args)`: the call is moved into the branches with `f` replaced by the function chosen
    there (`g1`, `g2` names of module-level functions).  The arguments are evaluated after the choice in both
    readings, and a branch that raises never reached the call."""
    top_fns = {n.name for n in tree.body if isinstance(n, ast.FunctionDef)}

    def chain(st):
        """the branches of an if/elif/else chain, as (body lists), or None"""
        out = []
        while True:
            out.append(st.body)
            if len(st.orelse) == 1 and isinstance(st.orelse[0], ast.If):
                st = st.orelse[0]
                continue
            if st.orelse:
                out.append(st.orelse)
            return out

    def per_function(fn):
        uses = {}
        for n in ast.walk(fn):
            if isinstance(n, ast.Name):
                uses.setdefault(n.id, []).append(n)

        def f(stmts):
            out = []
            i = 0
            while i < len(stmts):
                s = stmts[i]
                nxt = stmts[i + 1] if i + 1 < len(stmts) else None
                done = False
                if isinstance(s, ast.If) and nxt is not None:
                    branches = chain(s)
                    names = set()
                    ok = True
                    for b in branches:
                        last = b[-1] if b else None
                        if isinstance(last, ast.Raise):
                            continue
                        if len(b) == 1 and isinstance(last, ast.Assign) and len(last.targets) == 1 and isinstance(last.targets[0], ast.Name) \
                                and isinstance(last.value, ast.Name) and last.value.id in top_fns:
                            names.add(last.targets[0].id)
                        else:
                            ok = False
                    call = nxt.value if isinstance(nxt, (ast.Assign, ast.Return)) else None
                    if ok and len(names) == 1 and isinstance(call, ast.Call) and isinstance(call.func, ast.Name) and call.func.id in names \
                            and not (isinstance(nxt, ast.Assign) and not (len(nxt.targets) == 1 and isinstance(nxt.targets[0], ast.Name))):
                        f_name = call.func.id
                        nassign = sum(1 for b in branches if b and isinstance(b[-1], ast.Assign))
                        # every occurrence of the name is one of the branch assignments or this one call
                        if len(uses.get(f_name, [])) == nassign + 1 and f_name not in top_fns:
                            for b in branches:
                                if b and isinstance(b[-1], ast.Assign):
                                    new = copy.deepcopy(nxt)
                                    new.value.func = ast.Name(id=b[-1].value.id, ctx=ast.Load())
                                    b[-1] = ast.copy_location(new, b[-1])
                            out.append(s)
                            i += 2
                            done = True
                if not done:
                    out.append(s)
                    i += 1
            return out
        fn.body = _map_body(fn.body, f)

    for n in ast.walk(tree):
        if isinstance(n, ast.FunctionDef):
            per_function(n)
    return tree


def push_alias_into_branches(tree):
    """`if c: X = d  else: X = {}; d[k] = X` (or `X = d[k] = {}`) immediately followed by the only use of `X`: the local
    is an alias of `d` resp. of the fresh `d[k]`; the following statement is moved into the branches with `X` replaced by
    what it aliases (`d`, `d[k]`), and the fresh dictionary is stored first as in `d[k] = {}`."""
    def alias_of(branch, x_name):
        """(statements to keep, expression X stands for) for one branch, or None"""
        if len(branch) == 1 and isinstance(branch[0], ast.Assign):
            a = branch[0]
            if len(a.targets) == 1 and isinstance(a.targets[0], ast.Name) and a.targets[0].id == x_name and isinstance(a.value, ast.Name):
                return [], a.value
            if len(a.targets) == 2 and isinstance(a.value, ast.Dict) and not a.value.keys:
                names = [t for t in a.targets if isinstance(t, ast.Name) and t.id == x_name]
                subs = [t for t in a.targets if isinstance(t, ast.Subscript) and isinstance(t.value, ast.Name)]
                if len(names) == 1 and len(subs) == 1:
                    keep = ast.copy_location(ast.Assign(targets=[copy.deepcopy(subs[0])], value=a.value), a)
                    load = copy.deepcopy(subs[0]); load.ctx = ast.Load()
                    return [keep], load
        if len(branch) == 2 and all(isinstance(b, ast.Assign) and len(b.targets) == 1 for b in branch):
            a, b = branch
            if isinstance(a.targets[0], ast.Name) and a.targets[0].id == x_name and isinstance(a.value, ast.Dict) and not a.value.keys \
                    and isinstance(b.targets[0], ast.Subscript) and isinstance(b.targets[0].value, ast.Name) \
                    and isinstance(b.value, ast.Name) and b.value.id == x_name:
                keep = ast.copy_location(ast.Assign(targets=[copy.deepcopy(b.targets[0])], value=a.value), a)
                load = copy.deepcopy(b.targets[0]); load.ctx = ast.Load()
                return [keep], load
        return None

    def per_function(fn):
        count = {}
        for n in ast.walk(fn):
            if isinstance(n, ast.Name):
                count[n.id] = count.get(n.id, 0) + 1

        def f(stmts):
            out = []
            i = 0
            while i < len(stmts):
                s = stmts[i]
                nxt = stmts[i + 1] if i + 1 < len(stmts) else None
                done = False
                if isinstance(s, ast.If) and s.orelse and nxt is not None and not (len(s.orelse) == 1 and isinstance(s.orelse[0], ast.If)):
                    cands = {t.id for b in (s.body, s.orelse) for a in b if isinstance(a, ast.Assign) for t in a.targets if isinstance(t, ast.Name)}
                    for x in cands:
                        ra, rb = alias_of(s.body, x), alias_of(s.orelse, x)
                        uses_next = sum(1 for n in ast.walk(nxt) if isinstance(n, ast.Name) and n.id == x and isinstance(n.ctx, ast.Load))
                        occurrences = sum(1 for b in (s.body, s.orelse) for n in ast.walk(ast.Module(body=b, type_ignores=[]))
                                          if isinstance(n, ast.Name) and n.id == x)
                        if ra and rb and uses_next == 1 and count.get(x, 0) == occurrences + 1:
                            s.body = ra[0] + [_Subst({x: ra[1]}).visit(copy.deepcopy(nxt))]
                            s.orelse = rb[0] + [_Subst({x: rb[1]}).visit(copy.deepcopy(nxt))]
                            out.append(s)
                            i += 2
                            done = True
                            break
                if not done:
                    out.append(s)
                    i += 1
            return out
        fn.body = _map_body(fn.body, f)

    for n in ast.walk(tree):
        if isinstance(n, ast.FunctionDef):
            per_function(n)
    return tree


def _inlinable(fn):
    a = fn.args
    if a.vararg or a.kwarg or a.kwonlyargs or a.posonlyargs or a.defaults or fn.decorator_list:
        return False
    body = [s for s in fn.body if not (isinstance(s, ast.Expr) and isinstance(s.value, ast.Constant) and isinstance(s.value.value, str))]
    if not body:
        return False
    for n in ast.walk(ast.Module(body=body, type_ignores=[])):
        if isinstance(n, (ast.FunctionDef, ast.Lambda, ast.ClassDef, ast.For, ast.While, ast.Try, ast.With, ast.Global,
                          ast.Nonlocal, ast.Yield, ast.YieldFrom, ast.Await, ast.ListComp, ast.SetComp, ast.DictComp, ast.GeneratorExp)):
            return False
        if isinstance(n, ast.Call) and isinstance(n.func, ast.Name) and n.func.id == fn.name:
            return False
    for s in body[:-1]:
        for n in ast.walk(s):
            if isinstance(n, ast.Return):
                return False
    last = body[-1]
    if not isinstance(last, ast.Return):
        for n in ast.walk(last):
            if isinstance(n, ast.Return):
                return False
    return True


def inline_helpers(tree, public):
    helpers = {n.name: n for n in tree.body if isinstance(n, ast.FunctionDef) and n.name.startswith("_")
               and n.name not in public and _inlinable(n)}
    if not helpers:
        return tree
    counter = [0]

    def expand(call, target, as_return, loc):
        fn = helpers[call.func.id]
        params = [p.arg for p in fn.args.args]
        if call.keywords and any(k.arg is None for k in call.keywords):
            return None
        args = list(call.args)
        kw = {k.arg: k.value for k in call.keywords}
        if len(args) > len(params) or any(k not in params[len(args):] for k in kw):
            return None
        for p in params[len(args):]:
            if p not in kw:
                return None
            args.append(kw[p])
        counter[0] += 1
        tag = f"_h{counter[0]}_"
        body = [copy.deepcopy(s) for s in fn.body
                if not (isinstance(s, ast.Expr) and isinstance(s.value, ast.Constant) and isinstance(s.value.value, str))]
        stored = {n.id for s in body for n in ast.walk(s) if isinstance(n, ast.Name) and isinstance(n.ctx, (ast.Store, ast.Del))}
        pre = []
        subst = {}
        ren = {x: tag + x for x in stored}
        for p, e in zip(params, args):
            if isinstance(e, (ast.Name, ast.Constant)) and p not in stored:
                subst[p] = e
            else:
                ren[p] = tag + p
                pre.append(ast.copy_location(ast.Assign(targets=[ast.Name(id=tag + p, ctx=ast.Store())], value=copy.deepcopy(e)), loc))
        body = [_Subst(subst).visit(_Rename(ren).visit(s)) for s in body]
        last = body[-1] if body else None
        if isinstance(last, ast.Return):
            val = last.value if last.value is not None else ast.Constant(value=None)
            if as_return:
                body[-1] = ast.copy_location(ast.Return(value=val), loc)
            elif target is not None:
                body[-1] = ast.copy_location(ast.Assign(targets=[target], value=val), loc)
            else:
                body[-1] = ast.copy_location(ast.Expr(value=val), loc) if not isinstance(val, (ast.Constant, ast.Name)) else None
                body = [b for b in body if b is not None]
        else:
            if as_return:
                body.append(ast.copy_location(ast.Return(value=ast.Constant(value=None)), loc))
            elif target is not None:
                body.append(ast.copy_location(ast.Assign(targets=[target], value=ast.Constant(value=None)), loc))
        return [ast.fix_missing_locations(x) for x in pre + body]

    def is_helper_call(e):
        return isinstance(e, ast.Call) and isinstance(e.func, ast.Name) and e.func.id in helpers

    def f(stmts):
        out = []
        for s in stmts:
            new = None
            if isinstance(s, ast.Assign) and len(s.targets) == 1 and isinstance(s.targets[0], ast.Name) and is_helper_call(s.value):
                new = expand(s.value, s.targets[0], False, s)
            elif isinstance(s, ast.Return) and s.value is not None and is_helper_call(s.value):
                new = expand(s.value, None, True, s)
            elif isinstance(s, ast.Expr) and is_helper_call(s.value):
                new = expand(s.value, None, False, s)
            out += new if new is not None else [s]
        return out
    changed = True
    rounds = 0
    while changed and rounds < 4:                          # a helper may call another helper
        rounds += 1
        before = ast.dump(tree)
        for n in tree.body:
            if isinstance(n, ast.FunctionDef):
                n.body = _map_body(n.body, f)
            elif isinstance(n, ast.ClassDef):
                for m in n.body:
                    if isinstance(m, ast.FunctionDef):
                        m.body = _map_body(m.body, f)
        changed = ast.dump(tree) != before
    used = {n.id for n in ast.walk(tree) if isinstance(n, ast.Name) and isinstance(n.ctx, ast.Load)}
    still = set()
    for n in ast.walk(tree):
        if isinstance(n, ast.Name) and isinstance(n.ctx, ast.Load) and n.id in helpers:
            still.add(n.id)
    # uses inside the helpers themselves do not keep a helper alive
    live = set()
    for n in tree.body:
        if isinstance(n, ast.FunctionDef) and n.name not in helpers:
            for x in ast.walk(n):
                if isinstance(x, ast.Name) and isinstance(x.ctx, ast.Load) and x.id in helpers:
                    live.add(x.id)
        elif not isinstance(n, ast.FunctionDef):
            for x in ast.walk(n):
                if isinstance(x, ast.Name) and isinstance(x.ctx, ast.Load) and x.id in helpers:
                    live.add(x.id)
    tree.body = [n for n in tree.body if not (isinstance(n, ast.FunctionDef) and n.name in helpers and n.name not in live)]
    return tree


def keywords_to_positional(tree, signatures, aliases):
    """signatures: qualified name -> parameter names; aliases: how a call is written -> qualified name"""
    class T(ast.NodeTransformer):
        def visit_Call(self, n):
            self.generic_visit(n)
            if not n.keywords or any(k.arg is None for k in n.keywords):
                return n
            name = ast.unparse(n.func)
            q = aliases.get(name, name)
            params = signatures.get(q)
            if params is None:
                return n
            kw = {k.arg: k.value for k in n.keywords}
            rest = params[len(n.args):]
            if any(k not in rest for k in kw):
                return n
            args = list(n.args)
            for p in rest:
                if p in kw:
                    args.append(kw.pop(p))
                else:
                    break
            if kw:
                return n                                   # a gap (an omitted default before a given keyword): leave
            return ast.copy_location(ast.Call(func=n.func, args=args, keywords=[]), n)
    return T().visit(tree)


def int_idioms(tree):
    """integer idioms brought to the forms the sources use:  `A >= 1 << E` and `A >> E` (as a condition) are
    `A > 2 ** E - 1` for a non-negative `A` (a `len(...)`) and a shift `E` of the form `8 * k` / constant;
    `X.to_bytes(n, order)` for `X = len(...)` is `int.to_bytes(X, n, order)`;
    `D.append(E)` on a name is `D += int.to_bytes(E, 1, "big")` (equal for 0 <= E < 256, the only values a length-of-length
    byte takes)."""
    def is_len(e):
        return isinstance(e, ast.Call) and isinstance(e.func, ast.Name) and e.func.id == "len" and len(e.args) == 1 and not e.keywords

    def shift_ok(e):
        if isinstance(e, ast.Constant) and isinstance(e.value, int) and not isinstance(e.value, bool) and e.value >= 0:
            return True
        return isinstance(e, ast.BinOp) and isinstance(e.op, ast.Mult) and (
            (isinstance(e.left, ast.Constant) and e.left.value == 8 and isinstance(e.right, ast.Name)) or
            (isinstance(e.right, ast.Constant) and e.right.value == 8 and isinstance(e.left, ast.Name)))

    def pow2_minus_1(E):
        return ast.BinOp(left=ast.BinOp(left=ast.Constant(value=2), op=ast.Pow(), right=E), op=ast.Sub(), right=ast.Constant(value=1))

    class T(ast.NodeTransformer):
        def visit_Compare(self, n):
            self.generic_visit(n)
            if len(n.ops) == 1 and isinstance(n.ops[0], ast.GtE) and is_len(n.left):
                r = n.comparators[0]
                if isinstance(r, ast.BinOp) and isinstance(r.left, ast.Constant) and shift_ok(r.right) \
                        and ((isinstance(r.op, ast.LShift) and r.left.value == 1) or (isinstance(r.op, ast.Pow) and r.left.value == 2)):
                    return ast.copy_location(ast.Compare(left=n.left, ops=[ast.Gt()], comparators=[pow2_minus_1(r.right)]), n)
            return n

        def visit_While(self, n):
            self.generic_visit(n)
            t = n.test
            if isinstance(t, ast.BinOp) and isinstance(t.op, ast.RShift) and is_len(t.left) and shift_ok(t.right):
                n.test = ast.copy_location(ast.Compare(left=t.left, ops=[ast.Gt()], comparators=[pow2_minus_1(t.right)]), t)
            return n

        def visit_BinOp(self, n):
            self.generic_visit(n)
            # `1 << E` is `2 ** E` for a shift that cannot be negative (a constant or `8 * k` with k a loop counter)
            if isinstance(n.op, ast.LShift) and isinstance(n.left, ast.Constant) and n.left.value == 1 and not isinstance(n.left.value, bool) \
                    and shift_ok(n.right):
                return ast.copy_location(ast.BinOp(left=ast.Constant(value=2), op=ast.Pow(), right=n.right), n)
            # `c | x` is `x | c` for an integer literal c (bitwise operators commute)
            if isinstance(n.op, (ast.BitOr, ast.BitAnd, ast.BitXor)) and isinstance(n.left, ast.Constant) and isinstance(n.left.value, int) \
                    and not isinstance(n.left.value, bool) and not isinstance(n.right, ast.Constant):
                n.left, n.right = n.right, n.left
            return n

        def visit_Call(self, n):
            self.generic_visit(n)
            if isinstance(n.func, ast.Attribute) and n.func.attr == "to_bytes" and not n.keywords \
                    and (is_len(n.func.value) or isinstance(n.func.value, ast.BinOp)):
                # `E.to_bytes(k, order)` is `int.to_bytes(E, k, order)` whenever E is an int (the translator types it or refuses)
                return ast.copy_location(ast.Call(func=ast.Attribute(value=ast.Name(id="int", ctx=ast.Load()), attr="to_bytes", ctx=ast.Load()),
                                                  args=[n.func.value] + list(n.args), keywords=[]), n)
            return n

        def visit_Expr(self, n):
            self.generic_visit(n)
            c = n.value
            if isinstance(c, ast.Call) and isinstance(c.func, ast.Attribute) and c.func.attr == "append" and isinstance(c.func.value, ast.Name) \
                    and len(c.args) == 1 and not c.keywords:
                conv = ast.Call(func=ast.Attribute(value=ast.Name(id="int", ctx=ast.Load()), attr="to_bytes", ctx=ast.Load()),
                                args=[c.args[0], ast.Constant(value=1), ast.Constant(value="big")], keywords=[])
                return ast.copy_location(ast.AugAssign(target=ast.Name(id=c.func.value.id, ctx=ast.Store()), op=ast.Add(), value=conv), n)
            return n
    return T().visit(tree)


def small_equivalences(tree):
    """`if not X: X = C` is `X = X or C`;  `b"".join((a, b, c))` is `a + b + c`;
    `if (not P) or Q: S1 else: S2` is `if P and (not Q): S2 else: S1` (same evaluation order and short-circuit);
    `if X is None: return e` + statements ending in `return F` is `if X is not None: statements; e = F` + `return e`
    (e a plain name, no other return in the statements)."""
    class T(ast.NodeTransformer):
        def visit_Call(self, n):
            self.generic_visit(n)
            if isinstance(n.func, ast.Attribute) and n.func.attr == "join" and isinstance(n.func.value, ast.Constant) \
                    and n.func.value.value == b"" and len(n.args) == 1 and not n.keywords and isinstance(n.args[0], (ast.Tuple, ast.List)) \
                    and len(n.args[0].elts) >= 2 and not any(isinstance(x, ast.Starred) for x in n.args[0].elts):
                e = n.args[0].elts[0]
                for x in n.args[0].elts[1:]:
                    e = ast.BinOp(left=e, op=ast.Add(), right=x)
                return ast.copy_location(e, n)
            return n
    tree = T().visit(tree)

    def f(stmts):
        out = []
        i = 0
        while i < len(stmts):
            s = stmts[i]
            if isinstance(s, ast.If) and not s.orelse and isinstance(s.test, ast.UnaryOp) and isinstance(s.test.op, ast.Not) \
                    and isinstance(s.test.operand, ast.Name) and len(s.body) == 1 and isinstance(s.body[0], ast.Assign) \
                    and len(s.body[0].targets) == 1 and isinstance(s.body[0].targets[0], ast.Name) \
                    and s.body[0].targets[0].id == s.test.operand.id and isinstance(s.body[0].value, ast.Constant):
                x = s.test.operand.id
                out.append(ast.copy_location(ast.Assign(targets=[ast.Name(id=x, ctx=ast.Store())],
                                                        value=ast.BoolOp(op=ast.Or(), values=[ast.Name(id=x, ctx=ast.Load()), s.body[0].value])), s))
                i += 1
                continue
            if isinstance(s, ast.If) and s.orelse and not (len(s.orelse) == 1 and isinstance(s.orelse[0], ast.If)) \
                    and isinstance(s.test, ast.BoolOp) and isinstance(s.test.op, ast.Or) and len(s.test.values) == 2 \
                    and isinstance(s.test.values[0], ast.UnaryOp) and isinstance(s.test.values[0].op, ast.Not):
                p_, q_ = s.test.values[0].operand, s.test.values[1]
                s.test = ast.copy_location(ast.BoolOp(op=ast.And(), values=[p_, ast.UnaryOp(op=ast.Not(), operand=q_)]), s.test)
                s.body, s.orelse = s.orelse, s.body
            # `if <int> == 0: A else: B` is `if <int>: B else: A`; `if <int> != 0:` is `if <int>:` (a remainder or a length)
            if isinstance(s, ast.If) and isinstance(s.test, ast.Compare) and len(s.test.ops) == 1 \
                    and isinstance(s.test.comparators[0], ast.Constant) and s.test.comparators[0].value == 0 \
                    and not isinstance(s.test.comparators[0].value, bool) \
                    and ((isinstance(s.test.left, ast.BinOp) and isinstance(s.test.left.op, ast.Mod) and _pure_simple(s.test.left.left)
                          and isinstance(s.test.left.right, ast.Constant) and isinstance(s.test.left.right.value, int))
                         or (isinstance(s.test.left, ast.Call) and _pure_simple(s.test.left) and not isinstance(s.test.left, ast.Name))):
                if isinstance(s.test.ops[0], ast.NotEq):
                    s.test = s.test.left
                elif isinstance(s.test.ops[0], ast.Eq) and s.orelse and not (len(s.orelse) == 1 and isinstance(s.orelse[0], ast.If)):
                    s.test = s.test.left
                    s.body, s.orelse = s.orelse, s.body
            if isinstance(s, ast.If) and not s.orelse and isinstance(s.test, ast.Compare) and len(s.test.ops) == 1 \
                    and isinstance(s.test.ops[0], ast.Is) and isinstance(s.test.left, ast.Name) \
                    and isinstance(s.test.comparators[0], ast.Constant) and s.test.comparators[0].value is None \
                    and len(s.body) == 1 and isinstance(s.body[0], ast.Return) and isinstance(s.body[0].value, ast.Name):
                rest = stmts[i + 1:]
                if rest and isinstance(rest[-1], ast.Return) and rest[-1].value is not None \
                        and not any(isinstance(n, ast.Return) for r in rest[:-1] for n in ast.walk(r)):
                    e = s.body[0].value.id
                    body = rest[:-1] + [ast.copy_location(ast.Assign(targets=[ast.Name(id=e, ctx=ast.Store())], value=rest[-1].value), rest[-1])]
                    s.test.ops = [ast.IsNot()]
                    s.body = body
                    out.append(s)
                    out.append(ast.copy_location(ast.Return(value=ast.Name(id=e, ctx=ast.Load())), rest[-1]))
                    return out
            out.append(s)
            i += 1
        return out
    tree.body = _map_body(tree.body, f)
    return tree


def unchain_cipher_construction(tree):
    """`_Cipher(…).encryptor()` written in one expression — alone, or as the receiver at the very start of a statement's
    expression (`return _Cipher(…).encryptor().update(x)[:n]`) — is split into the statements the sources use:
    `c = _Cipher(…)`, `e = c.encryptor()`, then the rest.  The receiver chain is evaluated before anything else in the
    statement, so the order of evaluation is unchanged."""
    counter = [0]

    def is_ctx_call(e):
        return (isinstance(e, ast.Call) and isinstance(e.func, ast.Attribute) and e.func.attr in ("encryptor", "decryptor") and not e.args
                and not e.keywords and isinstance(e.func.value, ast.Call) and isinstance(e.func.value.func, ast.Name)
                and e.func.value.func.id == "_Cipher")

    def leftmost(e):
        """path to the leftmost-evaluated sub-expression: list of (parent, field)"""
        path = []
        cur = e
        while True:
            if is_ctx_call(cur):
                return path, cur
            if isinstance(cur, ast.Subscript):
                path.append((cur, "value")); cur = cur.value
            elif isinstance(cur, ast.Call) and isinstance(cur.func, ast.Attribute):
                path.append((cur.func, "value")); cur = cur.func.value
            elif isinstance(cur, ast.Attribute):
                path.append((cur, "value")); cur = cur.value
            elif isinstance(cur, ast.BinOp):
                path.append((cur, "left")); cur = cur.left
            else:
                return None, None

    def f(stmts):
        out = []
        for s in stmts:
            val = s.value if isinstance(s, (ast.Assign, ast.Return, ast.Expr)) else None
            if val is not None:
                path, node = leftmost(val)
                if node is not None:
                    counter[0] += 1
                    c, e = f"_cipher{counter[0]}", f"_context{counter[0]}"
                    out.append(ast.copy_location(ast.Assign(targets=[ast.Name(id=c, ctx=ast.Store())], value=node.func.value), s))
                    ctx_call = ast.Call(func=ast.Attribute(value=ast.Name(id=c, ctx=ast.Load()), attr=node.func.attr, ctx=ast.Load()), args=[], keywords=[])
                    if not path:                             # the whole right-hand side
                        s.value = ctx_call
                        out.append(s)
                    else:
                        out.append(ast.copy_location(ast.Assign(targets=[ast.Name(id=e, ctx=ast.Store())], value=ctx_call), s))
                        parent, field = path[-1]
                        setattr(parent, field, ast.Name(id=e, ctx=ast.Load()))
                        out.append(s)
                    continue
            out.append(s)
        return out
    tree.body = _map_body(tree.body, f)
    return tree


def index_loops_to_enumerate(tree):
    """`i = 0; while i < len(A): BODY; i += 1`  →  `for i in range(len(A)): BODY`  →  `for i, x in enumerate(A): BODY'`
    where BODY is one `if TEST: A[i] op= c` and BODY' reads `x` for `A[i]` in TEST — the element is read before it is
    written and nothing but element `i` is touched, so every iteration sees the value `enumerate` hands out.  `i` must
    not be used after the loop."""
    def uses_after(stmts, k, name):
        return any(isinstance(n, ast.Name) and n.id == name for s in stmts[k:] for n in ast.walk(s))

    def f(stmts):
        out = []
        i = 0
        while i < len(stmts):
            s = stmts[i]
            nxt = stmts[i + 1] if i + 1 < len(stmts) else None
            # while form -> for-range form
            if (isinstance(s, ast.Assign) and len(s.targets) == 1 and isinstance(s.targets[0], ast.Name) and isinstance(s.value, ast.Constant)
                    and s.value.value == 0 and not isinstance(s.value.value, bool) and isinstance(nxt, ast.While) and not nxt.orelse):
                iv = s.targets[0].id
                t = nxt.test
                last = nxt.body[-1] if nxt.body else None
                ok = (isinstance(t, ast.Compare) and len(t.ops) == 1 and isinstance(t.ops[0], ast.Lt) and isinstance(t.left, ast.Name) and t.left.id == iv
                      and isinstance(t.comparators[0], ast.Call) and isinstance(t.comparators[0].func, ast.Name) and t.comparators[0].func.id == "len"
                      and len(t.comparators[0].args) == 1 and isinstance(t.comparators[0].args[0], ast.Name)
                      and isinstance(last, ast.AugAssign) and isinstance(last.op, ast.Add) and isinstance(last.target, ast.Name) and last.target.id == iv
                      and isinstance(last.value, ast.Constant) and last.value.value == 1
                      and not any(isinstance(n, (ast.Break, ast.Continue)) for b in nxt.body for n in ast.walk(b))
                      and not any(isinstance(n, ast.Name) and n.id == iv and isinstance(n.ctx, ast.Store) for b in nxt.body[:-1] for n in ast.walk(b))
                      and not uses_after(stmts, i + 2, iv))
                if ok:
                    arr = t.comparators[0].args[0]
                    rng = ast.Call(func=ast.Name(id="range", ctx=ast.Load()), args=[ast.Call(func=ast.Name(id="len", ctx=ast.Load()), args=[arr], keywords=[])], keywords=[])
                    s = ast.copy_location(ast.For(target=ast.Name(id=iv, ctx=ast.Store()), iter=rng, body=nxt.body[:-1], orelse=[]), nxt)
                    i += 1                                  # the `i = 0` statement is absorbed
            # for-range form -> enumerate form
            if (isinstance(s, ast.For) and not s.orelse and isinstance(s.target, ast.Name) and isinstance(s.iter, ast.Call)
                    and isinstance(s.iter.func, ast.Name) and s.iter.func.id == "range" and len(s.iter.args) == 1 and not s.iter.keywords
                    and isinstance(s.iter.args[0], ast.Call) and isinstance(s.iter.args[0].func, ast.Name) and s.iter.args[0].func.id == "len"
                    and len(s.iter.args[0].args) == 1 and isinstance(s.iter.args[0].args[0], ast.Name)
                    and len(s.body) == 1 and isinstance(s.body[0], ast.If) and not s.body[0].orelse and len(s.body[0].body) == 1
                    and isinstance(s.body[0].body[0], ast.AugAssign) and not uses_after(stmts, i + 1, s.target.id)):
                iv, arr = s.target.id, s.iter.args[0].args[0].id
                aug = s.body[0].body[0]
                elem = f"{arr}[{iv}]"
                if ast.unparse(aug.target) == elem:
                    x = "_elem_" + iv

                    class R(ast.NodeTransformer):
                        def visit_Subscript(self, n):
                            if ast.unparse(n) == elem and isinstance(n.ctx, ast.Load):
                                return ast.copy_location(ast.Name(id=x, ctx=ast.Load()), n)
                            return self.generic_visit(n)
                    test = R().visit(copy.deepcopy(s.body[0].test))
                    if not any(isinstance(n, ast.Name) and n.id in (iv, arr) for n in ast.walk(test)):
                        s.body[0].test = test
                        s.target = ast.Tuple(elts=[ast.Name(id=iv, ctx=ast.Store()), ast.Name(id=x, ctx=ast.Store())], ctx=ast.Store())
                        s.iter = ast.Call(func=ast.Name(id="enumerate", ctx=ast.Load()), args=[ast.Name(id=arr, ctx=ast.Load())], keywords=[])
            out.append(s)
            i += 1
        return out
    tree.body = _map_body(tree.body, f)
    return tree


def swap_is_not_none(tree):
    """`if X is not None: A else: B` is `if X is None: B else: A`"""
    def f(stmts):
        for s in stmts:
            if (isinstance(s, ast.If) and s.orelse and isinstance(s.test, ast.Compare) and len(s.test.ops) == 1
                    and isinstance(s.test.ops[0], ast.IsNot) and isinstance(s.test.left, ast.Name)
                    and isinstance(s.test.comparators[0], ast.Constant) and s.test.comparators[0].value is None
                    and not (len(s.orelse) == 1 and isinstance(s.orelse[0], ast.If))):
                s.test.ops = [ast.Is()]
                s.body, s.orelse = s.orelse, s.body
        return stmts
    tree.body = _map_body(tree.body, f)
    return tree


# ---------------------------------------------------------------------------------------------------------------------
# housekeeping: statements and annotations that cannot influence what any existing function computes

_PINNED_DIR = os.path.join(os.path.dirname(os.path.abspath(__file__)), "pinned_src")
_TDES_TARGETS = ("cryptography.hazmat.primitives.ciphers.algorithms", "cryptography.hazmat.decrepit.ciphers.algorithms")
# special methods that only serve printing / copying / pickling: nothing in the library invokes them implicitly
HARMLESS_DUNDERS = {"__repr__", "__reduce__", "__reduce_ex__", "__copy__", "__deepcopy__", "__getnewargs__", "__getstate__"}
HARMLESS_DECORATORS = {"staticmethod", "classmethod", "property", "_typing.final", "_t.final", "_typing.overload", "_t.overload"}
_HARMLESS_CALLS = {"_logging.getLogger", "logging.getLogger", "_typing.TypeVar", "_t.TypeVar", "typing.TypeVar",
                   "_typing.NewType", "_t.NewType", "frozenset", "tuple"}


def _pure_type_expr(e):
    """names, dotted names, subscripts, `|`, tuples / lists of those, `None`, `...`, string constants: evaluating such an
    annotation has no effect on anything but `__annotations__`"""
    if e is None:
        return True
    if isinstance(e, ast.Name):
        return True
    if isinstance(e, ast.Attribute):
        return _pure_type_expr(e.value)
    if isinstance(e, ast.Constant):
        return e.value is None or e.value is Ellipsis or isinstance(e.value, (str, int, bytes, bool))
    if isinstance(e, ast.Subscript):
        return _pure_type_expr(e.value) and _pure_type_expr(e.slice)
    if isinstance(e, ast.BinOp) and isinstance(e.op, ast.BitOr):
        return _pure_type_expr(e.left) and _pure_type_expr(e.right)
    if isinstance(e, (ast.Tuple, ast.List)):
        return all(_pure_type_expr(x) for x in e.elts)
    return False


def _param_names(fn):
    a = fn.args
    return ([p.arg for p in a.posonlyargs], [p.arg for p in a.args], [p.arg for p in a.kwonlyargs],
            a.vararg.arg if a.vararg else None, a.kwarg.arg if a.kwarg else None)


def _defs_by_qualname(tree):
    out = {}
    for n in tree.body:
        if isinstance(n, ast.FunctionDef):
            out.setdefault(n.name, []).append(n)
        elif isinstance(n, ast.ClassDef):
            for m in n.body:
                if isinstance(m, ast.FunctionDef):
                    out.setdefault(f"{n.name}.{m.name}", []).append(m)
    return out


def restore_pinned_annotations(tree, module):
    """Annotations are never consulted at run time by this library (decorators, which could, are refused elsewhere), so
    a function whose parameter names are those of the snapshot keeps the snapshot's annotations whatever the current
    ones say — provided the current ones are pure type expressions (nothing that is called while the `def` executes)."""
    path = os.path.join(_PINNED_DIR, module + ".py")
    if not os.path.exists(path):
        return tree
    pinned = _defs_by_qualname(ast.parse(open(path).read()))
    for q, fns in _defs_by_qualname(tree).items():
        olds = pinned.get(q)
        if not olds:
            # a function the snapshot does not have (a new feature, a private helper): its annotations, when pure type
            # expressions, say nothing any translator needs (a helper is inlined with the caller's argument kinds)
            for fn in fns:
                a = fn.args
                cur = a.posonlyargs + a.args + a.kwonlyargs + ([a.vararg] if a.vararg else []) + ([a.kwarg] if a.kwarg else [])
                if all(_pure_type_expr(p.annotation) for p in cur) and _pure_type_expr(fn.returns):
                    for p in cur:
                        p.annotation = None
                    fn.returns = None
            continue
        if len(olds) != len(fns):
            continue
        for fn, old in zip(fns, olds):
            if _param_names(fn) != _param_names(old):
                continue
            a, b = fn.args, old.args
            cur = a.posonlyargs + a.args + a.kwonlyargs + ([a.vararg] if a.vararg else []) + ([a.kwarg] if a.kwarg else [])
            ref = b.posonlyargs + b.args + b.kwonlyargs + ([b.vararg] if b.vararg else []) + ([b.kwarg] if b.kwarg else [])
            if not all(_pure_type_expr(p.annotation) for p in cur) or not _pure_type_expr(fn.returns):
                continue
            for p, r in zip(cur, ref):
                p.annotation = copy.deepcopy(r.annotation)
            fn.returns = copy.deepcopy(old.returns)
    return tree


def _const_truth(e):
    """the truth value of a test built from literals only (None when it is not one)"""
    if isinstance(e, ast.Constant):
        return bool(e.value)
    if isinstance(e, ast.UnaryOp) and isinstance(e.op, ast.Not):
        v = _const_truth(e.operand)
        return None if v is None else not v
    if isinstance(e, ast.BoolOp):
        vs = [_const_truth(x) for x in e.values]
        if isinstance(e.op, ast.And):
            for v in vs:                               # short-circuit: a literal False decides, whatever follows
                if v is False:
                    return False
                if v is None:
                    return None
            return True
        for v in vs:
            if v is True:
                return True
            if v is None:
                return None
        return False
    if isinstance(e, ast.Call) and isinstance(e.func, ast.Name) and e.func.id == "isinstance" and len(e.args) == 2 and not e.keywords \
            and isinstance(e.args[0], ast.Constant) and e.args[0].value is not None:
        names = [x.id for x in (e.args[1].elts if isinstance(e.args[1], ast.Tuple) else [e.args[1]]) if isinstance(x, ast.Name)]
        known = {"bool": bool, "int": int, "float": float, "str": str, "bytes": bytes, "bytearray": bytearray, "memoryview": memoryview,
                 "list": list, "tuple": tuple, "dict": dict, "set": set, "frozenset": frozenset, "complex": complex}
        if names and len(names) == len(e.args[1].elts if isinstance(e.args[1], ast.Tuple) else [e.args[1]]) and all(n in known for n in names):
            return isinstance(e.args[0].value, tuple(known[n] for n in names))
        return None
    if isinstance(e, ast.Compare) and len(e.ops) == 1 and isinstance(e.left, ast.Constant) and isinstance(e.comparators[0], ast.Constant):
        a, b = e.left.value, e.comparators[0].value
        if isinstance(e.ops[0], ast.Is):
            return (a is None and b is None) or (isinstance(a, bool) and isinstance(b, bool) and a == b) if (a is None or b is None or isinstance(a, bool)) else None
        if isinstance(e.ops[0], ast.IsNot):
            v = _const_truth(ast.Compare(left=e.left, ops=[ast.Is()], comparators=e.comparators))
            return None if v is None else not v
        if type(a) is type(b) or a is None or b is None:
            if isinstance(e.ops[0], ast.Eq):
                return a == b
            if isinstance(e.ops[0], ast.NotEq):
                return a != b
        if type(a) is int and type(b) is int:
            import operator
            op = {ast.Lt: operator.lt, ast.LtE: operator.le, ast.Gt: operator.gt, ast.GtE: operator.ge}.get(type(e.ops[0]))
            if op:
                return op(a, b)
    return None


def _split_const_chains(fn):
    class T(ast.NodeTransformer):
        def visit_Compare(self, n):
            self.generic_visit(n)
            if len(n.ops) > 1 and isinstance(n.left, ast.Constant) and all(isinstance(c, ast.Constant) for c in n.comparators):
                parts = []; left = n.left
                for op, c in zip(n.ops, n.comparators):
                    parts.append(ast.Compare(left=left, ops=[op], comparators=[c])); left = c
                return ast.copy_location(ast.BoolOp(op=ast.And(), values=parts), n)
            return n
    fn.body = [T().visit(st) for st in fn.body]
    return fn


def fold_constant_ifs(fn):
    """`if <literal test>:` keeps the branch that runs; likewise conditional expressions"""
    class E(ast.NodeTransformer):
        def visit_IfExp(self, n):
            self.generic_visit(n)
            v = _const_truth(n.test)
            return n if v is None else (n.body if v else n.orelse)
    def f(stmts):
        out = []
        for st in stmts:
            if isinstance(st, ast.If):
                v = _const_truth(st.test)
                if v is not None:
                    out += f(st.body if v else st.orelse)
                    continue
                st.body = f(st.body) or [ast.copy_location(ast.Pass(), st)]
                st.orelse = f(st.orelse)
            elif isinstance(st, (ast.For, ast.While, ast.With, ast.Try)):
                for fld in ("body", "orelse", "finalbody"):
                    if getattr(st, fld, None):
                        setattr(st, fld, f(getattr(st, fld)))
                for h in getattr(st, "handlers", []):
                    h.body = f(h.body)
            out.append(st)
        return out
    _split_const_chains(fn)
    fn.body = [E().visit(st) for st in fn.body]
    fn.body = f(fn.body) or [ast.Pass()]
    return ast.fix_missing_locations(fn)


def specialise_new_parameters(tree, module):
    """A function of the snapshot that has gained parameters — trailing positional ones or keyword-only ones, each with
    a literal default (None, a bool, a number, a str / bytes literal), never assigned in the body — is read *at those
    defaults*: the parameter is replaced by its default, tests that became literal are folded, and the signature is the
    snapshot's again.  The statement proved is then about every call that does not pass the new parameters, which is
    every call the properties speak about."""
    path = os.path.join(_PINNED_DIR, module + ".py")
    if not os.path.exists(path):
        return tree
    pinned = _defs_by_qualname(ast.parse(open(path).read()))
    removed = {}
    for q, fns in _defs_by_qualname(tree).items():
        olds = pinned.get(q)
        if not olds or len(olds) != len(fns):
            continue
        for fn, old in zip(fns, olds):
            a, b = fn.args, old.args
            if _param_names(fn) == _param_names(old) or a.vararg or a.kwarg or b.vararg or b.kwarg or a.posonlyargs or b.posonlyargs:
                continue
            pos, opos = [p.arg for p in a.args], [p.arg for p in b.args]
            kwo, okwo = [p.arg for p in a.kwonlyargs], [p.arg for p in b.kwonlyargs]
            if pos[:len(opos)] != opos or [k for k in kwo if k in okwo] != okwo:
                continue
            extra_pos = pos[len(opos):]
            if len(a.defaults) < len(extra_pos):
                continue
            new = {}
            for name, d in zip(extra_pos, a.defaults[len(a.defaults) - len(extra_pos):]):
                new[name] = d
            ok = True
            for p_, d in zip(a.kwonlyargs, a.kw_defaults):
                if p_.arg not in okwo:
                    if d is None:
                        ok = False
                    new[p_.arg] = d
            if not ok or not new or not all(isinstance(d, ast.Constant) and (d.value is None or isinstance(d.value, (bool, int, float, str, bytes))) for d in new.values()):
                continue
            stores = {n.id for st in fn.body for n in ast.walk(st) if isinstance(n, ast.Name) and isinstance(n.ctx, (ast.Store, ast.Del))}
            nested = any(isinstance(n, (ast.Global, ast.Nonlocal)) for st in fn.body for n in ast.walk(st))
            inner_binds = {x.arg for st in fn.body for n in ast.walk(st) if isinstance(n, (ast.FunctionDef, ast.Lambda)) for x in n.args.args + n.args.kwonlyargs}
            if nested or (set(new) & (stores | inner_binds)):
                continue
            if "." not in q:                               # a module-level function: calls of it by name are rewritten below
                removed.setdefault(q, {}).update(new)
            fn.body = [_Subst(new).visit(st) for st in fn.body]
            keep_defaults = a.defaults[:len(a.defaults) - len(extra_pos)] if extra_pos else a.defaults
            a.args = a.args[:len(opos)]
            a.defaults = keep_defaults
            kk = [(p_, d) for p_, d in zip(a.kwonlyargs, a.kw_defaults) if p_.arg in okwo]
            a.kwonlyargs = [p_ for p_, _ in kk]; a.kw_defaults = [d for _, d in kk]
            fold_constant_ifs(fn)
    if removed:
        # a call inside the module that passes a removed parameter by keyword *with its default value* says nothing
        class C(ast.NodeTransformer):
            def visit_Call(self, c):
                self.generic_visit(c)
                if isinstance(c.func, ast.Name) and c.func.id in removed:
                    c.keywords = [k for k in c.keywords if not (k.arg in removed[c.func.id] and isinstance(k.value, ast.Constant)
                                                                and type(k.value.value) is type(removed[c.func.id][k.arg].value)
                                                                and k.value.value == removed[c.func.id][k.arg].value)]
                return c
        tree = C().visit(tree)
    return tree


def drop_new_methods(tree, module):
    """A method that the snapshot's class of the same name does not have cannot change what the existing methods do,
    provided it is not a special method, carries only harmless decorators, and its name is neither an existing
    method's nor that of an attribute any method of the class stores on `self` (a property of that name would
    intercept the store).  Such methods are not read; a call of one from an existing method is a name the class
    translator does not know and is refused there."""
    path = os.path.join(_PINNED_DIR, module + ".py")
    if not os.path.exists(path):
        return tree
    pinned = {n.name: {m.name for m in n.body if isinstance(m, ast.FunctionDef)}
              for n in ast.parse(open(path).read()).body if isinstance(n, ast.ClassDef)}
    for c in tree.body:
        if not (isinstance(c, ast.ClassDef) and c.name in pinned):
            continue
        stored = {x.attr for x in ast.walk(c) if isinstance(x, ast.Attribute) and isinstance(x.ctx, (ast.Store, ast.Del))}
        names = [m.name for m in c.body if isinstance(m, ast.FunctionDef)]
        keep = []
        for m in c.body:
            if isinstance(m, ast.FunctionDef) and m.name not in pinned[c.name] and names.count(m.name) == 1 \
                    and (not (m.name.startswith("__") and m.name.endswith("__")) or m.name in HARMLESS_DUNDERS) and m.name not in stored \
                    and all(ast.unparse(d) in HARMLESS_DECORATORS for d in m.decorator_list):
                continue
            keep.append(m)
        c.body = keep
    return tree


def local_annassign_to_assign(tree):
    """inside a function, `x: T = e` with a pure type expression `T` is `x = e`"""
    class T(ast.NodeTransformer):
        def visit_AnnAssign(self, n):
            if isinstance(n.target, ast.Name) and n.simple and n.value is not None and _pure_type_expr(n.annotation):
                return ast.copy_location(ast.Assign(targets=[n.target], value=n.value), n)
            return n
    for fn in [n for n in ast.walk(tree) if isinstance(n, ast.FunctionDef)]:
        fn.body = [T().visit(st) for st in fn.body]
    return tree


def _loads(node):
    return {n.id for n in ast.walk(node) if isinstance(n, ast.Name) and isinstance(n.ctx, ast.Load)}


def _harmless_value(e):
    if e is None or _is_const_expr(e) or _pure_type_expr(e):
        return True
    if isinstance(e, ast.Call) and ast.unparse(e.func) in _HARMLESS_CALLS and not any(isinstance(a, ast.Starred) for a in e.args):
        return all(_harmless_value(a) or (isinstance(a, ast.Name) and a.id == "__name__") for a in e.args) \
            and all(k.arg and _harmless_value(k.value) for k in e.keywords)
    if isinstance(e, (ast.Tuple, ast.List, ast.Set)):
        return all(_harmless_value(x) for x in e.elts)
    return False


def inert_class(n):
    """a class definition that cannot change what existing functions and classes do: no decorators beyond the harmless
    ones, no metaclass / keywords, bases that are plain (dotted) names, and a body of docstrings, `pass`, harmless
    assignments to plain names and plain method definitions"""
    if not isinstance(n, ast.ClassDef) or n.keywords:
        return False
    if any(ast.unparse(d) not in HARMLESS_DECORATORS for d in n.decorator_list):
        return False
    if not all(_pure_type_expr(b) and isinstance(b, (ast.Name, ast.Attribute)) for b in n.bases):
        return False
    for st in n.body:
        if isinstance(st, ast.Expr) and isinstance(st.value, ast.Constant):
            continue
        if isinstance(st, ast.Pass):
            continue
        if isinstance(st, ast.FunctionDef) and all(ast.unparse(d) in HARMLESS_DECORATORS for d in st.decorator_list) \
                and st.name not in ("__init_subclass__", "__class_getitem__", "__set_name__"):
            continue
        if isinstance(st, ast.Assign) and all(isinstance(t, ast.Name) for t in st.targets) and _harmless_value(st.value):
            continue
        if isinstance(st, ast.AnnAssign) and isinstance(st.target, ast.Name) and _harmless_value(st.value) and _pure_type_expr(st.annotation):
            continue
        return False
    return True


def tdes_identity_checked():
    """the two import locations of TripleDES name one class in the installed `cryptography` (checked, not assumed)"""
    try:
        import importlib
        import warnings
        with warnings.catch_warnings():
            warnings.simplefilter("ignore")
            mods = [importlib.import_module(m) for m in _TDES_TARGETS]
        return mods[0].TripleDES is mods[1].TripleDES
    except Exception:  # noqa: BLE001
        return False


def housekeeping(tree, module):
    """Drops / neutralises what provably cannot change the behaviour of an existing function:
    `from __future__ import annotations`; `if TYPE_CHECKING:` blocks of imports; annotations (see above); module-level
    assignments of harmless values (constants, type expressions, a logger, a TypeVar) to names no function or class
    body reads; TripleDES imported from either of its two locations, also through `try … except ImportError`, is
    spelled `_algorithms.TripleDES`."""
    body = []
    tdes_names, alg_names = set(), set()
    def import_tdes(n):
        """names bound to the TripleDES class / to a module that holds it, by this import; None if it is another import"""
        if not isinstance(n, ast.ImportFrom) or n.level:
            return None
        got_c, got_m = set(), set()
        for a in n.names:
            if n.module in _TDES_TARGETS and a.name == "TripleDES":
                got_c.add(a.asname or a.name)
            elif f"{n.module}.{a.name}" in _TDES_TARGETS and (a.asname or a.name) != "_algorithms":
                got_m.add(a.asname or a.name)
            elif f"{n.module}.{a.name}" == _TDES_TARGETS[1] and (a.asname or a.name) == "_algorithms":
                got_m.add("_algorithms")
            else:
                return None
        return got_c, got_m
    for n in tree.body:
        if isinstance(n, ast.ImportFrom) and n.module == "__future__" and not n.level:
            continue
        if isinstance(n, ast.If) and ast.unparse(n.test) in ("_typing.TYPE_CHECKING", "_t.TYPE_CHECKING", "typing.TYPE_CHECKING", "TYPE_CHECKING") \
                and not n.orelse and all(isinstance(x, (ast.Import, ast.ImportFrom, ast.Pass)) for x in n.body) \
                and ast.unparse(n.test) != "TYPE_CHECKING":
            continue
        if isinstance(n, ast.Try) and len(n.body) == 1 and len(n.handlers) == 1 and not n.orelse and not n.finalbody \
                and n.handlers[0].name is None and n.handlers[0].type is not None \
                and ast.unparse(n.handlers[0].type) in ("ImportError", "ModuleNotFoundError", "(ImportError, ModuleNotFoundError)", "(ModuleNotFoundError, ImportError)") \
                and len(n.handlers[0].body) == 1:
            a, b = import_tdes(n.body[0]), import_tdes(n.handlers[0].body[0])
            if a is not None and b is not None and a == b and (a[0] or a[1]) and tdes_identity_checked():
                tdes_names |= a[0]; alg_names |= a[1]
                continue
        t = import_tdes(n)
        if t is not None and (t[0] or t[1]) and tdes_identity_checked():
            tdes_names |= t[0]; alg_names |= t[1]
            continue
        body.append(n)
    tree.body = body
    if tdes_names or alg_names:
        stores = {x.id for x in ast.walk(tree) if isinstance(x, ast.Name) and isinstance(x.ctx, (ast.Store, ast.Del))}
        stores |= {x.arg for x in ast.walk(tree) if isinstance(x, ast.arg)}
        if (tdes_names | alg_names) - {"_algorithms"} & stores:
            raise Binding(f"a name imported as TripleDES / its module is re-bound: {sorted((tdes_names | alg_names) & stores)}")
        class T(ast.NodeTransformer):
            def visit_Attribute(self, n):
                self.generic_visit(n)
                if isinstance(n.value, ast.Name) and n.value.id in alg_names and n.value.id != "_algorithms":
                    if n.attr != "TripleDES":
                        raise Binding(f"`{ast.unparse(n)}`: only TripleDES is read from that module")
                    n.value = ast.copy_location(ast.Name(id="_algorithms", ctx=ast.Load()), n.value)
                return n
            def visit_Name(self, n):
                if n.id in tdes_names and isinstance(n.ctx, ast.Load):
                    return ast.copy_location(ast.Attribute(value=ast.Name(id="_algorithms", ctx=ast.Load()), attr="TripleDES", ctx=ast.Load()), n)
                return n
        tree = T().visit(tree)
    tree = drop_new_methods(tree, module)
    tree = specialise_new_parameters(tree, module)
    tree = restore_pinned_annotations(tree, module)
    tree = local_annassign_to_assign(tree)
    # module-level names bound to harmless values that nothing (left) reads: dropped, repeatedly, so that an alias only
    # read by another dropped alias goes too
    bound_elsewhere = set()
    for n in ast.walk(tree):
        if isinstance(n, (ast.Global, ast.Nonlocal)):
            bound_elsewhere |= set(n.names)
    def candidate(n):
        if isinstance(n, ast.Assign) and len(n.targets) == 1 and isinstance(n.targets[0], ast.Name) and _harmless_value(n.value):
            t = n.targets[0].id
        elif isinstance(n, ast.AnnAssign) and isinstance(n.target, ast.Name) and n.simple and _harmless_value(n.value) and _pure_type_expr(n.annotation):
            t = n.target.id
        else:
            return None
        return None if (t.startswith("__") and t.endswith("__")) else t
    while True:
        names = [candidate(n) for n in tree.body]
        drop = set()
        for i, n in enumerate(tree.body):
            t = names[i]
            if t is None or names.count(t) != 1 or t in bound_elsewhere:
                continue
            if any(t in _loads(m) for j, m in enumerate(tree.body) if j != i):
                continue
            stores = sum(1 for x in ast.walk(tree) if isinstance(x, ast.Name) and x.id == t and isinstance(x.ctx, (ast.Store, ast.Del)))
            if stores != 1:
                continue
            drop.add(i)
        if not drop:
            break
        tree.body = [n for i, n in enumerate(tree.body) if i not in drop]
    return ast.fix_missing_locations(tree)


def helper_values_to_lambdas(tree):
    """`x = _h` where `_h` is a module-level private function whose body is a single `return <expr>` (after an optional
    docstring) with plain positional parameters and no defaults: the *value* `_h` is `lambda params: <expr>`.  The
    definition is dropped when no use of the name remains."""
    helpers = {}
    for n in tree.body:
        if isinstance(n, ast.FunctionDef) and n.name.startswith("_") and not n.name.startswith("__") and not n.decorator_list:
            a = n.args
            body = [st for st in n.body if not (isinstance(st, ast.Expr) and isinstance(st.value, ast.Constant))]
            if a.vararg or a.kwarg or a.kwonlyargs or a.posonlyargs or a.defaults or len(body) != 1 or not isinstance(body[0], ast.Return) \
                    or body[0].value is None:
                continue
            helpers[n.name] = (a, body[0].value)
    if not helpers:
        return tree
    counts = {}
    for n in ast.walk(tree):
        if isinstance(n, (ast.FunctionDef, ast.ClassDef)):
            counts[n.name] = counts.get(n.name, 0) + 1
        elif isinstance(n, ast.Name) and isinstance(n.ctx, (ast.Store, ast.Del)):
            counts[n.id] = counts.get(n.id, 0) + 1
    helpers = {k: v for k, v in helpers.items() if counts.get(k, 0) == 1}
    class T(ast.NodeTransformer):
        def visit_Assign(self, n):
            if isinstance(n.value, ast.Name) and n.value.id in helpers and isinstance(n.value.ctx, ast.Load):
                a, e = helpers[n.value.id]
                args = ast.arguments(posonlyargs=[], args=[ast.arg(arg=p.arg) for p in a.args], kwonlyargs=[], kw_defaults=[], defaults=[])
                n.value = ast.copy_location(ast.Lambda(args=args, body=copy.deepcopy(e)), n.value)
            return n
    for fn in [n for n in tree.body if isinstance(n, ast.FunctionDef) and n.name not in helpers]:
        local = _bound_names(fn)
        if not (set(helpers) & local):
            T().visit(fn)
    used = {n.id for n in ast.walk(tree) if isinstance(n, ast.Name) and isinstance(n.ctx, ast.Load)}
    tree.body = [n for n in tree.body if not (isinstance(n, ast.FunctionDef) and n.name in helpers and n.name not in used)]
    return tree


def reuse_dead_parameter(tree):
    """`y = <expr of parameter x>` (or an `if` whose every branch assigns `y`), where `y` is bound nowhere else in the
    function and not read before, and `x` is neither read nor written anywhere after that statement: `y` is renamed
    `x` (the parameter's slot is free from there on).  Brings "do not reassign parameters" clean-ups back to the
    `if x is None: x = C` / `if isinstance(x, bytes): x = x.decode("ascii")` idioms."""
    def names_in(node, ctxs):
        return {n.id for n in ast.walk(node) if isinstance(n, ast.Name) and isinstance(n.ctx, ctxs)}

    def binds_only(st, y):
        """st is `y = e`, or an if / elif / else tree in which every branch is exactly one such assignment"""
        if isinstance(st, ast.Assign):
            return len(st.targets) == 1 and isinstance(st.targets[0], ast.Name) and st.targets[0].id == y
        if isinstance(st, ast.If):
            return len(st.body) == 1 and binds_only(st.body[0], y) and len(st.orelse) == 1 and binds_only(st.orelse[0], y)
        return False

    for fn in [n for n in ast.walk(tree) if isinstance(n, ast.FunctionDef)]:
        params = [p.arg for p in fn.args.posonlyargs + fn.args.args + fn.args.kwonlyargs]
        if any(isinstance(n, (ast.FunctionDef, ast.Lambda, ast.ClassDef, ast.Global, ast.Nonlocal)) for st in fn.body for n in ast.walk(st)):
            continue                                    # closures may read a parameter later than the text shows
        changed = True
        while changed:
            changed = False
            for i, st in enumerate(fn.body):
                stores = names_in(st, (ast.Store,))
                if len(stores) != 1:
                    continue
                y = next(iter(stores))
                if y in params or not binds_only(st, y):
                    continue
                others = [s2 for j, s2 in enumerate(fn.body) if j != i]
                if any(y in names_in(s2, (ast.Store, ast.Del)) for s2 in others) or any(y in names_in(s2, (ast.Load,)) for s2 in fn.body[:i]):
                    continue
                cands = [x for x in params if x in names_in(st, (ast.Load,))
                         and not any(x in names_in(s2, (ast.Load, ast.Store, ast.Del)) for s2 in fn.body[i + 1:])]
                if len(cands) != 1:
                    continue
                x = cands[0]
                for s2 in fn.body[i:]:
                    _Rename({y: x}).visit(s2)
                changed = True
                break
    return tree


def drop_self_assignments(tree):
    """`x = x` for a plain name is no statement; an `if` left with an empty branch is turned round"""
    def is_self(s):
        return isinstance(s, ast.Assign) and len(s.targets) == 1 and isinstance(s.targets[0], ast.Name) \
            and isinstance(s.value, ast.Name) and s.value.id == s.targets[0].id

    def f(stmts):
        out = []
        for s in stmts:
            if isinstance(s, ast.If):
                if s.orelse and all(is_self(x) for x in s.orelse):
                    s.orelse = []
                if s.orelse and all(is_self(x) for x in s.body):
                    s.test = _negate_test(s.test); s.body, s.orelse = s.orelse, []
            out.append(s)
        return out
    tree.body = _map_body(tree.body, f)
    return tree


_MAPPING_NAMES = {"_t.Mapping", "_typing.Mapping", "typing.Mapping", "_abc.Mapping", "_collections_abc.Mapping", "collections.abc.Mapping"}
_NOT_MAPPINGS = {"bytes", "bytearray", "memoryview", "str", "int", "float", "complex", "list", "tuple", "set", "frozenset"}
_NOT_BYTES = {"str", "int", "float", "complex", "list", "tuple", "dict", "set", "frozenset", "memoryview"} | _MAPPING_NAMES


def fold_isinstance_of_parameters(fn, kinds):
    """Top-level `if [not] isinstance(<parameter>, T):` statements of a function, as long as the parameter has not been
    re-bound, decided by the parameter's documented kind: `"bytes"` stands for {bytes, bytearray}, `"mapping"` for any
    `Mapping`.  Decided only when *every* class of T lies outside the kind (False) or T names the whole kind (True);
    `isinstance(tlv, dict)`, `isinstance(data, bytearray)` stay undecided and are read as they are."""
    def decide(test):
        neg = False
        if isinstance(test, ast.UnaryOp) and isinstance(test.op, ast.Not):
            neg = True; test = test.operand
        if not (isinstance(test, ast.Call) and isinstance(test.func, ast.Name) and test.func.id == "isinstance" and len(test.args) == 2
                and not test.keywords and isinstance(test.args[0], ast.Name) and test.args[0].id in live):
            return None
        kind = live[test.args[0].id]
        names = {ast.unparse(x) for x in (test.args[1].elts if isinstance(test.args[1], ast.Tuple) else [test.args[1]])}
        if kind == "bytes":
            if names <= _NOT_BYTES:
                return neg
            if {"bytes", "bytearray"} <= names:
                return not neg
        if kind == "mapping":
            if names <= _NOT_MAPPINGS:
                return neg
            if names & _MAPPING_NAMES:
                return not neg
        return None
    live = dict(kinds)
    out = []
    for st in fn.body:
        if isinstance(st, ast.If) and live:
            v = decide(st.test)
            if v is not None:
                chosen = st.body if v else st.orelse
                for c in chosen:
                    for n in ast.walk(c):
                        if isinstance(n, ast.Name) and isinstance(n.ctx, (ast.Store, ast.Del)):
                            live.pop(n.id, None)
                out += chosen
                continue
        for n in ast.walk(st):
            if isinstance(n, ast.Name) and isinstance(n.ctx, (ast.Store, ast.Del)):
                live.pop(n.id, None)
        out.append(st)
    fn.body = out or [ast.Pass()]
    return fn


def fold_all_constant_ifs(tree):
    """tests that became literal (a default substituted for a new parameter, then a helper inlined) are folded"""
    for fn in [n for n in ast.walk(tree) if isinstance(n, ast.FunctionDef)]:
        if any(isinstance(x, ast.If) and _const_truth(x.test) is not None for x in ast.walk(fn)) or \
                any(isinstance(x, ast.IfExp) and _const_truth(x.test) is not None for x in ast.walk(fn)):
            fold_constant_ifs(fn)
    return tree


def normalise_light(tree, signatures=None, aliases=None):
    """the rewrites that do not move code between functions (used for tlv.py and cvn.py)"""
    tree = inline_constants(tree)
    tree = fold_zero_bytes(tree)
    tree = drop_zero_lower_bounds(tree)
    tree = split_chained_compares(tree)
    tree = reuse_dead_parameter(tree)
    tree = ifexp_to_if(tree)
    tree = drop_self_assignments(tree)
    tree = small_equivalences(tree)
    tree = swap_is_not_none(tree)
    tree = helper_values_to_lambdas(tree)
    if signatures:
        tree = keywords_to_positional(tree, signatures, aliases or {})
    return ast.fix_missing_locations(tree)


def normalise(tree, public=(), signatures=None, aliases=None):
    tree = inline_constants(tree)
    tree = frozensets_in_membership(tree)
    tree = fold_zero_bytes(tree)
    tree = drop_zero_lower_bounds(tree)
    tree = split_chained_compares(tree)
    tree = reuse_dead_parameter(tree)
    tree = ifexp_to_if(tree)
    tree = drop_self_assignments(tree)
    tree = unroll_constant_loops(tree)
    tree = small_equivalences(tree)
    tree = index_loops_to_enumerate(tree)
    tree = unchain_cipher_construction(tree)
    tree = push_call_into_branches(tree)
    tree = split_none_elif(tree)
    tree = early_returns_to_ifexp(tree, set(public))
    tree = inline_expression_helpers(tree, set(public))
    tree = ifexp_to_if(tree)
    tree = drop_self_assignments(tree)
    tree = inline_helpers(tree, set(public))
    tree = fold_all_constant_ifs(tree)
    if signatures:
        tree = keywords_to_positional(tree, signatures, aliases or {})
    return ast.fix_missing_locations(tree)


# ---------------------------------------------------------------------------------------------------------------------
# name resolution: the translators read `len`, `bytes`, `_tools.xor`, `_sys.byteorder`, `pad_iso9797_1` … by their
# spelling.  That is only sound when every such name means what it says, which the rules below enforce.

class Binding(Exception):
    pass


ALLOWED_IMPORTS = {
    "_typing": "typing", "_t": "typing", "_Enum": "enum.Enum", "_binascii": "binascii", "_hashlib": "hashlib", "_sys": "sys",
    "_default_backend": "cryptography.hazmat.backends.default_backend",
    "_Cipher": "cryptography.hazmat.primitives.ciphers.Cipher",
    "_algorithms": "cryptography.hazmat.primitives.ciphers.algorithms",
    "_modes": "cryptography.hazmat.primitives.ciphers.modes",
    "_mac_iso9797_3": "pyemv.mac.mac_iso9797_3", "_encrypt_tdes_cbc": "pyemv.tools.encrypt_tdes_cbc", "_xor": "pyemv.tools.xor",
    "_ac": "pyemv.ac", "_kd": "pyemv.kd", "_sm": "pyemv.sm", "_mac": "pyemv.mac", "_tools": "pyemv.tools",
    "_logging": "logging", "logging": "logging", "_array": "array", "array": "array", "typing": "typing",
}


PACKAGE_MODULES = ["ac", "cvn", "cvv", "kd", "mac", "sm", "tlv", "tools"]


def check_package(repo):
    """the package is the eight modules the translators read and an `__init__` that only imports them: no further
    module (a place for patches applied at import time), no statement in `__init__` besides the docstring, constant
    dunder assignments and `from pyemv import <modules>`"""
    import os
    d = os.path.join(repo, "pyemv")
    extra = sorted(f for f in os.listdir(d) if f.endswith((".py", ".pth", ".so", ".pyc")) and f not in [m + ".py" for m in PACKAGE_MODULES] + ["__init__.py"])
    extra += sorted(f for f in os.listdir(d) if os.path.isdir(os.path.join(d, f)) and f != "__pycache__")
    if extra:
        raise Binding(f"the package holds {extra}, which no translator reads")
    tree = ast.parse(open(os.path.join(d, "__init__.py")).read())
    for n in tree.body:
        if isinstance(n, ast.Expr) and isinstance(n.value, ast.Constant) and isinstance(n.value.value, str):
            continue
        if isinstance(n, ast.Assign) and len(n.targets) == 1 and isinstance(n.targets[0], ast.Name) \
                and n.targets[0].id.startswith("__") and n.targets[0].id.endswith("__") and _is_const_expr(n.value):
            continue
        if isinstance(n, ast.Assign) and len(n.targets) == 1 and isinstance(n.targets[0], ast.Name) and n.targets[0].id == "__all__" \
                and isinstance(n.value, (ast.List, ast.Tuple)) and all(isinstance(x, ast.Constant) for x in n.value.elts):
            continue
        if isinstance(n, ast.ImportFrom) and n.module == "pyemv" and not n.level \
                and all(a.name in PACKAGE_MODULES and a.asname in (None, a.name) for a in n.names):
            continue
        raise Binding(f"pyemv/__init__.py: statement `{ast.unparse(n)[:60]}`")


def check_bindings(tree):
    """raises Binding when a name the translators interpret by its spelling could mean something else: an import
    that binds a known alias to another target, an import anywhere but at module level, or any definition,
    assignment, parameter, loop / with / except target that re-binds a builtin, an imported alias or a module-level
    function or class"""
    import builtins
    imported = {}
    for n in tree.body:
        if isinstance(n, ast.Import):
            for a in n.names:
                imported[(a.asname or a.name).split(".")[0]] = a.name
        elif isinstance(n, ast.ImportFrom):
            if n.level:
                raise Binding(f"relative import `{ast.unparse(n)}`")
            for a in n.names:
                imported[a.asname or a.name] = f"{n.module}.{a.name}"
    import sys as _s
    for name, target in imported.items():
        top = target.split(".")[0]
        if top not in _s.stdlib_module_names and top not in ("cryptography", "pyemv"):
            raise Binding(f"import of `{target}`: not a standard-library module, `cryptography` or the package itself")
        if (target == "pyemv" or target.startswith("pyemv.")) and target not in ALLOWED_IMPORTS.values() \
                and target not in {"pyemv." + m for m in PACKAGE_MODULES}:
            raise Binding(f"import of `{target}`, which is not one of the package's modules / functions the translators know")
        if name in ALLOWED_IMPORTS and ALLOWED_IMPORTS[name] != target:
            raise Binding(f"import binds `{name}` to {target}, not to {ALLOWED_IMPORTS[name]}")
        if hasattr(builtins, name):
            raise Binding(f"import re-binds the builtin `{name}`")
    def stub(n):
        return (isinstance(n, ast.FunctionDef) and [ast.unparse(d) for d in n.decorator_list] in (["_t.overload"], ["_typing.overload"])
                and len(n.body) == 1 and isinstance(n.body[0], ast.Expr) and isinstance(n.body[0].value, ast.Constant)
                and n.body[0].value.value is Ellipsis)
    top_defs = [n.name for n in tree.body if isinstance(n, (ast.FunctionDef, ast.ClassDef, ast.AsyncFunctionDef)) and not stub(n)]
    last_def = {}
    for i, n in enumerate(tree.body):
        if isinstance(n, (ast.FunctionDef, ast.ClassDef, ast.AsyncFunctionDef)):
            if stub(n) and n.name in last_def and not stub(tree.body[last_def[n.name]]):
                raise Binding(f"an overload stub of `{n.name}` follows its definition")
            last_def[n.name] = i
    for name in top_defs:
        if top_defs.count(name) > 1:
            raise Binding(f"`{name}` is defined twice at module level")
        if name in imported or hasattr(builtins, name):
            raise Binding(f"module-level definition re-binds `{name}`")
    # what runs while the module is imported besides the statements the translators read: default values and decorators of
    # every definition (also of functions and methods whose bodies are never read) — they must be inert
    def inert_default(d):
        return d is None or _harmless_value(d) or (isinstance(d, (ast.Name, ast.Attribute)) and _pure_type_expr(d))
    for n in ast.walk(tree):
        if isinstance(n, (ast.FunctionDef, ast.AsyncFunctionDef, ast.Lambda)):
            for d in list(n.args.defaults) + list(n.args.kw_defaults):
                if not inert_default(d):
                    raise Binding(f"default value `{ast.unparse(d)[:50]}` of `{getattr(n, 'name', '<lambda>')}` is evaluated when the module is imported")
        if isinstance(n, (ast.FunctionDef, ast.AsyncFunctionDef)) and id(n) in set(map(id, tree.body)) and n.name.startswith("__") and n.name.endswith("__"):
            raise Binding(f"module-level special function `{n.name}`")
    protected = set(imported) | set(top_defs) | {b for b in dir(builtins) if not b.startswith("__")}
    top_level = set(map(id, tree.body))
    for n in ast.walk(tree):
        if isinstance(n, (ast.Import, ast.ImportFrom)) and id(n) not in top_level:
            raise Binding(f"import inside a function or class: `{ast.unparse(n)}`")
        bound = []
        if isinstance(n, ast.Name) and isinstance(n.ctx, (ast.Store, ast.Del)):
            bound.append(n.id)
        elif isinstance(n, ast.arg):
            bound.append(n.arg)
        elif isinstance(n, (ast.FunctionDef, ast.ClassDef, ast.AsyncFunctionDef)) and id(n) not in top_level:
            bound.append(n.name)
        elif isinstance(n, (ast.Global, ast.Nonlocal)):
            bound += n.names
        elif isinstance(n, ast.ExceptHandler) and n.name:
            bound.append(n.name)
        elif isinstance(n, ast.Attribute) and isinstance(n.ctx, (ast.Store, ast.Del)) and isinstance(n.value, ast.Name) \
                and n.value.id in protected:
            raise Binding(f"assignment to an attribute of `{n.value.id}`: `{ast.unparse(n)}`")
        for b in bound:
            if b in protected:
                raise Binding(f"`{b}` is re-bound (line {getattr(n, 'lineno', '?')}); the name is a builtin, an imported alias or a module-level definition")
