"""Property checks C08, C11, C12, C13."""
from core import Case, hx, SB, opt, ac, cvn, cvv, kd, mac, sm, tools, canon
from gens import *  # noqa: F401,F403
import gens
from props_a import enum_digest, ref_alg3, tdes_dec, unpad2

CLS = ["VisaCVN10", "VisaCVN18", "VisaCVN22", "InteracCVN133", "MasterCardCVN16", "MasterCardCVN17",
       "MasterCardCVN20", "MasterCardCVN21"]
HAS_COUNTERS = ("MasterCardCVN17", "MasterCardCVN21")


class CardPool:
    """live objects keyed by constructor arguments, so that methods are called repeatedly on one object"""

    def __init__(self, g):
        self.g = g; self.objs = {}; self.specs = []

    def spec(self, cls=None):
        g = self.g; R = g.R
        if self.specs and R.random() < .6:
            s = R.choice(self.specs)
            if cls is None or s[0] == cls:
                return s
        c = cls or R.choice(CLS)
        keys = (g.key(), g.key(), g.key())
        if R.random() < .3:                                 # issuers share keys between the three purposes: every equality pattern
            a, b = keys[0], keys[1]
            keys = R.choice([(a, a, a), (a, a, b), (a, b, a), (a, b, b), (b, a, a)])
        pan = g.form(g.digits(R.choice([12, 13, 15, 16, 16, 17, 18, 18, 19])))
        psn = g.form(R.choice([None, "", "00", "07", "45", g.digits(2)]))
        s = (c, keys, pan, psn)
        self.specs.append(s)
        if len(self.specs) > 12:
            self.specs.pop(0)
        return s

    def obj(self, s):
        key = (s[0], s[1], s[2] if isinstance(s[2], str) else b"b" + s[2], "N" if s[3] is None else s[3] if isinstance(s[3], str) else b"b" + s[3])
        if key not in self.objs:
            self.objs[key] = getattr(cvn, s[0])(*s[1], s[2], s[3])
        return self.objs[key]

    def prefix(self, s):
        return f"cvn {s[0]} {hx(s[1][0])} {hx(s[1][1])} {hx(s[1][2])} {SB(s[2])} {SB(s[3])}"


def cvn_case(pool, s, method, args, gen):
    """args are method specific; returns a Case whose thunk uses a pooled live object"""
    c = s[0]; pre = pool.prefix(s)

    def get():
        return pool.obj(s)
    if method == "keys":
        return Case(pre + " keys", lambda: (lambda o: o.icc_mk_ac + o.icc_mk_smi + o.icc_mk_smc)(get()), gen)
    if method == "ac":
        f, tail, cnt = args
        line = pre + " ac " + " ".join(hx(x) for x in f) + f" {hx(tail)} {hx(cnt)}"
        if c in HAS_COUNTERS:
            return Case(line, lambda: get().generate_ac(*f, tail, cnt), gen)
        return Case(line, lambda: get().generate_ac(*f, tail), gen)
    if method == "arpc":
        arqc, atc, un, rc, csu, pad = args
        if c in ("VisaCVN10", "MasterCardCVN16", "MasterCardCVN17"):
            call = lambda: get().generate_arpc(arqc, rc); x, p = rc, None
        elif c in ("VisaCVN18", "VisaCVN22"):
            call = lambda: get().generate_arpc(arqc, atc, csu, pad); x, p = csu, pad
        elif c == "InteracCVN133":
            call = lambda: get().generate_arpc(arqc, un, atc, rc); x, p = rc, None
        else:
            call = lambda: get().generate_arpc(arqc, atc, rc); x, p = rc, None
        return Case(pre + f" arpc {hx(arqc)} {hx(atc)} {hx(un)} {hx(x)} {opt(p)}", call, gen)
    if method == "mac":
        h, arqc, atc, d = args
        if c == "InteracCVN133":
            call = lambda: get().generate_command_mac(h, arqc, d)
        else:
            call = lambda: get().generate_command_mac(h, arqc, atc, d)
        return Case(pre + f" mac {hx(h)} {hx(arqc)} {hx(atc)} {hx(d)}", call, gen)
    if method == "enc":
        d, arqc, atc = args
        if c in ("VisaCVN10", "VisaCVN18"):
            call = lambda: get().encrypt_command_data(d, atc)
        else:
            call = lambda: get().encrypt_command_data(d, arqc)
        return Case(pre + f" enc {hx(d)} {hx(arqc)} {hx(atc)}", call, gen)
    if method == "pin":
        pin, arqc, atc, cur = args
        if c.startswith("Visa"):
            call = lambda: get().generate_pin_change_command(pin, arqc, atc, cur)
        elif c == "InteracCVN133":
            call = lambda: get().generate_pin_change_command(pin, arqc); cur = None
        else:
            call = lambda: get().generate_pin_change_command(pin, arqc, atc); cur = None
        return Case(pre + f" pin {SB(pin)} {hx(arqc)} {hx(atc)} {SB(cur)}", call, gen)
    raise ValueError(method)


def cvn_scenario(pool, g, cls=None, bad=0.05):
    R = g.R
    s = pool.spec(cls)
    c = s[0]
    atc = R.choice([R.randbytes(2), b"\x00\x1c", b"\x00\x01"]) if R.random() > bad else R.randbytes(R.choice([1, 3]))
    un = R.randbytes(4); arqc = R.randbytes(8) if R.random() > bad else R.randbytes(7)
    m = R.randrange(7)
    if m == 0:
        return cvn_case(pool, s, "keys", None, "cvn keys")
    if R.random() < .4 and len(atc) == 2 and len(arqc) == 8:
        # field values as real traffic carries them (BCD amounts, IAD layouts zero-filled to the field, status updates)
        T = gens.traffic
        if m in (1, 6):
            f = T.ac_fields(R); f[7] = un; f[9] = atc if R.random() < .5 else f[9]
            return cvn_case(pool, s, "ac", (f, T.iad(R), T.counters(R)), "cvn generate_ac, realistic fields")
        if m == 2:
            return cvn_case(pool, s, "arpc", (arqc, atc, un, T.arpc_rc(R), T.csu(R), T.prop_auth(R)), "cvn generate_arpc, realistic fields")
        if m == 3:
            return cvn_case(pool, s, "mac", (T.script_header(R), arqc, atc, T.command_data(R)), "cvn command mac, realistic fields")
        if m == 4:
            return cvn_case(pool, s, "enc", (T.command_data(R), arqc, atc), "cvn encrypt, realistic fields")
    if m in (1, 6):
        f = [R.randbytes(6), R.randbytes(6), R.randbytes(2), R.randbytes(5), R.randbytes(2), R.randbytes(3), R.randbytes(1), un, R.randbytes(2), atc]
        tail = R.randbytes(R.choice([4, 6, 7, 8, 16, 32])); cnt = R.randbytes(R.choice([8, 16]))
        return cvn_case(pool, s, "ac", (f, tail, cnt), "cvn generate_ac")
    if m == 2:
        return cvn_case(pool, s, "arpc", (arqc, atc, un, R.randbytes(2), R.randbytes(4), R.choice([None] + [R.randbytes(i) for i in range(10)])), "cvn generate_arpc")
    if m == 3:
        return cvn_case(pool, s, "mac", (R.randbytes(5), arqc, atc, R.randbytes(R.choice([0, 0, 3, 8, 16, R.randrange(40)]))), "cvn command mac")
    if m == 4:
        return cvn_case(pool, s, "enc", (R.randbytes(R.choice([0, 7, 8, 9, 15, 16, 24, 32, R.randrange(64)])), arqc, atc), "cvn encrypt")
    pin = g.form(g.distinct_digits(R.randrange(4, 13)) if R.random() < .92 else g.digits(R.choice([3, 13])))
    cur = g.form(R.choice([None, None, g.distinct_digits(R.randrange(4, 13)), ""])) if R.random() < .97 else g.form(g.digits(3))
    return cvn_case(pool, s, "pin", (pin, arqc, atc, cur), "cvn pin change")


def atc_buffer_cases(R, pool):
    """one object per class, the ATC handed over as one bytearray that the caller updates in place between calls
    (a cache that remembers the caller's ATC *object* compares the buffer with itself)"""
    cases = []
    for c in CLS:
        s = pool.spec(c)
        buf = bytearray(2)
        for i in list(range(1, 5)) + [0x100, 0x101]:
            atc = i.to_bytes(2, "big"); un = R.randbytes(4)
            f = [R.randbytes(6), R.randbytes(6), R.randbytes(2), R.randbytes(5), R.randbytes(2), R.randbytes(3), R.randbytes(1), un, R.randbytes(2), atc]
            tail = R.randbytes(8); cnt = R.randbytes(8)
            base = cvn_case(pool, s, "ac", (f, tail, cnt), "cvn ATC in a reused bytearray")
            def call(atc=atc, f=f, tail=tail, cnt=cnt, s=s, c=c):
                buf[:] = atc
                o = pool.obj(s)
                args = f[:9] + [buf, tail] + ([cnt] if c in HAS_COUNTERS else [])
                return o.generate_ac(*args)
            base.call = call
            cases.append(base)
            arqc = R.randbytes(8)
            b2 = cvn_case(pool, s, "mac", (R.randbytes(5), arqc, atc, b""), "cvn ATC in a reused bytearray")
            if c != "InteracCVN133":
                hdr = bytes.fromhex(b2.line.split()[8]) if b2.line.split()[8] != "." else b""
                def call2(atc=atc, arqc=arqc, hdr=hdr, s=s):
                    buf[:] = atc
                    return pool.obj(s).generate_command_mac(hdr, arqc, buf, b"")
                b2.call = call2
            cases.append(b2)
            arq2 = R.randbytes(8)
            b3 = cvn_case(pool, s, "arpc", (arq2, atc, un, R.randbytes(2), R.randbytes(4), None), "cvn ATC in a reused bytearray")
            if c in ("VisaCVN18", "VisaCVN22"):
                csu = bytes.fromhex(b3.line.split()[-2])
                def call3(atc=atc, arq2=arq2, csu=csu, s=s):
                    buf[:] = atc
                    return pool.obj(s).generate_arpc(arq2, buf, csu, None)
                b3.call = call3
            cases.append(b3)
    return cases


def C08(ctx):
    g = G(ctx.sub("g")); R = g.R
    pool = CardPool(g)
    cases = []
    per = ctx.n(500, 8000)
    for c in CLS:
        for _ in range(per):
            cases.append(cvn_scenario(pool, g, c))
    # one object, same ATC, different unpredictable numbers and vice versa (session key caches)
    for c in CLS:
        s = pool.spec(c)
        atc = R.randbytes(2)
        for _ in range(ctx.n(12, 60)):
            un = R.randbytes(4)
            f = [R.randbytes(6), R.randbytes(6), R.randbytes(2), R.randbytes(5), R.randbytes(2), R.randbytes(3), R.randbytes(1), un, R.randbytes(2), atc]
            cases.append(cvn_case(pool, s, "ac", (f, R.randbytes(8), R.randbytes(8)), "cvn same object/ATC, varying UN"))
            cases.append(cvn_case(pool, s, "arpc", (R.randbytes(8), atc, un, R.randbytes(2), R.randbytes(4), None), "cvn same object/ATC, varying UN"))
            arqc = R.randbytes(8)
            cases.append(cvn_case(pool, s, "mac", (R.randbytes(5), arqc, atc, b""), "cvn same object/ATC, varying ARQC"))
    # option B cards whose SHA-1 needs the decimalisation table (searched), through every method
    rare, _, _ = rare_pairs(ctx.sub("rare"), ctx.n(12, 80), letters_needed=True)
    for (rp, rs) in rare[: ctx.n(20, 120)]:
        for c in ("VisaCVN18", "VisaCVN22"):
            s = (c, (g.key(), g.key(), g.key()), g.form(rp), g.form(rs))
            cases.append(cvn_case(pool, s, "keys", None, "cvn option B rare branch"))
            cases.append(cvn_case(pool, s, "mac", (R.randbytes(5), R.randbytes(8), R.randbytes(2), b""), "cvn option B rare branch"))
    cases += atc_buffer_cases(R, pool)
    # payloads handed over as one bytearray that the caller keeps and sends again (second card, retry)
    for c in CLS:
        for ln in (5, 8, 13, R.randrange(1, 40)):
            s1, s2 = pool.spec(c), pool.spec(c)
            d = bytearray(R.randbytes(ln)); arqc = R.randbytes(8); atc = R.randbytes(2); h = bytearray(R.randbytes(5))
            c1 = cvn_case(pool, s1, "enc", (d, arqc, atc), "cvn payload bytearray sent again")
            c2 = cvn_case(pool, s2, "enc", (d, arqc, atc), "cvn payload bytearray sent again")
            m1 = cvn_case(pool, s1, "mac", (h, arqc, atc, d), "cvn payload bytearray sent again")
            m2 = cvn_case(pool, s2, "mac", (h, arqc, atc, d), "cvn payload bytearray sent again")
            cases += [c1, m1, c2, m2, cvn_case(pool, s1, "enc", (d, arqc, atc), "cvn payload bytearray sent again")]
    # one digit string cut into PAN | PSN at every position, under one issuer key (a cache keyed on the concatenation)
    for c in ("VisaCVN18", "VisaCVN22", "VisaCVN10", "MasterCardCVN16"):
        for _ in range(ctx.n(3, 20)):
            keys = (g.key(), g.key(), g.key()); digits = g.digits(R.choice([18, 19, 20]))
            cuts = list(range(len(digits) - 4, len(digits) + 1)); R.shuffle(cuts)
            for cut in cuts + cuts[:2]:
                pan, psn = digits[:cut], digits[cut:]
                s = (c, keys, g.form(pan), g.form(psn))
                cases.append(cvn_case(pool, s, "keys", None, "cvn PAN|PSN cut at every position"))
    # the same six ATC||UN bytes cut at every position (a cache keyed on their concatenation)
    for c in ("InteracCVN133", "MasterCardCVN16", "MasterCardCVN17"):
        for _ in range(ctx.n(6, 40)):
            s = pool.spec(c); six = R.randbytes(6)
            fixed = [R.randbytes(6), R.randbytes(6), R.randbytes(2), R.randbytes(5), R.randbytes(2), R.randbytes(3), R.randbytes(1)]
            t82 = R.randbytes(2); tail = R.randbytes(8); cnt = R.randbytes(8)
            cuts = list(range(0, 7)); R.shuffle(cuts)
            for cut in cuts + [2]:
                atc, un = six[:cut], six[cut:]
                f = fixed + [un, t82, atc]
                cases.append(cvn_case(pool, s, "ac", (f, tail, cnt), "cvn ATC||UN cut at every position"))
    ctx.run_cases(cases)
    ctx.extra["live_objects"] = len(pool.objs)
    # card side: Lc, MAC verification and PIN recovery with independently derived keys
    for _ in range(ctx.n(400, 4000)):
        c = R.choice(CLS)
        keys = (g.key(), g.key(), g.key())
        pan = g.digits(R.choice([12, 14, 16, 17, 18, 19])); psn = R.choice([None, "01", "00", g.digits(2)])
        pin = g.distinct_digits(R.randrange(4, 13))
        cur = g.distinct_digits(R.randrange(4, 13)) if c.startswith("Visa") and R.random() < .5 else None
        arqc = R.randbytes(8); atc = R.randbytes(2)
        with ctx.guard("card verifies MAC and recovers the PIN", f"{c} pan={pan} psn={psn} pin={pin} cur={cur}"):
          o = getattr(cvn, c)(*keys, g.form(pan), g.form(psn))
          if c.startswith("Visa"):
            cmd = o.generate_pin_change_command(g.form(pin), arqc, atc, g.form(cur))
          elif c == "InteracCVN133":
            cmd = o.generate_pin_change_command(g.form(pin), arqc)
          else:
            cmd = o.generate_pin_change_command(g.form(pin), arqc, atc)
          got = card_process(c, keys, pan, psn or "00", arqc, atc, cmd, cur)
          ctx.check("card verifies MAC and recovers the PIN", got == pin,
                  f"{c} pan={pan} psn={psn} pin={pin} cur={cur} arqc={hx(arqc)} atc={hx(atc)} keys={[hx(k) for k in keys]} cmd={hx(cmd)} card={got}")


def ref_mk(opt_b, iss, pan, psn):
    """independent option A/B master key (hashlib + cryptography only)"""
    import hashlib
    from cryptography.hazmat.primitives.ciphers import Cipher, algorithms, modes
    if opt_b and len(pan) > 16:
        t = pan + psn
        t = ("0" + t) if len(t) % 2 else t
        h = hashlib.sha1(bytes.fromhex(t)).hexdigest()
        dec = [ch for ch in h if ch in "0123456789"][:16]
        if len(dec) < 16:
            dec += ["012345"["abcdef".index(ch)] for ch in h if ch in "abcdef"][:16 - len(dec)]
        y = bytes.fromhex("".join(dec))
    else:
        y = bytes.fromhex((pan + psn)[-16:].rjust(16, "0"))
    e = Cipher(algorithms.TripleDES(iss), modes.ECB()).encryptor()
    k = bytearray(e.update(y + bytes(b ^ 0xFF for b in y)))
    for i, b in enumerate(k):
        if bin(b).count("1") % 2 == 0:
            k[i] ^= 1
    return bytes(k)


def ref_common_sk(mk, r):
    from cryptography.hazmat.primitives.ciphers import Cipher, algorithms, modes
    e = Cipher(algorithms.TripleDES(mk), modes.ECB()).encryptor()
    k = bytearray(e.update(r[:2] + b"\xf0" + r[3:] + r[:2] + b"\x0f" + r[3:]))
    for i, b in enumerate(k):
        if bin(b).count("1") % 2 == 0:
            k[i] ^= 1
    return bytes(k)


def ref_visa_sk(mk, atc):
    k = bytearray(mk)
    k[6] ^= atc[0]; k[7] ^= atc[1]; k[14] ^= atc[0] ^ 0xFF; k[15] ^= atc[1] ^ 0xFF
    for i, b in enumerate(k):
        if bin(b).count("1") % 2 == 0:
            k[i] ^= 1
    return bytes(k)


def card_process(c, iss, pan, psn, arqc, atc, cmd, cur):
    """what a card holding the same issuer keys does with a PIN CHANGE command; returns the PIN or a reason"""
    optb = c in ("VisaCVN18", "VisaCVN22")
    mk_ac, mk_smi, mk_smc = (ref_mk(optb, k, pan, psn) for k in iss)
    if len(cmd) < 13:
        return "short"
    hdr, body = cmd[:5], cmd[5:]
    if hdr[4] != len(body):
        return "Lc"
    ct, m = body[:-8], body[-8:]
    visa_sm = c in ("VisaCVN10", "VisaCVN18")
    sk_i = ref_visa_sk(mk_smi, atc) if visa_sm else ref_common_sk(mk_smi, arqc)
    sk_c = ref_visa_sk(mk_smc, atc) if visa_sm else ref_common_sk(mk_smc, arqc)
    macin = hdr + ct if c == "InteracCVN133" else hdr + atc + arqc + ct
    if ref_alg3(sk_i, macin + b"\x80") != m:
        return "MAC"
    if c.startswith("Visa"):
        f = unpad2(tdes_dec(sk_c, ct, "ecb"))
        if f is None or f[0] != len(f) - 1:
            return "frame"
        blk = f[1:]
    else:
        blk = tdes_dec(sk_c, ct, "cbc")
    if len(blk) != 8:
        return "block"
    vis = c in ("VisaCVN10", "VisaCVN18") or (c == "VisaCVN22" and cur is not None)
    if vis:
        blk = bytes(a ^ b for a, b in zip(blk, bytes(4) + mk_ac[4:8]))
        if cur is not None:
            blk = bytes(a ^ b for a, b in zip(blk, bytes.fromhex(cur + "0" * (16 - len(cur)))))
        if blk[0] >> 4 != 0:
            return "control"
    else:
        if blk[0] >> 4 != 2:
            return "control"
    n = blk[0] & 0xF
    digs = blk[1:].hex().upper()
    if not 4 <= n <= 12 or any(ch != "F" for ch in digs[n:]) or not digs[:n].isdigit():
        return "pinblock " + blk.hex()
    return digs[:n]


def C11(ctx):
    g = G(ctx.sub("g")); R = g.R
    cases = []
    low = 0
    tracks = [bytes.fromhex("5123456789012345D35121010000000000000F"), b"B5123456789012345^LAST/FIRST^3512101000000000", b""]
    for n in range(0, 108):
        for _ in range(ctx.n(3, 20)):
            t = R.randbytes(n)
            if n and R.random() < .25:
                t = t[:-1] + bytes([R.choice([0x09, 0x0A, 0x0B, 0x0C, 0x0D, 0x20, 0x0F, 0x80, 0x00])])
            if n and R.random() < .1:
                t = bytes([R.choice([0x09, 0x0A, 0x0D, 0x20])]) + t[1:]
            cases.append(op_cvc3(g.key(), t, R.randbytes(2), R.randbytes(4), gen="grid:track length 0..107"))
    ctx.exhaustive_dims.append("track template length 0..107")
    # the same template under several keys, and the same key over several templates
    for _ in range(ctx.n(800, 8000)):
        t = R.choice(tracks + g.msgs)
        cases.append(op_cvc3(g.key(), t, R.randbytes(2), R.randbytes(4), gen="shared templates × pooled keys"))
    # templates as cards carry them: track 2 equivalent data in BCD (bare, or inside tag 57 / 9F6B), track 1 in ASCII
    for _ in range(ctx.n(1500, 12000)):
        cases.append(op_cvc3(g.key(), gens.traffic.track_template(R), gens.traffic.atc(R), R.randbytes(4), gen="realistic track templates"))
    # steer towards small final values: search UN for values below 10000 / 1000 / 100 / 10 / 0
    for _ in range(ctx.n(150, 1500)):
        k = g.key(); t = R.choice(tracks + [g.msg()]); atc = R.randbytes(2)
        target = R.choice([10000, 10000, 1000, 100, 10])
        for _ in range(4000):
            un = R.randbytes(4)
            try:
                v = int(cvv.generate_cvc3(k, t, atc, un))
            except Exception:  # noqa: BLE001
                break
            if v < target:
                low += 1
                cases.append(op_cvc3(k, t, atc, un, gen=f"searched: value < {target}"))
                break
    ctx.extra["cases_with_leading_zero"] = low
    # two different keys with the same 3-byte key check value, same template (a cache indexed by a check value)
    pair = g.kcv_colliding_pair()
    ctx.extra["kcv_colliding_pair_found"] = pair is not None
    if pair:
        for t in tracks + [g.msg()]:
            a, u = R.randbytes(2), R.randbytes(4)
            for k in (pair[0], pair[1], pair[0]):
                cases.append(op_cvc3(k, t, a, u, gen="keys with colliding check values"))
    for _ in range(ctx.n(300, 1500)):
        cases.append(op_cvc3(R.choice([g.key(), g.badkey()]), g.msg(), g.sized(2, .5), g.sized(4, .5), gen="malformed", proj="class"))
    ctx.run_cases(cases)
    for c in cases[:4000]:
        try:
            r = c.call()
        except Exception:  # noqa: BLE001
            continue
        ctx.check("five decimal digits", isinstance(r, str) and len(r) == 5 and r.isdigit() and r.isascii(), f"{c.line} -> {r!r}")


def unvis(blk, mk, cur):
    blk = bytes(a ^ b for a, b in zip(blk, bytes(4) + mk[4:8]))
    if cur is not None:
        blk = bytes(a ^ b for a, b in zip(blk, bytes.fromhex(cur + "0" * (16 - len(cur)))))
    return blk


def C12(ctx):
    g = G(ctx.sub("g")); R = g.R
    cases = []
    for n in range(4, 13):
        for _ in range(ctx.n(60, 600)):
            p = g.distinct_digits(n)
            cases.append(op_iso2_pin(g.form(p), gen="pin length 4..12"))
            for cl in [None] + list(range(4, 13)):
                if cl is None or R.random() < .35:
                    cur = None if cl is None else g.distinct_digits(cl)
                    cases.append(op_vis_pin(g.key(), g.form(p), g.form(cur), gen="vis: pin length × current pin length"))
    ctx.exhaustive_dims.append("PIN length 4..12 × current PIN absent / length 4..12")
    # the three operands of the VIS block (key mask 0^4||mk[4:8], PIN field 0L||digits||F.., current PIN digits||0..)
    # coincide or cancel: two operands equal, or all three xor to zero / to a single set bit — arguments derived from
    # one another, which independent random values never are
    def field(pin):
        return bytes([len(pin)]) + bytes.fromhex(pin + "F" * (14 - len(pin)))
    for _ in range(ctx.n(200, 2000)):
        n = R.randrange(4, 13); pin = g.digits(n); k = bytearray(g.fresh_key())
        c = R.randrange(5)
        if c == 0:                                          # key mask = current PIN block
            tail = g.digits(R.randrange(1, 5)); cur = "0" * 8 + tail
            k[4:8] = bytes.fromhex((tail + "0" * 8)[:8])
        elif c == 1:                                        # current PIN block = PIN field on the leading bytes, rest cancels
            extra = g.digits(R.randrange(0, 5))
            cur = ("0%X" % n + pin)[:8] + extra
            if not cur.isdigit():
                cur = ("0%d" % (n % 10) + pin)[:8] + extra
            cur = cur[:12]
            cb = bytes.fromhex(cur + "0" * (16 - len(cur)))
            k[4:8] = bytes(a ^ b for a, b in zip(field(pin)[4:8], cb[4:8]))
        elif c == 2:                                        # new PIN = current PIN
            cur = pin
        elif c == 3:                                        # key mask = tail of the PIN field
            cur = R.choice([None, g.digits(R.randrange(4, 13))]); k[4:8] = field(pin)[4:8]
        else:                                               # everything cancels except one bit
            cur = g.digits(R.randrange(4, 13))
            cb = bytes.fromhex(cur + "0" * (16 - len(cur)))
            k[4:8] = bytes(a ^ b for a, b in zip(field(pin)[4:8], cb[4:8])); k[4 + R.randrange(4)] ^= 1 << R.randrange(8)
        cases.append(op_vis_pin(bytes(k), g.form(pin), g.form(cur), gen="vis: operands coincide or cancel"))
    for _ in range(ctx.n(500, 3000)):
        p = g.digits(R.choice([0, 1, 3, 13, 14, 20])) if R.random() < .6 else g.digits(6)
        cur = R.choice([None, "", g.digits(3), g.digits(13), g.digits(5)])
        cases.append(op_iso2_pin(g.form(p), gen="malformed", proj="class"))
        cases.append(op_vis_pin(R.choice([g.key(), g.badkey()]), g.form(p), g.form(cur), gen="malformed", proj="class"))
    for p in ["12a4", "12 4", "١٢٣٤", "1234é"]:
        cases.append(op_iso2_pin(p, gen="malformed:non-digit", proj="class"))
    ctx.run_cases(cases)
    key = g.fresh_key()
    enum_digest(ctx, [("enum.pin4", ("iso2", key)), ("enum.pin4", ("vis", key))],
                lambda args, a: canon(lambda: sm.format_iso9564_2_pin_block(f"{a:04d}") if args[0] == "iso2" else sm.format_vis_pin_block(args[1], f"{a:04d}")),
                lambda args, lo, hi: f"enum.pin4 {args[0]} {hx(args[1])} {lo} {hi}",
                lambda args, a: op_iso2_pin(f"{a:04d}") if args[0] == "iso2" else op_vis_pin(args[1], f"{a:04d}", None), 10000, 1000)
    ctx.exhaustive_dims.append("all 10000 four-digit PINs × {ISO-2, VIS}")
    # recoverability on the real code
    for _ in range(ctx.n(1500, 15000)):
        n = R.randrange(4, 13); p = g.distinct_digits(n); k = g.key()
        with ctx.guard("iso2 recovers", f"iso2 {p}"):
            b = sm.format_iso9564_2_pin_block(g.form(p))
            ctx.check("iso2 recovers", len(b) == 8 and b[0] == 0x20 + n and b[1:].hex().upper() == p + "F" * (14 - n), f"iso2 {p} -> {hx(b)}")
        cur = R.choice([None, g.distinct_digits(R.randrange(4, 13))])
        with ctx.guard("vis recovers", f"vis key={hx(k)} pin={p} cur={cur}"):
            v = unvis(sm.format_vis_pin_block(k, g.form(p), g.form(cur)), k, cur)
            ctx.check("vis recovers", len(v) == 8 and v[0] == n and v[1:].hex().upper() == p + "F" * (14 - n), f"vis key={hx(k)} pin={p} cur={cur} -> {hx(v)}")


def odd(b):
    return bin(b).count("1") % 2 == 1


def key_ok(k):
    return isinstance(k, bytes) and len(k) == 16 and all(odd(b) for b in k)


def cold_start(ctx, runs):
    """first use of the library under thread contention / with the stack nearly exhausted (fresh interpreters)"""
    import json as _json, subprocess, sys as _sys, os as _os
    import core
    script = _os.path.join(core.HERE, "coldstart.py")
    ref = None
    for i in range(runs):
        for mode in ("threads", "stack"):
            r = subprocess.run([_sys.executable, script, core.REPO, mode, str(ctx.seed)], capture_output=True, text=True, timeout=120)
            if r.returncode != 0:
                ctx.check("cold start", False, f"cold-start probe ({mode}) crashed: {r.stderr.strip()[-300:]}")
                continue
            o = _json.loads(r.stdout.strip().split("\n")[-1])
            ctx.check("keys after a cold start are odd-parity keys", not o["problems"], "; ".join(o["problems"]) or "-")
            if ref is None:
                ref = o["values"]
            ctx.check("results after a cold start equal those of any other start", o["values"] == ref,
                      f"cold start ({mode}, run {i}) changed results of later calls")
    ctx.extra["cold_start_runs"] = 2 * runs


def _outcome_b(call):
    try:
        return ("ok", call())
    except Exception as e:  # noqa: BLE001
        return ("exc", type(e).__name__)


def C13(ctx):
    g = G(ctx.sub("g")); R = g.R
    cold_start(ctx, ctx.n(6, 40))
    cases = []
    base = R.randbytes(16)
    for pos in range(16):
        for v in range(256):
            k = bytearray(base if v % 2 else bytes(16)); k[pos] = v
            cases.append(op_adjust(bytes(k), gen="sweep: 16 positions × 256 values"))
    ctx.exhaustive_dims.append("adjust_key_parity: every byte value 0..255 at each of 16 positions")
    for _ in range(ctx.n(500, 5000)):
        cases.append(op_adjust(R.randbytes(R.choice([16, 16, 8, 24, 0, 5])), gen="random"))
        cases.append(op_parity(R.randrange(256), gen="odd_parity on bytes"))
    ctx.run_cases(cases)
    for pos in range(16):
        for v in range(256):
            k = bytearray(base); k[pos] = v; k = bytes(k)
            a = tools.adjust_key_parity(k)
            ok = len(a) == 16 and all(odd(b) for b in a) and all((x ^ y) in (0, 1) for x, y in zip(a, k)) and tools.adjust_key_parity(a) == a
            ctx.check("adjust: odd, only bit 0, idempotent", ok, f"adjust_key_parity({hx(k)}) -> {hx(a)}")
    # every derivation function's output over its domain
    rare, _, _ = rare_pairs(ctx.sub("rare"), 20, letters_needed=False)
    for i in range(ctx.n(3000, 30000)):
        k = g.key(); c = R.randrange(8)
        if c == 0:
            pan = g.digits(R.choice([1, 8, 10, 12, 13, 16, 19])); psn = R.choice([None, g.digits(2)])
            r = kd.derive_icc_mk_a(k, g.form(pan), g.form(psn)); d = f"mk_a {hx(k)} {pan} {psn}"
        elif c == 1:
            pan, psn = R.choice(rare) if R.random() < .3 else (g.digits(R.choice([8, 12, 16, 17, 18, 19])), g.digits(2))
            r = kd.derive_icc_mk_b(k, g.form(pan), g.form(psn)); d = f"mk_b {hx(k)} {pan} {psn}"
        elif c == 2:
            x = R.randbytes(8); r = kd.derive_common_sk(k, x); d = f"common_sk {hx(k)} {hx(x)}"
        elif c == 3:
            x = R.randbytes(2); r = kd.derive_visa_sm_sk(k, x); d = f"visa_sk {hx(k)} {hx(x)}"
        elif c == 4:
            x = R.randbytes(2); b, h = R.choice([(4, 8), (2, 16), (3, 11), (65536, 1), (16, 4)]); iv = R.randbytes(16)
            r = kd.derive_emv2000_tree_sk(k, x, h, b, iv); d = f"tree_sk {hx(k)} {hx(x)} {h} {b} {hx(iv)}"
        else:
            cl = R.choice(CLS); pan = g.digits(R.choice([8, 12, 16, 17, 19])); psn = R.choice([None, "", g.digits(2)])
            o = getattr(cvn, cl)(k, g.key(), g.key(), g.form(pan), g.form(psn))
            ok = key_ok(o.icc_mk_ac) and key_ok(o.icc_mk_smi) and key_ok(o.icc_mk_smc)
            ctx.check("stored master keys are 16-byte odd-parity keys", ok, f"{cl} pan={pan} psn={psn}: {hx(o.icc_mk_ac)} {hx(o.icc_mk_smi)} {hx(o.icc_mk_smc)}")
            continue
        ctx.check("derived key is a 16-byte odd-parity key", key_ok(r), d + " -> " + (hx(r) if isinstance(r, bytes) else repr(r)))
    # whatever comes back for displayed / stored forms of the PAN (blanks, tabs, newline) is still a 16-byte odd key
    for i in range(ctx.n(1500, 15000)):
        k = g.key(); pan = g.formatted(g.digits(R.choice([8, 12, 14, 16, 16, 17, 19]))); psn = R.choice([None, g.digits(2)])
        c = R.randrange(3)
        try:
            if c == 0:
                rs = [kd.derive_icc_mk_a(k, g.form(pan), g.form(psn))]; d = f"mk_a {hx(k)} {pan!r} {psn}"
            elif c == 1:
                rs = [kd.derive_icc_mk_b(k, g.form(pan), g.form(psn))]; d = f"mk_b {hx(k)} {pan!r} {psn}"
            else:
                cl = R.choice(CLS)
                o = getattr(cvn, cl)(k, g.key(), g.key(), g.form(pan), g.form(psn)); d = f"{cl} {hx(k)} {pan!r} {psn}"
                rs = [o.icc_mk_ac, o.icc_mk_smi, o.icc_mk_smc]
        except ValueError:
            continue                                     # refused: nothing handed back
        for r in rs:
            ctx.check("derived key is a 16-byte odd-parity key", key_ok(r), d + " -> " + (hx(r) if isinstance(r, bytes) else repr(r)))
    # the key as any object bytearray() accepts: buffers, sequences, one-shot iterables
    for _ in range(ctx.n(60, 600)):
        k = R.randbytes(R.choice([16, 16, 8, 24]))
        want = _outcome_b(lambda: tools.adjust_key_parity(k))
        for name, mk in gens.byteslike_forms(k):
            got = _outcome_b(lambda: tools.adjust_key_parity(mk()))
            # a form other than bytes / bytearray is outside what C13 speaks about: it may be refused, but if a key comes back it is the key
            ctx.check("adjust_key_parity depends on the key's bytes only (or refuses the form)", got == want or got in (("exc", "TypeError"), ("exc", "ValueError")),
                      f"adjust_key_parity(<{name}> of {hx(k)}) -> {got}, bytes form -> {want}")
            if got[0] == "ok":
                ctx.check("adjust: odd, only bit 0, idempotent", all(odd(b) for b in got[1]) and tools.adjust_key_parity(got[1]) == got[1],
                          f"adjust_key_parity(<{name}> of {hx(k)}) -> {hx(got[1])}")
    # equal up to parity bits to the prescribed value: unusual (non power of two) branch factors against the model
    shaped = []
    for _ in range(ctx.n(150, 1500)):
        b, h = R.choice([(3, 11), (5, 7), (6, 7), (7, 6), (10, 5), (12, 5), (17, 4), (41, 3), (255, 3), (257, 2), (300, 2), (1000, 2), (65537, 1)])
        shaped.append(op_tree_sk(g.key(), R.randbytes(2), h, b, R.choice([bytes(16), R.randbytes(16)]), gen="tree shapes with other branch factors"))
    ctx.run_cases(shaped)
    # the three keys stored on an object equal the prescribed keys (model), for every way the issuer keys can coincide
    pool13 = CardPool(g)
    stored = []
    for _ in range(ctx.n(300, 3000)):
        stored.append(cvn_case(pool13, pool13.spec(R.choice(CLS)), "keys", None, "stored keys against the model, issuer keys shared in every pattern"))
    ctx.run_cases(stored)
    # refusals: nothing is handed back for a master key of the wrong size
    bad = []
    for _ in range(ctx.n(60, 300)):
        bk = g.badkey()
        bad += [op_common_sk(bk, R.randbytes(8), gen="malformed", proj="class"), op_visa_sk(bk, R.randbytes(2), gen="malformed", proj="class"),
                op_tree_sk(bk, R.randbytes(2), 8, 4, R.randbytes(16), gen="malformed", proj="class"),
                op_tree_sk(g.key(), g.sized(2, .5), 8, 4, g.sized(16, .5), gen="malformed", proj="class"),
                op_common_sk(g.key(), g.sized(8, .7), gen="malformed", proj="class"), op_visa_sk(g.key(), g.sized(2, .7), gen="malformed", proj="class"),
                op_tree_sk(g.key(), R.randbytes(2), R.choice([1, 2, 4, 8]), R.choice([1, 2, 3, 4]), R.randbytes(16), gen="tree parameters around the gate", proj="class")]
    ctx.run_cases(bad)
    # keys that force 0xFF / 0x00 / 0xFE bytes through the adjustment
    for v in (0xFF, 0x00, 0xFE, 0x01, 0x80, 0x7F):
        for pos in range(16):
            k = bytearray(R.randbytes(16)); k[pos] = v
            r = kd.derive_visa_sm_sk(bytes(k), b"\x00\x00" if pos not in (6, 7, 14, 15) else b"\x00\x00")
            ctx.check("derived key is a 16-byte odd-parity key", key_ok(r) or pos in (14, 15) and key_ok(r), f"visa_sk {hx(k)} 0000 -> {hx(r)}")
    # parity bits never alter what the key encrypts to
    for _ in range(ctx.n(300, 3000)):
        k = R.randbytes(R.choice([8, 16, 24])); d = R.randbytes(16)
        ctx.check("encrypt(adjust k) = encrypt(k)", tools.encrypt_tdes_ecb(tools.adjust_key_parity(k), d) == tools.encrypt_tdes_ecb(k, d), f"ecb {hx(k)}")
    ctx.run_cases([op_ecb(tools.adjust_key_parity(k), d, gen="ecb under adjusted key") for k, d in
                   [(R.randbytes(16), R.randbytes(8)) for _ in range(ctx.n(100, 1000))]])
