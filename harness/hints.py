"""Change-directed search aid (never a verdict): what is *new* in the current source relative to the snapshot the model
was written against (`harness/pinned_src/`, the pinned tree with the two `fix:` commits).

The constants that occur in the current function bodies but not in the snapshot (integers, byte strings, text, and
constant-foldable expressions such as `1 << 20` or `b"\\x80" + b"\\x00" * 7`) are turned into hints for the generators:
sizes and counts around them, byte values, byte patterns to splice at the ends / at block boundaries / anywhere, mask
relations between key halves, digit strings.  On the unchanged tree there is nothing new and the generators behave
exactly as without this module."""
import ast
import collections
import os

HERE = os.path.dirname(os.path.abspath(__file__))
MODULES = ["ac", "cvn", "cvv", "kd", "mac", "sm", "tlv", "tools"]


def _fold(e):
    """value of an expression built from literals and arithmetic only (bounded), else None"""
    try:
        if isinstance(e, ast.Constant):
            return e.value if isinstance(e.value, (int, bytes, str)) and not isinstance(e.value, bool) else None
        if isinstance(e, ast.UnaryOp) and isinstance(e.op, (ast.USub, ast.Invert)):
            v = _fold(e.operand)
            return None if not isinstance(v, int) else (-v if isinstance(e.op, ast.USub) else ~v)
        if isinstance(e, ast.BinOp):
            a, b = _fold(e.left), _fold(e.right)
            if a is None or b is None:
                return None
            op = type(e.op)
            if isinstance(a, int) and isinstance(b, int):
                if op is ast.LShift and 0 <= b <= 40: return a << b
                if op is ast.Pow and 0 <= b <= 40 and abs(a) <= 65536: return a ** b
                if op is ast.Mult and abs(a) < 2**32 and abs(b) < 2**32: return a * b
                if op is ast.Add: return a + b
                if op is ast.Sub: return a - b
                if op is ast.BitOr: return a | b
                if op is ast.BitAnd: return a & b
                if op is ast.FloorDiv and b: return a // b
                return None
            if isinstance(a, (bytes, str)) and isinstance(b, int) and op is ast.Mult and 0 <= b <= 4096: return a * b
            if isinstance(a, int) and isinstance(b, (bytes, str)) and op is ast.Mult and 0 <= a <= 4096: return b * a
            if type(a) is type(b) and isinstance(a, (bytes, str)) and op is ast.Add: return a + b
        if isinstance(e, ast.Call) and isinstance(e.func, ast.Name) and e.func.id == "bytes" and len(e.args) == 1 and not e.keywords:
            n = _fold(e.args[0])
            return bytes(n) if isinstance(n, int) and 0 <= n <= 4096 else None
        if isinstance(e, ast.Call) and isinstance(e.func, ast.Attribute) and e.func.attr == "fromhex" and len(e.args) == 1:
            s = _fold(e.args[0])
            return bytes.fromhex(s) if isinstance(s, str) else None
    except Exception:  # noqa: BLE001
        return None
    return None


def _constants(tree):
    out = collections.Counter()
    for fn in ast.walk(tree):
        if not isinstance(fn, (ast.FunctionDef, ast.Assign)):
            continue
        body = fn.body if isinstance(fn, ast.FunctionDef) else [fn]
        for st in body:
            if isinstance(st, ast.Expr) and isinstance(st.value, ast.Constant) and isinstance(st.value.value, str):
                continue                                   # docstring
            stack = [st]
            while stack:
                n = stack.pop()
                if isinstance(n, ast.Raise):
                    continue                               # message texts are not behaviour
                v = _fold(n) if isinstance(n, ast.expr) else None
                if v is not None and not (isinstance(v, str) and len(v) > 64):
                    out[(type(v).__name__, v)] += 1
                    if not isinstance(n, ast.Constant):
                        pass
                stack += list(ast.iter_child_nodes(n))
    return out


def harvest(repo):
    """{"ints": [...], "bytes": [...], "strs": [...]}: constants of the current source that the snapshot lacks"""
    ints, bts, strs = set(), set(), set()
    for m in MODULES:
        try:
            cur = ast.parse(open(os.path.join(repo, "pyemv", m + ".py")).read())
            old = ast.parse(open(os.path.join(HERE, "pinned_src", m + ".py")).read())
        except Exception:  # noqa: BLE001
            continue
        new = _constants(cur) - _constants(old)
        for (t, v), _ in new.items():
            if t == "int" and -1 <= v <= 2 ** 24:
                ints.add(v)
            elif t == "bytes" and 0 < len(v) <= 4096:
                bts.add(v)
            elif t == "str" and 0 < len(v) <= 64:
                strs.add(v)
    return {"ints": sorted(ints), "bytes": sorted(bts), "strs": sorted(strs)}


class Hints:
    """derived search material; `bool(h)` is False when nothing is new"""

    def __init__(self, raw):
        self.raw = raw
        ints = [i for i in raw["ints"] if i >= 0]
        self.lengths = sorted({x for i in ints for x in (i, i - 1, i + 1) if 0 <= x <= 2 ** 22}
                              | {x for i in ints if 2 <= i <= 4096 for x in (8 * i, 8 * i - 1, 8 * i + 1)}
                              | {len(b) for b in raw["bytes"]})
        self.counts = sorted({x for i in ints for x in (i, i - 1, i + 1) if 0 < x <= 70000})
        self.byte_values = sorted({i & 0xFF for i in ints if i < 65536} | {c for b in raw["bytes"] for c in b})
        pats = set(raw["bytes"])
        for i in ints:
            if i < 256: pats.add(bytes([i]))
            if 256 <= i < 65536: pats.add(i.to_bytes(2, "big"))
        for s in raw["strs"]:
            try:
                pats.add(s.encode("ascii"))
                if len(s) % 2 == 0: pats.add(bytes.fromhex(s))
            except Exception:  # noqa: BLE001
                pass
        self.patterns = sorted(p for p in pats if p)
        self.digit_strs = sorted({s for s in raw["strs"] if s.isdigit()} | {str(i) for i in ints if i < 10 ** 6})
        self.letters = sorted({c for s in raw["strs"] for c in s if c.isalpha()})

    def __bool__(self):
        return bool(self.raw["ints"] or self.raw["bytes"] or self.raw["strs"])

    def summary(self):
        return {"new_constants": {k: [x.hex() if isinstance(x, bytes) else x for x in v][:20] for k, v in self.raw.items()},
                "lengths": self.lengths[:30], "patterns": [p.hex() for p in self.patterns[:20]]}
