"""Property checks C09, C10, C17, C18 (TLV)."""
import hashlib
import multiprocessing as mp
import sys

from core import Case, hx, S, tlv, canon, run_model, show_tree, PROJ, tree_tokens
from gens import *  # noqa: F401,F403
import gens


def _tlv_chunk(length, lo, hi, lvl):
    h = hashlib.sha1(); nok = 0
    pj = PROJ["c09"] if lvl == 0 else (lambda a: a)
    for i in range(lo, hi):
        x = gens.nth_string(length, i)
        for fl in (False, True):
            for si in (False, True):
                a = canon(lambda: tlv.decode(x, flatten=fl, simple=si))
                if a.startswith("tree"):
                    nok += 1
                h.update(pj(a).encode() + b"\n")
    return h.hexdigest(), nok


def tlv_enum(ctx, maxlen, lvl, proj):
    """complete enumeration over the 14-symbol alphabet up to maxlen × {flatten} × {simple}, by digest"""
    jobs = []
    for L in range(0, maxlen + 1):
        total = 14 ** L
        chunk = max(1, min(total, 20000))
        for lo in range(0, total, chunk):
            jobs.append((L, lo, min(total, lo + chunk)))
    want = run_model([f"enum.tlv {L} {lo} {hi} {lvl}" for L, lo, hi in jobs], 16)
    with mp.get_context("fork").Pool(16) as pool:
        got = pool.starmap(_tlv_chunk, [(L, lo, hi, lvl) for L, lo, hi in jobs])
    nstr = 0; nok = 0
    for (L, lo, hi), w, (gd, gn) in zip(jobs, want, got):
        nstr += hi - lo; nok += gn
        ctx.evaluations += 4 * (hi - lo)
        ctx.dist["enumeration by digest"] += 4 * (hi - lo)
        if w.split()[1] != gd:
            ctx.notes.append(f"digest differs on strings of length {L}, indices {lo}..{hi}; re-running item by item")
            cs = []
            for i in range(lo, hi):
                x = gens.nth_string(L, i)
                for fl in (False, True):
                    for si in (False, True):
                        cs.append(op_decode(x, fl, si, gen="enum", proj=proj))
            ctx.run_cases(cs)
            if len(ctx.violations) > 20:
                break
    ctx.extra["enumerated_strings"] = nstr
    ctx.extra["enumerated_decodable"] = nok
    ctx.exhaustive_dims.append(f"every byte string over the 14-symbol alphabet up to length {maxlen} × {{flatten}} × {{simple}}")


def cst_inputs(ctx, g, count, proj, conv_share=0.3):
    """well-formed concrete syntax trees re-serialised with every accepted length form, and mutations"""
    R = g.R
    cases = []; stats = {"wellformed": 0, "mutated": 0, "deep": 0, "longlen": 0}
    for _ in range(count):
        simple = R.random() < .3
        depth = R.choice([0, 1, 2, 3, 4, 6])
        items = gens.gen_cst(R, depth, simple)
        x = gens.print_cst(items)
        if any(len(l) > 16 for l in _lens(items)):
            stats["longlen"] += 1
        mutated = R.random() < .45
        if mutated:
            x = gens.mutate(R, x)
            if R.random() < .3:
                x = gens.mutate(R, x)
        stats["mutated" if mutated else "wellformed"] += 1
        for fl in (False, True):
            for si in ((simple,) if R.random() < .6 else (False, True)):
                conv = R.random() < conv_share
                cases.append(op_decode(x, fl, si, conv=conv, as_bytearray=R.choice([False] * 8 + [True, "view"]),
                                       gen=("cst mutated" if mutated else "cst well-formed") + (" +convert" if conv else ""), proj=proj))
    # length fields of 16..127 length-bytes (the 4-bit mask trap), truncated and not
    for _ in range(max(20, count // 40)):
        ll = R.choice([15, 16, 17, 31, 32, 33, 64, 100, 126, 127])
        n = R.randrange(0, 4)
        tag = gens.gen_tag(R, False)
        x = tag + bytes([0x80 | ll]) + n.to_bytes(ll, "big") + R.randbytes(n)
        if R.random() < .4:
            x = x[:R.randrange(len(tag), len(x))]
        if R.random() < .3:
            x = bytes([0xE0]) + gens.ber_len(len(x)) + x
        stats["longlen"] += 1
        for fl in (False, True):
            cases.append(op_decode(x, fl, False, gen="length field of 15..127 bytes", proj=proj))
    ctx.extra.setdefault("cst_stats", {}).update(stats)
    return cases


def _lens(items):
    for t, l, b in items:
        yield l
        if b[0] == "C":
            yield from _lens(b[1])


def nested_probe(ctx):
    """known finding: CPython's recursion limit (DESIGN.md §8.2)"""
    def nest(d):
        x = b""
        for _ in range(d):
            x = b"\xE0" + gens.ber_len(len(x)) + x
        return x
    lo, hi = 100, 5000
    def fails(d):
        try:
            tlv.decode(nest(d)); return None
        except tlv.DecodeError:
            return "DecodeError"
        except RecursionError:
            return "RecursionError"
        except Exception as e:  # noqa: BLE001
            return type(e).__name__
    old = sys.getrecursionlimit()
    r = fails(hi)
    if r is None:
        return None
    while hi - lo > 1:
        mid = (lo + hi) // 2
        if fails(mid) is None:
            lo = mid
        else:
            hi = mid
    return {"exception": fails(hi), "min_depth": hi, "input_bytes": len(nest(hi)), "recursion_limit": old}


def sibling_probe(ctx):
    """width, not depth: thousands of sibling templates / objects decode in every mode (nothing may recurse per sibling)"""
    for n in (1500, 4000):
        for body in (b"\x9c\x01\x07", b"\xe1\x03\x9c\x01\x07", b""):
            x = b"".join(bytes([0xE0 if i % 2 else 0xE2]) + gens.ber_len(len(body)) + body for i in range(n))
            x = b"\x70" + gens.ber_len(len(x)) + x
            for fl in (False, True):
                try:
                    r = tlv.decode(x, flatten=fl); ok = isinstance(r, dict)
                except Exception as e:  # noqa: BLE001
                    ok = False; r = type(e).__name__
                ctx.check("thousands of sibling templates decode", ok, f"decode(<{n} sibling templates, {len(x)} bytes>, flatten={fl}) -> {r if not ok else 'ok'}")


def C09(ctx):
    g = G(ctx.sub("g"))
    sibling_probe(ctx)
    tlv_enum(ctx, ctx.n(5, 7), 0, "c09")
    cases = cst_inputs(ctx, g, ctx.n(6000, 80000), "c09")
    ctx.run_cases(cases)
    ctx.extra["probe:deep nesting"] = nested_probe(ctx)


def C17(ctx):
    g = G(ctx.sub("g"))
    tlv_enum(ctx, ctx.n(5, 7), 1, "c17")
    cases = [c for c in cst_inputs(ctx, g, ctx.n(8000, 80000), "c17", conv_share=0.0)]
    ctx.run_cases(cases)
    R = g.R
    # predicate on the real code: offset inside the input, partial tree is a dict, tag is a prefix of the input at the offset
    for c in cases[: ctx.n(6000, 60000)]:
        x = c.meta["data"]
        w = c.line.split()
        fl = "f" in w[2] and w[2] != "-"; si = "s" in w[2] and w[2] != "-"
        try:
            tlv.decode(x, flatten=fl, simple=si)
        except tlv.DecodeError as e:
            ok = isinstance(e.offset, int) and 0 <= e.offset <= len(x) and isinstance(e.tlv, dict) and isinstance(e.tag, str)
            if ok:
                from core import decode_err_fields
                if decode_err_fields(e).startswith("T"):
                    ok = x[e.offset:].hex().upper().startswith(e.tag) and len(e.tag) >= 2
                else:                                   # the complete tag lies before the reported offset
                    try:
                        tb = bytes.fromhex(e.tag)
                    except ValueError:
                        tb = None
                    ok = tb is not None and len(tb) >= 1 and any(x[i:i + len(tb)] == tb for i in range(0, e.offset - len(tb) + 1))
            ctx.check("offset within input, tag read from the offset", ok, f"decode({hx(x)}, flatten={fl}, simple={si}): offset={e.offset} tag={e.tag!r}")
        except Exception:  # noqa: BLE001
            pass
    raising_convert(ctx, R)


class _AppError(Exception):
    """an application exception raised by a conversion function"""


def _outcome(call):
    try:
        return ("ok", call())
    except BaseException as e:  # noqa: BLE001
        return ("exc", e)


def raising_convert(ctx, R):
    """A decode error must point at a real fault of the input even when the conversion function fails: the
    k-th call of convert raises; whatever decode raises then, a DecodeError it creates itself may only be the one
    the plain decode of the same input raises.  When convert raises a DecodeError of its own (a nested decode of
    a proprietary value), the error leaves with the top-level tree of the objects completed before that call."""
    n = 0
    for _ in range(ctx.n(1500, 15000)):
        simple = R.random() < .3
        items = gens.gen_cst(R, R.choice([0, 1, 2, 3, 4]), simple, maxval=R.choice([1, 2, 12]))
        x = gens.print_cst(items)
        mutated = R.random() < .35
        if mutated:
            x = gens.mutate(R, x)
        for fl in (False, True):
            rec = gens.Recorder()
            plain = _outcome(lambda: tlv.decode(x, flatten=fl, simple=simple, convert=rec))
            ncalls = len(rec.log)
            if plain[0] == "exc" and not isinstance(plain[1], tlv.DecodeError):
                continue                                 # the C09 check reports it
            ks = sorted(k for k in {1, ncalls, ncalls + 1, R.randrange(1, ncalls + 2)} if k >= 1)
            for k in ks:
                kind = R.choice(["index", "index", "key", "value", "type", "app", "lookup", "decode", "decode"])
                if kind == "decode":
                    try:
                        tlv.decode(R.choice([b"\x9f", b"\x9c\x05\x01", b"\xe0\x81", b"\x9c\x82\x01"]), simple=R.random() < .3)
                    except tlv.DecodeError as ex:
                        exc = ex
                    inner_tlv = exc.tlv
                else:
                    exc = {"index": IndexError("index out of range"), "key": KeyError("9F02"), "value": ValueError("bad value"),
                           "type": TypeError("bad type"), "app": _AppError("refused"), "lookup": LookupError("x")}[kind]
                rc = gens.RaisingConv(k, exc)
                got = _outcome(lambda: tlv.decode(x, flatten=fl, simple=simple, convert=rc))
                what = f"decode({hx(x)}, flatten={fl}, simple={simple}, convert raising {type(exc).__name__} at call {k})"
                n += 1
                if k <= ncalls:
                    # convert was reached before any fault: nothing decode reports on its own can be true of the input
                    own = got[0] == "exc" and isinstance(got[1], tlv.DecodeError) and got[1] is not exc
                    ctx.check("no decode error of the library's own when only convert failed", not own,
                              what + (f": DecodeError offset={got[1].offset} tag={got[1].tag!r} {got[1].msg!r}" if own else ""))
                    ctx.check("decode does not return when convert raised", got[0] == "exc", what)
                    if kind == "decode" and got[0] == "exc" and got[1] is exc and not mutated:
                        want = gens.cst_partial(items, k, fl)
                        ok = exc.tlv == want and _order_list(exc.tlv) == _order_list(want)
                        ctx.check("error leaving decode carries the top-level tree completed so far", ok,
                                  what + f": tlv={core_show(exc.tlv)} want={core_show(want)}")
                else:
                    # convert never failed: same outcome as the plain run
                    if plain[0] == "ok":
                        ok = got[0] == "ok" and got[1] == plain[1] and _order_list(got[1]) == _order_list(plain[1])
                    else:
                        e0 = plain[1]; e1 = got[1]
                        ok = (got[0] == "exc" and isinstance(e1, tlv.DecodeError) and (e1.offset, e1.tag, e1.msg) == (e0.offset, e0.tag, e0.msg)
                              and e1.tlv == e0.tlv)
                    ctx.check("a convert that does not fail leaves the outcome unchanged", ok, what)
    ctx.extra["raising_convert_runs"] = n


def _order_list(d):
    out = []
    for k, v in d.items():
        out.append(k)
        if hasattr(v, "items"):
            out.append(_order_list(v))
    return out


def core_show(d):
    try:
        return "{" + ",".join(k + ":" + (core_show(v) if hasattr(v, "items") else bytes(v).hex().upper()) for k, v in d.items()) + "}"
    except Exception:  # noqa: BLE001
        return repr(d)[:200]


def wrappers(t):
    """the non-plain container / value classes in a tree (the operation line does not carry them)"""
    seen = set()

    def walk(d):
        if type(d) is not dict:
            seen.add(type(d).__name__)
        for v in d.values():
            if hasattr(v, "items"):
                walk(v)
            elif type(v) not in (str, bytes, bytearray):
                seen.add(type(v).__name__)
    walk(t)
    return (" [python classes: " + ",".join(sorted(seen)) + "]") if seen else ""


def norm_tree(t):
    """what decode(encode(t)) must give: tags upper-cased, values as bytes, last occurrence wins"""
    d = {}
    for k, v in t.items():
        name = bytes.fromhex(k).hex().upper()
        d[name] = norm_tree(v) if hasattr(v, 'items') else (bytes.fromhex(v) if isinstance(v, str) else bytes(v))
    return d


def ref_encode(t, simple):
    out = b""
    for k, v in t.items():
        tag = bytes.fromhex(k)
        val = ref_encode(v, simple) if hasattr(v, 'items') else (bytes.fromhex(v) if isinstance(v, str) else bytes(v))
        if simple and len(val) > 255:
            raise NoEncoding(k)
        out += tag + (bytes([len(val)]) if simple else gens.ber_len(len(val))) + val
    return out


class NoEncoding(Exception):
    """the tree has no encoding in simple mode (some content exceeds 255 bytes)"""


def has_dup_tags(t):
    seen = set()
    for k, v in t.items():
        n = bytes.fromhex(k)
        if n in seen:
            return True
        seen.add(n)
        if hasattr(v, 'items') and has_dup_tags(v):
            return True
    return False


def C10(ctx):
    g = G(ctx.sub("g")); R = g.R
    cases = []; wf = []
    # boundary value lengths × modes × value kinds
    lens = gens.BOUNDARY_LENS + gens.BIG_LENS + ([2 ** 24 - 1, 2 ** 24, 2 ** 24 + 1] if ctx.thorough else [])
    for n in lens:
        for simple in (False, True):
            v = bytes([R.randrange(256)]) * n
            for form in ("bytes", "bytearray", "str", "nested", "nested2"):
                if form == "bytes": t = {"9C": v}
                elif form == "bytearray": t = {"9f02": bytearray(v)}
                elif form == "str":
                    if n > 70000: continue
                    t = {"5F2A": v.hex().upper()}
                elif form == "nested":
                    if n < 3: continue
                    t = {"E0": {"9C": v[: n - 3 if n - 3 < 128 else n - 4 if n - 4 < 256 else n - 5 if n < 65540 else n - 6]}}
                else:
                    t = {"E0": {"E1": {"9C": v}}}
                c = op_encode(t, simple, gen="boundary value lengths")
                cases.append(c); wf.append((t, simple))
    ctx.exhaustive_dims.append(f"value / template-content lengths {lens} × {{normal, simple}} × bytes/bytearray/str/nested")
    # the 2^24 boundary of the length field, on the real code only (reference encoder in Python)
    for n in (2 ** 24 - 1, 2 ** 24, 2 ** 24 + 1):
        v = bytes(n)
        wf.append(({"9C": v}, False))
        wf.append(({"E0": {"9F02": v[: n - 6]}}, False))
    for _ in range(ctx.n(5000, 60000)):
        simple = R.random() < .35
        t = gens.gen_tree(R, R.choice([0, 1, 2, 3, 4, 6]), simple, boundary=R.random() < .2, big=R.random() < .01)
        cases.append(op_encode(t, simple, gen="well-formed tree")); wf.append((t, simple))
    bad = []
    for _ in range(ctx.n(4000, 40000)):
        simple = R.random() < .35
        t = gens.gen_tree(R, R.choice([0, 1, 2, 3, 4]), simple, boundary=simple and R.random() < .4)
        k = gens.inject_fault(R, t, simple)
        cases.append(op_encode(t, simple, gen="ill-formed tree" if k is not None else "well-formed tree")); bad.append((t, simple))
    ctx.run_cases(cases)
    # relational: canonical form, round trip, no bytes on refusal
    nrt = 0
    for t, simple in wf:
        try:
            e = tlv.encode(t, simple=simple)
        except tlv.EncodeError:
            continue                                    # simple mode with nested content above 255
        if not isinstance(e, bytes):
            ctx.check("encode returns bytes", False, f"encode({tree_tokens(t)[:200]}) returned {type(e).__name__}")
            continue
        try:
            want_e = ref_encode(t, simple)
        except NoEncoding:
            want_e = None                               # accepted although no simple-mode encoding exists
        ctx.check("canonical form", e == want_e, f"tlv.encode {'s' if simple else '-'} {tree_tokens(t)[:400]}{wrappers(t)}")
        try:
            back = tlv.decode(e, simple=simple)
        except Exception as ex:  # noqa: BLE001
            back = repr(ex)
        want = norm_tree(t)
        ctx.check("decode(encode(t)) = normalise(t)", back == want and (has_dup_tags(t) or list(_order(back)) == list(_order(want))),
                  f"tlv.encode {'s' if simple else '-'} {tree_tokens(t)[:400]}{wrappers(t)}")
        nrt += 1
    ctx.extra["round_trips"] = nrt
    for t, simple in bad:
        try:
            r = tlv.encode(t, simple=simple)
            ok = True
        except tlv.EncodeError as e:
            ok = isinstance(e.tag, str) and _key_in(t, e.tag)
        except Exception:  # noqa: BLE001
            ok = True                                   # compared by class against the model above
        ctx.check("EncodeError names a tag of the tree", ok, f"tlv.encode {'s' if simple else '-'} {tree_tokens(t)[:400]}")


def _order(d):
    for k, v in d.items():
        yield k
        if hasattr(v, 'items'):
            yield from _order(v)


def _key_in(t, k):
    for kk, v in t.items():
        if kk == k or (hasattr(v, 'items') and _key_in(v, k)):
            return True
    return False


def C18(ctx):
    g = G(ctx.sub("g")); R = g.R
    cases = []
    inputs = []
    for _ in range(ctx.n(5000, 60000)):
        simple = R.random() < .3
        canonical = R.random() < .4
        items = gens.gen_cst(R, R.choice([0, 1, 2, 3, 4, 6]), simple, canonical=canonical, maxval=R.choice([12, 12, 300]))
        x = gens.print_cst(items)
        inputs.append((x, simple, items, canonical))
        for fl in (False, True):
            cases.append(op_decode(x, fl, simple, conv=True, gen="decodable cst + recording convert", proj="nokind"))
    # the 255 / 65535 length boundaries in canonical inputs
    for n in (127, 128, 255, 256, 65535, 65536):
        for shape in range(3):
            v = R.randbytes(1) * n
            items = [(b"\x9c", gens.ber_len(n), ("P", v))]
            if shape == 1:
                items = [(b"\xe0", gens.ber_len(len(gens.print_cst(items))), ("C", items))]
            if shape == 2:
                inner = [(b"\x9c", gens.ber_len(n - 3 if n < 131 else n - 4 if n < 260 else n - 5), ("P", v[: n - 3 if n < 131 else n - 4 if n < 260 else n - 5]))]
                items = [(b"\xe1", gens.ber_len(len(gens.print_cst(inner))), ("C", inner))]
            inputs.append((gens.print_cst(items), False, items, True))
    # enumeration: decodable short strings
    for L in range(0, ctx.n(4, 5) + 1):
        for i in range(14 ** L):
            x = gens.nth_string(L, i)
            for si in (False, True):
                inputs.append((x, si, None, False))
    ctx.exhaustive_dims.append(f"every byte string over the 14-symbol alphabet up to length {ctx.n(4, 5)} × {{normal, simple}} (laws on the real code)")
    cases += cst_inputs(ctx, g, ctx.n(2500, 25000), "nokind", conv_share=0.5)      # mutated inputs too: the two views fail together
    sibling_probe(ctx)
    ctx.run_cases(cases)
    nlaw = 0
    for x, simple, items, canonical in inputs:
        try:
            t = tlv.decode(x, simple=simple)
        except tlv.DecodeError:
            continue
        except Exception:  # noqa: BLE001
            continue
        nlaw += 1
        tag = f"tlv.decode {hx(x)} {'s' if simple else '-'}"
        try:
            e = tlv.encode(t, simple=simple)
            t2 = tlv.decode(e, simple=simple)
            ok = t2 == t and list(_order(t2)) == list(_order(t)) and len(e) <= len(x)
        except Exception as ex:  # noqa: BLE001
            ok = False; e = repr(ex)
        ctx.check("encode(decode(x)) decodes to the same tree", ok, tag)
        if items is not None and gens.cst_canonical(items) and not simple:
            ctx.check("canonical input re-encodes byte for byte", e == x, tag)
        if items is not None:
            fl = tlv.decode(x, flatten=True, simple=simple)
            want = gens.cst_flat(items)
            ctx.check("flatten = primitives in input order, last wins", fl == want and list(fl) == list(want), tag + " flatten")
        for flat in (False, True):
            rec = gens.make_recorder(nlaw + flat)
            conv = tlv.decode(x, flatten=flat, simple=simple, convert=gens.conv_arg(rec))
            plain = tlv.decode(x, flatten=flat, simple=simple)
            def mp_(d):
                return {k: (mp_(v) if hasattr(v, 'items') else bytes.fromhex(k) + b":" + v) for k, v in d.items()}
            ok = conv == mp_(plain)
            if items is not None:
                ok = ok and rec.log == list(gens.cst_prims(items))
            ctx.check("convert: once per primitive, in order, result = plain mapped", ok, tag + (" flatten" if flat else "") + " convert")
    ctx.extra["laws_checked_on_decodable_inputs"] = nlaw
