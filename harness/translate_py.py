"""Translator: 21 functions of pyemv -> Lean definitions over the Python prelude: all of tools.py
(xor, odd_parity, adjust_key_parity, key_check_digits, encrypt_tdes_cbc, encrypt_tdes_ecb), all of mac.py
(both paddings and mac_iso9797_3 with its two live cipher contexts), all of ac.py, sm.py and cvv.py, and
all of kd.py including the EMV2000 tree (nested defs lifted, recursion on the height) — every public function
outside tlv.py.

The accepted subset is what those functions are written in: guards (`if … : raise …`), `None` defaults,
`isinstance(x, bytes)` decoding, slices with constant/`len` bounds, `+`/`*` on bytes and str, integer
arithmetic (with ZeroDivisionError / OverflowError explicit), `to_bytes`/`from_bytes`, the string helpers
kd.py uses, if/elif chains that return or assign, the one loop form `for i, x in enumerate(A): if c(x): A[i] op= k`
(a map, because each iteration touches element i only), calls into the other modules, and the
`cryptography` objects: `Cipher(TripleDES(K), CBC(iv)|ECB())` becomes a key schedule (`tdesKeys`) plus the IV
length check, `.encryptor()/.decryptor()` a chaining value that every `.update(x)` reads and writes, so that
"the same encryptor goes on" in mac_iso9797_3 is translated, not assumed.  Anything else makes the
translation fail loudly (exit 3) — nothing is guessed.  Exception *messages* are not translated (only the
class).  Not translated: tlv.py (loops, try/except, dict aliasing); it stays hand-modelled and tied by
complete enumeration.  What `tdesKeys`, `encBlock`, `cbcEncUpdate`,
`a2bHex`, `sha1Hex` … *mean* is the hand-written prelude (modelled OpenSSL / CPython behaviour).

`lean/PyemvGen/ModGen.lean` is regenerated from the repository's current source on every run;
`lean/PyemvGen/ModRefines.lean` (committed) proves `Gen.f = Model.f` for every translated function.

usage: translate_py.py <repo> <out.lean>      exit 0 ok / 3 unsupported construct
"""
import ast
import os
import sys

FUNCS = {
    "tools": ["xor", "odd_parity", "adjust_key_parity", "key_check_digits", "encrypt_tdes_cbc", "encrypt_tdes_ecb"],
    "mac": ["pad_iso9797_1", "pad_iso9797_2", "mac_iso9797_3"],
    "ac": ["generate_ac", "generate_arpc_1", "generate_arpc_2"],
    "kd": ["derive_icc_mk_a", "derive_icc_mk_b", "derive_common_sk", "derive_visa_sm_sk", "derive_emv2000_tree_sk"],
    "sm": ["generate_command_mac", "encrypt_command_data", "format_vis_pin_block", "format_iso9564_2_pin_block"],
    "cvv": ["generate_cvc3"],
}
ANN = {"_typing.Tuple[bytes, bytes]": "BB", "__int_param__": "I", "bytes": "B", "_typing.Union[bytes, bytearray]": "B", "_typing.Union[bytes, str]": "SB",
       "_typing.Optional[_typing.Union[bytes, str]]": "OSB", "_typing.Optional[bytes]": "OB",
       "_typing.Optional[int]": "ON", "int": "N", "_typing.Optional[PaddingType]": "OPT",
       "EncryptionType": "ET", "str": "S"}
LEAN_TY = {"BOOL": "Bool", "BB": "Bytes × Bytes", "U8": "UInt8", "B": "Bytes", "S": "PyStr", "SB": "StrOrBytes", "OSB": "Option StrOrBytes", "OB": "Option Bytes",
           "ON": "Option Nat", "N": "Nat", "OPT": "Option PaddingType", "PT": "PaddingType", "ET": "EncryptionType",
           "OS": "Option PyStr", "I": "Int"}
# hand-modelled callees: name -> (lean, arg kinds, result kind, monadic)
EXTERN = {}
# generated callees, filled while translating: python name -> (lean name, arg kinds, result kind)
GEN = {}
ALIASES = {"_tools.encrypt_tdes_ecb": "tools.encrypt_tdes_ecb", "_tools.encrypt_tdes_cbc": "tools.encrypt_tdes_cbc",
           "_encrypt_tdes_cbc": "tools.encrypt_tdes_cbc", "_tools.adjust_key_parity": "tools.adjust_key_parity",
           "_mac.mac_iso9797_3": "mac.mac_iso9797_3", "_mac_iso9797_3": "mac.mac_iso9797_3", "odd_parity": "tools.odd_parity",
           "_tools.xor": "tools.xor", "_xor": "tools.xor", "_mac.pad_iso9797_2": "mac.pad_iso9797_2",
           "_mac.pad_iso9797_1": "mac.pad_iso9797_1", "pad_iso9797_1": "mac.pad_iso9797_1",
           "derive_icc_mk_a": "kd.derive_icc_mk_a"}


# integer parameters modelled as `Int` (a selector whose guard must also reject negative values); every other
# `int` parameter is a size or a count and is modelled as `Nat`
INT_PARAMS = {("mac", "mac_iso9797_3", "padding")}

# set while `tools.xor` is translated a second time as a host with `sys.byteorder == "big"` evaluates it
BIG_ENDIAN_HOST = [False]


class Unsupported(Exception):
    pass


def v(name):
    return "v_" + name


def const_int(e):
    if isinstance(e, ast.Constant) and isinstance(e.value, int) and not isinstance(e.value, bool):
        return e.value
    if isinstance(e, ast.UnaryOp) and isinstance(e.op, ast.USub) and isinstance(e.operand, ast.Constant):
        return -e.operand.value
    return None


class Fn:
    def __init__(self, mod, fn):
        self.mod = mod; self.fn = fn
        self.types = {}
        self.tmp = 0
        self.pre_defs = []  # Lean text of nested functions, emitted before the enclosing definition
        self.local_fns = {}  # nested functions: name -> (lean name, closure names, kinds, result kind)
        self.rec = None     # (own name, recursion parameter, predecessor variable) while translating a recursive nested def
        self.ciph = {}      # cipher objects: name -> (ks var, mode, iv term)
        self.ctx = {}       # live encryptor / decryptor contexts: name -> dict(ks, mode, dir, st)
        # names that may be bound to an object the caller still holds (parameters and plain copies of them):
        # updating one in place (`x += …`, `x[i] = …`) would change the caller's bytearray, which the pure
        # reading of assignment cannot express, so it is refused
        self.shared = {p.arg for p in fn.args.args}

    def no_inplace(self, name, what):
        if name in self.shared:
            raise Unsupported(f"in-place update `{what}` of `{name}`, which may be an object the caller holds")

    def fresh(self):
        self.tmp += 1
        return f"t{self.tmp}"

    # ---------------------------------------------------------------- expressions
    def expr(self, e, out, ind):
        """-> (lean term, kind); monadic sub-calls are bound into `out` first"""
        if isinstance(e, ast.Name):
            if e.id not in self.types:
                raise Unsupported(f"unknown name {e.id}")
            if self.types[e.id] == "BOOL":               # a local holding the value of a condition
                return f"({v(e.id)} = true)", "P"
            return v(e.id), self.types[e.id]
        if isinstance(e, ast.Constant):
            if isinstance(e.value, bytes):
                return "([" + ", ".join(f"0x{x:02X}" for x in e.value) + "] : Bytes)", "B"
            if isinstance(e.value, str):
                return "([" + ", ".join(repr(c) if c != "'" else "'\\''" for c in e.value) + "] : PyStr)", "S"
            if isinstance(e.value, int) and not isinstance(e.value, bool):
                return f"({e.value} : Nat)", "N"
            if e.value is None:
                return "none", "NONE"
            raise Unsupported(f"constant {e.value!r}")
        if isinstance(e, ast.BinOp):
            if isinstance(e.op, ast.Mult):
                a, ka = self.expr(e.left, out, ind); b, kb = self.expr(e.right, out, ind)
                if ka in ("B", "S") and kb == "N":
                    return f"(List.replicate {b} {a}).flatten", ka
                if ka == "N" and kb == "N":
                    return f"({a} * {b})", "N"
                raise Unsupported("multiplication " + ast.unparse(e))
            a, ka = self.expr(e.left, out, ind); b, kb = self.expr(e.right, out, ind)
            if isinstance(e.op, ast.Add):
                if ka == kb and ka in ("B", "S"):
                    return f"({a} ++ {b})", ka
                if ka == kb == "N":
                    return f"({a} + {b})", "N"
            if ka == kb == "N" and isinstance(e.op, (ast.Mod, ast.FloorDiv)):
                # Python raises ZeroDivisionError; Lean's `%`/`/` do not
                return self.bind(f"{'pyMod' if isinstance(e.op, ast.Mod) else 'pyDiv'} {a} {b}", "N", out, ind)
            if ka == kb == "N":
                op = {ast.Sub: "-", ast.Pow: "^", ast.BitXor: "^^^", ast.RShift: ">>>",
                      ast.BitAnd: "&&&", ast.LShift: "<<<", ast.BitOr: "|||"}.get(type(e.op))
                if op:
                    return f"({a} {op} {b})", "N"
            raise Unsupported(f"binary operation {ast.unparse(e)} on {ka},{kb}")
        if isinstance(e, ast.JoinedStr) and len(e.values) == 1 and isinstance(e.values[0], ast.FormattedValue) \
                and e.values[0].conversion == -1 and isinstance(e.values[0].format_spec, ast.JoinedStr) \
                and len(e.values[0].format_spec.values) == 1 and isinstance(e.values[0].format_spec.values[0], ast.Constant):
            spec = e.values[0].format_spec.values[0].value
            a, ka = self.expr(e.values[0].value, out, ind)
            if ka == "N" and len(spec) >= 3 and spec[0] == "0" and spec[-1] == "d" and spec[1:-1].isdigit():
                return f"(zfill ({int(spec[1:-1])} : Nat) (pyStr {a}))", "S"
            raise Unsupported("f-string " + ast.unparse(e))
        if isinstance(e, ast.Subscript) and isinstance(e.slice, ast.Slice):
            a, ka = self.expr(e.value, out, ind)
            if ka not in ("B", "S"):
                raise Unsupported("slice of " + ka)
            lo, hi, st = e.slice.lower, e.slice.upper, e.slice.step
            if st is not None:
                raise Unsupported("slice step")
            clo = const_int(lo) if lo is not None else None
            chi = const_int(hi) if hi is not None else None
            if lo is None and hi is not None:
                if chi is not None and chi < 0:
                    raise Unsupported("negative upper bound")
                h, kh = self.expr(hi, out, ind)
                if kh != "N":
                    raise Unsupported("slice bound kind")
                return f"({a}.take {h})", ka
            if lo is not None and hi is None:
                if clo is not None and clo < 0:
                    return f"(lastN {-clo} {a})", ka
                l, kl = self.expr(lo, out, ind)
                return f"({a}.drop {l})", ka
            if lo is not None and hi is not None and clo is not None and chi is not None and 0 <= clo <= chi:
                return f"(slice {a} {clo} {chi})", ka
            raise Unsupported("slice " + ast.unparse(e))
        if isinstance(e, ast.Compare) and len(e.ops) == 1:
            op = e.ops[0]
            a, ka = self.expr(e.left, out, ind); b, kb = self.expr(e.comparators[0], out, ind)
            if ka == kb == "N":
                sym = {ast.Eq: "=", ast.NotEq: "≠", ast.Lt: "<", ast.LtE: "≤", ast.Gt: ">", ast.GtE: "≥"}.get(type(op))
                if sym:
                    return f"({a} {sym} {b})", "P"
            if ka == "I" and const_int(e.comparators[0]) is not None and isinstance(op, (ast.Eq, ast.NotEq)):
                return f"({a} {'=' if isinstance(op, ast.Eq) else '≠'} ({const_int(e.comparators[0])} : Int))", "P"
            if ka == "ET" and isinstance(op, ast.Eq) and kb == "ET":
                return f"({a} = {b})", "P"
            raise Unsupported("comparison " + ast.unparse(e))
        if isinstance(e, ast.BoolOp):
            parts = [self.expr(x, out, ind) for x in e.values]
            if all(k == "P" for _, k in parts):
                sym = " ∨ " if isinstance(e.op, ast.Or) else " ∧ "
                return "(" + sym.join(t for t, _ in parts) + ")", "P"
            raise Unsupported("boolean operation " + ast.unparse(e))
        if isinstance(e, ast.Attribute):
            s = ast.unparse(e)
            if s in ("EncryptionType.VISA", "EncryptionType.MASTERCARD", "EncryptionType.EMV"):
                return "EncryptionType." + e.attr.lower(), "ET"
            if s in ("PaddingType.VISA", "PaddingType.EMV"):
                return "PaddingType." + e.attr.lower(), "PT"
            if e.attr == "value":
                a, ka = self.expr(e.value, out, ind)
                if ka == "PT":
                    return f"{a}.value", "I"
            raise Unsupported("attribute " + s)
        if isinstance(e, ast.Tuple) and len(e.elts) == 2:
            a, ka = self.expr(e.elts[0], out, ind); b, kb = self.expr(e.elts[1], out, ind)
            if ka == kb == "B":
                return f"({a}, {b})", "BB"
            raise Unsupported("tuple " + ast.unparse(e))
        if isinstance(e, ast.IfExp) and self.static_isinstance(e.test) is not None:
            return self.expr(e.body if self.static_isinstance(e.test) else e.orelse, out, ind)
        if isinstance(e, ast.Call):
            return self.call(e, out, ind)
        raise Unsupported("expression " + ast.unparse(e))

    def coerce(self, term, have, want):
        if have == want:
            return term
        if want == "N" and have == "U8":
            return f"{term}.toNat"
        if want == "I" and have == "N":
            return f"(({term} : Nat) : Int)"
        if want == "ON" and have == "N":
            return f"(some {term})"
        if want == "ON" and have == "NONE":
            return "none"
        if want == "OSB" and have == "SB":
            return f"(some {term})"
        if want == "OSB" and have == "S":
            return f"(some (StrOrBytes.str {term}))"
        if want == "SB" and have == "S":
            return f"(StrOrBytes.str {term})"
        if want in ("OSB", "OB", "ON") and have == "NONE":
            return "none"
        raise Unsupported(f"argument of kind {have} where {want} is wanted")

    def bind(self, term, kind, out, ind):
        t = self.fresh()
        out.append(f"{ind}let {t} ← {term}")
        return t, kind

    def call(self, e, out, ind):
        f = e.func
        fs = ast.unparse(f)
        if fs == "_Cipher":
            raise Unsupported("cipher object outside an assignment")
        if e.keywords:
            raise Unsupported("keyword arguments in " + ast.unparse(e))
        if fs == "len":
            a, ka = self.expr(e.args[0], out, ind)
            if ka in ("B", "S"):
                return f"{a}.length", "N"
            if ka == "SB":
                return f"{a}.len", "N"
            raise Unsupported("len of " + ka)
        if fs in ("bytearray", "bytes") and len(e.args) == 1 and not e.keywords and isinstance(e.args[0], ast.GeneratorExp):
            # `bytes(<A if C else B> for x in bytearray(K))`: a map over the bytes of K
            g = e.args[0]
            if len(g.generators) != 1 or g.generators[0].ifs or g.generators[0].is_async or not isinstance(g.generators[0].target, ast.Name):
                raise Unsupported("generator expression " + ast.unparse(g)[:60])
            it = g.generators[0].iter
            if isinstance(it, ast.Call) and ast.unparse(it.func) in ("bytearray", "bytes") and len(it.args) == 1 and not it.keywords:
                it = it.args[0]
            src, ks = self.expr(it, out, ind)
            if ks != "B":
                raise Unsupported("generator expression over " + ks)
            x = g.generators[0].target.id
            saved = dict(self.types)
            self.types[x] = "U8"
            inner = []

            def elem(t):
                if isinstance(t, ast.Name) and t.id == x:
                    return v(x)
                if isinstance(t, ast.BinOp) and isinstance(t.left, ast.Name) and t.left.id == x and const_int(t.right) is not None \
                        and isinstance(t.op, (ast.BitXor, ast.BitOr, ast.BitAnd)):
                    return f"{v(x)} {({ast.BitXor: '^^^', ast.BitOr: '|||', ast.BitAnd: '&&&'})[type(t.op)]} {const_int(t.right)}"
                raise Unsupported("generator element " + ast.unparse(t))
            if isinstance(g.elt, ast.IfExp):
                c, _ = self.truthy(g.elt.test, inner, ind)
                body = f"if {c} then {elem(g.elt.body)} else {elem(g.elt.orelse)}"
            else:
                body = elem(g.elt)
            self.types = saved
            if inner:
                raise Unsupported("monadic call in a generator expression")
            return f"({src}.map fun {v(x)} => {body})", "B"
        if fs in ("bytearray", "bytes") and len(e.args) == 1 and not e.keywords:
            return self.expr(e.args[0], out, ind)
        if isinstance(f, ast.Attribute) and f.attr == "update" and len(e.args) == 1:
            return self.ctx_update(f.value, e.args[0], out, ind)
        if fs == "int.from_bytes" or (isinstance(f, ast.Attribute) and f.attr == "from_bytes"):
            a, ka = self.expr(e.args[0], out, ind)
            order = ast.unparse(e.args[1])
            if ka == "B" and order in ("'big'", '"big"'):
                return f"(fromBE {a})", "N"
            if ka == "B" and order == "_sys.byteorder":
                return (f"(fromBE {a})" if BIG_ENDIAN_HOST[0] else f"(fromLE {a})"), "N"
            raise Unsupported("from_bytes " + ast.unparse(e))
        if isinstance(f, ast.Attribute) and f.attr == "to_bytes":
            if fs == "int.to_bytes":
                n, kn = self.expr(e.args[0], out, ind); k, kk = self.expr(e.args[1], out, ind); order = ast.unparse(e.args[2])
            else:
                n, kn = self.expr(f.value, out, ind); k, kk = self.expr(e.args[0], out, ind); order = ast.unparse(e.args[1])
            if kn != "N" or kk != "N":
                raise Unsupported("to_bytes kinds")
            if order in ("'big'", '"big"') or (order == "_sys.byteorder" and const_int(e.args[0] if fs != "int.to_bytes" else e.args[1]) == 1):
                return self.bind(f"toBytesBE {k} {n}", "B", out, ind)
            if order == "_sys.byteorder":
                return self.bind(f"toBytesBE {k} {n}" if BIG_ENDIAN_HOST[0] else f"toBytesLE {k} {n}", "B", out, ind)
            raise Unsupported("to_bytes " + ast.unparse(e))
        if isinstance(f, ast.Attribute) and f.attr == "decode" and ast.unparse(e.args[0]) in ("'ascii'", '"ascii"'):
            raise Unsupported("decode outside the isinstance pattern")
        if isinstance(f, ast.Attribute) and f.attr == "zfill":
            a, ka = self.expr(f.value, out, ind); n, kn = self.expr(e.args[0], out, ind)
            if ka == "S" and kn == "N":
                return f"(zfill {n} {a})", "S"
        if isinstance(f, ast.Attribute) and f.attr == "hexdigest" and isinstance(f.value, ast.Call) \
                and ast.unparse(f.value.func) == "_hashlib.sha1":
            a, ka = self.expr(f.value.args[0], out, ind)
            if ka == "B":
                return f"(sha1Hex {a})", "S"
        if isinstance(f, ast.Attribute) and f.attr == "translate":
            a, ka = self.expr(f.value, out, ind)
            tbl = None
            t0 = e.args[0] if len(e.args) == 1 and not e.keywords else None
            try:
                if isinstance(t0, ast.Dict):
                    tbl = ast.literal_eval(t0)
                elif isinstance(t0, ast.Call) and ast.unparse(t0.func) == "str.maketrans" and len(t0.args) == 2 and not t0.keywords \
                        and all(isinstance(x, ast.Constant) and isinstance(x.value, str) for x in t0.args):
                    tbl = str.maketrans(t0.args[0].value, t0.args[1].value)      # the builtin, on two literals
            except Exception:  # noqa: BLE001
                tbl = None
            if ka == "S" and tbl == {97: 48, 98: 49, 99: 50, 100: 51, 101: 52, 102: 53}:
                return f"(decimalise {a})", "S"
            raise Unsupported("translate table " + ast.unparse(e.args[0]))
        if isinstance(f, ast.Attribute) and f.attr == "join" and isinstance(f.value, ast.Constant) and f.value.value == "":
            # "".join([d for d in X if d in {…}][:n])  /  "".join([…])
            inner = e.args[0]
            take = None
            if isinstance(inner, ast.Subscript) and isinstance(inner.slice, ast.Slice) and inner.slice.lower is None:
                take = inner.slice.upper; inner = inner.value
            if isinstance(inner, (ast.ListComp, ast.GeneratorExp) if take is None else ast.ListComp) and len(inner.generators) == 1 \
                    and len(inner.generators[0].ifs) == 1 and not inner.generators[0].is_async:
                g = inner.generators[0]
                cond = g.ifs[0]
                cmp0 = cond.comparators[0] if isinstance(cond, ast.Compare) and len(cond.ops) == 1 else None
                # the loop variable runs over the characters of a str, so `d in "0123456789"` (a substring test on one
                # character) and `d in ("0", …)` are the membership test `d in {"0", …}`
                charset = None
                if isinstance(cmp0, (ast.Set, ast.Tuple, ast.List)) and cmp0.elts and all(isinstance(c, ast.Constant) and isinstance(c.value, str) and len(c.value) == 1 for c in cmp0.elts):
                    charset = sorted({c.value for c in cmp0.elts})
                elif isinstance(cmp0, ast.Constant) and isinstance(cmp0.value, str) and cmp0.value:
                    charset = sorted(set(cmp0.value))
                if isinstance(inner.elt, ast.Name) and isinstance(g.target, ast.Name) and inner.elt.id == g.target.id \
                        and cmp0 is not None and isinstance(cond.ops[0], ast.In) and isinstance(cond.left, ast.Name) and cond.left.id == g.target.id \
                        and charset is not None:
                    chars = charset
                    src, ks = self.expr(g.iter, out, ind)
                    if ks != "S":
                        raise Unsupported("join source kind")
                    if chars == list("0123456789"):
                        pred = "isDec"
                    elif chars == list("abcdef"):
                        pred = "isLet"
                    else:
                        raise Unsupported("character set " + "".join(chars))
                    term = f"({src}.filter {pred})"
                    if take is not None:
                        n, kn = self.expr(take, out, ind)
                        term = f"({term}.take {n})"
                    return term, "S"
            raise Unsupported("join " + ast.unparse(e))
        if fs == "_binascii.a2b_hex":
            a, ka = self.expr(e.args[0], out, ind)
            if ka == "S":
                return self.bind(f"a2bHex {a}", "B", out, ind)
        if fs == "str" and isinstance(e.args[0], ast.Call) and ast.unparse(e.args[0].func) == "int":
            ia = e.args[0].args
            if len(ia) == 2 and const_int(ia[1]) == 16 and isinstance(ia[0], ast.Call) and isinstance(ia[0].func, ast.Attribute) \
                    and ia[0].func.attr == "hex":
                a, ka = self.expr(ia[0].func.value, out, ind)
                if ka == "B":
                    return f"(pyStr (fromBE {a}))", "S"
        # the same conversion written in steps: `n = int(x.hex(), 16)`, `str(n)`, `format(n, "05d")`
        if fs == "int" and len(e.args) == 2 and const_int(e.args[1]) == 16 and isinstance(e.args[0], ast.Call) \
                and isinstance(e.args[0].func, ast.Attribute) and e.args[0].func.attr == "hex" and not e.args[0].args:
            a, ka = self.expr(e.args[0].func.value, out, ind)
            if ka == "B":
                return f"(fromBE {a})", "N"
        if fs == "str" and len(e.args) == 1:
            a, ka = self.expr(e.args[0], out, ind)
            if ka == "N":
                return f"(pyStr {a})", "S"
        if fs == "format" and len(e.args) == 2 and isinstance(e.args[1], ast.Constant) and isinstance(e.args[1].value, str):
            spec = e.args[1].value
            a, ka = self.expr(e.args[0], out, ind)
            if ka == "N" and len(spec) >= 3 and spec[0] == "0" and spec[-1] == "d" and spec[1:-1].isdigit():
                return f"(zfill ({int(spec[1:-1])} : Nat) (pyStr {a}))", "S"
        if fs in self.local_fns or (self.rec and fs == self.rec[0]):
            if self.rec and fs == self.rec[0]:
                lean, clos, kinds, rk = self.rec[3]
            else:
                lean, clos, kinds, rk = self.local_fns[fs]
            if len(e.args) != len(kinds):
                raise Unsupported("arity of " + fs)
            terms = [v(c) for c in clos]
            for idx, (a, k) in enumerate(zip(e.args, kinds)):
                if self.rec and fs == self.rec[0] and idx == self.rec[4]:
                    # the recursion parameter must be passed as `<param> - 1`
                    if ast.unparse(a).replace(" ", "") != self.rec[1] + "-1":
                        raise Unsupported("recursive call must pass " + self.rec[1] + " - 1")
                    terms.append(self.rec[2])
                    continue
                t, kt = self.expr(a, out, ind)
                terms.append(self.coerce(t, kt, k))
            return self.bind(f"{lean} {' '.join(terms)}", rk, out, ind)
        key = ALIASES.get(fs, fs)
        if key in EXTERN:
            lean, kinds, rk, mon = EXTERN[key]
        elif key in GEN or (self.mod + "." + fs) in GEN:
            lean, kinds, rk, mon = GEN.get(key) or GEN[self.mod + "." + fs]
        else:
            raise Unsupported("call " + fs)
        if len(e.args) > len(kinds):
            raise Unsupported("too many arguments: " + ast.unparse(e))
        terms = []
        for a, k in zip(e.args, kinds):
            t, kt = self.expr(a, out, ind)
            terms.append(self.coerce(t, kt, k))
        for k in kinds[len(e.args):]:
            if k in ("ON", "OSB", "OB", "OPT"):
                terms.append("none")
            else:
                raise Unsupported("missing argument in " + ast.unparse(e))
        call = f"{lean} {' '.join(terms)}"
        if mon:
            return self.bind(call, rk, out, ind)
        return f"({call})", rk

    # ---------------------------------------------------------------- cipher objects of `cryptography`
    def cipher_new(self, name, e, out, ind):
        """`name = _Cipher(_algorithms.TripleDES(K), _modes.CBC(IV) | _modes.ECB(), backend=…)`"""
        if len(e.args) != 2 or any(k.arg != "backend" for k in e.keywords):
            raise Unsupported("Cipher(...) arguments")
        alg, mode = e.args
        if not (isinstance(alg, ast.Call) and ast.unparse(alg.func) == "_algorithms.TripleDES" and len(alg.args) == 1):
            raise Unsupported("cipher algorithm " + ast.unparse(alg))
        k, kk = self.expr(alg.args[0], out, ind)
        if kk != "B":
            raise Unsupported("key kind")
        ks = f"ks_{name}"
        out.append(f"{ind}let {ks} ← tdesKeys {k}")
        if isinstance(mode, ast.Call) and ast.unparse(mode.func) == "_modes.ECB" and not mode.args:
            self.ciph[name] = (ks, "ecb", None)
        elif isinstance(mode, ast.Call) and ast.unparse(mode.func) == "_modes.CBC" and len(mode.args) == 1:
            iv, kiv = self.expr(mode.args[0], out, ind)
            if kiv != "B":
                raise Unsupported("IV kind")
            ivv = f"iv_{name}"
            out.append(f"{ind}let {ivv} : Bytes := {iv}")
            out.append(f"{ind}if {ivv}.length ≠ 8 then throw .valueError")
            self.ciph[name] = (ks, "cbc", ivv)
        else:
            raise Unsupported("cipher mode " + ast.unparse(mode))

    def ctx_new(self, name, e, out, ind):
        """`name = cipher.encryptor()` / `.decryptor()`"""
        f = e.func
        c = f.value.id
        if c not in self.ciph:
            raise Unsupported("unknown cipher object " + c)
        ks, mode, iv = self.ciph[c]
        st = f"st_{name}"
        if mode == "cbc":
            out.append(f"{ind}let {st} : Bytes := {iv}")
        self.ctx[name] = {"ks": ks, "mode": mode, "dir": "enc" if f.attr == "encryptor" else "dec", "st": st}

    def ctx_update(self, target, arg, out, ind):
        a, ka = self.expr(arg, out, ind)
        if ka != "B":
            raise Unsupported("update argument kind")
        if isinstance(target, ast.Name) and target.id in self.ctx:
            c = self.ctx[target.id]
        elif isinstance(target, ast.Call) and isinstance(target.func, ast.Attribute) and target.func.attr in ("encryptor", "decryptor") \
                and isinstance(target.func.value, ast.Name) and target.func.value.id in self.ciph and not target.args:
            ks, mode, iv = self.ciph[target.func.value.id]
            c = {"ks": ks, "mode": mode, "dir": "enc" if target.func.attr == "encryptor" else "dec", "st": iv, "anon": True}
        else:
            raise Unsupported("update on " + ast.unparse(target))
        blk = ("encBlock " if c["dir"] == "enc" else "decBlock ") + c["ks"]
        if c["mode"] == "ecb":
            return f"(ecbUpdate ({blk}) {a})", "B"
        fn = "cbcEncUpdate" if c["dir"] == "enc" else "cbcDecUpdate"
        r = self.fresh()
        out.append(f"{ind}let {r} : Bytes × Bytes := {fn} ({blk}) {c['st']} {a}")
        if not c.get("anon"):
            out.append(f"{ind}let {c['st']} : Bytes := {r}.2")
        return f"{r}.1", "B"

    # ---------------------------------------------------------------- statements
    def message_ok(self, e):
        """the message of a raise is evaluated before the exception exists: it may only be built from constants and
        from conversions that cannot themselves fail or depend on the argument's own code (its class name, a length,
        an integer variable) — formatting an arbitrary argument object (`{x}`, `% x`, `str(x)`) can raise something else"""
        if isinstance(e, ast.Constant) and isinstance(e.value, str):
            return True
        if isinstance(e, ast.BinOp) and isinstance(e.op, ast.Add):
            return self.message_ok(e.left) and self.message_ok(e.right)
        if isinstance(e, ast.JoinedStr):
            for part in e.values:
                if isinstance(part, ast.Constant):
                    continue
                if not (isinstance(part, ast.FormattedValue) and part.conversion == -1 and part.format_spec is None):
                    return False
                v_ = part.value
                src = ast.unparse(v_)
                if isinstance(v_, ast.Attribute) and v_.attr == "__name__" and isinstance(v_.value, ast.Attribute) \
                        and v_.value.attr == "__class__" and isinstance(v_.value.value, ast.Name):
                    continue
                if isinstance(v_, ast.Attribute) and v_.attr in ("__name__", "__qualname__") and isinstance(v_.value, ast.Call) \
                        and ast.unparse(v_.value.func) == "type" and len(v_.value.args) == 1 and not v_.value.keywords \
                        and isinstance(v_.value.args[0], ast.Name):
                    continue                                  # `type(x).__name__`: the class name, read without the object's help
                if isinstance(v_, ast.Call) and ast.unparse(v_.func) in ("str", "len") and len(v_.args) == 1 and \
                        (ast.unparse(v_.args[0]).startswith("len(") or self.types.get(ast.unparse(v_.args[0])) in ("N", "I")
                         or (ast.unparse(v_.func) == "len" and isinstance(v_.args[0], ast.Name))):
                    continue
                if isinstance(v_, ast.Name) and self.types.get(src) in ("N", "I"):
                    continue
                return False
            return True
        return False

    def exc_class(self, st):
        if isinstance(st, ast.Raise) and isinstance(st.exc, ast.Call) and isinstance(st.exc.func, ast.Name) and not st.exc.keywords:
            n = st.exc.func.id
            if n in ("ValueError", "TypeError"):
                if len(st.exc.args) != 1 or not self.message_ok(st.exc.args[0]):
                    raise Unsupported("raise whose message is not built from constants, class names, lengths and integers: "
                                      + ast.unparse(st)[:90])
                return ".valueError" if n == "ValueError" else ".typeError"
        raise Unsupported("raise " + ast.unparse(st))

    def block(self, stmts, out, ind, ret_kind):
        """translate a statement list; returns True when every path through it returns or raises"""
        i = 0
        while i < len(stmts):
            st = stmts[i]; rest = stmts[i + 1:]
            if isinstance(st, ast.Expr) and isinstance(st.value, ast.Constant) and isinstance(st.value.value, str):
                i += 1; continue
            if isinstance(st, ast.Return):
                t, k = self.expr(st.value, out, ind)
                if k != ret_kind:
                    raise Unsupported(f"return of kind {k}, expected {ret_kind}")
                out.append(f"{ind}pure {t}")
                return True
            if isinstance(st, ast.Raise):
                out.append(f"{ind}throw {self.exc_class(st)}")
                return True
            if isinstance(st, ast.AugAssign) and isinstance(st.target, ast.Name):
                if self.types.get(st.target.id) not in ("N", "I", "U8"):
                    self.no_inplace(st.target.id, ast.unparse(st))
                fake = ast.BinOp(left=ast.Name(id=st.target.id, ctx=ast.Load()), op=st.op, right=st.value)
                t, k = self.expr(fake, out, ind)
                out.append(f"{ind}let {v(st.target.id)} : {LEAN_TY[k]} := {t}")
                self.types[st.target.id] = k
                i += 1; continue
            if isinstance(st, ast.Assign) and len(st.targets) == 1:
                tg = st.targets[0]
                if isinstance(tg, ast.Tuple) and len(tg.elts) == 2 and all(isinstance(x, ast.Name) for x in tg.elts):
                    t, k = self.expr(st.value, out, ind)
                    if k != "BB":
                        raise Unsupported("tuple unpacking of " + k)
                    out.append(f"{ind}let {v(tg.elts[0].id)} : Bytes := {t}.1")
                    out.append(f"{ind}let {v(tg.elts[1].id)} : Bytes := {t}.2")
                    self.types[tg.elts[0].id] = "B"; self.types[tg.elts[1].id] = "B"
                    i += 1; continue
                if isinstance(tg, ast.Name) and isinstance(st.value, ast.Call) and ast.unparse(st.value.func) == "_Cipher":
                    self.cipher_new(tg.id, st.value, out, ind)
                    i += 1; continue
                if isinstance(tg, ast.Name) and isinstance(st.value, ast.Call) and isinstance(st.value.func, ast.Attribute) \
                        and st.value.func.attr in ("encryptor", "decryptor") and isinstance(st.value.func.value, ast.Name) \
                        and not st.value.args:
                    self.ctx_new(tg.id, st.value, out, ind)
                    i += 1; continue
                if isinstance(tg, ast.Name):
                    if isinstance(st.value, ast.Constant) and isinstance(st.value.value, bool):
                        out.append(f"{ind}let {v(tg.id)} : Bool := {'true' if st.value.value else 'false'}")
                        self.types[tg.id] = "BOOL"; self.shared.discard(tg.id)
                        i += 1; continue
                    t, k = self.expr(st.value, out, ind)
                    if k == "P":                             # a flag: the value of a condition kept in a local
                        out.append(f"{ind}let {v(tg.id)} : Bool := decide {t}")
                        self.types[tg.id] = "BOOL"; self.shared.discard(tg.id)
                        i += 1; continue
                    out.append(f"{ind}let {v(tg.id)} : {LEAN_TY[k]} := {t}")
                    self.types[tg.id] = k
                    if isinstance(st.value, ast.Name) and st.value.id in self.shared:
                        self.shared.add(tg.id)
                    else:
                        self.shared.discard(tg.id)
                    i += 1; continue
                if isinstance(tg, ast.Subscript) and isinstance(tg.value, ast.Name) and const_int(tg.slice) is not None \
                        and self.types.get(tg.value.id) == "B" and const_int(st.value) is not None:
                    self.no_inplace(tg.value.id, ast.unparse(st))
                    out.append(f"{ind}let {v(tg.value.id)} : Bytes := {v(tg.value.id)}.set {const_int(tg.slice)} 0x{const_int(st.value):02X}")
                    i += 1; continue
                raise Unsupported("assignment " + ast.unparse(st))
            if isinstance(st, ast.If):
                if self.if_stmt(st, rest, out, ind, ret_kind):
                    return True
                i += 1; continue
            if isinstance(st, ast.For):
                self.for_enumerate(st, out, ind)
                i += 1; continue
            if isinstance(st, ast.FunctionDef):
                self.nested_def(st)
                i += 1; continue
            raise Unsupported("statement " + type(st).__name__ + ": " + ast.unparse(st)[:80])
        return False

    KIND_CLASSES = {"B": {"bytes", "bytearray"}, "S": {"str"}, "SB": {"str", "bytes"}, "N": {"int"}, "I": {"int"},
                    "OB": {"bytes", "bytearray", "NoneType"}, "OSB": {"str", "bytes", "NoneType"}, "ON": {"int", "NoneType"}}
    KNOWN_CLASSES = {"bytes", "bytearray", "memoryview", "str", "int", "float", "complex", "list", "tuple", "dict", "set", "frozenset",
                     "_array.array", "array.array"}

    def static_isinstance(self, t):
        """`isinstance(x, T)` / `not isinstance(x, T)` decided by the kind of `x` (the values the theorem quantifies over):
        False when no class of T can hold such a value, True when T names every class the kind stands for; else None"""
        neg = False
        if isinstance(t, ast.UnaryOp) and isinstance(t.op, ast.Not):
            neg = True; t = t.operand
        if not (isinstance(t, ast.Call) and ast.unparse(t.func) == "isinstance" and len(t.args) == 2 and not t.keywords
                and isinstance(t.args[0], ast.Name)):
            return None
        have = self.KIND_CLASSES.get(self.types.get(t.args[0].id))
        T = t.args[1]
        names = [ast.unparse(x) for x in (T.elts if isinstance(T, ast.Tuple) else [T])]
        if have is None or not names or not all(n in self.KNOWN_CLASSES for n in names):
            return None
        ts = set(names)
        if "int" in have and ("float" in ts or "complex" in ts):
            pass                                           # disjoint from int as well
        if not (ts & have):
            return neg
        if have <= ts:
            return not neg
        return None

    def if_stmt(self, st, rest, out, ind, ret_kind):
        """returns True when the translation of `st` also consumed `rest` (all paths closed)"""
        t = st.test
        sv = self.static_isinstance(t)
        if sv is not None:                                  # a branch no value of the parameter's kind can take
            return self.block(list(st.body if sv else st.orelse), out, ind, ret_kind)
        # --- `x is None` / `x is not None`
        if isinstance(t, ast.Compare) and len(t.ops) == 1 and isinstance(t.ops[0], (ast.Is, ast.IsNot)) \
                and isinstance(t.left, ast.Name) and isinstance(t.comparators[0], ast.Constant) and t.comparators[0].value is None:
            x = t.left.id; kx = self.types.get(x, "")
            if isinstance(t.ops[0], ast.Is) and not st.orelse and len(st.body) == 1 and isinstance(st.body[0], ast.Assign) \
                    and isinstance(st.body[0].targets[0], ast.Name) and st.body[0].targets[0].id == x and kx in ("ON", "OB", "OPT", "OSB"):
                d, kd_ = self.expr(st.body[0].value, out, ind)
                new = {"ON": "N", "OB": "B", "OPT": "PT", "OSB": "SB"}[kx]
                d = self.coerce(d, kd_, new)
                out.append(f"{ind}let {v(x)} : {LEAN_TY[new]} := {v(x)}.getD {d}")
                self.types[x] = new
                return False
            if isinstance(t.ops[0], ast.IsNot) and not st.orelse and kx in ("OS",):
                # `if current_pin is not None:` body uses the unwrapped value and rebinds outer names
                assigned = self.assigned_names(st.body)
                live = [n for n in assigned if n in self.types]
                if not live:
                    raise Unsupported("if-body without effect")
                tup = ", ".join(v(n) for n in live)
                tys = " × ".join(LEAN_TY[self.types[n]] for n in live)
                pat = f"({tup})" if len(live) > 1 else tup
                out.append(f"{ind}let {pat} : {tys} ← (match {v(x)} with")
                out.append(f"{ind}  | none => pure {pat}")
                out.append(f"{ind}  | some u_{x} => do")
                saved = dict(self.types)
                self.types[x] = "S"
                inner = []
                inner.append(f"{ind}      let {v(x)} : PyStr := u_{x}")
                if self.block(st.body, inner, ind + "      ", ret_kind):
                    raise Unsupported("return inside `is not None` body")
                inner.append(f"{ind}      pure {pat})")
                out += inner
                for n in live:
                    saved[n] = self.types[n]
                self.types = saved
                return False
            raise Unsupported("None-test " + ast.unparse(t))
        # --- `isinstance(x, bytes): x = x.decode("ascii")`
        if isinstance(t, ast.Call) and ast.unparse(t.func) == "isinstance" and ast.unparse(t.args[1]) == "bytes" \
                and isinstance(t.args[0], ast.Name) and not st.orelse and len(st.body) == 1:
            x = t.args[0].id; b = st.body[0]
            if isinstance(b, ast.Assign) and ast.unparse(b.targets[0]) == x and ast.unparse(b.value) in (f"{x}.decode('ascii')", f'{x}.decode("ascii")'):
                kx = self.types.get(x)
                if kx == "SB":
                    out.append(f"{ind}let {v(x)} : PyStr ← {v(x)}.text")
                    self.types[x] = "S"
                    return False
                if kx == "OSB":
                    out.append(f"{ind}let {v(x)} : Option PyStr ← (match {v(x)} with | none => pure none | some c => do let t ← c.text; pure (some t))")
                    self.types[x] = "OS"
                    return False
            raise Unsupported("isinstance pattern " + ast.unparse(st)[:80])
        # --- `if not isinstance(padding_type, PaddingType): raise TypeError`
        if isinstance(t, ast.UnaryOp) and isinstance(t.op, ast.Not) and isinstance(t.operand, ast.Call) \
                and ast.unparse(t.operand.func) == "isinstance" and ast.unparse(t.operand.args[1]) == "PaddingType":
            x = t.operand.args[0].id
            if self.types.get(x) == "PT" and len(st.body) == 1 and isinstance(st.body[0], ast.Raise) and not st.orelse:
                out.append(f"{ind}if {v(x)} = PaddingType.other then throw {self.exc_class(st.body[0])}")
                return False
            raise Unsupported("isinstance(PaddingType) pattern")
        # --- general condition
        if isinstance(t, ast.Compare) and len(t.ops) == 1 and isinstance(t.left, ast.BinOp) is False and \
                isinstance(t.ops[0], ast.Eq) is False and False:
            pass
        cond_out = []
        c, kc = self.truthy(t, cond_out, ind)
        out += cond_out
        # guard: body raises, no else
        if len(st.body) == 1 and isinstance(st.body[0], ast.Raise) and not st.orelse:
            out.append(f"{ind}if {c} then throw {self.exc_class(st.body[0])}")
            return False
        # branch that returns/raises on all paths: if c then (body) else (rest)
        body_out = []; saved = dict(self.types)
        closed = self.block(st.body, body_out, ind + "  ", ret_kind)
        if closed:
            self.types = saved
            else_out = []
            stmts = (list(st.orelse) if st.orelse else []) + list(rest)
            if not self.block(stmts, else_out, ind + "  ", ret_kind):
                raise Unsupported("path without return after " + ast.unparse(t))
            out.append(f"{ind}if {c} then do")
            out += body_out
            out.append(f"{ind}else do")
            out += else_out
            return True
        # branches that assign (an else branch may instead raise on every path)
        self.types = dict(saved)
        names_b = self.assigned_names(st.body)
        b_out = []; self.types = dict(saved)
        self.block(st.body, b_out, ind + "    ", ret_kind)
        tb = dict(self.types)
        e_out = []; self.types = dict(saved)
        else_raises = False
        if st.orelse:
            else_raises = self.block(st.orelse, e_out, ind + "    ", ret_kind)
            if else_raises and any(ln.strip().startswith("pure ") for ln in e_out):
                raise Unsupported("else branch returns a value while the if branch falls through")
            te = dict(self.types)
        if st.orelse and not else_raises:
            names_e = self.assigned_names(st.orelse)
            if sorted(names_b) != sorted(names_e):
                raise Unsupported("if/else assign different names")
            live = names_b
            for n in live:
                if tb[n] != te[n]:
                    raise Unsupported("if/else give different kinds to " + n)
        elif st.orelse:
            live = names_b
        else:
            live = [n for n in names_b if n in saved]
            if not live:
                raise Unsupported("if without else introduces only new names")
        pat = "(" + ", ".join(v(n) for n in live) + ")" if len(live) > 1 else v(live[0])
        tys = " × ".join(LEAN_TY[tb[n]] for n in live)
        out.append(f"{ind}let {pat} : {tys} ← (if {c} then do")
        out += b_out
        out.append(f"{ind}    pure {pat}")
        out.append(f"{ind}  else do")
        out += e_out
        if not else_raises:
            out.append(f"{ind}    pure {pat})")
        else:
            out[-1] += ")"
        self.types = dict(saved)
        for n in live:
            self.types[n] = tb[n]
        return False

    def truthy(self, t, out, ind):
        """a condition as a Lean Prop"""
        if isinstance(t, ast.UnaryOp) and isinstance(t.op, ast.Not):
            c, k = self.truthy(t.operand, out, ind)
            return f"(¬ {c})", "P"
        c, k = self.expr(t, out, ind)
        if k == "P":
            return c, k
        if k == "N":
            return f"({c} ≠ 0)", "P"
        raise Unsupported("condition of kind " + k)

    def nested_def(self, fn):
        """a function defined inside the function being translated: lifted to a definition of its own that
        takes the variables it closes over as leading parameters; direct recursion is accepted in the one form
        `if <p> == 0: return …` first, recursive calls passing `<p> - 1` — structural recursion on `<p>`"""
        a = fn.args
        if a.vararg or a.kwarg or a.kwonlyargs or a.posonlyargs or a.defaults:
            raise Unsupported("nested def parameters")
        kinds = []
        for p in a.args:
            ann = ast.unparse(p.annotation) if p.annotation else None
            if ann not in ANN:
                raise Unsupported(f"nested def annotation {ann}")
            kinds.append(ANN[ann])
        rann = ast.unparse(fn.returns) if fn.returns else None
        rk = {"bytes": "B", "_typing.Tuple[bytes, bytes]": "BB"}.get(rann)
        if rk is None:
            raise Unsupported(f"nested def return annotation {rann}")
        free = sorted({n.id for n in ast.walk(fn) if isinstance(n, ast.Name)} & set(self.types) - {p.arg for p in a.args})
        lean = f"Gen.{self.mod}.{self.fn.name}.{fn.name}"
        G = Fn(self.mod, self.fn)
        G.local_fns = dict(self.local_fns)
        G.types = {n: self.types[n] for n in free}
        for p, k in zip(a.args, kinds):
            G.types[p.arg] = k
        body = [s for s in fn.body if not (isinstance(s, ast.Expr) and isinstance(s.value, ast.Constant))]
        recursive = any(isinstance(n, ast.Call) and isinstance(n.func, ast.Name) and n.func.id == fn.name for n in ast.walk(fn))
        clos_sig = " ".join(f"({v(n)} : {LEAN_TY[self.types[n]]})" for n in free)
        lines = []
        if not recursive:
            sig = " ".join(f"({v(p.arg)} : {LEAN_TY[k]})" for p, k in zip(a.args, kinds))
            if not G.block(body, lines, "  ", rk):
                raise Unsupported("nested def path without return")
            self.pre_defs.append(f"def {self.fn.name}.{fn.name} {clos_sig} {sig} : R ({LEAN_TY[rk]}) := do")
            self.pre_defs += lines + [""]
        else:
            first = body[0]
            if not (isinstance(first, ast.If) and not first.orelse and isinstance(first.test, ast.Compare)
                    and isinstance(first.test.left, ast.Name) and isinstance(first.test.ops[0], ast.Eq)
                    and const_int(first.test.comparators[0]) == 0 and len(first.body) == 1 and isinstance(first.body[0], ast.Return)):
                raise Unsupported("recursive nested def must start with `if <p> == 0: return …`")
            rp = first.test.left.id
            idx = [p.arg for p in a.args].index(rp)
            if kinds[idx] != "N" or idx != len(kinds) - 1:
                raise Unsupported("recursion parameter must be the last, an int")
            others = " ".join(f"({v(p.arg)} : {LEAN_TY[k]})" for p, k in list(zip(a.args, kinds))[:-1])
            base = []
            G0 = Fn(self.mod, self.fn); G0.types = dict(G.types); G0.local_fns = dict(G.local_fns)
            if not G0.block(first.body, base, "    ", rk):
                raise Unsupported("base case")
            G.rec = (fn.name, rp, "p_" + rp, (lean, free, kinds, rk), idx)
            step = [f"    let {v(rp)} : Nat := p_{rp} + 1"]
            if not G.block(body[1:], step, "    ", rk):
                raise Unsupported("recursive case path without return")
            self.pre_defs.append(f"def {self.fn.name}.{fn.name} {clos_sig} {others} : Nat → R ({LEAN_TY[rk]})")
            self.pre_defs.append("  | 0 => do")
            self.pre_defs += base
            self.pre_defs.append(f"  | p_{rp} + 1 => do")
            self.pre_defs += step + [""]
        self.pre_defs = G.pre_defs + self.pre_defs
        self.local_fns[fn.name] = (lean, free, kinds, rk)

    def for_enumerate(self, st, out, ind):
        """`for i, x in enumerate(A): if cond(x): A[i] op= c` — each iteration reads and writes element i only,
        so the loop is a map over A"""
        if st.orelse or not (isinstance(st.iter, ast.Call) and ast.unparse(st.iter.func) == "enumerate" and len(st.iter.args) == 1
                             and isinstance(st.iter.args[0], ast.Name) and isinstance(st.target, ast.Tuple) and len(st.target.elts) == 2):
            raise Unsupported("for loop " + ast.unparse(st)[:60])
        arr = st.iter.args[0].id
        iv_, xv = st.target.elts[0].id, st.target.elts[1].id
        if self.types.get(arr) != "B" or len(st.body) != 1 or not isinstance(st.body[0], ast.If) or st.body[0].orelse:
            raise Unsupported("for loop body")
        inner = st.body[0]
        if len(inner.body) != 1 or not isinstance(inner.body[0], ast.AugAssign):
            raise Unsupported("for loop body")
        aug = inner.body[0]
        self.no_inplace(arr, ast.unparse(aug))
        if not (isinstance(aug.target, ast.Subscript) and ast.unparse(aug.target.value) == arr and ast.unparse(aug.target.slice) == iv_
                and const_int(aug.value) is not None and isinstance(aug.op, (ast.BitXor, ast.BitOr, ast.BitAnd))):
            raise Unsupported("for loop update " + ast.unparse(aug))
        for n in ast.walk(inner.test):
            if isinstance(n, ast.Name) and n.id in (arr, iv_):
                raise Unsupported("loop condition reads the array or the index")
        saved = dict(self.types)
        self.types[xv] = "U8"
        cond_out = []
        c, _ = self.truthy(inner.test, cond_out, ind)
        if cond_out:
            raise Unsupported("monadic call in a loop condition")
        self.types = saved
        op = {ast.BitXor: "^^^", ast.BitOr: "|||", ast.BitAnd: "&&&"}[type(aug.op)]
        out.append(f"{ind}let {v(arr)} : Bytes := {v(arr)}.map fun {v(xv)} => if {c} then {v(xv)} {op} {const_int(aug.value)} else {v(xv)}")

    def assigned_names(self, stmts):
        out = []
        for s in stmts:
            if isinstance(s, ast.Assign) and isinstance(s.targets[0], ast.Name):
                if s.targets[0].id not in out:
                    out.append(s.targets[0].id)
            elif isinstance(s, ast.AugAssign) and isinstance(s.target, ast.Name):
                if s.target.id not in out:
                    out.append(s.target.id)
            elif isinstance(s, ast.If):
                for n in self.assigned_names(s.body) + self.assigned_names(s.orelse):
                    if n not in out:
                        out.append(n)
        return out


ENUMS = {"PaddingType": {"VISA": 1, "EMV": 2}, "EncryptionType": {"VISA": 1, "MASTERCARD": 2, "EMV": 3}}


def check_module(mod, tree):
    """nothing at module level may carry state or wrap a function: only imports, `__all__`, the docstring,
    plain function definitions (no decorators) and the two Enum classes with exactly their documented members"""
    for n in tree.body:
        if isinstance(n, (ast.Import, ast.ImportFrom)):
            continue
        if isinstance(n, ast.Expr) and isinstance(n.value, ast.Constant) and isinstance(n.value.value, str):
            continue
        if isinstance(n, ast.Assign) and len(n.targets) == 1 and isinstance(n.targets[0], ast.Name) and n.targets[0].id == "__all__":
            continue
        if isinstance(n, ast.FunctionDef):
            if n.decorator_list:
                raise Unsupported(f"{mod}.{n.name}: decorator {ast.unparse(n.decorator_list[0])}")
            continue
        if isinstance(n, ast.ClassDef) and n.name in ENUMS and [ast.unparse(b) for b in n.bases] == ["_Enum"] and not n.decorator_list:
            members = {}
            for st in n.body:
                if isinstance(st, ast.Expr) and isinstance(st.value, ast.Constant):
                    continue
                if isinstance(st, ast.Assign) and len(st.targets) == 1 and isinstance(st.targets[0], ast.Name) and const_int(st.value) is not None:
                    members[st.targets[0].id] = const_int(st.value)
                else:
                    raise Unsupported(f"{mod}.{n.name}: member {ast.unparse(st)[:40]}")
            if members != ENUMS[n.name]:
                raise Unsupported(f"{mod}.{n.name}: members {members} differ from the documented {ENUMS[n.name]}")
            continue
        if isinstance(n, ast.ClassDef) and n.name not in ENUMS and pynorm_inert_class(n):
            continue                                     # a further class no translated function can reach (its name would be refused)
        raise Unsupported(f"{mod}: module-level statement `{ast.unparse(n)[:60]}`")


def pynorm_inert_class(n):
    import pynorm
    return pynorm.inert_class(n)


def translate_function(mod, name, fns):
    if name not in fns:
        raise Unsupported(f"{mod}.{name} not found")
    fn = fns[name]
    F = Fn(mod, fn)
    a = fn.args
    if a.vararg or a.kwarg or a.kwonlyargs or a.posonlyargs:
        raise Unsupported(f"{mod}.{name}: parameter kinds")
    kinds = []
    for p in a.args:
        ann = ast.unparse(p.annotation) if p.annotation else None
        if ann not in ANN:
            raise Unsupported(f"{mod}.{name}: annotation {ann}")
        k = "I" if (mod, name, p.arg) in INT_PARAMS else ANN[ann]
        F.types[p.arg] = k; kinds.append(k)
    rann = ast.unparse(fn.returns) if fn.returns else None
    rk = {"bytes": "B", "str": "S", "int": "N"}.get(rann)
    if rk is None:
        raise Unsupported(f"{mod}.{name}: return annotation {rann}")
    body = []
    if not F.block(fn.body, body, "  ", rk):
        raise Unsupported(f"{mod}.{name}: a path does not return")
    sig = " ".join(f"({v(p.arg)} : {LEAN_TY[k]})" for p, k in zip(a.args, kinds))
    pure = not any(("←" in ln) or ("throw" in ln) or (" if " in ln) or ln.strip().startswith("if ") for ln in body)
    out = list(F.pre_defs)
    if pure:
        out.append(f"def {name} {sig} : {LEAN_TY[rk]} :=")
        out += [ln.replace("  pure ", "  ", 1) if ln.strip().startswith("pure ") else ln for ln in body]
    else:
        out.append(f"def {name} {sig} : R {LEAN_TY[rk]} := do")
        out += body
    out.append("")
    GEN[f"{mod}.{name}"] = (f"Gen.{mod}.{name}", kinds, rk, not pure)
    return out


# signatures of the translated functions on the pinned tree: what a stand-in for an untranslatable one looks like
SHAPES = {}


def placeholder(mod, name, fn):
    """a definition with the pinned signature that raises on every input (no refinement theorem holds of it)"""
    kinds, rk = SHAPES.get(f"{mod}.{name}", (None, None))
    if kinds is None:
        kinds = []; rk = "B"
        if fn is not None:
            for p in fn.args.args:
                ann = ast.unparse(p.annotation) if p.annotation else None
                kinds.append("I" if (mod, name, p.arg) in INT_PARAMS else ANN.get(ann, "B"))
            rk = {"bytes": "B", "str": "S", "int": "N"}.get(ast.unparse(fn.returns) if fn and fn.returns else None, "B")
    sig = " ".join(f"(_a{i} : {LEAN_TY[k]})" for i, k in enumerate(kinds))
    GEN[f"{mod}.{name}"] = (f"Gen.{mod}.{name}", kinds, rk, True)
    return [f"/-- UNTRANSLATED: the current source of `{mod}.{name}` is outside the translator's subset -/",
            f"def {name} {sig} : R {LEAN_TY[rk]} := throw .valueError", ""]


def translate(repo):
    out = ["import PyemvModel",
           "/-! GENERATED by harness/translate_py.py from pyemv/{tools,mac,ac,kd,sm,cvv}.py — do not edit. -/",
           "namespace Pyemv.Gen", "open Pyemv", "",
           "/-- `int.to_bytes(n, k, \"little\")`; `OverflowError` when `n` does not fit -/",
           "def toBytesLE (k n : Nat) : R Bytes := if n < 256 ^ k then .ok (toLE k n) else .error .overflowError",
           "/-- `a % b` / `a // b` on non-negative integers; `ZeroDivisionError` when `b = 0` -/",
           "def pyMod (a b : Nat) : R Nat := if b = 0 then .error .zeroDivision else .ok (a % b)",
           "def pyDiv (a b : Nat) : R Nat := if b = 0 then .error .zeroDivision else .ok (a / b)", ""]
    failures = {}
    import pynorm
    trees = {mod: ast.parse(open(os.path.join(repo, "pyemv", mod + ".py")).read()) for mod in FUNCS}
    sigs = {}
    for mod, t in trees.items():
        for n in t.body:
            if isinstance(n, ast.FunctionDef) and not (n.args.vararg or n.args.kwarg or n.args.kwonlyargs or n.args.posonlyargs):
                sigs[f"{mod}.{n.name}"] = [a.arg for a in n.args.args]
    for mod, names in FUNCS.items():
        aliases = dict(ALIASES)
        aliases.update({q.split(".", 1)[1]: q for q in sigs if q.startswith(mod + ".")})
        aliases.update({"_" + q: q for q in sigs})          # `_tools.xor`, `_mac.pad_iso9797_2`, … (module aliases)
        # harmless rewrites (module constants, private helpers, chained comparisons, …) are brought to the form the
        # translator reads (harness/pynorm.py); what is left over is judged as before
        bind_problem = None
        try:
            pynorm.check_package(repo)
            trees[mod] = pynorm.housekeeping(trees[mod], mod)   # inert statements dropped, annotations of unchanged signatures restored
            pynorm.check_bindings(trees[mod])            # every name the translator reads by its spelling means what it says
        except pynorm.Binding as e:
            bind_problem = f"{mod}: {e}"
        tree = pynorm.normalise(trees[mod], public=names, signatures=sigs, aliases=aliases)
        mod_problem = bind_problem
        try:
            check_module(mod, tree)
        except Unsupported as e:
            mod_problem = mod_problem or str(e)                         # module-level state / decorators: no function of it can be trusted
        fns = {n.name: n for n in tree.body if isinstance(n, ast.FunctionDef)}
        out.append(f"namespace {mod}")
        for name in names:
            try:
                if mod_problem:
                    raise Unsupported(mod_problem)
                out += translate_function(mod, name, fns)
                if (mod, name) == ("tools", "xor"):
                    # the same source once more, read as a big-endian host reads it (only `xor` consults the byte order)
                    BIG_ENDIAN_HOST[0] = True
                    try:
                        be = translate_function(mod, name, fns)
                    finally:
                        BIG_ENDIAN_HOST[0] = False
                    out += [ln.replace("def xor ", "def xor_bigendian ", 1) if ln.startswith("def xor ") else ln for ln in be]
            except Exception as e:  # noqa: BLE001  (Unsupported, or a construct the translator trips over)
                if not isinstance(e, Unsupported):
                    e = Unsupported(f"the translator could not read it ({type(e).__name__}: {e})")
                # an untranslatable function is replaced by a stand-in of the same shape that no refinement theorem can
                # be proved about; its own theorem and those of its callers fail, nothing else does
                failures[f"{mod}.{name}"] = str(e)
                out += placeholder(mod, name, fns.get(name))
                if (mod, name) == ("tools", "xor"):
                    out += [ln.replace("def xor ", "def xor_bigendian ", 1) for ln in placeholder(mod, name, fns.get(name))]
        out.append(f"end {mod}")
        out.append("")
    out.append("end Pyemv.Gen")
    return "\n".join(out) + "\n", failures


if __name__ == "__main__":
    import json
    text, failures = translate(sys.argv[1])
    path = sys.argv[2]
    with open(path + ".failures.json", "w") as f:
        json.dump(failures, f, indent=1)
    for k, m in failures.items():
        print(f"translate_py: unsupported construct in {k}: {m}")
    old = open(path).read() if os.path.exists(path) else None
    if old != text:
        os.makedirs(os.path.dirname(path), exist_ok=True)
        with open(path, "w") as f:
            f.write(text)
    print("translate_py: ok" if not failures else f"translate_py: {len(failures)} function(s) not translated")
    sys.exit(3 if failures else 0)
