import typing as _typing

from cryptography.hazmat.backends import default_backend as _default_backend
from cryptography.hazmat.primitives.ciphers import Cipher as _Cipher
from cryptography.hazmat.primitives.ciphers import algorithms as _algorithms
from cryptography.hazmat.primitives.ciphers import modes as _modes

__all__ = [
    "mac_iso9797_3",
    "pad_iso9797_1",
    "pad_iso9797_2",
]


def mac_iso9797_3(
    key1: bytes,
    key2: bytes,
    data: bytes,
    padding: int,
    length: _typing.Optional[int] = None,
) -> bytes:
    r"""ISO/IEC 9797-1 MAC algorithm 3. Requires two independent keys.
    Only the last data block is processed using TDES,
    all previous blocks are processed using single DES.

    Parameters
    ----------
    key1 : bytes
        Binary MAC key used in initial transformation.
        Has to be a valid DES key.
    key2 : bytes
        Binary MAC key used  in output transformation.
        Has to be a valid DES key.
    data : bytes
        Data to be MAC'd.
    padding : int
        Padding method of `data`.

            - 1 = ISO/IEC 9797-1 method 1.
            - 2 = ISO/IEC 9797-1 method 2.

    length : int, optional
        Desired length of AC [4 <= N <= 8] (default 8 bytes).

    Returns
    -------
    mac : bytes
        Returns a binary MAC of requested length

    Raises
    ------
    ValueError
        Invalid padding method specified

    Notes
    -----
    See https://en.wikipedia.org/wiki/ISO/IEC_9797-1 for the
    algorithm reference.

    See Also
    --------
    pyemv.mac.pad_iso9797_1 : ISO/IEC 9791-1 padding method 1
    pyemv.mac.pad_iso9797_2 : ISO/IEC 9791-1 padding method 2
    pyemv.mac.pad_iso9797_3 : ISO/IEC 9791-1 padding method 3

    Examples
    --------
    >>> from pyemv.mac import mac_iso9797_3
    >>> key1 = bytes.fromhex("0123456789ABCDEFFEDCBA9876543210")
    >>> key2 = bytes.fromhex("FEDCBA98765432100123456789ABCDEF")
    >>> data = bytes.fromhex("1234567890ABCDEF")
    >>> mac_iso9797_3(key1, key2, data, padding=2).hex().upper()
    '644AA5C915DBDAF8'
    """
    if length is None:
        length = 8

    if padding == 1:
        data = pad_iso9797_1(data, 8)
    elif padding == 2:
        data = pad_iso9797_2(data, 8)
    else:
        raise ValueError("Specify valid padding method: 1 or 2.")

    # Encrypt first block with key1 then
    # encrypt the rest of the data in CBC mode
    cipher1 = _Cipher(
        _algorithms.TripleDES(key1),
        _modes.CBC(b"\x00\x00\x00\x00\x00\x00\x00\x00"),
        backend=_default_backend(),
    )
    encryptor1 = cipher1.encryptor()
    data = encryptor1.update(data)[-8:]

    # Decrypt the last block with key2 and then encrypt it with key1
    cipher2 = _Cipher(
        _algorithms.TripleDES(key2), _modes.CBC(data), backend=_default_backend()
    )
    decryptor2 = cipher2.decryptor()
    return encryptor1.update(decryptor2.update(data))[:length]


def pad_iso9797_1(data: bytes, block_size: _typing.Optional[int] = None) -> bytes:
    r"""ISO/IEC 9797-1 padding method 1.
    Add the smallest number of "0x00" bytes to the right
    such that the length of resulting message is a multiple of
    `block_size` bytes. If the data is already multiple of
    `block_size` bytes then no bytes added

    Parameters
    ----------
    data : bytes
        Data to be padded
    block_size : int, optional
        Padded data will be multiple of specified block size (default 8).

    Returns
    -------
    bytes
        Padded data

    Notes
    -----
    See https://en.wikipedia.org/wiki/ISO/IEC_9797-1 for the
    algorithm reference.

    Examples
    --------
    >>> from pyemv.mac import pad_iso9797_1
    >>> pad_iso9797_1(bytes.fromhex("1234")).hex().upper()
    '1234000000000000'
    """
    if block_size is None:
        block_size = 8

    remainder = len(data) % block_size
    if remainder > 0:
        return data + (b"\x00" * (block_size - remainder))

    if len(data) == 0:
        return b"\x00" * block_size

    return data


def pad_iso9797_2(data: bytes, block_size: _typing.Optional[int] = None) -> bytes:
    r"""ISO/IEC 9797-1 padding method 2 (equivalent to ISO/IEC 7816-4).
    Add a mandatory "0x80" byte to the right of data,
    and then add the smallest number of "0x00" bytes to the right
    such that the length of resulting message is a multiple of
    `block_size` bytes.

    Parameters
    ----------
    data : bytes
        Data to be padded
    block_size : int, optional
        Padded data will be multiple of specified block size (default 8).

    Returns
    -------
    bytes
        Padded data

    Notes
    -----
    See https://en.wikipedia.org/wiki/ISO/IEC_9797-1 for the
    algorithm reference.

    Examples
    --------
    >>> from pyemv.mac import pad_iso9797_2
    >>> pad_iso9797_2(bytes.fromhex("1234")).hex().upper()
    '1234800000000000'
    """
    if block_size is None:
        block_size = 8

    return pad_iso9797_1(data + b"\x80", block_size)
