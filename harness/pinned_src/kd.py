r"""Cryptographic key derivation functions for the ICC Master Keys and ICC Session Keys.

ICC Master Key derivation method A:

    >>> import pyemv
    >>> iss_mk = bytes.fromhex('0123456789ABCDEFFEDCBA9876543210')
    >>> pan = '99012345678901234'
    >>> psn = '45'
    >>> icc_mk = pyemv.kd.derive_icc_mk_a(iss_mk, pan, psn)
    >>> icc_mk.hex().upper()
    '67F8292358083E5EA7AB7FDA58D53B6B'
"""

import binascii as _binascii
import hashlib as _hashlib
import typing as _typing

from pyemv import tools as _tools

__all__ = [
    "derive_icc_mk_a",
    "derive_icc_mk_b",
    "derive_common_sk",
    "derive_visa_sm_sk",
    "derive_emv2000_tree_sk",
]


def derive_icc_mk_a(
    iss_mk: bytes,
    pan: _typing.Union[bytes, str],
    psn: _typing.Optional[_typing.Union[bytes, str]] = None,
) -> bytes:
    r"""ICC Master Key Derivation. EMV Option A.
    Uses PAN, PAN Sequence Number, MK ISS, Triple DES.

    Parameters
    ----------
    iss_mk : bytes
        Binary Issuer Master Key to derive ICC Master Key from.
        Has to be a valid DES key.
    pan : bytes or str
        ASCII Application Primary Account Number.
    psn : bytes or str, optional
        ASCII 2-digit PAN Sequence Number (default 00).

    Returns
    -------
    icc_mk : bytes
        Binary 16-byte ICC Master Key.

    Notes
    -----
    Derived from Issuer Master Key (iss_mk).
    Uses EMV Option A - Master Key Derivation method which uses
    the PAN and PAN sequence number, as defined in EMV Book 2, Annex A.

    When a card is personalised the issuer will take the 3 iss_mk keys
    and calculate the 3 icc_mk keys to be stored on the card.

        - icc_mk_ac - used for the transaction cryptograms (ARQC, TC or AAC)
        - icc_mk_smi - used for Issuer Script Integrity
        - icc_mk_smc - used for Issuer Script Confidentiality

    For further details see also:
        - EMV 4.3 Book 2 Annex A 1.4 Master Key Derivation
        - EMV 4.3 Book 2 Annex A 1.4.1 Option A

    Examples
    --------
    >>> from pyemv import kd
    >>> iss_mk = bytes.fromhex("0123456789ABCDEFFEDCBA9876543210")
    >>> icc_mk = kd.derive_icc_mk_a(iss_mk, pan="12345678901234567", psn="01")
    >>> icc_mk.hex().upper()
    '73AD54688CEF2934B0979857E3C719F1'
    """
    if psn is None:
        psn = "00"

    if isinstance(psn, bytes):
        psn = psn.decode("ascii")

    if isinstance(pan, bytes):
        pan = pan.decode("ascii")

    # Data A must be at most 16 digits, right-justified,
    # zero-padded from the left.
    data_a = _binascii.a2b_hex((pan + psn)[-16:].zfill(16))

    # Data B is inverted data A
    data_b = _tools.xor(data_a, b"\xFF" * len(data_a))

    icc_mk = _tools.encrypt_tdes_ecb(iss_mk, data_a + data_b)

    return _tools.adjust_key_parity(icc_mk)


def derive_icc_mk_b(
    iss_mk: bytes,
    pan: _typing.Union[bytes, str],
    psn: _typing.Optional[_typing.Union[bytes, str]] = None,
) -> bytes:
    r"""ICC Master Key Derivation. EMV Option B.
    Uses PAN, PAN Sequence Number, MK ISS, Triple DES, SHA-1 and
    decimalisation of hex digits.

    Parameters
    ----------
    iss_mk : bytes
        Binary Issuer Master Key to derive ICC Master Key from.
        Has to be a valid DES key.
    pan : bytes or str
        ASCII Application Primary Account Number.
    psn : bytes or str, optional
        ASCII 2-digit PAN Sequence Number (default 00).

    Returns
    -------
    icc_mk : bytes
        Binary 16-byte ICC Master Key

    Notes
    -----
    Derived from Issuer Master Key (iss_mk).
    Uses EMV Option B - Master Key Derivation method which uses
    the PAN and PAN sequence number, as defined in EMV Book 2, Annex A.

    When a card is personalised the issuer will take the 3 iss_mk keys
    and calculate the 3 icc_mk keys to be stored on the card.

        - icc_mk_ac - used for the transaction cryptograms (ARQC, TC or AAC)
        - icc_mk_smi - used for Issuer Script Integrity
        - icc_mk_smc - used for Issuer Script Confidentiality

    For further details see also:
        - EMV 4.3 Book 2 Annex A 1.4 Master Key Derivation
        - EMV 4.3 Book 2 Annex A 1.4.2 Option B

    Examples
    --------
    >>> from pyemv import kd
    >>> iss_mk = bytes.fromhex("0123456789ABCDEFFEDCBA9876543210")
    >>> icc_mk = kd.derive_icc_mk_b(iss_mk, pan="12345678901234567", psn="01")
    >>> icc_mk.hex().upper()
    'AD406D7F6D7570916D75E5DCAB8CF737'
    """
    # For PANs with length of 16 or less method B works as method A
    if len(pan) <= 16:
        return derive_icc_mk_a(iss_mk, pan, psn)

    if psn is None:
        psn = "00"

    if isinstance(psn, bytes):
        psn = psn.decode("ascii")

    if isinstance(pan, bytes):
        pan = pan.decode("ascii")

    # Data A must be an even number of digits,
    # right-justified, zero-padded from the left.
    if len(pan) % 2:
        pan_psn = _binascii.a2b_hex("0" + pan + psn)
    else:
        pan_psn = _binascii.a2b_hex(pan + psn)

    # Hash PAN || PAN sequence
    digest = _hashlib.sha1(pan_psn).hexdigest()

    # Get first 16 digits out the hash value.
    result = "".join(
        [d for d in digest if d in {"0", "1", "2", "3", "4", "5", "6", "7", "8", "9"}][
            :16
        ]
    )

    # If there are not enough digits, substitute
    # letters using the following decimalization table:
    # Input a b c d e f
    # Table 0 1 2 3 4 5
    if len(result) < 16:
        digest = "".join(
            [d for d in digest if d in {"a", "b", "c", "d", "e", "f"}][
                : 16 - len(result)
            ]
        )
        digest = digest.translate({97: 48, 98: 49, 99: 50, 100: 51, 101: 52, 102: 53})
        result = result + digest

    data_a = _binascii.a2b_hex(result)

    # Data B is inverted data A
    data_b = _tools.xor(data_a, b"\xFF" * len(data_a))

    icc_mk = _tools.encrypt_tdes_ecb(iss_mk, data_a + data_b)

    return _tools.adjust_key_parity(icc_mk)


def derive_common_sk(icc_mk: bytes, r: _typing.Union[bytes, bytearray]) -> bytes:
    r"""EMV Common Session Key Derivation.

    Parameters
    ----------
    icc_mk : bytes
        Binary ICC Master Key to derive session key from.
        Has to be a valid DES key.
    r : bytes, bytearray
        Binary diversification value. Examples of diversification value:

            - R = ATC || 00 || 00 || 00 || 00 || 00 || 00 (AC Session Keys)
            - R = ARQC (Secure Messaging for Integrity and Confidentiality
              Session Keys)
            - R = ATC || 00 || 00 || UN (AC Session Keys)
            - Any other proprietary value

    Returns
    -------
    sk : bytes
        Binary 16-byte Session Key.

    Raises
    ------
    ValueError
        ICC Master Key must be a double length DES key
    ValueError
        Diversification value must be 8 bytes long

    Notes
    -----
    For more information see:
        - EMV 4.3 Book 2 Annex A 1.3 Session Key Derivation
        - EMV 4.3 Book 2 Annex A 1.3.1 Common Session Key Derivation Option

    Examples
    --------
    >>> from pyemv import kd
    >>> mk = bytes.fromhex("0123456789ABCDEFFEDCBA9876543210")
    >>> r = bytes.fromhex("001C000000000000")
    >>> sk = kd.derive_common_sk(mk, r)
    >>> sk.hex().upper()
    'E9FB384AF807B940FEDCEA613461B0C4'
    """
    if len(icc_mk) != 16:
        raise ValueError("ICC Master Key must be a double length DES key")

    if len(r) != 8:
        raise ValueError("Diversification value must be 8 bytes long")

    # SK Key A (i.e. first 8 bytes) = TDES(icc_mk)[r]
    r_a = bytearray(r)
    r_a[2] = 0xF0

    # SK Key B (i.e. second 8 bytes) = TDES(icc_mk)[r]
    r_b = bytearray(r)
    r_b[2] = 0x0F

    sk = _tools.encrypt_tdes_ecb(icc_mk, r_a + r_b)

    return _tools.adjust_key_parity(sk)


def derive_visa_sm_sk(icc_mk: bytes, atc: bytes) -> bytes:
    r"""Visa Secure Messaging Session Key Derivation.

    Parameters
    ----------
    icc_mk : bytes
        Binary ICC Master Key to derive session key from.
        Has to be a valid DES key.
    atc : bytes
        Binary data from tag 9F36 (Application Transaction Counter).

    Returns
    -------
    sk : bytes
        Binary 16-byte Session Key.

    Raises
    ------
    ValueError
        ICC Master Key must be a double length DES key
    ValueError
        ATC value must be 2 bytes long

    Examples
    --------
    >>> from pyemv import kd
    >>> mk = bytes.fromhex("0123456789ABCDEFFEDCBA9876543210")
    >>> atc = bytes.fromhex("001C")
    >>> sk = kd.derive_visa_sm_sk(mk, atc)
    >>> sk.hex().upper()
    '0123456789ABCDF2FEDCBA987654CDF2'
    """
    if len(icc_mk) != 16:
        raise ValueError("ICC Master Key must be a double length DES key")

    if len(atc) != 2:
        raise ValueError("ATC value must be 2 bytes long")

    # SK Key A (i.e. first 8 bytes) = r xor MK Key A
    r = b"\x00" * 6 + atc
    sk_a = _tools.xor(r, icc_mk[:8])

    # SK Key B (i.e. second 8 bytes) = r xor MK Key B
    r = b"\x00" * 6 + _tools.xor(atc, b"\xff\xff")
    sk_b = _tools.xor(r, icc_mk[8:])

    return _tools.adjust_key_parity(sk_a + sk_b)


def derive_emv2000_tree_sk(
    icc_mk: bytes,
    atc: bytes,
    height: int = 8,
    branch_factor: int = 4,
    iv: bytes = b"\x00" * 16,
) -> bytes:
    r"""EMV2000-Tree Session Key Derivation.

    Parameters
    ----------
    icc_mk : bytes
        Binary ICC Master Key to derive session key from.
        Has to be a valid DES key.
    atc : bytes
        Binary data from tag 9F36 (Application Transaction Counter).
    height : int
        Height value used for EMV-Tree derivation. Height controls
        the number of levels of intermediate keys in the tree
        excluding the base level. Set to either 8 or 16.
        The specification recommends value 8. Defaults to 8.
    branch_factor : int
        Branch factor value used for EMV-Tree derivation. Branch factor
        controls number of "child" keys a "parent" key derives.
        The specification recommends value 4. Defaults to 4.
    iv : bytes
        16-byte binary initialization vector used for EMV-Tree derivation.
        The specification recommends IV value of zeros. Defaults to 0s.

    Returns
    -------
    sk : bytes
        Binary 16-byte Session Key.

    Raises
    ------
    ValueError
        ICC Master Key must be a double length DES key
    ValueError
        ATC value must be 2 bytes long
    ValueError
        Initialization vector value must be 16 bytes long
    ValueError
        Number of possible session keys must exceed maximum ATC value

    Notes
    -----
    For more information see:
        - EMV 4.1 Book 2 Annex A 1.3 Session Key Derivation
        - EMV 4.1 Book 2 Annex A 1.3.1 Description
        - EMV 4.1 Book 2 Annex A 1.3.2 Implementation

    This method was replaced by common session key derivation in 2005
    and should not be used for new development.
    See EMVCo specification update bulletin 46 (SU-46).

    Recommended branch factor and tree height combinations are as follow.
    Both combinations produce enough session keys for every possible ATC value.
        - Branch factor 2 and tree height 16
        - Branch factor 4 and tree height 8

    Examples
    --------
    >>> from pyemv import kd
    >>> mk = bytes.fromhex("0123456789ABCDEFFEDCBA9876543210")
    >>> atc = bytes.fromhex("001C")
    >>> sk = kd.derive_emv2000_tree_sk(mk, atc, 8, 4)
    >>> sk.hex().upper()
    'E5BF6D1067F194B0A89B7F5D83BC64A2'
    """
    if len(icc_mk) != 16:
        raise ValueError("ICC Master Key must be a double length DES key")

    if len(atc) != 2:
        raise ValueError("ATC value must be 2 bytes long")

    if len(iv) != 16:
        raise ValueError("Initialization vector value must be 16 bytes long")

    # The number of possible session keys (branch_factor ** height)
    # must exceed the maximum value of the ATC which is 2 ** 16 - 1.
    if branch_factor**height <= 65535:
        raise ValueError(
            "Number of possible session keys must exceed maximum ATC value"
        )

    # F(X,Y,j) := (DES3(X)[YL XOR (j mod b)] || DES3(X)[YR XOR (j mod b) XOR 'F0'])
    def derive(x: bytes, y: bytes, j: int) -> bytes:
        """Map two 16-byte numbers X and Y and an integer j onto a 16-byte number."""
        j_mod_b = int.to_bytes(j % branch_factor, 8, "big")

        # (DES3(X)[YL XOR (j mod b)]
        l_data = _tools.xor(y[:8], j_mod_b)
        l_data = _tools.encrypt_tdes_ecb(x, l_data)

        # DES3(X)[YR XOR (j mod b) XOR 'F0']
        r_data = _tools.xor(y[8:], j_mod_b)
        r_data = _tools.xor(r_data, b"\x00" * 7 + b"\xF0")
        r_data = _tools.encrypt_tdes_ecb(x, r_data)
        return l_data + r_data

    # GP = Grandparent Key
    # IK = Intermediate Key
    # P  = Parent Key
    # H  = Height of the tree
    def walk(j: int, h: int) -> _typing.Tuple[bytes, bytes]:
        """Returns P and GP"""
        # Base case: P = ICC MK, GP = IV
        if h == 0:
            return icc_mk, iv
        p, gp = walk(j // branch_factor, h - 1)
        # Derives an IK from P and GP
        # IK becomes the new parent and current P becomes the new GP
        return derive(p, gp, j), p

    atc_num = int.from_bytes(atc, "big")

    # Derive IKs from the bottom of the tree to the second to last level
    # because GP from that level is required for SK.
    p, gp = walk(atc_num // branch_factor, height - 1)

    # Derive SK from a new IK at the tree height XOR'd by GP.
    sk = _tools.xor(derive(p, gp, atc_num), gp)
    return _tools.adjust_key_parity(sk)
