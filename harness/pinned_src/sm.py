r"""The objectives of secure messaging are to ensure data confidentiality, data
integrity, and authentication of the sender. Data integrity and issuer
authentication are achieved using a MAC. Data confidentiality is achieved
using encipherment of the data field.

Secure Messaging Integrity (MAC):

    >>> import pyemv
    >>> mac = pyemv.sm.generate_command_mac(
    ...     sk_smi=bytes.fromhex('0123456789ABCDEFFEDCBA9876543210'),
    ...     command=bytes.fromhex('8424000008'))
    >>> mac.hex().upper()
    '0BFFF5DF3FAA24E1'

Secure Messaging Confidentiality:

    >>> import pyemv
    >>> pin_block=pyemv.sm.format_iso9564_2_pin_block('9999')
    >>> encrypted_pin = pyemv.sm.encrypt_command_data(
    ...     sk_smc=bytes.fromhex('0123456789ABCDEFFEDCBA9876543210'),
    ...     command_data=pin_block,
    ...     encryption_type=pyemv.sm.EncryptionType.EMV)
    >>> encrypted_pin.hex().upper()
    '5A862D1381CCB94822CFDD706A376178'
"""

import binascii as _binascii
import sys as _sys
import typing as _typing
from enum import Enum as _Enum

from pyemv import mac as _mac
from pyemv import tools as _tools

__all__ = [
    "generate_command_mac",
    "EncryptionType",
    "encrypt_command_data",
    "format_vis_pin_block",
    "format_iso9564_2_pin_block",
]


def generate_command_mac(
    sk_smi: bytes, command: bytes, length: _typing.Optional[int] = None
) -> bytes:
    r"""Message Authentication Code (MAC) for Issuer Script Integrity.

    Parameters
    ----------
    sk_smi : bytes
        Binary ICC Session Key for script integrity (MAC).
    command : bytes
        Binary command to be MACed; may or may not include command data, e.g:

            Command Header || { Command Data if present }

        Some issuers choose to append transaction data, such as ATC and ARQC,
        to the command between header and data. The transaction data is present
        for the MAC calculation but not transmitted.

            Command Header || ATC || ARQC || { Command Data if present }

    length : int, optional
        Desired length of AC [4 <= `length` <= 8] (default 8 bytes).

    Returns
    -------
    mac : bytes
        Binary command MAC.

    Raises
    ------
    ValueError
        Session Key must be a double length DES key

    Notes
    -----
    During a transaction the host may send an Issuer Script. These
    Issuer Scripts allow the issuer to block or unblock an application,
    or unblock or change PIN on the card among other things. These issuer
    scripts are extracted from the host response and sent to the card as
    individual commands. These commands contain a MAC value that the card
    authenticates prior to actioning the script. The MAC can be 4-8 bytes
    in length.

    For further details see also:
        - EMV 4.3 Book 2 Section 9.2 Secure Messaging for Integrity and
          Authentication
        - EMV 4.3 Book 2 Section 9.2.1.2 Format 2
        - EMV 4.3 Book 2 Section 9.2.3 MAC Computation
        - EMV 4.3 Book 2 Annex A 1.2

    Examples
    --------
    >>> from pyemv import sm
    >>> sk_smi = bytes.fromhex("0123456789ABCDEFFEDCBA9876543210")
    >>> command = bytes.fromhex("8424000008")
    >>> atc = bytes.fromhex("FFFF")
    >>> arqc = bytes.fromhex("1234567890123456")
    >>> mac = sm.generate_command_mac(sk_smi, command + atc + arqc)
    >>> mac.hex().upper()
    'E07B8DF1B4184282'
    """
    if len(sk_smi) != 16:
        raise ValueError("Session Key must be a double length DES key")

    return _mac.mac_iso9797_3(sk_smi[:8], sk_smi[-8:], command, 2, length)


class EncryptionType(_Enum):
    VISA = 1
    MASTERCARD = 2
    EMV = 3


def encrypt_command_data(
    sk_smc: bytes, command_data: bytes, encryption_type: EncryptionType
) -> bytes:
    r"""Command Data Encryption for Issuer Script Confidentiality.

    Parameters
    ----------
    sk_smc : bytes
        Binary ICC Session Key for script confidentiality.
    command_data : bytes
        Binary command data, e.g. PUT DATA or PIN block.
    encryption_type : EncryptionType
        Defines triple DES mode and padding method of `command_data`:

            - VISA = Prepend the command data with one byte containing the
              length of the command data. Then pad data according to
              ISO/IEC 9797-1 method 2.
            - MASTERCARD = If the command data is not multiple of 8 bytes then
              pad data according to ISO/IEC 9797-1 method 2.
            - EMV = Pad data according to ISO/IEC 9797-1 method 2.

    Returns
    -------
    encrypted_command_data : bytes
        Binary encrypted command data. Then the resulting command is:

            Header || Encrypted Data || MAC


    Raises
    ------
    ValueError
        Session Key must be a double length DES key
    TypeError
        Encryption type must be EncryptionType Enum

    Notes
    -----
    The Issuer Script sent by the host may contain command data, i.e.
    PUT DATA command on card data or the PIN Change issuer script.
    The issuer may decide to encrypt the command data

    For further details see also:
        - EMV 4.3 Book 2 Section 9.3 Secure Messaging for Confidentiality
        - EMV 4.3 Book 2 Section 9.3.1.2 Format 2
        - EMV 4.3 Book 2 Annex A 1.1

    See Also
    --------
    pyemv.mac.pad_iso9797_2 : ISO/IEC 9797-1 padding method 2

    Examples
    --------
    >>> from pyemv import sm
    >>> sk_smc = bytes.fromhex("0123456789ABCDEFFEDCBA9876543210")
    >>> pin_block = bytes.fromhex("241234FFFFFFFFFF")
    >>> command_data = sm.encrypt_command_data(
    ...     sk_smc, pin_block, sm.EncryptionType.MASTERCARD)
    >>> command_data.hex().upper()
    '9859240AE52820C3'
    """
    if len(sk_smc) != 16:
        raise ValueError("Session Key must be a double length DES key")

    # Prepend data length as a single byte then
    # pad according to ISO/IEC 9797-1 method 2
    if encryption_type == EncryptionType.VISA:
        return _tools.encrypt_tdes_ecb(
            sk_smc,
            _mac.pad_iso9797_2(
                len(command_data).to_bytes(1, _sys.byteorder) + command_data, 8
            ),
        )

    # If the data is not multiple of 8 bytes then
    # pad according to ISO/IEC 9797-1 method 2
    if encryption_type == EncryptionType.MASTERCARD:
        if len(command_data) % 8 > 0:
            return _tools.encrypt_tdes_cbc(
                sk_smc,
                b"\x00\x00\x00\x00\x00\x00\x00\x00",
                _mac.pad_iso9797_2(command_data, 8),
            )
        return _tools.encrypt_tdes_cbc(
            sk_smc, b"\x00\x00\x00\x00\x00\x00\x00\x00", command_data
        )

    # Always pad according to ISO/IEC 9797-1 method 2
    if encryption_type == EncryptionType.EMV:
        return _tools.encrypt_tdes_cbc(
            sk_smc,
            b"\x00\x00\x00\x00\x00\x00\x00\x00",
            _mac.pad_iso9797_2(command_data, 8),
        )

    raise TypeError(
        "Encryption type must be EncryptionType Enum, "
        f"not {encryption_type.__class__.__name__}"
    )


def format_vis_pin_block(
    icc_mk_ac: bytes,
    pin: _typing.Union[bytes, str],
    current_pin: _typing.Optional[_typing.Union[bytes, str]] = None,
) -> bytes:
    r"""Format VIS PIN block with or without the current PIN.

    Parameters
    ----------
    icc_mk_ac : bytes
        Binary 16-byte ICC Master Key for Application Cryptogram
        Has to be a valid DES key.
    pin : bytes or str
        New ASCII Personal Identification Number.
    current_pin : bytes or str, optional
        Current ASCII Personal Identification Number (optional). If present
        VIS PIN block is generated using current PIN.

    Returns
    -------
    pin_block : bytes
        Binary 16-byte VIS PIN block

    Raises
    ------
    ValueError
        PIN must be between 4 and 12 digits long
    ValueError
        Current PIN must be between 4 and 12 digits long
    ValueError
        ICC Master Key for AC must be a double length DES key

    Examples
    --------
    >>> from pyemv import sm
    >>> icc_mk_ac = bytes.fromhex("0123456789ABCDEFFEDCBA9876543210")
    >>> sm.format_vis_pin_block(icc_mk_ac, "1234").hex().upper()
    '041234FF76543210'
    """
    if len(pin) < 4 or len(pin) > 12:
        raise ValueError("PIN must be between 4 and 12 digits long")

    if len(icc_mk_ac) != 16:
        raise ValueError("ICC Master Key for AC must be a double length DES key")

    if isinstance(pin, bytes):
        pin = pin.decode("ascii")

    if isinstance(current_pin, bytes):
        current_pin = current_pin.decode("ascii")

    # 4 right-most bytes of ICC MK AC Key A padded with 0x00 to form an 8-byte block
    block_a = b"\x00" * 4 + icc_mk_ac[4:8]

    # PIN length as 1 byte concatenated with PIN then F-padded to form an 8 byte block
    block_b = len(pin).to_bytes(1, _sys.byteorder) + _binascii.a2b_hex(
        pin + "F" * (14 - len(pin))
    )

    pin_block = _tools.xor(block_a, block_b)

    # Generate VIS PIN block using current PIN
    if current_pin is not None:
        if len(current_pin) < 4 or len(current_pin) > 12:
            raise ValueError("Current PIN must be between 4 and 12 digits long")

        pin_block = _tools.xor(
            pin_block, _binascii.a2b_hex(current_pin + "0" * (16 - len(current_pin)))
        )

    return pin_block


def format_iso9564_2_pin_block(pin: _typing.Union[bytes, str]) -> bytes:
    r"""Format ISO 9564-1 PIN block format 2.

    Parameters
    ----------
    pin : bytes or str
        New ASCII Personal Identification Number.

    Returns
    -------
    pin_block : bytes
        Binary 8-byte PIN block

    Raises
    ------
    ValueError
        PIN must be between 4 and 12 digits long

    Examples
    --------
    >>> from pyemv import sm
    >>> sm.format_iso9564_2_pin_block("123456789012").hex().upper()
    '2C123456789012FF'
    """
    if len(pin) < 4 or len(pin) > 12:
        raise ValueError("PIN must be between 4 and 12 digits long")

    if isinstance(pin, bytes):
        pin = pin.decode("ascii")

    return (len(pin) + 32).to_bytes(1, _sys.byteorder) + _binascii.a2b_hex(
        pin + "F" * (14 - len(pin))
    )
