"""Cryptogram Version Number (CVN) defines the following:

    - ICC Master Key derivation method
    - Application Cryptogram (ARQC, TC, ACC) Session Key derivation method
    - Application Cryptogram (ARQC, TC, ACC) calculation method
    - Authorisation Response Cryptogram Session Key derivation method
    - Authorisation Response Cryptogram calculation method
    - Secure Messaging Session Key derivation method
    - Secure Messaging Integrity (MAC) data format and padding
    - Secure Messaging Confidentiality encryption method and padding

CVN module combines application cryptogram generation, key derivation and
secure messaging in one class per CVN.

    >>> import pyemv
    >>> cvn18 = pyemv.cvn.VisaCVN18(
    ...     iss_mk_ac=bytes.fromhex('AAAAAAAAAAAAAAAAAAAAAAAAAAAAAAAA'),
    ...     iss_mk_smi=bytes.fromhex('BBBBBBBBBBBBBBBBBBBBBBBBBBBBBBBB'),
    ...     iss_mk_smc=bytes.fromhex('CCCCCCCCCCCCCCCCCCCCCCCCCCCCCCCC'),
    ...     pan='1234567890123456',
    ...     psn='00')

    >>> atc = bytes.fromhex('0FFF')
    >>> arqc = cvn18.generate_ac(
    ...     tag_9f02=bytes.fromhex('000000009999'),
    ...     tag_9f03=bytes.fromhex('000000000000'),
    ...     tag_9f1a=bytes.fromhex('0840'),
    ...     tag_95=bytes.fromhex('8000048000'),
    ...     tag_5f2a=bytes.fromhex('0840'),
    ...     tag_9a=bytes.fromhex('991231'),
    ...     tag_9c=bytes.fromhex('01'),
    ...     tag_9f37=bytes.fromhex('52BF4585'),
    ...     tag_82=bytes.fromhex('1800'),
    ...     tag_9f36=atc,
    ...     tag_9f10=bytes.fromhex('06011203A0B800'))
    >>> arqc.hex().upper()
    '769577B5ABE9FE62'

    >>> arpc = cvn18.generate_arpc(
    ...     tag_9f26=arqc,
    ...     tag_9f36=atc,
    ...     csu=bytes.fromhex('00000000'))
    >>> arpc.hex().upper()
    '76503F48'

    >>> command_mac = cvn18.generate_command_mac(
    ...         command_header=bytes.fromhex('8418000008'),
    ...         tag_9f26=arqc,
    ...         tag_9f36=atc)
    >>> command_mac.hex().upper()
    'B5CB29759F9C3919'

    >>> pin_command = cvn18.generate_pin_change_command(
    ...         pin='9999',
    ...         tag_9f26=arqc,
    ...         tag_9f36=atc)
    >>> pin_command.hex().upper()
    '84240002182DC7A061323BA62472BC5308BD291B5F665B3A927E60661E'
"""

import typing as _typing

from pyemv import ac as _ac
from pyemv import kd as _kd
from pyemv import sm as _sm

__all__ = [
    "VisaCVN10",
    "VisaCVN18",
    "VisaCVN22",
    "InteracCVN133",
    "MasterCardCVN16",
    "MasterCardCVN17",
    "MasterCardCVN20",
    "MasterCardCVN21",
]


class VisaCVN10:
    """Cryptogram Version Number (CVN) defines Card Authentication Method (CAM).
    Visa Cryptogram Version Number (CVN) 10 defines the following:

        - ICC Master Key derivation method = Option A
        - Application Cryptogram (ARQC, TC, ACC) Session Key derivation method = None
        - Application Cryptogram (ARQC, TC, ACC) calculation method = Visa
        - Authorisation Response Cryptogram Session Key derivation method = None
        - Authorisation Response Cryptogram calculation method = 1
        - Secure Messaging Session Key derivation method = Visa
        - Secure Messaging Integrity (MAC) data format and padding = Format 2,
          padded with transaction data
        - Secure Messaging Confidentiality encryption method and padding = Visa

    Parameters
    ----------
    iss_mk_ac : bytes
        16-byte binary Issuer Master Key for Application Cryptography.
        Has to be a valid DES key.
    iss_mk_smi : bytes
        16-byte binary Issuer Master Key for Issuer Script Integrity.
        Has to be a valid DES key.
    iss_mk_smc : bytes
        16-byte binary Issuer Master Key for Issuer Script Confidentiality.
        Has to be a valid DES key.
    pan : bytes or str
        ASCII Application Primary Account Number.
    psn : bytes or str, optional
        ASCII 2-digit PAN Sequence Number (default 00).

    Attributes
    ----------
    icc_mk_ac : bytes
        16-byte binary ICC Master Key for Application Cryptography.
    icc_mk_smi : bytes
        16-byte binary ICC Master Key for Issuer Script Integrity.
    icc_mk_smc : bytes
        16-byte binary ICC Master Key for Issuer Script Confidentiality.
    """

    def __init__(
        self,
        iss_mk_ac: bytes,
        iss_mk_smi: bytes,
        iss_mk_smc: bytes,
        pan: _typing.Union[bytes, str],
        psn: _typing.Optional[_typing.Union[bytes, str]] = None,
    ) -> None:
        # Derive AC, SMI, and SMC ICC Master Keys for a new card
        # using option A.
        psn = psn or "00"
        self.icc_mk_ac = _kd.derive_icc_mk_a(iss_mk_ac, pan, psn)
        self.icc_mk_smi = _kd.derive_icc_mk_a(iss_mk_smi, pan, psn)
        self.icc_mk_smc = _kd.derive_icc_mk_a(iss_mk_smc, pan, psn)

    def _derive_sk_ac_none(self) -> bytes:
        """Derive Application Cryptogram Session Key.
        Use ICC Master Key, since Session Key is not applicable.

        Returns
        -------
        sk_ac : bytes
            16-byte binary Session Key for Application Cryptogram.
            Has to be a valid DES key.
        """
        return self.icc_mk_ac

    def generate_ac(
        self,
        tag_9f02: bytes,
        tag_9f03: bytes,
        tag_9f1a: bytes,
        tag_95: bytes,
        tag_5f2a: bytes,
        tag_9a: bytes,
        tag_9c: bytes,
        tag_9f37: bytes,
        tag_82: bytes,
        tag_9f36: bytes,
        cvr: bytes,
    ) -> bytes:
        """Generate Application Cryptogram. Same process for
            - Authorisation Request Cryptogram (ARQC)
            - Transaction Cryptogram (TC)
            - Application Authentication Cryptogram (AAC)

        Parameters
        ----------
        tag_9f02 : bytes
            Binary data from tag 9F02 (Amount, Authorized).
        tag_9f03 : bytes
            Binary data from tag 9F03 (Amount, Other).
        tag_9f1a : bytes
            Binary data from tag 9F1A (Terminal Country Code).
        tag_95 : bytes
            Binary data from tag 95 (Terminal Verification Results).
        tag_5f2a : bytes
            Binary data from tag 5F2A (Transaction Currency Code).
        tag_9a : bytes
            Binary data from tag 9A (Transaction Date).
        tag_9c : bytes
            Binary Data from tag 9C (Transaction Type).
        tag_9f37 : bytes
            Binary data from tag 9F37 (Unpredictable Number).
        tag_82 : bytes
            Binary data from tag 82 (Application Interchange Profile).
        tag_9f36 : bytes
            Binary data from tag 9F36 (Application Transaction Counter).
        cvr : bytes
            4 bytes of binary Card Verification Results extracted from
            9F10 (Issuer Application Data).

        Returns
        -------
        ac : bytes
            Returns binary 8-byte cryptogram (ARQC, TC, AAC).
        """
        return _ac.generate_ac(
            self._derive_sk_ac_none(),
            tag_9f02
            + tag_9f03
            + tag_9f1a
            + tag_95
            + tag_5f2a
            + tag_9a
            + tag_9c
            + tag_9f37
            + tag_82
            + tag_9f36
            + cvr,
            _ac.PaddingType.VISA,
            8,
        )

    def generate_arpc(self, tag_9f26: bytes, arpc_rc: bytes) -> bytes:
        """Generate Authorisation Response Cryptogram (ARPC) using method 1.
        Method for the generation of a 8-byte ARPC consists of applying
        ISO/IEC 9797-1 MAC algorithm 3 to:

            - 8-byte binary ARQC
            - 2-byte binary ARPC response code

        Parameters
        ----------
        tag_9f26 : bytes
            Binary data from tag 9F26 (Authorisation Request Cryptogram).
        arpc_rc : bytes
            Binary 2-byte ARPC response code.

        Returns
        -------
        arpc : bytes
            Returns binary 8-byte Authorisation Response Cryptogram (ARPC).
            The resulting issuer authentication data (tag 91) is:

                91 || Len || ARPC || ARPC-RC
        """
        return _ac.generate_arpc_1(self._derive_sk_ac_none(), tag_9f26, arpc_rc)

    def _derive_sk_sm_visa(self, icc_mk_sm: bytes, tag_9f36: bytes) -> bytes:
        """Derive Secure Messaging Session Key using Visa method.

        Parameters
        ----------
        icc_mk_sm : bytes
            16-byte binary ICC Master Key for Secure Messaging.
            Has to be a valid DES key.
        tag_9f36 : bytes
            Binary data from tag 9F36 (Application Transaction Counter).

        Returns
        -------
        sk_sm : bytes
            16-byte binary Session Key for Secure Messaging.
            Has to be a valid DES key.
        """
        return _kd.derive_visa_sm_sk(icc_mk_sm, tag_9f36)

    def generate_command_mac(
        self,
        command_header: bytes,
        tag_9f26: bytes,
        tag_9f36: bytes,
        command_data: bytes = b"",
    ) -> bytes:
        r"""Message Authentication Code (MAC) for Secure Messaging Integrity.

        Parameters
        ----------
        command_header : bytes
            Binary command header, such as \x84\x24\x00\x00\x08 for PIN unblock.
        tag_9f26 : bytes
            Binary data from tag 9F26 (Authorisation Request Cryptogram).
        tag_9f36 : bytes
            Binary data from tag 9F36 (Application Transaction Counter).
        command_data : bytes, optional
            Binary command data, e.g. PUT DATA or PIN block.

        Returns
        -------
        mac : bytes
            Binary 8-byte command MAC.
        """
        return _sm.generate_command_mac(
            self._derive_sk_sm_visa(self.icc_mk_smi, tag_9f36),
            command_header + tag_9f36 + tag_9f26 + command_data,
            8,
        )

    def encrypt_command_data(self, command_data: bytes, tag_9f36: bytes) -> bytes:
        """Command Data Encryption for Secure Messaging Confidentiality.

        Parameters
        ----------
        command_data : bytes
            Binary command data, e.g. PUT DATA or PIN block.
        tag_9f36 : bytes
            Binary data from tag 9F36 (Application Transaction Counter).

        Returns
        -------
        encrypted_command_data : bytes
            Binary encrypted command command data. Then the resulting command is:

                Header || Encrypted Data || MAC
        """
        return _sm.encrypt_command_data(
            self._derive_sk_sm_visa(self.icc_mk_smc, tag_9f36),
            command_data,
            _sm.EncryptionType.VISA,
        )

    def generate_pin_change_command(
        self,
        pin: _typing.Union[bytes, str],
        tag_9f26: bytes,
        tag_9f36: bytes,
        current_pin: _typing.Optional[_typing.Union[bytes, str]] = None,
    ) -> bytes:
        """Generate a PIN change command with encrypted PIN block and MAC.

        Parameters
        ----------
        pin : bytes or str
            New ASCII Personal Identification Number.
        tag_9f26 : bytes
            Binary data from tag 9F26 (Authorisation Request Cryptogram).
        tag_9f36 : bytes
            Binary data from tag 9F36 (Application Transaction Counter).
        current_pin : bytes or str, optional
            Current ASCII Personal Identification Number (optional). If present
            VIS PIN block is generated using current PIN.

        Returns
        -------
        pin_change_command : bytes
            Binary PIN change command with encrypted PIN block and MAC.
        """
        enc_pin_block = self.encrypt_command_data(
            _sm.format_vis_pin_block(self.icc_mk_ac, pin, current_pin), tag_9f36
        )

        if current_pin is None:
            command_header = b"\x84\x24\x00\x02\x18"
        else:
            command_header = b"\x84\x24\x00\x01\x18"

        return (
            command_header
            + enc_pin_block
            + self.generate_command_mac(
                command_header, tag_9f26, tag_9f36, enc_pin_block
            )
        )


class VisaCVN18:
    """Cryptogram Version Number (CVN) defines Card Authentication Method (CAM).
    Visa Cryptogram Version Number (CVN) 18 defines the following:

        - ICC Master Key derivation method = Option B
        - Application Cryptogram (ARQC, TC, ACC) Session Key derivation method = Common
        - Application Cryptogram (ARQC, TC, ACC) calculation method = EMV
        - Authorisation Response Cryptogram Session Key derivation method = Common
        - Authorisation Response Cryptogram calculation method = 2
        - Secure Messaging Session Key derivation method = Visa
        - Secure Messaging Integrity (MAC) data format and padding = Format 2,
          padded with transaction data
        - Secure Messaging Confidentiality encryption method and padding = Visa

    Parameters
    ----------
    iss_mk_ac : bytes
        16-byte binary Issuer Master Key for Application Cryptography.
        Has to be a valid DES key.
    iss_mk_smi : bytes
        16-byte binary Issuer Master Key for Issuer Script Integrity.
        Has to be a valid DES key.
    iss_mk_smc : bytes
        16-byte binary Issuer Master Key for Issuer Script Confidentiality.
        Has to be a valid DES key.
    pan : bytes or str
        ASCII Application Primary Account Number.
    psn : bytes or str, optional
        ASCII 2-digit PAN Sequence Number (default 00).

    Attributes
    ----------
    icc_mk_ac : bytes
        16-byte binary ICC Master Key for Application Cryptography.
    icc_mk_smi : bytes
        16-byte binary ICC Master Key for Issuer Script Integrity.
    icc_mk_smc : bytes
        16-byte binary ICC Master Key for Issuer Script Confidentiality.
    """

    def __init__(
        self,
        iss_mk_ac: bytes,
        iss_mk_smi: bytes,
        iss_mk_smc: bytes,
        pan: _typing.Union[bytes, str],
        psn: _typing.Optional[_typing.Union[bytes, str]] = None,
    ) -> None:
        # Derive AC, SMI, and SMC ICC Master Keys for a new card
        # using option B.
        psn = psn or "00"
        self.icc_mk_ac = _kd.derive_icc_mk_b(iss_mk_ac, pan, psn)
        self.icc_mk_smi = _kd.derive_icc_mk_b(iss_mk_smi, pan, psn)
        self.icc_mk_smc = _kd.derive_icc_mk_b(iss_mk_smc, pan, psn)

    def _derive_sk_ac_common(self, tag_9f36: bytes) -> bytes:
        """Derive Application Cryptogram Session Key using EMV Common method.

        Parameters
        ----------
        tag_9f36 : bytes
            Binary data from tag 9F36 (Application Transaction Counter).

        Returns
        -------
        sk_ac : bytes
            16-byte binary Session Key for Application Cryptogram.
            Has to be a valid DES key.
        """
        return _kd.derive_common_sk(self.icc_mk_ac, tag_9f36 + b"\x00" * 6)

    def generate_ac(
        self,
        tag_9f02: bytes,
        tag_9f03: bytes,
        tag_9f1a: bytes,
        tag_95: bytes,
        tag_5f2a: bytes,
        tag_9a: bytes,
        tag_9c: bytes,
        tag_9f37: bytes,
        tag_82: bytes,
        tag_9f36: bytes,
        tag_9f10: bytes,
    ) -> bytes:
        """Generate Application Cryptogram. Same process for
            - Authorisation Request Cryptogram (ARQC)
            - Transaction Cryptogram (TC)
            - Application Authentication Cryptogram (AAC)

        Parameters
        ----------
        tag_9f02 : bytes
            Binary data from tag 9F02 (Amount, Authorized).
        tag_9f03 : bytes
            Binary data from tag 9F03 (Amount, Other).
        tag_9f1a : bytes
            Binary data from tag 9F1A (Terminal Country Code).
        tag_95 : bytes
            Binary data from tag 95 (Terminal Verification Results).
        tag_5f2a : bytes
            Binary data from tag 5F2A (Transaction Currency Code).
        tag_9a : bytes
            Binary data from tag 9A (Transaction Date).
        tag_9c : bytes
            Binary Data from tag 9C (Transaction Type).
        tag_9f37 : bytes
            Binary data from tag 9F37 (Unpredictable Number).
        tag_82 : bytes
            Binary data from tag 82 (Application Interchange Profile).
        tag_9f36 : bytes
            Binary data from tag 9F36 (Application Transaction Counter).
        tag_9f10 : bytes
            Binary data from tag 9F10 (Issuer Application Data).

        Returns
        -------
        ac : bytes
            Returns binary 8-byte cryptogram (ARQC, TC, AAC).
        """
        return _ac.generate_ac(
            self._derive_sk_ac_common(tag_9f36),
            tag_9f02
            + tag_9f03
            + tag_9f1a
            + tag_95
            + tag_5f2a
            + tag_9a
            + tag_9c
            + tag_9f37
            + tag_82
            + tag_9f36
            + tag_9f10,
            _ac.PaddingType.EMV,
            8,
        )

    def generate_arpc(
        self,
        tag_9f26: bytes,
        tag_9f36: bytes,
        csu: bytes,
        proprietary_auth_data: _typing.Optional[bytes] = None,
    ) -> bytes:
        """Generate Authorisation Response Cryptogram (ARPC) using method 2.
        Method for the generation of a 4-byte ARPC consists of applying
        ISO/IEC 9797-1 MAC algorithm 3 to:

            - 8-byte binary ARQC
            - 4-byte binary Card Status Update (CSU)
            - 0-8 byte binary Proprietary Authentication Data

        Parameters
        ----------
        tag_9f26 : bytes
            Binary data from tag 9F26 (Authorisation Request Cryptogram).
        tag_9f36 : bytes
            Binary data from tag 9F36 (Application Transaction Counter).
        csu : bytes
            Binary 4-byte Card Status Update (CSU).
        prop_auth_data : bytes, optional
            Binary 0-8 byte Proprietary Authentication Data.

        Returns
        -------
        arpc : bytes
            Returns binary 4-byte Authorisation Response Cryptogram (ARPC).
            The resulting issuer authentication data (tag 91) is:

                91 || Len || ARPC || CSU || { Proprietary Authentication Data }
        """
        return _ac.generate_arpc_2(
            self._derive_sk_ac_common(tag_9f36),
            tag_9f26,
            csu,
            proprietary_auth_data,
        )

    def _derive_sk_sm_visa(self, icc_mk_sm: bytes, tag_9f36: bytes) -> bytes:
        """Derive Secure Messaging Session Key using Visa method.

        Parameters
        ----------
        icc_mk_sm : bytes
            16-byte binary ICC Master Key for Secure Messaging.
            Has to be a valid DES key.
        tag_9f36 : bytes
            Binary data from tag 9F36 (Application Transaction Counter).

        Returns
        -------
        sk_sm : bytes
            16-byte binary Session Key for Secure Messaging.
            Has to be a valid DES key.
        """
        return _kd.derive_visa_sm_sk(icc_mk_sm, tag_9f36)

    def generate_command_mac(
        self,
        command_header: bytes,
        tag_9f26: bytes,
        tag_9f36: bytes,
        command_data: bytes = b"",
    ) -> bytes:
        r"""Message Authentication Code (MAC) for Secure Messaging Integrity.

        Parameters
        ----------
        command_header : bytes
            Binary command header, such as \x84\x24\x00\x00\x08 for PIN unblock.
        tag_9f26 : bytes
            Binary data from tag 9F26 (Authorisation Request Cryptogram).
        tag_9f36 : bytes
            Binary data from tag 9F36 (Application Transaction Counter).
        command_data : bytes, optional
            Binary command data, e.g. PUT DATA or PIN block.

        Returns
        -------
        mac : bytes
            Binary 8-byte command MAC.

        """
        return _sm.generate_command_mac(
            self._derive_sk_sm_visa(self.icc_mk_smi, tag_9f36),
            command_header + tag_9f36 + tag_9f26 + command_data,
            8,
        )

    def encrypt_command_data(self, command_data: bytes, tag_9f36: bytes) -> bytes:
        """Command Data Encryption for Secure Messaging Confidentiality.

        Parameters
        ----------
        command_data : bytes
            Binary command data, e.g. PUT DATA or PIN block.
        tag_9f36 : bytes
            Binary data from tag 9F36 (Application Transaction Counter).

        Returns
        -------
        encrypted_command_data : bytes
            Binary encrypted command command data. Then the resulting command is:

                Header || Encrypted Data || MAC
        """
        return _sm.encrypt_command_data(
            self._derive_sk_sm_visa(self.icc_mk_smc, tag_9f36),
            command_data,
            _sm.EncryptionType.VISA,
        )

    def generate_pin_change_command(
        self,
        pin: _typing.Union[bytes, str],
        tag_9f26: bytes,
        tag_9f36: bytes,
        current_pin: _typing.Optional[_typing.Union[bytes, str]] = None,
    ) -> bytes:
        """Generate a PIN change command with encrypted PIN block and MAC.

        Parameters
        ----------
        pin : bytes or str
            New ASCII Personal Identification Number.
        tag_9f26 : bytes
            Binary data from tag 9F26 (Authorisation Request Cryptogram).
        tag_9f36 : bytes
            Binary data from tag 9F36 (Application Transaction Counter).
        current_pin : bytes or str, optional
            Current ASCII Personal Identification Number (optional). If present
            VIS PIN block is generated using current PIN.

        Returns
        -------
        pin_change_command : bytes
            Binary PIN change command with encrypted PIN block and MAC.

        """
        enc_pin_block = self.encrypt_command_data(
            _sm.format_vis_pin_block(self.icc_mk_ac, pin, current_pin), tag_9f36
        )

        if current_pin is None:
            command_header = b"\x84\x24\x00\x02\x18"
        else:
            command_header = b"\x84\x24\x00\x01\x18"

        return (
            command_header
            + enc_pin_block
            + self.generate_command_mac(
                command_header, tag_9f26, tag_9f36, enc_pin_block
            )
        )


class VisaCVN22:
    """Cryptogram Version Number (CVN) defines Card Authentication Method (CAM).
    Visa Cryptogram Version Number (CVN) 18 defines the following:

        - ICC Master Key derivation method = Option B
        - Application Cryptogram (ARQC, TC, ACC) Session Key derivation method = Common
        - Application Cryptogram (ARQC, TC, ACC) calculation method = EMV
        - Authorisation Response Cryptogram Session Key derivation method = Common
        - Authorisation Response Cryptogram calculation method = 2
        - Secure Messaging Session Key derivation method = Common
        - Secure Messaging Integrity (MAC) data format and padding = Format 2,
          padded with transaction data
        - Secure Messaging Confidentiality encryption method and padding = Visa

    Parameters
    ----------
    iss_mk_ac : bytes
        16-byte binary Issuer Master Key for Application Cryptography.
        Has to be a valid DES key.
    iss_mk_smi : bytes
        16-byte binary Issuer Master Key for Issuer Script Integrity.
        Has to be a valid DES key.
    iss_mk_smc : bytes
        16-byte binary Issuer Master Key for Issuer Script Confidentiality.
        Has to be a valid DES key.
    pan : bytes or str
        ASCII Application Primary Account Number.
    psn : bytes or str, optional
        ASCII 2-digit PAN Sequence Number (default 00).

    Attributes
    ----------
    icc_mk_ac : bytes
        16-byte binary ICC Master Key for Application Cryptography.
    icc_mk_smi : bytes
        16-byte binary ICC Master Key for Issuer Script Integrity.
    icc_mk_smc : bytes
        16-byte binary ICC Master Key for Issuer Script Confidentiality.
    """

    def __init__(
        self,
        iss_mk_ac: bytes,
        iss_mk_smi: bytes,
        iss_mk_smc: bytes,
        pan: _typing.Union[bytes, str],
        psn: _typing.Optional[_typing.Union[bytes, str]] = None,
    ) -> None:
        # Derive AC, SMI, and SMC ICC Master Keys for a new card
        # using option B.
        psn = psn or "00"
        self.icc_mk_ac = _kd.derive_icc_mk_b(iss_mk_ac, pan, psn)
        self.icc_mk_smi = _kd.derive_icc_mk_b(iss_mk_smi, pan, psn)
        self.icc_mk_smc = _kd.derive_icc_mk_b(iss_mk_smc, pan, psn)

    def _derive_sk_ac_common(self, tag_9f36: bytes) -> bytes:
        """Derive Application Cryptogram Session Key using EMV Common method.

        Parameters
        ----------
        tag_9f36 : bytes
            Binary data from tag 9F36 (Application Transaction Counter).

        Returns
        -------
        sk_ac : bytes
            16-byte binary Session Key for Application Cryptogram.
            Has to be a valid DES key.
        """
        return _kd.derive_common_sk(self.icc_mk_ac, tag_9f36 + b"\x00" * 6)

    def generate_ac(
        self,
        tag_9f02: bytes,
        tag_9f03: bytes,
        tag_9f1a: bytes,
        tag_95: bytes,
        tag_5f2a: bytes,
        tag_9a: bytes,
        tag_9c: bytes,
        tag_9f37: bytes,
        tag_82: bytes,
        tag_9f36: bytes,
        tag_9f10: bytes,
    ) -> bytes:
        """Generate Application Cryptogram. Same process for
            - Authorisation Request Cryptogram (ARQC)
            - Transaction Cryptogram (TC)
            - Application Authentication Cryptogram (AAC)

        Parameters
        ----------
        tag_9f02 : bytes
            Binary data from tag 9F02 (Amount, Authorized).
        tag_9f03 : bytes
            Binary data from tag 9F03 (Amount, Other).
        tag_9f1a : bytes
            Binary data from tag 9F1A (Terminal Country Code).
        tag_95 : bytes
            Binary data from tag 95 (Terminal Verification Results).
        tag_5f2a : bytes
            Binary data from tag 5F2A (Transaction Currency Code).
        tag_9a : bytes
            Binary data from tag 9A (Transaction Date).
        tag_9c : bytes
            Binary Data from tag 9C (Transaction Type).
        tag_9f37 : bytes
            Binary data from tag 9F37 (Unpredictable Number).
        tag_82 : bytes
            Binary data from tag 82 (Application Interchange Profile).
        tag_9f36 : bytes
            Binary data from tag 9F36 (Application Transaction Counter).
        tag_9f10 : bytes
            Binary data from tag 9F10 (Issuer Application Data).

        Returns
        -------
        ac : bytes
            Returns binary 8-byte cryptogram (ARQC, TC, AAC).
        """
        return _ac.generate_ac(
            self._derive_sk_ac_common(tag_9f36),
            tag_9f02
            + tag_9f03
            + tag_9f1a
            + tag_95
            + tag_5f2a
            + tag_9a
            + tag_9c
            + tag_9f37
            + tag_82
            + tag_9f36
            + tag_9f10,
            _ac.PaddingType.EMV,
            8,
        )

    def generate_arpc(
        self,
        tag_9f26: bytes,
        tag_9f36: bytes,
        csu: bytes,
        proprietary_auth_data: _typing.Optional[bytes] = None,
    ) -> bytes:
        """Generate Authorisation Response Cryptogram (ARPC) using method 2.
        Method for the generation of a 4-byte ARPC consists of applying
        ISO/IEC 9797-1 MAC algorithm 3 to:

            - 8-byte binary ARQC
            - 4-byte binary Card Status Update (CSU)
            - 0-8 byte binary Proprietary Authentication Data

        Parameters
        ----------
        tag_9f26 : bytes
            Binary data from tag 9F26 (Authorisation Request Cryptogram).
        tag_9f36 : bytes
            Binary data from tag 9F36 (Application Transaction Counter).
        csu : bytes
            Binary 4-byte Card Status Update (CSU).
        prop_auth_data : bytes, optional
            Binary 0-8 byte Proprietary Authentication Data.

        Returns
        -------
        arpc : bytes
            Returns binary 4-byte Authorisation Response Cryptogram (ARPC).
            The resulting issuer authentication data (tag 91) is:

                91 || Len || ARPC || CSU || { Proprietary Authentication Data }
        """
        return _ac.generate_arpc_2(
            self._derive_sk_ac_common(tag_9f36),
            tag_9f26,
            csu,
            proprietary_auth_data,
        )

    def _derive_sk_sm_common(self, icc_mk_sm: bytes, tag_9f26: bytes) -> bytes:
        """Derive Secure Messaging Session Key using Common method.

        Parameters
        ----------
        icc_mk_sm : bytes
            16-byte binary ICC Master Key for Secure Messaging.
            Has to be a valid DES key.
        tag_9f26 : bytes
            Binary data from tag 9F26 (Authorisation Request Cryptogram).

        Returns
        -------
        sk_sm : bytes
            16-byte binary Session Key for Secure Messaging.
            Has to be a valid DES key.
        """
        return _kd.derive_common_sk(icc_mk_sm, tag_9f26)

    def generate_command_mac(
        self,
        command_header: bytes,
        tag_9f26: bytes,
        tag_9f36: bytes,
        command_data: bytes = b"",
    ) -> bytes:
        r"""Message Authentication Code (MAC) for Secure Messaging Integrity.

        Parameters
        ----------
        command_header : bytes
            Binary command header, such as \x84\x24\x00\x00\x08 for PIN unblock.
        tag_9f26 : bytes
            Binary data from tag 9F26 (Authorisation Request Cryptogram).
        tag_9f36 : bytes
            Binary data from tag 9F36 (Application Transaction Counter).
        command_data : bytes, optional
            Binary command data, e.g. PUT DATA or PIN block.

        Returns
        -------
        mac : bytes
            Binary 8-byte command MAC.

        """
        return _sm.generate_command_mac(
            self._derive_sk_sm_common(self.icc_mk_smi, tag_9f26),
            command_header + tag_9f36 + tag_9f26 + command_data,
            8,
        )

    def encrypt_command_data(self, command_data: bytes, tag_9f26: bytes) -> bytes:
        """Command Data Encryption for Secure Messaging Confidentiality.

        Parameters
        ----------
        command_data : bytes
            Binary command data, e.g. PUT DATA or PIN block.
        tag_9f26 : bytes
            Binary data from tag 9F26 (Authorisation Request Cryptogram).

        Returns
        -------
        encrypted_command_data : bytes
            Binary encrypted command command data. Then the resulting command is:

                Header || Encrypted Data || MAC
        """
        return _sm.encrypt_command_data(
            self._derive_sk_sm_common(self.icc_mk_smc, tag_9f26),
            command_data,
            _sm.EncryptionType.VISA,
        )

    def generate_pin_change_command(
        self,
        pin: _typing.Union[bytes, str],
        tag_9f26: bytes,
        tag_9f36: bytes,
        current_pin: _typing.Optional[_typing.Union[bytes, str]] = None,
    ) -> bytes:
        """Generate a PIN change command with encrypted PIN block and MAC.

        Parameters
        ----------
        pin : bytes or str
            New ASCII Personal Identification Number.
        tag_9f26 : bytes
            Binary data from tag 9F26 (Authorisation Request Cryptogram).
        tag_9f36 : bytes
            Binary data from tag 9F36 (Application Transaction Counter).
        current_pin : bytes or str, optional
            Current ASCII Personal Identification Number (optional). If present
            VIS PIN block is generated using current PIN.

        Returns
        -------
        pin_change_command : bytes
            Binary PIN change command with encrypted PIN block and MAC.

        Notes
        -----
        This command generates Visa PIN block format when current PIN is
        supplied and ISO 9564-1 format 2 PIN block when it's not supplied.
        Some issuers may choose to use ISO 9564-1 format 1 PIN block when
        current PIN is not supplied.
        """

        if current_pin is None:
            # Use standard EMV PIN block format if current PIN is not required
            command_header = b"\x84\x24\x00\x02\x18"
            enc_pin_block = self.encrypt_command_data(
                _sm.format_iso9564_2_pin_block(pin), tag_9f26
            )
        else:
            # Use legacy Visa PIN block format if current PIN is required
            command_header = b"\x84\x24\x00\x01\x18"
            enc_pin_block = self.encrypt_command_data(
                _sm.format_vis_pin_block(self.icc_mk_ac, pin, current_pin), tag_9f26
            )

        return (
            command_header
            + enc_pin_block
            + self.generate_command_mac(
                command_header, tag_9f26, tag_9f36, enc_pin_block
            )
        )


class InteracCVN133:
    """Cryptogram Version Number (CVN) defines Card Authentication Method (CAM).
    Interac Cryptogram Version Number (CVN) 133 defines the following:

        - ICC Master Key derivation method = Option A
        - Application Cryptogram (ARQC, TC, ACC) Session Key derivation method = MasterCard
        - Application Cryptogram (ARQC, TC, ACC) calculation method = EMV
        - Authorisation Response Cryptogram Session Key derivation method = MasterCard
        - Authorisation Response Cryptogram calculation method = 1
        - Secure Messaging Session Key derivation method = MasterCard
        - Secure Messaging Integrity (MAC) data format and padding = Format 2,
          not padded with transaction data
        - Secure Messaging Confidentiality encryption method and padding = MasterCard

    Parameters
    ----------
    iss_mk_ac : bytes
        16-byte binary Issuer Master Key for Application Cryptography.
        Has to be a valid DES key.
    iss_mk_smi : bytes
        16-byte binary Issuer Master Key for Issuer Script Integrity.
        Has to be a valid DES key.
    iss_mk_smc : bytes
        16-byte binary Issuer Master Key for Issuer Script Confidentiality.
        Has to be a valid DES key.
    pan : bytes or str
        ASCII Application Primary Account Number.
    psn : bytes or str, optional
        ASCII 2-digit PAN Sequence Number (default 00).

    Attributes
    ----------
    icc_mk_ac : bytes
        16-byte binary ICC Master Key for Application Cryptography.
    icc_mk_smi : bytes
        16-byte binary ICC Master Key for Issuer Script Integrity.
    icc_mk_smc : bytes
        16-byte binary ICC Master Key for Issuer Script Confidentiality.
    """

    def __init__(
        self,
        iss_mk_ac: bytes,
        iss_mk_smi: bytes,
        iss_mk_smc: bytes,
        pan: _typing.Union[bytes, str],
        psn: _typing.Optional[_typing.Union[bytes, str]] = None,
    ) -> None:
        # Derive AC, SMI, and SMC ICC Master Keys for a new card
        # using option A.
        psn = psn or "00"
        self.icc_mk_ac = _kd.derive_icc_mk_a(iss_mk_ac, pan, psn)
        self.icc_mk_smi = _kd.derive_icc_mk_a(iss_mk_smi, pan, psn)
        self.icc_mk_smc = _kd.derive_icc_mk_a(iss_mk_smc, pan, psn)

    def _derive_sk_ac_mastercard(self, tag_9f36: bytes, tag_9f37: bytes) -> bytes:
        """Derive Application Cryptogram Session Key using MasterCard method.

        Parameters
        ----------
        tag_9f36 : bytes
            Binary data from tag 9F36 (Application Transaction Counter).
        tag_9f37 : bytes
            Binary data from tag 9F37 (Unpredictable Number).

        Returns
        -------
        sk_ac : bytes
            16-byte binary Session Key for Application Cryptogram.
            Has to be a valid DES key.
        """
        return _kd.derive_common_sk(self.icc_mk_ac, tag_9f36 + b"\x00" * 2 + tag_9f37)

    def generate_ac(
        self,
        tag_9f02: bytes,
        tag_9f03: bytes,
        tag_9f1a: bytes,
        tag_95: bytes,
        tag_5f2a: bytes,
        tag_9a: bytes,
        tag_9c: bytes,
        tag_9f37: bytes,
        tag_82: bytes,
        tag_9f36: bytes,
        tag_9f10: bytes,
    ) -> bytes:
        """Generate Application Cryptogram. Same process for
            - Authorisation Request Cryptogram (ARQC)
            - Transaction Cryptogram (TC)
            - Application Authentication Cryptogram (AAC)

        Parameters
        ----------
        tag_9f02 : bytes
            Binary data from tag 9F02 (Amount, Authorized).
        tag_9f03 : bytes
            Binary data from tag 9F03 (Amount, Other).
        tag_9f1a : bytes
            Binary data from tag 9F1A (Terminal Country Code).
        tag_95 : bytes
            Binary data from tag 95 (Terminal Verification Results).
        tag_5f2a : bytes
            Binary data from tag 5F2A (Transaction Currency Code).
        tag_9a : bytes
            Binary data from tag 9A (Transaction Date).
        tag_9c : bytes
            Binary Data from tag 9C (Transaction Type).
        tag_9f37 : bytes
            Binary data from tag 9F37 (Unpredictable Number).
        tag_82 : bytes
            Binary data from tag 82 (Application Interchange Profile).
        tag_9f36 : bytes
            Binary data from tag 9F36 (Application Transaction Counter).
        tag_9f10 : bytes
            Binary data from tag 9F10 (Issuer Application Data).

        Returns
        -------
        ac : bytes
            Returns binary 8-byte cryptogram (ARQC, TC, AAC).
        """
        return _ac.generate_ac(
            self._derive_sk_ac_mastercard(tag_9f36, tag_9f37),
            tag_9f02
            + tag_9f03
            + tag_9f1a
            + tag_95
            + tag_5f2a
            + tag_9a
            + tag_9c
            + tag_9f37
            + tag_82
            + tag_9f36
            + tag_9f10,
            _ac.PaddingType.EMV,
            8,
        )

    def generate_arpc(
        self,
        tag_9f26: bytes,
        tag_9f37: bytes,
        tag_9f36: bytes,
        arpc_rc: bytes,
    ) -> bytes:
        """Generate Authorisation Response Cryptogram (ARPC) using method 1.
        Method for the generation of a 8-byte ARPC consists of applying
        ISO/IEC 9797-1 MAC algorithm 3 to:

            - 8-byte binary ARQC
            - 2-byte binary ARPC response code

        Parameters
        ----------
        tag_9f26 : bytes
            Binary data from tag 9F26 (Authorisation Request Cryptogram).
        tag_9f37 : bytes
            Binary data from tag 9F37 (Unpredictable Number).
        tag_9f36 : bytes
            Binary data from tag 9F36 (Application Transaction Counter).
        arpc_rc : bytes
            Binary 2-byte ARPC response code.

        Returns
        -------
        arpc : bytes
            Returns binary 8-byte Authorisation Response Cryptogram (ARPC).
            The resulting issuer authentication data (tag 91) is:

                91 || Len || ARPC || ARPC-RC
        """
        return _ac.generate_arpc_1(
            self._derive_sk_ac_mastercard(tag_9f36, tag_9f37),
            tag_9f26,
            arpc_rc,
        )

    def _derive_sk_sm_common(self, icc_mk_sm: bytes, tag_9f26: bytes) -> bytes:
        """Derive Secure Messaging Session Key using Common method.

        Parameters
        ----------
        icc_mk_sm : bytes
            16-byte binary ICC Master Key for Secure Messaging.
            Has to be a valid DES key.
        tag_9f26 : bytes
            Binary data from tag 9F26 (Authorisation Request Cryptogram).

        Returns
        -------
        sk_sm : bytes
            16-byte binary Session Key for Secure Messaging.
            Has to be a valid DES key.
        """
        return _kd.derive_common_sk(icc_mk_sm, tag_9f26)

    def generate_command_mac(
        self,
        command_header: bytes,
        tag_9f26: bytes,
        command_data: bytes = b"",
    ) -> bytes:
        r"""Message Authentication Code (MAC) for Secure Messaging Integrity.

        Parameters
        ----------
        command_header : bytes
            Binary command header, such as \x84\x24\x00\x00\x08 for PIN unblock.
        tag_9f26 : bytes
            Binary data from tag 9F26 (Authorisation Request Cryptogram).
        command_data : bytes, optional
            Binary command data, e.g. PUT DATA or PIN block.

        Returns
        -------
        mac : bytes
            Binary 8-byte command MAC.

        """
        return _sm.generate_command_mac(
            self._derive_sk_sm_common(self.icc_mk_smi, tag_9f26),
            command_header + command_data,
            8,
        )

    def encrypt_command_data(self, command_data: bytes, tag_9f26: bytes) -> bytes:
        """Command Data Encryption for Secure Messaging Confidentiality.

        Parameters
        ----------
        command_data : bytes
            Binary command data, e.g. PUT DATA or PIN block.
        tag_9f26 : bytes
            Binary data from tag 9F26 (Authorisation Request Cryptogram).

        Returns
        -------
        encrypted_command_data : bytes
            Binary encrypted command command data. Then the resulting command is:

                Header || Encrypted Data || MAC
        """
        return _sm.encrypt_command_data(
            self._derive_sk_sm_common(self.icc_mk_smc, tag_9f26),
            command_data,
            _sm.EncryptionType.MASTERCARD,
        )

    def generate_pin_change_command(
        self, pin: _typing.Union[bytes, str], tag_9f26: bytes
    ) -> bytes:
        """Generate a PIN change command with encrypted PIN block and MAC.

        Parameters
        ----------
        pin : bytes or str
            New ASCII Personal Identification Number.
        tag_9f26 : bytes
            Binary data from tag 9F26 (Authorisation Request Cryptogram).

        Returns
        -------
        pin_change_command : bytes
            Binary PIN change command with encrypted PIN block and MAC.

        """
        enc_pin_block = self.encrypt_command_data(
            _sm.format_iso9564_2_pin_block(pin), tag_9f26
        )

        command_header = b"\x84\x24\x00\x02\x10"

        return (
            command_header
            + enc_pin_block
            + self.generate_command_mac(command_header, tag_9f26, enc_pin_block)
        )


class MasterCardCVN16:
    """Cryptogram Version Number (CVN) defines Card Authentication Method (CAM).
    MasterCard Cryptogram Version Number (CVN) 16 defines the following:

        - ICC Master Key derivation method = Option A
        - Application Cryptogram (ARQC, TC, ACC) Session Key derivation method = MasterCard
        - Application Cryptogram (ARQC, TC, ACC) calculation method = EMV
        - Authorisation Response Cryptogram Session Key derivation method = None
        - Authorisation Response Cryptogram calculation method = 1
        - Secure Messaging Session Key derivation method = Common
        - Secure Messaging Integrity (MAC) data format and padding = Format 2,
          padded with transaction data
        - Secure Messaging Confidentiality encryption method and padding = MasterCard

    MasterCard CVN 16 (binary 0001 0 00 0):

        - Bit 2-3 = 00: Uses Mastercard Proprietary SKD session key
        - Bit 1 = 0:    Does not include counters in AC generation

    Parameters
    ----------
    iss_mk_ac : bytes
        16-byte binary Issuer Master Key for Application Cryptography.
        Has to be a valid DES key.
    iss_mk_smi : bytes
        16-byte binary Issuer Master Key for Issuer Script Integrity.
        Has to be a valid DES key.
    iss_mk_smc : bytes
        16-byte binary Issuer Master Key for Issuer Script Confidentiality.
        Has to be a valid DES key.
    pan : bytes or str
        ASCII Application Primary Account Number.
    psn : bytes or str, optional
        ASCII 2-digit PAN Sequence Number (default 00).

    Attributes
    ----------
    icc_mk_ac : bytes
        16-byte binary ICC Master Key for Application Cryptography.
    icc_mk_smi : bytes
        16-byte binary ICC Master Key for Issuer Script Integrity.
    icc_mk_smc : bytes
        16-byte binary ICC Master Key for Issuer Script Confidentiality.
    """

    def __init__(
        self,
        iss_mk_ac: bytes,
        iss_mk_smi: bytes,
        iss_mk_smc: bytes,
        pan: _typing.Union[bytes, str],
        psn: _typing.Optional[_typing.Union[bytes, str]] = None,
    ) -> None:
        # Derive AC, SMI, and SMC ICC Master Keys for a new card
        # using option A.
        psn = psn or "00"
        self.icc_mk_ac = _kd.derive_icc_mk_a(iss_mk_ac, pan, psn)
        self.icc_mk_smi = _kd.derive_icc_mk_a(iss_mk_smi, pan, psn)
        self.icc_mk_smc = _kd.derive_icc_mk_a(iss_mk_smc, pan, psn)

    def _derive_sk_ac_mastercard(self, tag_9f36: bytes, tag_9f37: bytes) -> bytes:
        """Derive Application Cryptogram Session Key using MasterCard method.

        Parameters
        ----------
        tag_9f36 : bytes
            Binary data from tag 9F36 (Application Transaction Counter).
        tag_9f37 : bytes
            Binary data from tag 9F37 (Unpredictable Number).

        Returns
        -------
        sk_ac : bytes
            16-byte binary Session Key for Application Cryptogram.
            Has to be a valid DES key.
        """
        return _kd.derive_common_sk(self.icc_mk_ac, tag_9f36 + b"\x00" * 2 + tag_9f37)

    def generate_ac(
        self,
        tag_9f02: bytes,
        tag_9f03: bytes,
        tag_9f1a: bytes,
        tag_95: bytes,
        tag_5f2a: bytes,
        tag_9a: bytes,
        tag_9c: bytes,
        tag_9f37: bytes,
        tag_82: bytes,
        tag_9f36: bytes,
        cvr: bytes,
    ) -> bytes:
        r"""Generate Application Cryptogram. Same process for
            - Authorisation Request Cryptogram (ARQC)
            - Transaction Cryptogram (TC)
            - Application Authentication Cryptogram (AAC)

        Parameters
        ----------
        tag_9f02 : bytes
            Binary data from tag 9F02 (Amount, Authorized).
        tag_9f03 : bytes
            Binary data from tag 9F03 (Amount, Other).
        tag_9f1a : bytes
            Binary data from tag 9F1A (Terminal Country Code).
        tag_95 : bytes
            Binary data from tag 95 (Terminal Verification Results).
        tag_5f2a : bytes
            Binary data from tag 5F2A (Transaction Currency Code).
        tag_9a : bytes
            Binary data from tag 9A (Transaction Date).
        tag_9c : bytes
            Binary Data from tag 9C (Transaction Type).
        tag_9f37 : bytes
            Binary data from tag 9F37 (Unpredictable Number).
        tag_82 : bytes
            Binary data from tag 82 (Application Interchange Profile).
        tag_9f36 : bytes
            Binary data from tag 9F36 (Application Transaction Counter).
        cvr : bytes
            6 bytes of binary Card Verification Results extracted from
            9F10 (Issuer Application Data).

        Returns
        -------
        ac : bytes
            Returns binary 8-byte cryptogram (ARQC, TC, AAC).
        """
        return _ac.generate_ac(
            self._derive_sk_ac_mastercard(tag_9f36, tag_9f37),
            tag_9f02
            + tag_9f03
            + tag_9f1a
            + tag_95
            + tag_5f2a
            + tag_9a
            + tag_9c
            + tag_9f37
            + tag_82
            + tag_9f36
            + cvr,
            _ac.PaddingType.EMV,
            8,
        )

    def _derive_sk_arpc_none(self) -> bytes:
        """Derive Application Cryptogram Session Key.
        Use ICC Master Key, since Session Key is not applicable.

        Returns
        -------
        sk_ac : bytes
            16-byte binary Session Key for Application Cryptogram.
            Has to be a valid DES key.
        """
        return self.icc_mk_ac

    def generate_arpc(self, tag_9f26: bytes, arpc_rc: bytes) -> bytes:
        """Generate Authorisation Response Cryptogram (ARPC) using method 1.
        Method for the generation of a 8-byte ARPC consists of applying
        ISO/IEC 9797-1 MAC algorithm 3 to:

            - 8-byte binary ARQC
            - 2-byte binary ARPC response code

        Parameters
        ----------
        tag_9f26 : bytes
            Binary data from tag 9F26 (Authorisation Request Cryptogram).
        arpc_rc : bytes
            Binary 2-byte ARPC response code.

        Returns
        -------
        arpc : bytes
            Returns binary 8-byte Authorisation Response Cryptogram (ARPC).
            The resulting issuer authentication data (tag 91) is:

                91 || Len || ARPC || ARPC-RC
        """
        return _ac.generate_arpc_1(self._derive_sk_arpc_none(), tag_9f26, arpc_rc)

    def _derive_sk_sm_common(self, icc_mk_sm: bytes, tag_9f26: bytes) -> bytes:
        """Derive Secure Messaging Session Key using Common method.

        Parameters
        ----------
        icc_mk_sm : bytes
            16-byte binary ICC Master Key for Secure Messaging.
            Has to be a valid DES key.
        tag_9f26 : bytes
            Binary data from tag 9F26 (Authorisation Request Cryptogram).

        Returns
        -------
        sk_sm : bytes
            16-byte binary Session Key for Secure Messaging.
            Has to be a valid DES key.
        """
        return _kd.derive_common_sk(icc_mk_sm, tag_9f26)

    def generate_command_mac(
        self,
        command_header: bytes,
        tag_9f26: bytes,
        tag_9f36: bytes,
        command_data: bytes = b"",
    ) -> bytes:
        r"""Message Authentication Code (MAC) for Secure Messaging Integrity.

        Parameters
        ----------
        command_header : bytes
            Binary command header, such as \x84\x24\x00\x00\x08 for PIN unblock.
        tag_9f26 : bytes
            Binary data from tag 9F26 (Authorisation Request Cryptogram).
            This value should be increment by 1 for each process script command
            after the first command. For example, the first script command will
            use 9F26 as-is (e.g. \x12\x34\x56\x78\x12\x34\x56\x78).
            The second script command will use 9F26 + 1
            (e.g. \x12\x34\x56\x78\x12\x34\x56\x79). And so on.
        tag_9f36 : bytes
            Binary data from tag 9F36 (Application Transaction Counter).
        command_data : bytes, optional
            Binary command data, e.g. PUT DATA or PIN block.

        Returns
        -------
        mac : bytes
            Binary 8-byte command MAC.

        """
        return _sm.generate_command_mac(
            self._derive_sk_sm_common(self.icc_mk_smi, tag_9f26),
            command_header + tag_9f36 + tag_9f26 + command_data,
            8,
        )

    def encrypt_command_data(self, command_data: bytes, tag_9f26: bytes) -> bytes:
        r"""Command Data Encryption for Secure Messaging Confidentiality.

        Parameters
        ----------
        command_data : bytes
            Binary command data, e.g. PUT DATA or PIN block.
        tag_9f26 : bytes
            Binary data from tag 9F26 (Authorisation Request Cryptogram).
            This value should be increment by 1 for each process script command
            after the first command. For example, the first script command will
            use 9F26 as-is (e.g. \x12\x34\x56\x78\x12\x34\x56\x78).
            The second script command will use 9F26 + 1
            (e.g. \x12\x34\x56\x78\x12\x34\x56\x79). And so on.

        Returns
        -------
        encrypted_command_data : bytes
            Binary encrypted command command data. Then the resulting command is:

                Header || Encrypted Data || MAC
        """
        return _sm.encrypt_command_data(
            self._derive_sk_sm_common(self.icc_mk_smc, tag_9f26),
            command_data,
            _sm.EncryptionType.MASTERCARD,
        )

    def generate_pin_change_command(
        self,
        pin: _typing.Union[bytes, str],
        tag_9f26: bytes,
        tag_9f36: bytes,
    ) -> bytes:
        r"""Generate a PIN change command with encrypted PIN block and MAC.

        Parameters
        ----------
        pin : bytes or str
            New ASCII Personal Identification Number.
        tag_9f26 : bytes
            Binary data from tag 9F26 (Authorisation Request Cryptogram).
            This value should be increment by 1 for each process script command
            after the first command. For example, the first script command will
            use 9F26 as-is (e.g. \x12\x34\x56\x78\x12\x34\x56\x78).
            The second script command will use 9F26 + 1
            (e.g. \x12\x34\x56\x78\x12\x34\x56\x79). And so on.
        tag_9f36 : bytes
            Binary data from tag 9F36 (Application Transaction Counter).

        Returns
        -------
        pin_change_command : bytes
            Binary PIN change command with encrypted PIN block and MAC.

        """
        enc_pin_block = self.encrypt_command_data(
            _sm.format_iso9564_2_pin_block(pin), tag_9f26
        )

        command_header = b"\x84\x24\x00\x02\x10"

        return (
            command_header
            + enc_pin_block
            + self.generate_command_mac(
                command_header, tag_9f26, tag_9f36, enc_pin_block
            )
        )


class MasterCardCVN17:
    """Cryptogram Version Number (CVN) defines Card Authentication Method (CAM).
    MasterCard Cryptogram Version Number (CVN) 17 defines the following:

        - ICC Master Key derivation method = Option A
        - Application Cryptogram (ARQC, TC, ACC) Session Key derivation method = MasterCard
        - Application Cryptogram (ARQC, TC, ACC) calculation method = EMV
        - Authorisation Response Cryptogram Session Key derivation method = None
        - Authorisation Response Cryptogram calculation method = 1
        - Secure Messaging Session Key derivation method = Common
        - Secure Messaging Integrity (MAC) data format and padding = Format 2,
          padded with transaction data
        - Secure Messaging Confidentiality encryption method and padding = MasterCard

    MasterCard CVN 17 (binary 0001 0 00 1):

        - Bit 2-3 = 00: Uses Mastercard Proprietary SKD session key
        - Bit 1 = 1:    Includes counters in AC generation

    Parameters
    ----------
    iss_mk_ac : bytes
        16-byte binary Issuer Master Key for Application Cryptography.
        Has to be a valid DES key.
    iss_mk_smi : bytes
        16-byte binary Issuer Master Key for Issuer Script Integrity.
        Has to be a valid DES key.
    iss_mk_smc : bytes
        16-byte binary Issuer Master Key for Issuer Script Confidentiality.
        Has to be a valid DES key.
    pan : bytes or str
        ASCII Application Primary Account Number.
    psn : bytes or str, optional
        ASCII 2-digit PAN Sequence Number (default 00).

    Attributes
    ----------
    icc_mk_ac : bytes
        16-byte binary ICC Master Key for Application Cryptography.
    icc_mk_smi : bytes
        16-byte binary ICC Master Key for Issuer Script Integrity.
    icc_mk_smc : bytes
        16-byte binary ICC Master Key for Issuer Script Confidentiality.
    """

    def __init__(
        self,
        iss_mk_ac: bytes,
        iss_mk_smi: bytes,
        iss_mk_smc: bytes,
        pan: _typing.Union[bytes, str],
        psn: _typing.Optional[_typing.Union[bytes, str]] = None,
    ) -> None:
        # Derive AC, SMI, and SMC ICC Master Keys for a new card
        # using option A.
        psn = psn or "00"
        self.icc_mk_ac = _kd.derive_icc_mk_a(iss_mk_ac, pan, psn)
        self.icc_mk_smi = _kd.derive_icc_mk_a(iss_mk_smi, pan, psn)
        self.icc_mk_smc = _kd.derive_icc_mk_a(iss_mk_smc, pan, psn)

    def _derive_sk_ac_mastercard(self, tag_9f36: bytes, tag_9f37: bytes) -> bytes:
        """Derive Application Cryptogram Session Key using MasterCard method.

        Parameters
        ----------
        tag_9f36 : bytes
            Binary data from tag 9F36 (Application Transaction Counter).
        tag_9f37 : bytes
            Binary data from tag 9F37 (Unpredictable Number).

        Returns
        -------
        sk_ac : bytes
            16-byte binary Session Key for Application Cryptogram.
            Has to be a valid DES key.
        """
        return _kd.derive_common_sk(self.icc_mk_ac, tag_9f36 + b"\x00" * 2 + tag_9f37)

    def generate_ac(
        self,
        tag_9f02: bytes,
        tag_9f03: bytes,
        tag_9f1a: bytes,
        tag_95: bytes,
        tag_5f2a: bytes,
        tag_9a: bytes,
        tag_9c: bytes,
        tag_9f37: bytes,
        tag_82: bytes,
        tag_9f36: bytes,
        cvr: bytes,
        counters: bytes,
    ) -> bytes:
        r"""Generate Application Cryptogram. Same process for
            - Authorisation Request Cryptogram (ARQC)
            - Transaction Cryptogram (TC)
            - Application Authentication Cryptogram (AAC)

        Parameters
        ----------
        tag_9f02 : bytes
            Binary data from tag 9F02 (Amount, Authorized).
        tag_9f03 : bytes
            Binary data from tag 9F03 (Amount, Other).
        tag_9f1a : bytes
            Binary data from tag 9F1A (Terminal Country Code).
        tag_95 : bytes
            Binary data from tag 95 (Terminal Verification Results).
        tag_5f2a : bytes
            Binary data from tag 5F2A (Transaction Currency Code).
        tag_9a : bytes
            Binary data from tag 9A (Transaction Date).
        tag_9c : bytes
            Binary Data from tag 9C (Transaction Type).
        tag_9f37 : bytes
            Binary data from tag 9F37 (Unpredictable Number).
        tag_82 : bytes
            Binary data from tag 82 (Application Interchange Profile).
        tag_9f36 : bytes
            Binary data from tag 9F36 (Application Transaction Counter).
        cvr : bytes
            6 bytes of binary Card Verification Results extracted from
            9F10 (Issuer Application Data).
        counters : bytes
            Counters include Cumulative Offline Transaction Amount
            (6 bytes), Consecutive Offline Transactions Number (1 byte) and
            1 byte set to \xFF.
            It's assumed that the counters are in the clear; not encrypted.
            These fields are extracted from 9F10 (Issuer Application Data).
            For M/Chip 4 counters are always 8 bytes long.
            For M/Chip Advance counters can be 8 or 16 bytes, with or without
            last online ATC.

        Returns
        -------
        ac : bytes
            Returns binary 8-byte cryptogram (ARQC, TC, AAC).
        """
        return _ac.generate_ac(
            self._derive_sk_ac_mastercard(tag_9f36, tag_9f37),
            tag_9f02
            + tag_9f03
            + tag_9f1a
            + tag_95
            + tag_5f2a
            + tag_9a
            + tag_9c
            + tag_9f37
            + tag_82
            + tag_9f36
            + cvr
            + counters,
            _ac.PaddingType.EMV,
            8,
        )

    def _derive_sk_arpc_none(self) -> bytes:
        """Derive Application Cryptogram Session Key.
        Use ICC Master Key, since Session Key is not applicable.

        Returns
        -------
        sk_ac : bytes
            16-byte binary Session Key for Application Cryptogram.
            Has to be a valid DES key.
        """
        return self.icc_mk_ac

    def generate_arpc(self, tag_9f26: bytes, arpc_rc: bytes) -> bytes:
        """Generate Authorisation Response Cryptogram (ARPC) using method 1.
        Method for the generation of a 8-byte ARPC consists of applying
        ISO/IEC 9797-1 MAC algorithm 3 to:

            - 8-byte binary ARQC
            - 2-byte binary ARPC response code

        Parameters
        ----------
        tag_9f26 : bytes
            Binary data from tag 9F26 (Authorisation Request Cryptogram).
        arpc_rc : bytes
            Binary 2-byte ARPC response code.

        Returns
        -------
        arpc : bytes
            Returns binary 8-byte Authorisation Response Cryptogram (ARPC).
            The resulting issuer authentication data (tag 91) is:

                91 || Len || ARPC || ARPC-RC
        """
        return _ac.generate_arpc_1(self._derive_sk_arpc_none(), tag_9f26, arpc_rc)

    def _derive_sk_sm_common(self, icc_mk_sm: bytes, tag_9f26: bytes) -> bytes:
        """Derive Secure Messaging Session Key using Common method.

        Parameters
        ----------
        icc_mk_sm : bytes
            16-byte binary ICC Master Key for Secure Messaging.
            Has to be a valid DES key.
        tag_9f26 : bytes
            Binary data from tag 9F26 (Authorisation Request Cryptogram).

        Returns
        -------
        sk_sm : bytes
            16-byte binary Session Key for Secure Messaging.
            Has to be a valid DES key.
        """
        return _kd.derive_common_sk(icc_mk_sm, tag_9f26)

    def generate_command_mac(
        self,
        command_header: bytes,
        tag_9f26: bytes,
        tag_9f36: bytes,
        command_data: bytes = b"",
    ) -> bytes:
        r"""Message Authentication Code (MAC) for Secure Messaging Integrity.

        Parameters
        ----------
        command_header : bytes
            Binary command header, such as \x84\x24\x00\x00\x08 for PIN unblock.
        tag_9f26 : bytes
            Binary data from tag 9F26 (Authorisation Request Cryptogram).
            This value should be increment by 1 for each process script command
            after the first command. For example, the first script command will
            use 9F26 as-is (e.g. \x12\x34\x56\x78\x12\x34\x56\x78).
            The second script command will use 9F26 + 1
            (e.g. \x12\x34\x56\x78\x12\x34\x56\x79). And so on.
        tag_9f36 : bytes
            Binary data from tag 9F36 (Application Transaction Counter).
        command_data : bytes, optional
            Binary command data, e.g. PUT DATA or PIN block.

        Returns
        -------
        mac : bytes
            Binary 8-byte command MAC.

        """
        return _sm.generate_command_mac(
            self._derive_sk_sm_common(self.icc_mk_smi, tag_9f26),
            command_header + tag_9f36 + tag_9f26 + command_data,
            8,
        )

    def encrypt_command_data(self, command_data: bytes, tag_9f26: bytes) -> bytes:
        r"""Command Data Encryption for Secure Messaging Confidentiality.

        Parameters
        ----------
        command_data : bytes
            Binary command data, e.g. PUT DATA or PIN block.
        tag_9f26 : bytes
            Binary data from tag 9F26 (Authorisation Request Cryptogram).
            This value should be increment by 1 for each process script command
            after the first command. For example, the first script command will
            use 9F26 as-is (e.g. \x12\x34\x56\x78\x12\x34\x56\x78).
            The second script command will use 9F26 + 1
            (e.g. \x12\x34\x56\x78\x12\x34\x56\x79). And so on.

        Returns
        -------
        encrypted_command_data : bytes
            Binary encrypted command command data. Then the resulting command is:

                Header || Encrypted Data || MAC
        """
        return _sm.encrypt_command_data(
            self._derive_sk_sm_common(self.icc_mk_smc, tag_9f26),
            command_data,
            _sm.EncryptionType.MASTERCARD,
        )

    def generate_pin_change_command(
        self,
        pin: _typing.Union[bytes, str],
        tag_9f26: bytes,
        tag_9f36: bytes,
    ) -> bytes:
        r"""Generate a PIN change command with encrypted PIN block and MAC.

        Parameters
        ----------
        pin : bytes or str
            New ASCII Personal Identification Number.
        tag_9f26 : bytes
            Binary data from tag 9F26 (Authorisation Request Cryptogram).
            This value should be increment by 1 for each process script command
            after the first command. For example, the first script command will
            use 9F26 as-is (e.g. \x12\x34\x56\x78\x12\x34\x56\x78).
            The second script command will use 9F26 + 1
            (e.g. \x12\x34\x56\x78\x12\x34\x56\x79). And so on.
        tag_9f36 : bytes
            Binary data from tag 9F36 (Application Transaction Counter).

        Returns
        -------
        pin_change_command : bytes
            Binary PIN change command with encrypted PIN block and MAC.

        """
        enc_pin_block = self.encrypt_command_data(
            _sm.format_iso9564_2_pin_block(pin), tag_9f26
        )

        command_header = b"\x84\x24\x00\x02\x10"

        return (
            command_header
            + enc_pin_block
            + self.generate_command_mac(
                command_header, tag_9f26, tag_9f36, enc_pin_block
            )
        )


class MasterCardCVN20:
    """Cryptogram Version Number (CVN) defines Card Authentication Method (CAM).
    MasterCard Cryptogram Version Number (CVN) 20 defines the following:

        - ICC Master Key derivation method = Option A
        - Application Cryptogram (ARQC, TC, ACC) Session Key derivation method = Common
        - Application Cryptogram (ARQC, TC, ACC) calculation method = EMV
        - Authorisation Response Cryptogram Session Key derivation method = Common
        - Authorisation Response Cryptogram calculation method = 1
        - Secure Messaging Session Key derivation method = Common
        - Secure Messaging Integrity (MAC) data format and padding = Format 2,
          padded with transaction data
        - Secure Messaging Confidentiality encryption method and padding = MasterCard

    MasterCard CVN 20 (binary 0001 0 10 0):

        - Bit 2-3 = 10: Uses EMV CSK session key
        - Bit 1 = 0:    Does not include counters in AC generation

    Parameters
    ----------
    iss_mk_ac : bytes
        16-byte binary Issuer Master Key for Application Cryptography.
        Has to be a valid DES key.
    iss_mk_smi : bytes
        16-byte binary Issuer Master Key for Issuer Script Integrity.
        Has to be a valid DES key.
    iss_mk_smc : bytes
        16-byte binary Issuer Master Key for Issuer Script Confidentiality.
        Has to be a valid DES key.
    pan : bytes or str
        ASCII Application Primary Account Number.
    psn : bytes or str, optional
        ASCII 2-digit PAN Sequence Number (default 00).

    Attributes
    ----------
    icc_mk_ac : bytes
        16-byte binary ICC Master Key for Application Cryptography.
    icc_mk_smi : bytes
        16-byte binary ICC Master Key for Issuer Script Integrity.
    icc_mk_smc : bytes
        16-byte binary ICC Master Key for Issuer Script Confidentiality.
    """

    def __init__(
        self,
        iss_mk_ac: bytes,
        iss_mk_smi: bytes,
        iss_mk_smc: bytes,
        pan: _typing.Union[bytes, str],
        psn: _typing.Optional[_typing.Union[bytes, str]] = None,
    ) -> None:
        # Derive AC, SMI, and SMC ICC Master Keys for a new card
        # using option A.
        psn = psn or "00"
        self.icc_mk_ac = _kd.derive_icc_mk_a(iss_mk_ac, pan, psn)
        self.icc_mk_smi = _kd.derive_icc_mk_a(iss_mk_smi, pan, psn)
        self.icc_mk_smc = _kd.derive_icc_mk_a(iss_mk_smc, pan, psn)

    def _derive_sk_ac_common(self, tag_9f36: bytes) -> bytes:
        """Derive Application Cryptogram Session Key using EMV Common method.

        Parameters
        ----------
        tag_9f36 : bytes
            Binary data from tag 9F36 (Application Transaction Counter).

        Returns
        -------
        sk_ac : bytes
            16-byte binary Session Key for Application Cryptogram.
            Has to be a valid DES key.
        """
        return _kd.derive_common_sk(self.icc_mk_ac, tag_9f36 + b"\x00" * 6)

    def generate_ac(
        self,
        tag_9f02: bytes,
        tag_9f03: bytes,
        tag_9f1a: bytes,
        tag_95: bytes,
        tag_5f2a: bytes,
        tag_9a: bytes,
        tag_9c: bytes,
        tag_9f37: bytes,
        tag_82: bytes,
        tag_9f36: bytes,
        cvr: bytes,
    ) -> bytes:
        r"""Generate Application Cryptogram. Same process for
            - Authorisation Request Cryptogram (ARQC)
            - Transaction Cryptogram (TC)
            - Application Authentication Cryptogram (AAC)

        Parameters
        ----------
        tag_9f02 : bytes
            Binary data from tag 9F02 (Amount, Authorized).
        tag_9f03 : bytes
            Binary data from tag 9F03 (Amount, Other).
        tag_9f1a : bytes
            Binary data from tag 9F1A (Terminal Country Code).
        tag_95 : bytes
            Binary data from tag 95 (Terminal Verification Results).
        tag_5f2a : bytes
            Binary data from tag 5F2A (Transaction Currency Code).
        tag_9a : bytes
            Binary data from tag 9A (Transaction Date).
        tag_9c : bytes
            Binary Data from tag 9C (Transaction Type).
        tag_9f37 : bytes
            Binary data from tag 9F37 (Unpredictable Number).
        tag_82 : bytes
            Binary data from tag 82 (Application Interchange Profile).
        tag_9f36 : bytes
            Binary data from tag 9F36 (Application Transaction Counter).
        cvr : bytes
            6 bytes of binary Card Verification Results extracted from
            9F10 (Issuer Application Data).

        Returns
        -------
        ac : bytes
            Returns binary 8-byte cryptogram (ARQC, TC, AAC).
        """
        return _ac.generate_ac(
            self._derive_sk_ac_common(tag_9f36),
            tag_9f02
            + tag_9f03
            + tag_9f1a
            + tag_95
            + tag_5f2a
            + tag_9a
            + tag_9c
            + tag_9f37
            + tag_82
            + tag_9f36
            + cvr,
            _ac.PaddingType.EMV,
            8,
        )

    def generate_arpc(self, tag_9f26: bytes, tag_9f36: bytes, arpc_rc: bytes) -> bytes:
        """Generate Authorisation Response Cryptogram (ARPC) using method 1.
        Method for the generation of a 8-byte ARPC consists of applying
        ISO/IEC 9797-1 MAC algorithm 3 to:

            - 8-byte binary ARQC
            - 2-byte binary ARPC response code

        Parameters
        ----------
        tag_9f26 : bytes
            Binary data from tag 9F26 (Authorisation Request Cryptogram).
        tag_9f36 : bytes
            Binary data from tag 9F36 (Application Transaction Counter).
        arpc_rc : bytes
            Binary 2-byte ARPC response code.

        Returns
        -------
        arpc : bytes
            Returns binary 8-byte Authorisation Response Cryptogram (ARPC).
            The resulting issuer authentication data (tag 91) is:

                91 || Len || ARPC || ARPC-RC
        """
        return _ac.generate_arpc_1(
            self._derive_sk_ac_common(tag_9f36), tag_9f26, arpc_rc
        )

    def _derive_sk_sm_common(self, icc_mk_sm: bytes, tag_9f26: bytes) -> bytes:
        """Derive Secure Messaging Session Key using Common method.

        Parameters
        ----------
        icc_mk_sm : bytes
            16-byte binary ICC Master Key for Secure Messaging.
            Has to be a valid DES key.
        tag_9f26 : bytes
            Binary data from tag 9F26 (Authorisation Request Cryptogram).

        Returns
        -------
        sk_sm : bytes
            16-byte binary Session Key for Secure Messaging.
            Has to be a valid DES key.
        """
        return _kd.derive_common_sk(icc_mk_sm, tag_9f26)

    def generate_command_mac(
        self,
        command_header: bytes,
        tag_9f26: bytes,
        tag_9f36: bytes,
        command_data: bytes = b"",
    ) -> bytes:
        r"""Message Authentication Code (MAC) for Secure Messaging Integrity.

        Parameters
        ----------
        command_header : bytes
            Binary command header, such as \x84\x24\x00\x00\x08 for PIN unblock.
        tag_9f26 : bytes
            Binary data from tag 9F26 (Authorisation Request Cryptogram).
            This value should be increment by 1 for each process script command
            after the first command. For example, the first script command will
            use 9F26 as-is (e.g. \x12\x34\x56\x78\x12\x34\x56\x78).
            The second script command will use 9F26 + 1
            (e.g. \x12\x34\x56\x78\x12\x34\x56\x79). And so on.
        tag_9f36 : bytes
            Binary data from tag 9F36 (Application Transaction Counter).
        command_data : bytes, optional
            Binary command data, e.g. PUT DATA or PIN block.

        Returns
        -------
        mac : bytes
            Binary 8-byte command MAC.

        """
        return _sm.generate_command_mac(
            self._derive_sk_sm_common(self.icc_mk_smi, tag_9f26),
            command_header + tag_9f36 + tag_9f26 + command_data,
            8,
        )

    def encrypt_command_data(self, command_data: bytes, tag_9f26: bytes) -> bytes:
        r"""Command Data Encryption for Secure Messaging Confidentiality.

        Parameters
        ----------
        command_data : bytes
            Binary command data, e.g. PUT DATA or PIN block.
        tag_9f26 : bytes
            Binary data from tag 9F26 (Authorisation Request Cryptogram).
            This value should be increment by 1 for each process script command
            after the first command. For example, the first script command will
            use 9F26 as-is (e.g. \x12\x34\x56\x78\x12\x34\x56\x78).
            The second script command will use 9F26 + 1
            (e.g. \x12\x34\x56\x78\x12\x34\x56\x79). And so on.

        Returns
        -------
        encrypted_command_data : bytes
            Binary encrypted command command data. Then the resulting command is:

                Header || Encrypted Data || MAC
        """
        return _sm.encrypt_command_data(
            self._derive_sk_sm_common(self.icc_mk_smc, tag_9f26),
            command_data,
            _sm.EncryptionType.MASTERCARD,
        )

    def generate_pin_change_command(
        self,
        pin: _typing.Union[bytes, str],
        tag_9f26: bytes,
        tag_9f36: bytes,
    ) -> bytes:
        r"""Generate a PIN change command with encrypted PIN block and MAC.

        Parameters
        ----------
        pin : bytes or str
            New ASCII Personal Identification Number.
        tag_9f26 : bytes
            Binary data from tag 9F26 (Authorisation Request Cryptogram).
            This value should be increment by 1 for each process script command
            after the first command. For example, the first script command will
            use 9F26 as-is (e.g. \x12\x34\x56\x78\x12\x34\x56\x78).
            The second script command will use 9F26 + 1
            (e.g. \x12\x34\x56\x78\x12\x34\x56\x79). And so on.
        tag_9f36 : bytes
            Binary data from tag 9F36 (Application Transaction Counter).

        Returns
        -------
        pin_change_command : bytes
            Binary PIN change command with encrypted PIN block and MAC.

        """
        enc_pin_block = self.encrypt_command_data(
            _sm.format_iso9564_2_pin_block(pin), tag_9f26
        )

        command_header = b"\x84\x24\x00\x02\x10"

        return (
            command_header
            + enc_pin_block
            + self.generate_command_mac(
                command_header, tag_9f26, tag_9f36, enc_pin_block
            )
        )


class MasterCardCVN21:
    """Cryptogram Version Number (CVN) defines Card Authentication Method (CAM).
    MasterCard Cryptogram Version Number (CVN) 21 defines the following:

        - ICC Master Key derivation method = Option A
        - Application Cryptogram (ARQC, TC, ACC) Session Key derivation method = Common
        - Application Cryptogram (ARQC, TC, ACC) calculation method = EMV
        - Authorisation Response Cryptogram Session Key derivation method = Common
        - Authorisation Response Cryptogram calculation method = 1
        - Secure Messaging Session Key derivation method = Common
        - Secure Messaging Integrity (MAC) data format and padding = Format 2,
          padded with transaction data
        - Secure Messaging Confidentiality encryption method and padding = MasterCard

    MasterCard CVN 20 (binary 0001 0 10 1):

        - Bit 2-3 = 10: Uses EMV CSK session key
        - Bit 1 = 1:    Includes counters in AC generation

    Parameters
    ----------
    iss_mk_ac : bytes
        16-byte binary Issuer Master Key for Application Cryptography.
        Has to be a valid DES key.
    iss_mk_smi : bytes
        16-byte binary Issuer Master Key for Issuer Script Integrity.
        Has to be a valid DES key.
    iss_mk_smc : bytes
        16-byte binary Issuer Master Key for Issuer Script Confidentiality.
        Has to be a valid DES key.
    pan : bytes or str
        ASCII Application Primary Account Number.
    psn : bytes or str, optional
        ASCII 2-digit PAN Sequence Number (default 00).

    Attributes
    ----------
    icc_mk_ac : bytes
        16-byte binary ICC Master Key for Application Cryptography.
    icc_mk_smi : bytes
        16-byte binary ICC Master Key for Issuer Script Integrity.
    icc_mk_smc : bytes
        16-byte binary ICC Master Key for Issuer Script Confidentiality.
    """

    def __init__(
        self,
        iss_mk_ac: bytes,
        iss_mk_smi: bytes,
        iss_mk_smc: bytes,
        pan: _typing.Union[bytes, str],
        psn: _typing.Optional[_typing.Union[bytes, str]] = None,
    ) -> None:
        # Derive AC, SMI, and SMC ICC Master Keys for a new card
        # using option A.
        psn = psn or "00"
        self.icc_mk_ac = _kd.derive_icc_mk_a(iss_mk_ac, pan, psn)
        self.icc_mk_smi = _kd.derive_icc_mk_a(iss_mk_smi, pan, psn)
        self.icc_mk_smc = _kd.derive_icc_mk_a(iss_mk_smc, pan, psn)

    def _derive_sk_ac_common(self, tag_9f36: bytes) -> bytes:
        """Derive Application Cryptogram Session Key using EMV Common method.

        Parameters
        ----------
        tag_9f36 : bytes
            Binary data from tag 9F36 (Application Transaction Counter).

        Returns
        -------
        sk_ac : bytes
            16-byte binary Session Key for Application Cryptogram.
            Has to be a valid DES key.
        """
        return _kd.derive_common_sk(self.icc_mk_ac, tag_9f36 + b"\x00" * 6)

    def generate_ac(
        self,
        tag_9f02: bytes,
        tag_9f03: bytes,
        tag_9f1a: bytes,
        tag_95: bytes,
        tag_5f2a: bytes,
        tag_9a: bytes,
        tag_9c: bytes,
        tag_9f37: bytes,
        tag_82: bytes,
        tag_9f36: bytes,
        cvr: bytes,
        counters: bytes,
    ) -> bytes:
        r"""Generate Application Cryptogram. Same process for
            - Authorisation Request Cryptogram (ARQC)
            - Transaction Cryptogram (TC)
            - Application Authentication Cryptogram (AAC)

        Parameters
        ----------
        tag_9f02 : bytes
            Binary data from tag 9F02 (Amount, Authorized).
        tag_9f03 : bytes
            Binary data from tag 9F03 (Amount, Other).
        tag_9f1a : bytes
            Binary data from tag 9F1A (Terminal Country Code).
        tag_95 : bytes
            Binary data from tag 95 (Terminal Verification Results).
        tag_5f2a : bytes
            Binary data from tag 5F2A (Transaction Currency Code).
        tag_9a : bytes
            Binary data from tag 9A (Transaction Date).
        tag_9c : bytes
            Binary Data from tag 9C (Transaction Type).
        tag_9f37 : bytes
            Binary data from tag 9F37 (Unpredictable Number).
        tag_82 : bytes
            Binary data from tag 82 (Application Interchange Profile).
        tag_9f36 : bytes
            Binary data from tag 9F36 (Application Transaction Counter).
        cvr : bytes
            6 bytes of binary Card Verification Results extracted from
            9F10 (Issuer Application Data).
        counters : bytes
            Counters include Cumulative Offline Transaction Amount
            (6 bytes), Consecutive Offline Transactions Number (1 byte) and
            1 byte set to \xFF.
            It's assumed that the counters are in the clear; not encrypted.
            These fields are extracted from 9F10 (Issuer Application Data).
            For M/Chip 4 counters are always 8 bytes long.
            For M/Chip Advance counters can be 8 or 16 bytes, with or without
            last online ATC.

        Returns
        -------
        ac : bytes
            Returns binary 8-byte cryptogram (ARQC, TC, AAC).
        """
        return _ac.generate_ac(
            self._derive_sk_ac_common(tag_9f36),
            tag_9f02
            + tag_9f03
            + tag_9f1a
            + tag_95
            + tag_5f2a
            + tag_9a
            + tag_9c
            + tag_9f37
            + tag_82
            + tag_9f36
            + cvr
            + counters,
            _ac.PaddingType.EMV,
            8,
        )

    def generate_arpc(self, tag_9f26: bytes, tag_9f36: bytes, arpc_rc: bytes) -> bytes:
        """Generate Authorisation Response Cryptogram (ARPC) using method 1.
        Method for the generation of a 8-byte ARPC consists of applying
        ISO/IEC 9797-1 MAC algorithm 3 to:

            - 8-byte binary ARQC
            - 2-byte binary ARPC response code

        Parameters
        ----------
        tag_9f26 : bytes
            Binary data from tag 9F26 (Authorisation Request Cryptogram).
        tag_9f36 : bytes
            Binary data from tag 9F36 (Application Transaction Counter).
        arpc_rc : bytes
            Binary 2-byte ARPC response code.

        Returns
        -------
        arpc : bytes
            Returns binary 8-byte Authorisation Response Cryptogram (ARPC).
            The resulting issuer authentication data (tag 91) is:

                91 || Len || ARPC || ARPC-RC
        """
        return _ac.generate_arpc_1(
            self._derive_sk_ac_common(tag_9f36), tag_9f26, arpc_rc
        )

    def _derive_sk_sm_common(self, icc_mk_sm: bytes, tag_9f26: bytes) -> bytes:
        """Derive Secure Messaging Session Key using Common method.

        Parameters
        ----------
        icc_mk_sm : bytes
            16-byte binary ICC Master Key for Secure Messaging.
            Has to be a valid DES key.
        tag_9f26 : bytes
            Binary data from tag 9F26 (Authorisation Request Cryptogram).

        Returns
        -------
        sk_sm : bytes
            16-byte binary Session Key for Secure Messaging.
            Has to be a valid DES key.
        """
        return _kd.derive_common_sk(icc_mk_sm, tag_9f26)

    def generate_command_mac(
        self,
        command_header: bytes,
        tag_9f26: bytes,
        tag_9f36: bytes,
        command_data: bytes = b"",
    ) -> bytes:
        r"""Message Authentication Code (MAC) for Secure Messaging Integrity.

        Parameters
        ----------
        command_header : bytes
            Binary command header, such as \x84\x24\x00\x00\x08 for PIN unblock.
        tag_9f26 : bytes
            Binary data from tag 9F26 (Authorisation Request Cryptogram).
            This value should be increment by 1 for each process script command
            after the first command. For example, the first script command will
            use 9F26 as-is (e.g. \x12\x34\x56\x78\x12\x34\x56\x78).
            The second script command will use 9F26 + 1
            (e.g. \x12\x34\x56\x78\x12\x34\x56\x79). And so on.
        tag_9f36 : bytes
            Binary data from tag 9F36 (Application Transaction Counter).
        command_data : bytes, optional
            Binary command data, e.g. PUT DATA or PIN block.

        Returns
        -------
        mac : bytes
            Binary 8-byte command MAC.

        """
        return _sm.generate_command_mac(
            self._derive_sk_sm_common(self.icc_mk_smi, tag_9f26),
            command_header + tag_9f36 + tag_9f26 + command_data,
            8,
        )

    def encrypt_command_data(self, command_data: bytes, tag_9f26: bytes) -> bytes:
        r"""Command Data Encryption for Secure Messaging Confidentiality.

        Parameters
        ----------
        command_data : bytes
            Binary command data, e.g. PUT DATA or PIN block.
        tag_9f26 : bytes
            Binary data from tag 9F26 (Authorisation Request Cryptogram).
            This value should be increment by 1 for each process script command
            after the first command. For example, the first script command will
            use 9F26 as-is (e.g. \x12\x34\x56\x78\x12\x34\x56\x78).
            The second script command will use 9F26 + 1
            (e.g. \x12\x34\x56\x78\x12\x34\x56\x79). And so on.

        Returns
        -------
        encrypted_command_data : bytes
            Binary encrypted command command data. Then the resulting command is:

                Header || Encrypted Data || MAC
        """
        return _sm.encrypt_command_data(
            self._derive_sk_sm_common(self.icc_mk_smc, tag_9f26),
            command_data,
            _sm.EncryptionType.MASTERCARD,
        )

    def generate_pin_change_command(
        self,
        pin: _typing.Union[bytes, str],
        tag_9f26: bytes,
        tag_9f36: bytes,
    ) -> bytes:
        r"""Generate a PIN change command with encrypted PIN block and MAC.

        Parameters
        ----------
        pin : bytes or str
            New ASCII Personal Identification Number.
        tag_9f26 : bytes
            Binary data from tag 9F26 (Authorisation Request Cryptogram).
            This value should be increment by 1 for each process script command
            after the first command. For example, the first script command will
            use 9F26 as-is (e.g. \x12\x34\x56\x78\x12\x34\x56\x78).
            The second script command will use 9F26 + 1
            (e.g. \x12\x34\x56\x78\x12\x34\x56\x79). And so on.
        tag_9f36 : bytes
            Binary data from tag 9F36 (Application Transaction Counter).

        Returns
        -------
        pin_change_command : bytes
            Binary PIN change command with encrypted PIN block and MAC.

        """
        enc_pin_block = self.encrypt_command_data(
            _sm.format_iso9564_2_pin_block(pin), tag_9f26
        )

        command_header = b"\x84\x24\x00\x02\x10"

        return (
            command_header
            + enc_pin_block
            + self.generate_command_mac(
                command_header, tag_9f26, tag_9f36, enc_pin_block
            )
        )
