r"""Provide functions to generate Dynamic Card Verification Values.
Dynamic Card Verification is used in EMV transactions to
generate a new CVV for each transaction.
"""

from pyemv import mac as _mac
from pyemv import tools as _tools

__all__ = ["generate_cvc3"]


def generate_cvc3(icc_cvc3: bytes, track_template: bytes, atc: bytes, un: bytes) -> str:
    r"""Generate MasterCard Dynamic Card Verification Code (CVC3).

    Parameters
    ----------
    icc_cvc3 : bytes
        Binary 16-byte ICC CVC3 key encoded on the card.
        This key is derived from Issuer Master CVC3 key using
        either `kd.derive_icc_mk_a` or `kd.derive_icc_mk_b`.
        Has to be a valid Triple DES key.
    track_template : bytes
        Binary track template data.
        Track2 template consists of:

            PAN || "D" || EXPIRY DATE || SERVICE CODE || DD || "F"?

        DD is Discretionary Data up to 13 digits. DD must have
        value before it's encoded with ATC, UN and CVC3.
        If the resulting track2 template is odd length then it must
        be padded with an "F".

        Track1 template consists of:

            "B" || PAN || ^LAST/FIRST^ || EXPIRY DATE || SERVICE CODE || DD

        Track1 template must be encoded as an ASCII byte string, where, for example,
        character "B" is encoded as "\x42".

    atc : bytes
        Binary data from tag 9F36 (Application Transaction Counter).
    un : bytes
        Binary data from tag 9F37 (Unpredictable Number).

    Returns
    -------
    cvc3 : str
        5-digit Dynamic Card Verification Code.
        Compare generated CVC3 against number of available
        least significant digits of CVC3 received on track1/2.

    Raises
    ------
    ValueError
        ICC CVC3 key must be a double length DES key
    ValueError
        ATC value must be 2 bytes long
    ValueError
        Unpredictable number must be 4 bytes long

    Examples
    --------
    >>> from pyemv.cvv import generate_cvc3
    >>> from pyemv.kd import derive_icc_mk_a
    >>> iss_cvc3 = bytes.fromhex("01234567899876543210012345678998")
    >>> pan = "5123456789012345"
    >>> psn = "00"
    >>> icc_cvc3 = derive_icc_mk_a(iss_cvc3, pan, psn)
    >>> track2 = bytes.fromhex("5123456789012345D35121010000000000000F")
    >>> atc = bytes.fromhex("005E")
    >>> un = bytes.fromhex("00000899")
    >>> generate_cvc3(icc_cvc3, track2, atc, un)
    '29488'
    """
    if len(icc_cvc3) != 16:
        raise ValueError("ICC CVC3 key must be a double length DES key")

    if len(atc) != 2:
        raise ValueError("ATC value must be 2 bytes long")

    if len(un) != 4:
        raise ValueError("Unpredictable number must be 4 bytes long")

    # IV CVC3 is formed from 2 least significant bytes of CBC-MAC
    # computed over track template
    iv_cvc3 = _mac.mac_iso9797_3(icc_cvc3[:8], icc_cvc3[-8:], track_template, 2)[-2:]

    # CVC3 is formed from 2 least significant bytes of TDES encrypted
    # ciphertext block
    block = iv_cvc3 + un + atc
    cvc3 = _tools.encrypt_tdes_ecb(icc_cvc3, block)[-2:]

    return str(int(cvc3.hex(), 16)).zfill(5)
