r"""Use TLV decoder and encoder to disassemble and assemble tag-length-value EMV data.

By default TLV data is broken down into bytes:

    >>> import pyemv
    >>> tlv_data = bytes.fromhex("9C0101E0055F2A0202089F0200")
    >>> pyemv.tlv.decode(tlv_data)
    {'9C': b'\x01', 'E0': {'5F2A': b'\x02\x08'}, '9F02': b''}
    >>> pyemv.tlv.encode({'9C': b'\x01', 'E0': {'5F2A': b'\x02\x08'}, '9F02': b''}).hex().upper()
    '9C0101E0055F2A0202089F0200'

It can also be converted to strings (among other things):

    >>> import pyemv
    >>> tlv_data = bytes.fromhex("9C0101E0055F2A0202089F0200")
    >>> pyemv.tlv.decode(tlv_data, convert=lambda t, v: v.hex().upper())
    {'9C': '01', 'E0': {'5F2A': '0208'}, '9F02': ''}
    >>> pyemv.tlv.encode({'9C': '01', 'E0': {'5F2A': '0208'}, '9F02': ''}).hex().upper()
    '9C0101E0055F2A0202089F0200'
"""

import typing as _t

__all__ = ["decode", "DecodeError", "encode", "EncodeError"]


class DecodeError(ValueError):
    r"""Subclass of ValueError that describes TLV decoding error.

    Attributes
    ----------
    msg : str
        The unformatted error message
    tag : str
        Tag where decoding stopped
    offset : int
        Offset in the input data where decoding stopped
    tlv : dict
        Dictionary with partially decoded data
    """

    def __init__(
        self,
        msg: str,
        tag: str,
        offset: int,
        tlv: _t.Dict[str, _t.Any],
    ):
        errmsg = f"{msg}: tag '{tag}', offset {offset}."
        ValueError.__init__(self, errmsg)
        self.msg = msg
        self.tag = tag
        self.offset = offset
        self.tlv = tlv


class EncodeError(ValueError):
    r"""Subclass of ValueError that describes TLV encoding error.

    Attributes
    ----------
    msg : str
        The unformatted error message
    tag : str
        Tag where decoding stopped
    """

    def __init__(
        self,
        msg: str,
        tag: str,
    ):
        errmsg = f"{msg}: tag '{tag}'."
        ValueError.__init__(self, errmsg)
        self.msg = msg
        self.tag = tag


# fmt: off
_S = _t.TypeVar("_S")
@_t.overload
def decode(data: bytes) -> _t.Dict[str, _t.Any]: ...
@_t.overload
def decode(data: bytes, *, simple: _t.Optional[bool]) -> _t.Dict[str, _t.Any]: ...
@_t.overload
def decode(data: bytes, *, convert: _t.Optional[_t.Callable[[str, _t.Union[bytes, bytearray]], _t.Any]]) -> _t.Dict[str, _t.Any]: ...
@_t.overload
def decode(data: bytes, *, simple: _t.Optional[bool], convert: _t.Optional[_t.Callable[[str, _t.Union[bytes, bytearray]], _t.Any]]) -> _t.Dict[str, _t.Any]: ...
@_t.overload
def decode(data: bytes, *, flatten: _t.Optional[bool] = True) -> _t.Dict[str, bytes]: ...
@_t.overload
def decode(data: bytes, *, flatten: _t.Optional[bool] = True, convert: _t.Optional[_t.Callable[[str, _t.Union[bytes, bytearray]], _S]]) -> _t.Dict[str, _S]: ...
@_t.overload
def decode(data: bytes, *, flatten: _t.Optional[bool] = True, simple: _t.Optional[bool]) -> _t.Dict[str, bytes]: ...
@_t.overload
def decode(data: bytes, *, flatten: _t.Optional[bool] = True, simple: _t.Optional[bool], convert: _t.Optional[_t.Callable[[str, _t.Union[bytes, bytearray]], _S]]) -> _t.Dict[str, _S]: ...
# fmt: on


def decode(
    data: _t.Union[bytes, bytearray],
    *,
    flatten: _t.Optional[bool] = None,
    simple: _t.Optional[bool] = None,
    convert: _t.Optional[_t.Callable[[str, _t.Union[bytes, bytearray]], _t.Any]] = None,
) -> _t.Dict[str, _t.Any]:
    r"""Decode TLV data.

    Parameters
    ----------
    data : bytes
        Encoded TLV data
    flatten : bool, optional
        Flatten constructed tags and return one flat dictionary
        with all tags together. Defaults to False.
    simple : bool, optional
        Some specification stipulate that TLV length is always
        1 byte long with a maximum length of 255.
        To enable this option set simple to True. Defaults to False.
    convert : callable, optional
        Apply this function to every primitive tag value and
        return tag value in desired format.
        Function must accept tag name as a first argument and
        tag value as a second argument.
        Defauls to 'lambda t, v: bytes(v)' to return bytes objects.

    Returns
    -------
    tlv : dict
        Dictionary with decoded data

    Raises
    ------
    DecodeError

    Notes
    -----
    This decoder adheres to Rules for BER-TLV Data Objects in Annex B or
    EMV 4.3 Book 3 Application Specification.

    Examples
    --------
    >>> from pyemv import tlv
    >>> tlv.decode(bytes.fromhex("9C0101E0055F2A0202089F0200"))
    {'9C': b'\x01', 'E0': {'5F2A': b'\x02\x08'}, '9F02': b''}
    >>> tlv.decode(bytes.fromhex("9C0101E0055F2A0202089F0200"), flatten=True)
    {'9C': b'\x01', '5F2A': b'\x02\x08', '9F02': b''}
    >>> tlv.decode(bytes.fromhex("9C0101E0055F2A0202089F0200"), convert=lambda t, v: v.hex().upper())
    {'9C': '01', 'E0': {'5F2A': '0208'}, '9F02': ''}
    >>> tlv.decode(bytes.fromhex("9C0101E0055F2A0202089F0200"), flatten=True, convert=lambda t, v: v.hex().upper())
    {'9C': '01', '5F2A': '0208', '9F02': ''}
    """

    if flatten is None:
        flatten = False

    if simple is None:
        simple = False

    if convert is None:
        convert = lambda t, v: bytes(v)

    dec: _t.Dict[str, _t.Any] = {}

    try:
        _decode(data, 0, len(data), dec, flatten, simple, convert)
    except DecodeError as e:
        # Catch the error here to provide reference
        # to a partically decoded data.
        e.tlv = dec
        raise
    return dec


def _decode(
    data: _t.Union[bytes, bytearray],
    ofst: int,
    ofst_limit: int,
    dec: _t.Dict[str, _t.Any],
    flatten: bool,
    simple: bool,
    convert: _t.Callable[[str, _t.Union[bytes, bytearray]], _S],
) -> int:
    while ofst < ofst_limit:
        # Determine tag name length.
        tag_name_len = 1
        try:
            # If b0-4 are on then a 2nd byte follows.
            constructed = bool(data[ofst] & 0b00100000)
            if (data[ofst] & 0b00011111) == 0b00011111:
                # If b7 is on then another byte follows
                while data[ofst + tag_name_len] & 0b10000000:
                    tag_name_len += 1
                tag_name_len += 1
        except IndexError:
            raise DecodeError(
                "Tag malformed, expecting more data",
                data[ofst : ofst + tag_name_len].hex().upper(),
                ofst,
                dec,
            ) from None

        # Check that tag name falls within parent tag
        if ofst + tag_name_len > ofst_limit:
            raise DecodeError(
                "Tag malformed, expecting more data",
                data[ofst : min(ofst + tag_name_len, ofst_limit)].hex().upper(),
                ofst,
                dec,
            )

        # Save tag name and move farther
        tag = data[ofst : ofst + tag_name_len].hex().upper()
        ofst += tag_name_len

        # Determine tag length
        tag_len_len = 1

        # Check that tag length falls within parent tag
        if ofst + tag_len_len > ofst_limit:
            raise DecodeError(
                f"Tag length malformed, expecting {str(tag_len_len)} byte(s)",
                tag,
                ofst,
                dec,
            )

        if data[ofst] & 0b10000000 and not simple:
            tag_len_len = data[ofst] & 0b01111111
            ofst += 1
            # Data does not have enough bytes to contain full
            # length as indicated by the previous byte.
            if ofst + tag_len_len > ofst_limit:
                raise DecodeError(
                    f"Tag length malformed, expecting {str(tag_len_len)} byte(s)",
                    tag,
                    ofst,
                    dec,
                )
            tag_len = int.from_bytes(data[ofst : ofst + tag_len_len], "big")
            ofst += tag_len_len
        else:
            tag_len = data[ofst]
            ofst += tag_len_len

        # Check that tag data falls within parent tag
        if ofst + tag_len > ofst_limit:
            raise DecodeError(
                f"Tag value malformed, expecting {str(tag_len)} byte(s)",
                tag,
                ofst,
                dec,
            )

        # Constructed data type (b5=on)
        if constructed:
            if flatten:
                ofst = _decode(
                    data, ofst, ofst + tag_len, dec, flatten, simple, convert
                )
            else:
                dec[tag] = {}
                ofst = _decode(
                    data, ofst, ofst + tag_len, dec[tag], flatten, simple, convert
                )
        # Primitive data type
        else:
            dec[tag] = convert(tag, data[ofst : ofst + tag_len])
            ofst += tag_len

    return ofst


def encode(
    tlv: _t.Mapping[str, _t.Any],
    *,
    simple: _t.Optional[bool] = None,
) -> bytes:
    r"""Encode TLV data.

    Parameters
    ----------
    data : bytes
        Encoded TLV data
    simple : bool, optional
        Some specification stipulate that TLV length is always
        1 byte long with a maximum length of 255.
        To enable this option set simple to True. Defaults to False.

    Returns
    -------
    tlv : bytes
        Encoded TLV data

    Raises
    ------
    EncodeError

    Notes
    -----
    This encoder adheres to Rules for BER-TLV Data Objects in Annex B or
    EMV 4.3 Book 3 Application Specification.

    Examples
    --------
    >>> from pyemv import tlv
    >>> tlv_data = {'9C': b'\x01', 'E0': {'5F2A': b'\x02\x08'}, '9F02': b''}
    >>> tlv.encode(tlv_data).hex().upper()
    '9C0101E0055F2A0202089F0200'
    >>> tlv_data = {'9C': '01', 'E0': {'5F2A': '0208'}, '9F02': ''}
    >>> tlv.encode(tlv_data).hex().upper()
    '9C0101E0055F2A0202089F0200'
    """

    if simple is None:
        simple = False

    return bytes(_encode(tlv, simple))


def _encode(tlv: _t.Mapping[str, _t.Any], simple: bool) -> bytearray:
    data = bytearray()
    for tag_s, value in tlv.items():
        # Tag
        try:
            tag = bytes.fromhex(tag_s)
            data += tag
        except ValueError:
            raise EncodeError("Invalid tag format, expecting hexchar string", tag_s)

        # Check tag format
        try:
            # If b0-4 are on then a 2nd byte follows.
            tag_name_len = 1
            if (tag[0] & 0b00011111) == 0b00011111:
                # If b7 is on then another byte follows
                while tag[tag_name_len] & 0b10000000:
                    tag_name_len += 1
                tag_name_len += 1
        except IndexError:
            raise EncodeError(
                "Invalid tag format, expecting more data", tag_s
            ) from None

        if len(tag) != tag_name_len:
            raise EncodeError("Invalid tag format, extra data", tag_s)

        # Value
        # Constructed
        if bool(tag[0] & 0b00100000):
            if not isinstance(value, _t.Mapping):
                raise EncodeError(
                    f"Invalid value type ({value.__class__.__name__}) "
                    "for a constructed tag, expecting a dict",
                    tag_s,
                )
            value = _encode(value, simple)
        # Primitive
        elif isinstance(value, str):
            try:
                value = bytes.fromhex(value)
            except ValueError:
                raise EncodeError(
                    "Invalid value format, expecting hexchar string", tag_s
                )
        elif not isinstance(value, (bytes, bytearray)):
            raise EncodeError(
                f"Invalid value type ({value.__class__.__name__}) "
                "for a primitive tag, expecting bytes or str",
                tag_s,
            )

        # Length
        tag_len_len = 1

        if len(value) > 255 and simple:
            raise EncodeError(
                f"Value length ({str(len(value))}) "
                "cannot exceed 255 bytes when 'simple' is enabled",
                tag_s,
            )

        # Multi-byte length required
        if len(value) > 127 and not simple:
            while len(value) > 2 ** (8 * tag_len_len) - 1:
                tag_len_len += 1
            data += int.to_bytes(tag_len_len | 0b10000000, 1, "big")

        data += int.to_bytes(len(value), tag_len_len, "big") + value

    return data
